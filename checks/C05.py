CONFIG = {
    "level": "proof",
    "level_text": "Lean theorems (kernel-checked, no sorry/axioms) about the staking ledger model for every history: the conservation invariant (total supply = all general balances + active and debonding escrow balances + common pool + governance deposits + last-block fees + block fee accumulator; every pool's total shares = sum of the (debonding) delegations into it) holds after genesis and is preserved by every transaction (transfer, burn, add/reclaim escrow, allow, withdraw — succeeding, failing at fee payment, failing in the body), by fee disbursement for any proposer/vote participation, proposing and signing rewards with commission, slashing, debonding completion at epoch transitions, common-pool transfers and governance deposit/refund/discard, hence at every block boundary of every block sequence by induction; the recorded total supply never increases and changes only by successful burns, by exactly the burned amount. The model is tied to the real Go staking application on every run by a correspondence on generated block histories with full ledger dumps, and the invariant is evaluated directly on the dumped real state.",
    "technique": "Lean 4 proof over a ledger model (one function per mutating path, persisted state on success and failure) + correspondence with the real staking application (InitChain/AuthenticateTx/ExecuteTx/BeginBlock/EndBlock and exported state mutators on the mock application state) + spec-on-implementation of the invariant on real dumps",
    "models": ["ledger"],
    "lean_sources": ["OasisModel/Quantity.lean", "OasisModel/Staking/SharePool.lean", "OasisModel/Staking/Debond.lean",
                     "OasisModel/Staking/Ledger.lean", "OasisModel/Staking/LedgerDriver.lean", "OasisModel/Proto.lean",
                     "OasisProofs/Helpers/Staking.lean", "OasisProofs/Props/C15.lean"],
    "regen": [{"kind": "quantity", "out": "SharePoolGen.lean"}],
    "drivers": [
        {"name": "ledgerdrv",
         "quick": ["-cases", "1200", "-blocks", "14"],
         "thorough": ["-cases", "30000", "-blocks", "20"]},
    ],
    "trusted_base": [
        "Lean 4.33 kernel (axioms per theorem listed under coverage.axioms; at most propext, Classical.choice, Quot.sound)",
        "the ledger model OasisModel/Staking/Ledger.lean is what the theorems are about; it is tied to go/consensus/cometbft/apps/staking (transactions.go, fees.go, staking.go, slashing.go, *_rewards.go, genesis.go), state/state.go and state/gas.go by the ledgerdrv correspondence: the real application runs generated block histories, the full real ledger is dumped after every operation and compared with the model account by account; the share-pool arithmetic it calls is additionally tied by the regenerated translation (C15 bridge lemmas)",
        "harness/cmd/ledgerdrv (generator, mock application state as used by the repository's own tests, registry entries for validators, block-context reset between blocks), harness/hlib, tools/gen/quantity.go",
    ],
    "assumptions": [
        "BeginBlock and EndBlock alternate (CometBFT's call grammar); a block-level error halts consensus and nothing of that block is committed",
        "account numbers in the model are the byte order of the real addresses (MKVS iteration order of the debonding queue, C03); operations mention only accounts below n",
        "gas is modelled (per-byte charge of the mux, per-operation charge of the handlers, out-of-gas = failed body); commission rates are constant per account in the model (AmendCommissionSchedule moves no value); consensus parameters are constant within a history; runtime-message and hook paths of withdraw are not modelled",
        "direct state movers called by other applications (SlashEscrow, TransferFromCommon, AddRewards, governance deposit moves) are driven directly; their callers (roothash, scheduler, governance) are covered by C10/C11/C14",
    ],
    "explanation": "Theorems for all histories of the ledger model; real staking application vs model on generated block histories (all transaction kinds valid and invalid, fees, vote participation, evidence, epoch transitions, rewards, slashing, governance deposits), invariant and supply rule evaluated on every dumped real state, the repository's own sanity helpers run as a second opinion.",
}
