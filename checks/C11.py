CONFIG = {
    "level": "proof",
    "level_text": "Lean theorems (kernel-checked, no sorry/axioms) about a model of the commitment pool written as the Go code writes it (AddVerifiedExecutorCommitment admission, SchedulerCommitment.Add, ProcessCommitments vote counting with early discrepancy detection, the two-call finalization sequence, SchedulerRank/SchedulerIdx) against an independent statement of the rule (MayFinalize / MayAccept / Preferred), for every committee, straggler allowance, commitment history and placement of processing calls. The Go pool is tied to the model on every run by the pooldrv correspondence on the real exported commitment.Pool with real signed commitments; the rule predicates are also evaluated directly on what the real pool accepted and answered. Round-timer bookkeeping of the roothash application (OasisModel/Roothash/Timer.lean: int64 arithmetic of commit/backup timeouts, the timeout queue keyed by height, executorCommit arming, tryFinalizeRound with the discrepancy retry, processRoundTimeouts, EndBlock; the pool enters as an oracle constrained only by the proved pool facts; OasisProofs/Props/C11Timer.lean): a runtime is queued at height t iff its nextTimeout = t ≠ 0 in every reachable state (queue_matches_state), a suspended runtime has no timer, after EndBlock of height h every runtime has nextTimeout = 0 or > h (timer_never_left_expired) and a timer that fires decides the round in that block — finalized, failed, or handed to the backup workers with the timer re-armed strictly in the future (expired_timer_decides), also instantiated with the real pool model (…_pool); hypotheses (consecutive heights, no int64 overflow of height + RoundTimeout*15/10, timeout processing never returns still-waiting) each shown necessary by a witness (gap_loses_timer, overflow_loses_timer, undecided_pool_loses_timer); the seeded change that skipped timers of runtimes registered for finalization is refuted as a witness (skipping_guard_leaves_timer_expired). The same invariant is evaluated on the real application by rhdrv -spec c11.",
    "technique": "Lean 4 proof over a code-shaped model + independent rule predicate; correspondence and spec-on-implementation with the real commitment.Pool",
    "models": ["pool"],
    "extra_theorem_files": [{"file": "OasisProofs/Props/AppStateFacts.lean", "namespace": "OasisProofs.AppStateFacts"}, {"file": "OasisProofs/Props/C11Timer.lean", "namespace": "OasisProofs.C11Timer"}, {"file": "OasisProofs/Props/C11TimerFacts.lean", "namespace": "OasisProofs.C11TimerFacts"}],
    "regen": [{"kind": "muxfacts", "out": "MuxFacts.lean"}, {"kind": "stmtfacts", "out": "StmtFactsRoothashtimer.lean", "args": ["roothashtimer"]}],
    "lean_sources": ["OasisModel/Roothash", "OasisModel/Proto.lean"] +
                    ["OasisProofs/Helpers/Roothash%s.lean" % n for n in ("Process", "Rank", "Count", "Sound", "Inv", "Final", "Order")],
    "drivers": [
        {"name": "pooldrv",
         "quick": ["-cases", "2500", "-ops", "30", "-exhaustive", "3", "-exhaustive-limit", "40000", "-multiset", "4", "-multiset-app", "4"],
         "thorough": ["-cases", "50000", "-ops", "40", "-exhaustive", "6", "-exhaustive-limit", "1100000", "-multiset", "5", "-multiset-app", "4"],
         "timeout_thorough": 6000},
        # the timeout clause at the level of the real roothash application's EndBlock (processRoundTimeouts):
        # after EndBlock of height h no non-suspended runtime has a round timer at a height <= h
        {"name": "rhdrv", "needs_model": False, "corpus": False,
         "quick": ["-spec", "c11", "-cases", "2500", "-blocks", "30"],
         "thorough": ["-spec", "c11", "-cases", "40000", "-blocks", "40"]},
    ],
    "trusted_base": [
        "Lean 4.33 kernel (axioms per theorem listed under coverage.axioms; at most propext, Classical.choice, Quot.sound)",
        "the model OasisModel/Roothash/Pool.lean mirrors pool.go:224-452, votes.go, scheduler/api/api.go:155-262 and finalization.go:81-139; it is tied to the Go code by the pooldrv correspondence (result, chosen commitment and full serialized pool state compared after every step)",
        "harness/cmd/pooldrv, harness/hlib (generators, numbering of keys and header hashes, line protocol), the verif-tagged hook go/consensus/cometbft/apps/roothash/export_verif.go (exports tryFinalizeRoundInsideTx and executorCommit)",
        "Ed25519 signatures, CBOR and hashing are the real Go code in the harness; the model consumes only (node, scheduler, round, vote-hash number, failure flag), i.e. header hashes are assumed collision-free on the generated headers (the harness numbers distinct hashes distinctly)",
    ],
    "assumptions": [
        "height + RoundTimeout does not overflow int64 (the registry accepts any positive RoundTimeout; with MaxInt64 the computed timer is negative and can never fire: counted by rhdrv as c11:timer-overflowed-int64, a corner of parameter validation outside this property's quantifier)",
        "rule theorems are stated for histories admitted through VerifyExecutorCommitment (correct round, a scheduler never submits a failure) and for rounds with round + |committee| < 2^64 (uint64 `round + idx` in SchedulerRank does not wrap); the wrap-around counterexample is recorded in Props/C11.lean",
        "the committee, the round and the runtime are fixed during a round (the pool is reset on every block and epoch transition)",
        "failure codes are collapsed to one bit in the model (EC.failure = IsIndicatingFailure); which code was on the wire and what ValidateBasic made of it travels in the line protocol (wire field 0/1/2, fail field from the real commitment), pooldrv generates every code (unknown, state-unavailable, out of range) from schedulers and workers, and the rule check `scheduler's own failure-indicating commitment accepted` is evaluated on what the real code admitted",
        "RAK attestation and runtime messages in VerifyExecutorCommitment are outside the model (non-TEE runtime, no messages)",
        "pointer aliasing is outside the Lean model (commitments are values there, *ExecutorCommitment in Go): that the commitment stored at HighestRank stays byte-identical to what the chosen scheduler signed and that a Normal block carries exactly its header roots is checked model-free by pooldrv on the real executorCommit handler (transactions of 1-6 commitments, scheduler's proposal first / middle / last) and the real tryFinalizeRoundInsideTx (hook VerifExecutorCommit / VerifTryFinalizeRound); signature finalized-header-not-schedulers-commitment",
        "the `finalize` op calls the real tryFinalizeRoundInsideTx (hook go/consensus/cometbft/apps/roothash/export_verif.go) on a RuntimeState holding the real pool inside a mock EndBlock context (no registered nodes, no incoming messages, no slashing configured); the block it emits is compared with the model outcome (Normal with the roots of the chosen commitment / RoundFailed with the previous state root / none)",
    ],
    "explanation": "Theorems about the code-shaped pool model vs. the independent rule; correspondence + rule evaluation on the real commitment.Pool over generated and exhaustively enumerated histories.",
}
