CONFIG = {
    "level": "proof",
    "level_text": "Lean theorems (kernel-checked, no sorry/axioms) about the model of the stateless verification functions and of the RFC-6962 transaction Merkle tree, for every response, light block, library instance and hash: every bound field of an accepted block / transaction list / results / validator set / parameters / state root is determined by the light-client verified header(s); altered heights are rejected; Merkle proofs are complete for lists of any length and sound by reduction to a hash collision. The unbound fields are stated as theorems too. The Go code is tied to the model on every run by a verdict correspondence over the recorded and synthetic block/light-block pairs with field-level and byte-level alterations, and by regenerated check tables extracted from core.go. The caches of the stateless Core between calls (OasisModel/Stateless/Cache.lean: the two LRU maps height -> hash of core.go with the operations that fill and read them, the latest-height exception, an abstract chain of verified headers; OasisProofs/Props/C19Cache.lean): along every history of calls every cached state root for height h is the application hash of the verified header h+1 (or the metadata-transaction root bound to header h) and every cached results hash for h is LastResultsHash of header h+1 — never a value of another height (cache_coherent, results_cache_coherent, cache_bounded); results accepted through the cache are those committed for the requested height (results_bound_via_cache, get_block_results_bound, results_via_cache_eq_uncached); filing the results hash under h+1 instead of h accepts block h's results relabelled as h+1 and rejects the genuine ones (misfiled_results_hash_accepts_foreign_results).",
    "technique": "Lean 4 proof over a decision-sequence model + verdict correspondence and spec-on-implementation with the Go verification functions + regenerated check tables (go/ast)",
    "models": ["stateless"],
    "lean_sources": ["OasisModel/Stateless", "OasisModel/Proto.lean", "OasisProofs/Helpers/StatelessMerkle.lean"],
    "extra_theorem_files": [{"file": "OasisProofs/Props/C19Cache.lean", "namespace": "OasisProofs.C19Cache"}, {"file": "OasisProofs/Props/C19StoreFacts.lean", "namespace": "OasisProofs.C19StoreFacts"}, {"file": "OasisProofs/Props/C19TrustedStore.lean", "namespace": "OasisProofs.C19TrustedStore"}],
    "regen": [
        {"kind": "stmtfacts", "out": "StmtFactsLightstore.lean", "args": ["lightstore"]},
        {"kind": "statelessfacts", "out": "StatelessFacts.lean"},
    ],
    "generated_obligations": 0,
    "drivers": [
        {"name": "statelessdrv",
         "quick": ["-cases", "6", "-bytes", "150", "-bytes-recorded", "300", "-maxtx", "40"],
         "thorough": ["-cases", "60", "-bytes", "600", "-bytes-recorded", "6000", "-maxtx", "90"]},
    ],
    "trusted_base": [
        "the model OasisModel/Stateless/TrustedStore.lean (store of trusted heights with watermark pruning; Size() taken as the number of stored heights, see counter_agrees_when_fresh / counter_drift_prunes_newest for the real store's separate counter) is tied to light/store.go by the regenerated statement pin Props/C19StoreFacts.lean and by statelessdrv going through the real prunedStore (verif hook NewVerifPrunedStore)",
        "Lean 4.33 kernel (axioms per theorem listed under coverage.axioms; at most propext, Classical.choice, Quot.sound)",
        "the model OasisModel/Stateless/{Verify,Merkle}.lean is tied to go/consensus/cometbft/stateless/core.go and cometbft crypto/merkle by the statelessdrv correspondence (verdict per response, byte-exact Merkle roots and proofs with a SHA-256 written in Lean) and by the regenerated check tables of lean/Generated/StatelessFacts.lean (tools/gen/statelessfacts.go)",
        "third-party decoders and hashes called by the verification code (fxamacker/cbor, gogoproto unmarshalling, CometBFT Header.Hash / CommitFromProto / ValidatorSetFromProto / ConsensusParams.ValidateBasic) are parameters of the model (Lib); the driver instantiates them with the values the real libraries computed",
        "the CometBFT light client is modelled as the partial function height -> verified header; its verification of headers is outside this property's scope",
        "harness/cmd/statelessdrv, harness/hlib, the verif-tagged exports go/consensus/cometbft/stateless/export_verif.go and go/consensus/cometbft/light/export_verif.go",
    ],
    "assumptions": [
        "collision resistance of SHA-256 appears only as the alternative `∨ Collision H` in the conclusions (reduction form) under the satisfiable hypothesis that all hash values have the same length; encoders of Lib are assumed injective where a conclusion needs it",
        "the metadata transaction's state root is trusted because the transaction list is bound to the verified data hash (block validity, i.e. the correctness of what validators signed, is outside the light-client model)",
    ],
    "partial": "Unbound by design and stated as theorems: Block.Size (documented), results at the latest trusted height and all result events (documented TODOs), result log/info/codespace, validator address/priority/proposer, evidence/validator/version consensus parameters, raw meta encodings, a proof's index when its total is not the list length, and the last commit's Round (known finding accepted-lastcommit-round). Five defects found by this check were repaired in /repo (2867612, 19aed5a, 8acc1f7, 199a3f5, b4f8eb2; corpus/C19/f1..f5); model and theorems describe the repaired code. The public entry points are modelled as light client -> provider -> verification compositions (api_returns_only_verified) and driven through the real Core with a trusted-store light client; GetTransactionsWithResults' result conversion and the event delivery of Services are outside the model.",
    "explanation": "Theorems about the verification model for every response; correspondence implementation vs model on recorded + synthetic light-block pairs with field-level and byte-level alterations, all transaction lists 0..N with all indexes and altered proofs.",
}
