CONFIG = {
    "level": "proof",
    "level_text": "PARTIAL (symbolic crypto). Lean theorems (kernel-checked, no sorry/axioms) about the symbolic model of Quote.Verify / TCBBundle.Verify for every quote, collateral, policy, switch setting and time: verify_binds (acceptance implies every link Intel root -> PCK certificate -> QE report -> attestation key -> header||report body, both collateral signatures, validity window, evaluation number, FMSPC equality, TCB level and status, lists, disabled flag; the result is a function of the signed report body), mutation_harmless (structured and on raw bytes through the byte-level parser model; hypotheses: ideal ECDSA, ideal PKI, collision-free SHA-256, one genuine quote in the adversary's view), expired / disallowed-status / foreign-collateral / policy rejection theorems. The Go code is tied to the model on every run by pcsdrv (model agrees with pcs.Quote.Verify on accept/reject, on the rejecting check (order) and on the returned identity/report data, with every primitive verdict re-evaluated by the harness; the model also parses the raw quote itself) and by regenerated binding facts (go/ast).",
    "technique": "Lean 4 proof over a symbolic (ideal-crypto) model + mutation differential and primitive-verdict correspondence with go/common/sgx/pcs + regenerated binding facts",
    "models": ["pcs"],
    "lean_sources": ["OasisModel/Pcs", "OasisModel/Proto.lean", "OasisProofs/Helpers/PcsLinks.lean", "OasisProofs/Helpers/PcsExpect.lean"],
    "regen": [{"kind": "pcsfacts", "out": "PcsFacts.lean"}],
    "generated_obligations": 223,
    "drivers": [
        {"name": "pcsdrv",
         "quick": ["-bits", "1200", "-multi", "500", "-combo", "2500", "-synth", "2500"],
         "thorough": ["-bits", "0", "-multi", "6000", "-combo", "40000", "-synth", "60000"],
         "timeout_thorough": 6000},
    ],
    "trusted_base": [
        "Lean 4.33 kernel (axioms per theorem listed under coverage.axioms; at most propext, Classical.choice, Quot.sound)",
        "the symbolic model OasisModel/Pcs/{Symbolic,Parse}.lean is the specification; ECDSA-P256, SHA-256, x509 chain building, PEM and JSON decoding, time parsing and TupleHash are parameters of the model (Lib); their ideal properties are hypotheses of mutation_harmless (structure Ideal), never axioms",
        "harness/cmd/pcsdrv (generators, independent re-evaluation of every primitive with crypto/ecdsa, crypto/x509, encoding/json, mapping of error texts to check names), harness/hlib, the verif-tagged accessor file go/common/sgx/pcs/export_verif.go",
        "tools/gen/pcsfacts.go (go/ast extractor of the binding facts)",
    ],
    "assumptions": [
        "unsafeSkipVerify is false (the verifying configuration is modelled)",
        "mutation_harmless: ECDSA unforgeable, Intel PKI sound, SHA-256 collision free, and the adversary holds exactly one genuine quote (no second genuine platform / attestation key) - hypotheses Ideal and OnlyGenuine",
        "crypto/x509 never returns an empty chain (Go would index out of range; the model rejects)",
        "validity is issueDate + policy.TCBValidityPeriod days as the code implements it; nextUpdate is parsed but never compared with the time",
    ],
    "partial": "PARTIAL. The theorems are about the symbolic model: signatures, certificate chains, hashes and decoders are ideal predicates/functions. What only the mutation differential of pcsdrv sees (bounded, on the recorded SGX v3 / TDX v4 vectors and on synthetic platforms signed by a harness-owned root): real ECDSA malleability ((r, n-s) verifies: accepted with the identical result), DER/X.509 leniency of crypto/x509, PEM leniency (text between blocks, trailing data, whitespace), encoding/json leniency (duplicate keys, unknown fields, case-insensitive field names, whitespace inside the signed body is covered by the signature but key case is not normalised), hex case of signatures, bytes after the certification data inside the signature-data length. These are exercised as every single-bit mutation (thorough tier; a spread sample plus all header/length-field bits in the quick tier) and streams of multi-byte, textual and structural mutations, with the spec predicate 'accepted => header and report body are those of a genuine quote and the result is exactly that quote's'. Only five recorded vectors exist offline (one SGX and one TDX platform verify); decision branches behind Intel's signatures (TCB statuses, TDX module levels, QE identity mismatches, evaluation numbers inside signed bodies) are reached on the real code only through the synthetic platforms, which replace pcs.IntelTrustRoots in the harness process. Documented-unbound fields (not compared by the code, recorded in the binding-fact table): TCB info pceId and tcbType, nextUpdate (parsed, not enforced), tcbDate, tdxModule mrsigner/attributes and TDX module identities' mrsigner/attributes (only the quote policy constrains MRSIGNERSEAM), TD report seamAttributes/xfam/mrConfigId/mrOwner/mrOwnerConfig (signed but not part of the returned identity), QE report cpuSvn (signed, unused), v3 header qeSvn/pceSvn/userData (signed, unused).",
    "explanation": "Theorems about the symbolic verifier for all inputs; pcsdrv: mutation differential + model correspondence with harness-re-evaluated primitive verdicts on recorded and synthetic platforms; binding facts regenerated from the Go source.",
}
