CONFIG = {
    "level": "proof",
    "level_text": "PARTIAL. Lean theorems (kernel-checked, no sorry/axioms) about a state-machine model of the ABCI multiplexer's proposal cache, parameterised by an arbitrary deterministic block executor: for every sequence of ABCI calls CometBFT may issue for a height (any PrepareProposal/ProcessProposal of arbitrary candidate blocks in arbitrary rounds, restarts anywhere outside a completed delivery, aborted deliveries, CheckTx/EstimateGas/queries anywhere) the committed state, the BeginBlock/DeliverTx/EndBlock results and the application hash returned for the decided block are exactly the executor's, whether served from the cache or recomputed, and the node panics on exactly the blocks the executor rejects (mux_path_independent); by induction over heights all replicas agree at every height for all assignments of execution path (replicas_agree); the block-metadata transaction binds state root and events root (meta_binds_root); isEqual is sound and compares every input of block execution, including the last-commit info (isEqual_sound, isEqual_compares_commit_info; the rule before /repo 47a524f, which did not, is kept as the labelled historical witness prefix_rule_commit_info_gap). Order independence: lemmas over List.Perm for every fold pattern found at a map-range site (sum, grouped sum, per-key write, set insert, delete by predicate, emission as a set, collect-then-sort, all/any checks, first-wins dedup sum, argmax under majority). Ties: (i) regenerated map-range site ledger (go/types) equal, by `decide`, to a hand-written expectation table mapping each of the 74 sites to its lemma or off-chain reason; (i') regenerated source facts of the cache (isEqual's parameters and conditions, BlockInfo fields, cache guards, system-transaction guards; 24 lists) pinned by `rfl` next to the model definitions they justify; (i'') regenerated ledger of the 31 uses of replica-local inputs (own identity, local min gas price, halt configuration, local upgrade backend) in the abci package, its API and the applications, each classified (accessor / construction / CheckTx-only under a positive IsCheckOnly() guard / proposer-only / node halt / local upgrade store), equal by `decide`: a new use on a delivery path breaks the build; (i'''') regenerated ledger of the process-local state of the applications (tools/gen appstate.go): every field of every type in apps/** with a block or transaction hook (28) and every statement in a method of such a type that writes through its receiver (7), each classified (wiring / constant / function of the consensus state / sanity checker only), equal by `decide` (app_state_fields_classified, app_state_writes_classified): an application that starts remembering something in memory across calls — which a replica restarted from disk would not have — breaks the build; (i''') every call of the node-local upgrade manager with the exits of the statement consuming its result: SubmitDescriptor/CancelUpgrade results are only logged (pinned verbatim), all other calls only halt or panic the node; (ii) correspondence: real multiplexers with the 8 real applications driven through generated call sequences, every response checked against the Lean model instantiated with the executor outputs observed on a cache-free oracle; (iii) twin-replica oracle on the implementation (AppHash, per-tx results, validator updates as a set, across paths, restarts from disk, both NodeDB backends, concurrent CheckTx, pruner, repeated runs).",
    "technique": "Lean 4 proof over a reference model of the proposal cache + List.Perm order-independence lemmas; regenerated map-range ledger (go/types) discharged by decide; witness-checking correspondence and twin-replica differential runs on the real multiplexer",
    "models": ["mux", "upgrade"],
    "lean_sources": ["OasisModel/Upgrade", "OasisProofs/Helpers/Upgrade.lean", "OasisModel/Mux", "OasisModel/Proto.lean", "OasisProofs/Helpers/Mux.lean"],
    "regen": [
        {"kind": "maprange", "out": "MapRangeSites.lean"},
        {"kind": "muxfacts", "out": "MuxFacts.lean"},
        {"kind": "stmtfacts", "out": "StmtFactsTimesource.lean", "args": ["timesource"]},
        {"kind": "stmtfacts", "out": "StmtFactsUpgrademgr.lean", "args": ["upgrademgr"]},
    ],
    "extra_theorem_files": [{"file": "OasisProofs/Props/C01TimeSource.lean", "namespace": "OasisProofs.C01TimeSource"}, {"file": "OasisProofs/Props/C01UpgradeFacts.lean", "namespace": "OasisProofs.C01UpgradeFacts"}, {"file": "OasisProofs/Props/C01Upgrade.lean", "namespace": "OasisProofs.C01Upgrade"}],
    "generated_obligations": 74 + 24 + 31 + 8 + 28 + 7,
    "drivers": [
        # the node-local upgrade manager against its Lean model (OasisModel/Upgrade/Manager.lean), plus the
        # re-execution clause evaluated directly
        {"name": "upgdrv",
         "quick": ["-cases", "400"],
         "thorough": ["-cases", "20000"]},
        {"name": "muxdrv",
         "quick": ["-cases", "12", "-heights", "12", "-reps", "2"],
         "thorough": ["-cases", "150", "-heights", "20", "-reps", "2"],
         "timeout_quick": 1200, "timeout_thorough": 6000},
        # second genesis variant: first block at height 16817 (dump-restore genesis, InitialHeight > 1),
        # consensus MinGasPrice 0, and a durable stake tie at the validator election cut-off (MaxValidators = 3,
        # entities 1 and 2 tied, no fees / proposer / election rewards): makes the election depend on the
        # order in which entity addresses are collected, so an unsorted map range there diverges
        {"name": "muxdrv",
         "quick": ["-tie", "-genesis-height", "16817", "-cases", "4", "-heights", "12", "-reps", "2"],
         "thorough": ["-tie", "-genesis-height", "16817", "-cases", "40", "-heights", "16", "-reps", "2"],
         "timeout_quick": 1200, "timeout_thorough": 6000},
    ],
    "trusted_base": [
        "Lean 4.33 kernel (axioms per theorem listed under coverage.axioms; at most propext, Classical.choice, Quot.sound)",
        "the model OasisModel/Upgrade/Manager.lean (ConsensusUpgrade of the node-local upgrade manager, statement by statement) is tied to go/upgrade by the upgdrv correspondence (real manager over a real persistent store, recording migration handlers registered by the driver, real ABCI contexts; outcome, handlers run, pending list compared after every call) and by the regenerated statement pin Props/C01UpgradeFacts.lean; not modelled: restart of the process (checkStatus / StartupUpgrade, store versus memory), CancelUpgrade, an error returned by the migration handler itself",
        "the model OasisModel/Mux/Proposal.lean is the specification of the proposal-cache protocol; it is tied to go/consensus/cometbft/abci by the muxdrv correspondence (every ABCI response of every replica must be the one the model predicts from the oracle's executor observations)",
        "tools/gen/muxfacts.go (go/ast: prints conditions, assignments, call arguments and struct fields of the cache code as canonical source text)",
        "tools/gen/maprange.go (go/types via golang.org/x/tools/go/packages: lists map ranges and maps.Keys/Values calls) and the reading of each listed site recorded in the expectation table of OasisProofs/Props/C01.lean",
        "replicas run with DIFFERENT own identities (validator i's node key is replica i's OwnTxSigner; the oracle has a neutral one) and different local min gas prices; the main genesis has consensus MinGasPrice = 1 and a quarter of the transactions are signed by validators' node keys with nil / below-minimum / at-minimum / higher fees, so identity or local configuration leaking into delivery shows as twin-deliver-result-differs",
        "every node under test has a REAL upgrade manager (upgrade.New) over its own persistent store; each history submits an upgrade proposal and later a cancel-upgrade proposal, voted in by the validator entities, so the blocks closing them call the node-local store on replicas that executed them a different number of times; genesis heights 1 and 16817; 1-3 proposals at every height including the very first",
        "harness/cmd/muxdrv (generators, canonical digests of ABCI responses, the oracle), harness/hlib, the verif-tagged hook go/consensus/cometbft/abci/export_verif.go (working roots, resetProposal, proposal-state probe)",
        "modelled, not verified: the applications are an arbitrary function `Apps` (their determinism is what the map-range ledger, the other properties and the twin-replica runs address); CometBFT is the grammar of calls; `restart` is 'state as of the last Commit'",
    ],
    "assumptions": [
        "Env.hinj / Env.hnz: the block hash identifies the block and is never empty; ProcessProposal/BeginBlock carry the hash of the block they carry",
        "Env.selfProposer: PrepareProposal is called with the node's own consensus address as proposer",
        "not modelled: upgrade.ErrStopForUpgrade re-panics, the MaxTxBytes prefix cut in PrepareProposal, consensus MaxTxSize smaller than the metadata transaction, state sync, InitChain",
    ],
    "partial": "Go's map iteration order, goroutine interleavings (CheckTx/queries/pruner concurrent with block processing) and reload of state from the NodeDB are runtime behaviour: the theorems cover them only as abstractions (arbitrary permutation with per-pattern invariance lemmas; sequentialised noise calls that touch a separate tree; restart = last committed state). They are exercised, not proved, by the muxdrv twin-replica runs (both backends, restarts, concurrent CheckTx goroutine, keep-N pruner, repeated executions). The applications' own determinism is a parameter of the cache theorems.",
    "explanation": "Theorems about the proposal-cache model for every call sequence; order-independence lemmas tied to the regenerated map-range ledger; correspondence + twin-replica runs of the real multiplexer with real applications.",
}
