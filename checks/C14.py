CONFIG = {
    "level": "proof",
    "level_text": "Lean theorems (kernel-checked, no sorry/axioms) about the election reference model for all registries, stake distributions, parameters (incl. non-positive limits), runtimes and all shuffles (the DRBG/VRF order is an arbitrary function): determinism, eligibility of every elected validator and committee member, the configured limits (exact bound for MaxValidators >= 1, which genesis and the parameter-change validation guarantee; the boundary of the election function for non-positive values is a separate theorem), stake order, monotone voting power >= 1, and validator updates that turn the previous set into exactly the new one. The Go election code is tied to the model on every run by an exact correspondence (helpers through verif exports; the scheduler application's BeginBlock/EndBlock on the mock application state over successive epochs incl. slashing-triggered re-elections, insecure and VRF beacon backends, two replicas) and its outputs are judged directly by the executable spec predicate ValidElection.",
    "technique": "Lean 4 proof over reference model + exact correspondence with the Go scheduler (real DRBG order fed as the permutation witness) + spec-on-implementation",
    "models": ["elect"],
    "lean_sources": ["OasisModel/Scheduler", "OasisModel/Proto.lean", "OasisProofs/Helpers/SchedulerValidators.lean",
                     "OasisProofs/Helpers/SchedulerCommittee.lean", "OasisProofs/Helpers/SchedulerDiff.lean",
                     "OasisProofs/Helpers/SchedulerEpoch.lean"],
    "drivers": [
        {"name": "electdrv",
         "quick": ["-cases", "6000", "-epochs", "4"],
         "thorough": ["-cases", "40000", "-epochs", "6"],
         "timeout_quick": 900, "timeout_thorough": 3000},
    ],
    "trusted_base": [
        "Lean 4.33 kernel (axioms per theorem listed under coverage.axioms; at most propext, Classical.choice, Quot.sound)",
        "the reference model OasisModel/Scheduler/Elect.lean and the spec predicate OasisModel/Scheduler/Spec.lean; the model is tied to go/consensus/cometbft/apps/scheduler, go/scheduler/api, go/staking/api by the electdrv correspondence (exact equality of pending validators, committees, validator updates; the real DRBG's index lists are the permutation witnesses)",
        "harness/cmd/electdrv, harness/hlib (generators, line protocol, state set-up through the apps' MutableState wrappers), the verif-tagged export go/consensus/cometbft/apps/scheduler/export_verif.go",
        "modelled, not verified: the HMAC-DRBG / math/rand permutation and the ECVRF/tuplehash betas (arbitrary functions in the theorems; their real outputs are fed to the model), TEE attestation verification (an input bit; property C18), CBOR storage of the scheduler state, entity id -> staking address hashing (assumed injective)",
    ],
    "assumptions": [
        "DebugForceElect is nil (test-only option, needs DebugDontBlameOasis)",
        "stake_order and the exact validator-update theorem assume pairwise distinct consensus keys of registered nodes (registry uniqueness, property C17); the correspondence also exercises duplicate keys at helper level",
        "VRF backend: real ECVRF proofs of test keys are put into the beacon state and the real hashed betas (tuplehash) are fed to the model; hashed-beta collisions are assumed absent (theorem betaShuffle_perm states it as a hypothesis)",
        "the spec predicate demands count <= MaxValidators for every reachable parameter setting: genesis-valid parameters (InitChain rejects non-positive limits) changed only by governance change-parameters proposals, which the harness drives through the real Application.ExecuteMessage/changeParameters incl. 0 and negative values and which must be rejected (oasis-core fix 8261013; theorem reachable_limits_positive; corpus/C14/maxvalidators-zero-elects-one.txt re-reports spec-max-validators if the validation disappears). Non-positive limits written directly into state remain in the generator as model-correspondence cases (the election function then elects one validator, theorem maxValidators_nonpositive_elects_one); their count limit is not judged by the spec",
    ],
    "explanation": "Theorems about the reference model for every registry/stake/parameter/shuffle; exact correspondence with the Go election code on generated registries (helper level and whole scheduler application over successive epochs, two replicas); ValidElection evaluated on the implementation's outputs.",
}
