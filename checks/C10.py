CONFIG = {
    "level": "proof",
    "level_text": "Lean theorems (kernel-checked): the fee-split arithmetic of disburseFeesP/disburseFeesVQ never takes an error branch and conserves the fees, for all amounts/weights/validator and voter counts, under hypotheses shown necessary by witnesses and discharged by parameter validation and the commit structure. Regenerated tie: tools/gen fatalpaths extracts from /repo's current Go source every return site reachable from any application's BeginBlock/EndBlock at which an ordinary error can originate (same-package callees and the app's state package inlined; state-unavailable returns excluded); the kernel (decide +kernel) checks that this ledger equals, site for site, the hand-classified ledger in OasisProofs/Props/C10.lean (145 sites in 18 roots: U state record present by construction, A proved fee arithmetic, M ledger arithmetic under invariants, P documented precondition, H upgrade halt, N handled by caller, R unreachable by construction, F outside the Lean model).",
    "technique": "Lean 4 proof of totality of fee arithmetic + regenerated fatal-path ledger checked by kernel evaluation",
    "models": [],
    "lean_sources": ["OasisModel/Handlers", "OasisProofs/Helpers/Fees.lean"],
    "regen": [{"kind": "fatalpaths", "out": "FatalPaths.lean"}],
    "generated_obligations": 18,
    "drivers": [
        {"name": "ledgerdrv", "needs_model": False,
         "quick": ["-spec", "c10", "-cases", "2000", "-blocks", "14"],
         "thorough": ["-spec", "c10", "-cases", "40000", "-blocks", "20"]},
    ],
    "trusted_base": [
        "Lean 4.33 kernel; `decide +kernel` for the regenerated ledger",
        "tools/gen/handlerfacts.go (go/ast translation of BeginBlock/EndBlock call trees to Flow) and `errSites` (OasisModel/Handlers/Flow.lean); both executable and small, not verified",
        "the class assigned to each ledger site (hand-written; classes U, M, R, F are arguments from the source, not Lean theorems — only class A sites are discharged by theorems here)",
    ],
    "assumptions": [
        "fee-split weights are not all zero (ConsensusParameters.SanityCheck)",
        "a block whose predecessor persisted non-zero fees carries a non-empty last-commit vote list",
        "documented precondition of the property: a validator set can be elected / total voting stake non-zero",
    ],
    "partial": "Only the fee arithmetic is proved total in Lean; reward, commission, slashing, debonding and tally arithmetic (class M, 35 sites) are tied by the ledger and argued from guards, to be discharged by the C05/C15 models. DeliverTx totality (malformed transactions fail only themselves) and beacon/keymanager/roothash internals (class F) are not in the Lean model; ledgerdrv -spec c10 drives the real staking app's BeginBlock/EndBlock/ExecuteTx on histories with extreme amounts, depleted pools, evidence against unknown validators and coinciding epoch events and reports any fatal error or panic; the other applications are covered by the ledger only.",
    "explanation": "Totality + conservation theorems for fee disbursement; regenerated fatal-path ledger (18 roots, 145 sites).",
}
