CONFIG = {
    "level": "proof",
    "level_text": "Lean theorems (kernel-checked): the fee-split arithmetic of disburseFeesP/disburseFeesVQ never takes an error branch and conserves the fees, for all amounts/weights/validator and voter counts, under hypotheses shown necessary by witnesses and discharged by parameter validation and the commit structure. Regenerated tie: tools/gen fatalpaths extracts from /repo's current Go source every return site reachable from any application's BeginBlock/EndBlock at which an ordinary error can originate (same-package callees and the app's state package inlined; state-unavailable returns excluded); the kernel (decide +kernel) checks that this ledger equals, site for site, the hand-classified ledger in OasisProofs/Props/C10.lean (145 sites in 18 roots: U state record present by construction, A proved fee arithmetic, M ledger arithmetic under invariants, P documented precondition, H upgrade halt, N handled by caller, R unreachable by construction, F outside the Lean model). The collection is PROVED COMPLETE (OasisProofs/Props/C10Sound.lean, rule induction over the concrete path semantics OasisModel/Handlers/FlowSem.lean in which every ordinary error carries the return site where it originated): every ordinary error a root can return originates at a site of `errSites` when the fuel covers the nesting depth (errSites_complete); composed with the kernel-checked ledger and depth bound in ledger_complete. The proof forced three repairs of the collection (explicit error after an unchecked state write; `if err != nil { cleanup(); return err }`; a loop body testing the previous iteration's error) - none changes the ledger on the current source.",
    "technique": "Lean 4 proof of totality of fee arithmetic + regenerated fatal-path ledger checked by kernel evaluation",
    "models": [],
    "lean_sources": ["OasisModel/Handlers", "OasisProofs/Helpers/Fees.lean", "OasisModel/Staking", "OasisModel/Governance", "OasisModel/Quantity.lean"],
    "regen": [{"kind": "fatalpaths", "out": "FatalPaths.lean"}, {"kind": "quantity", "out": "SharePoolGen.lean"}],
    "extra_theorem_files": [
        {"file": "OasisProofs/Props/C10Ledger.lean", "namespace": "OasisProofs.C10Ledger"},
        {"file": "OasisProofs/Props/C10Tally.lean", "namespace": "OasisProofs.C10Tally"},
        {"file": "OasisProofs/Props/C10Sound.lean", "namespace": "OasisProofs.C10Sound"},
    ],
    "generated_obligations": 18,
    "drivers": [
        {"name": "ledgerdrv", "needs_model": False,
         "quick": ["-spec", "c10", "-cases", "2000", "-blocks", "14"],
         "thorough": ["-spec", "c10", "-cases", "40000", "-blocks", "20"]},
    ],
    "trusted_base": [
        "Lean 4.33 kernel; `decide +kernel` for the regenerated ledger",
        "tools/gen/handlerfacts.go (go/ast translation of BeginBlock/EndBlock call trees to Flow): that the paths of the Go code are among the paths of the generated Flow term under the semantics OasisModel/Handlers/FlowSem.lean is trusted, not proved (callees outside the application package and its state package stay opaque `ext` calls)",
        "OasisModel/Handlers/FlowSem.lean: the path semantics, incl. the definition of where an error ORIGINATES, is the specification of the Flow language; the collection `errSites` itself is NO LONGER trusted: it is proved complete against this semantics (Props/C10Sound.lean)",
        "the class assigned to each ledger site (hand-written; classes U, M, R, F are arguments from the source, not Lean theorems — only class A sites are discharged by theorems here)",
    ],
    "assumptions": [
        "fee-split weights are not all zero (ConsensusParameters.SanityCheck)",
        "a block whose predecessor persisted non-zero fees carries a non-empty last-commit vote list",
        "documented precondition of the property: a validator set can be elected / total voting stake non-zero",
    ],
    "partial": "Fee arithmetic (class A) is proved total in Props/C10.lean; reward, commission, slashing, debonding (Props/C10Ledger.lean: beginBlock_total, endBlock_total, runChain_total over the C05 ledger model, arithmetic tied to Go by the regenerated SharePoolGen bridge lemmas) and the governance tally (Props/C10Tally.lean) are proved total under explicit hypotheses, each with a necessity witness; 4 class-M sites stay argued-only (see the Cls.M comment). Known corner: TransferFromCommon(escrow) fails for an entity whose active pool was slashed to zero with shares outstanding and whose commission rate is 100% (transferFromCommon_corner_fails). DeliverTx totality (malformed transactions fail only themselves) and beacon/keymanager/roothash internals (class F) are not in the Lean model; ledgerdrv -spec c10 drives the real staking app's BeginBlock/EndBlock/ExecuteTx on histories with extreme amounts, depleted pools, evidence against unknown validators and coinciding epoch events and reports any fatal error or panic; the other applications are covered by the ledger only.",
    "explanation": "Totality + conservation theorems for fee disbursement; regenerated fatal-path ledger (18 roots, 145 sites).",
}
