CONFIG = {
    "level": "proof",
    "level_text": "Lean theorems (kernel-checked, no sorry/axioms) about the scheduler reference model for every operation history: sender order, no double scheduling, maximal-priority picks, capacity bound, minimal-priority eviction, strict replacement, forward expiry, reset. The Go scheduler is tied to the model on every run by a checked correspondence (generated histories incl. 2^63 / 2^64-1 boundaries, implementation choices validated as witnesses).",
    "technique": "Lean 4 proof over reference model + witness-checking correspondence with the Go scheduler",
    "models": ["txpool"],
    "lean_sources": ["OasisModel/TxPool", "OasisModel/Proto.lean"],
    "drivers": [
        {"name": "txpooldrv",
         "quick": ["-cases", "3000", "-ops", "40"],
         "thorough": ["-cases", "150000", "-ops", "80"]},
    ],
    "trusted_base": [
        "Lean 4.33 kernel (axioms per theorem listed under coverage.axioms; at most propext, Classical.choice, Quot.sound)",
        "the reference model OasisModel/TxPool/Sched.lean is the specification; it is tied to go/runtime/txpool by the txpooldrv correspondence (checker with witness: the implementation's picks and eviction victims must be allowed by the model)",
        "harness/cmd/txpooldrv, harness/hlib (generators, line protocol), the verif-tagged wrapper go/runtime/txpool/export_verif.go",
    ],
    "assumptions": [
        "sequence numbers are modelled as naturals below 2^64; the successor of 2^64-1 does not exist",
        "transaction hashes are unique per add (the pool rejects known hashes before the main queue)",
    ],
    "explanation": "Theorems about the reference model for every operation history; correspondence implementation vs model on generated histories incl. the 2^63 and 2^64-1 boundaries.",
}
