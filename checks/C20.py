CONFIG = {
    "level": "proof",
    "level_text": "Lean theorems (kernel-checked, no sorry/axioms) about the scheduler reference model for every operation history: sender order, no double scheduling, maximal-priority picks, capacity bound, minimal-priority eviction, strict replacement, forward expiry, reset. Plus an implementation-level model (OasisModel/TxPool/Impl.lean: the incremental maintenance of the max heap, per-sender sequence heaps and the scheduled map by insert/remove/replace/forward/scheduleOne/restoreMaxHeap, written function by function as the Go code, Go panics as explicit Fault outcomes) with a refinement proof for every history over uint64 sequence numbers (Props/C20Impl.lean: no Fault is reachable, max heap content = reference ready set, every operation maps under abs to the reference operation, reset is independent of the map iteration order), so the reference theorems hold of the implementation-level model. The Go scheduler is tied to both models on every run by a checked correspondence (generated histories incl. 2^63 / 2^64-1 boundaries, implementation choices validated as witnesses) which also compares, after every operation, the real max heap content, scheduled map and sender heaps with the implementation-level model's state.",
    "technique": "Lean 4 proof over reference model + witness-checking correspondence with the Go scheduler",
    "models": ["txpool"],
    "lean_sources": ["OasisModel/TxPool", "OasisModel/Proto.lean",
                     "OasisProofs/Helpers/TxPoolImpl.lean", "OasisProofs/Helpers/TxPoolImplOps.lean"],
    # implementation-level model: refinement theorems, built and axiom-audited with Props/C20.lean
    "extra_theorem_files": [{"file": "OasisProofs/Props/C20Impl.lean", "namespace": "OasisProofs.C20Impl"}, {"file": "OasisProofs/Props/C20Batch.lean", "namespace": "OasisProofs.C20Batch"}],
    "drivers": [
        {"name": "txpooldrv",
         "quick": ["-cases", "3000", "-ops", "40"],
         "thorough": ["-cases", "150000", "-ops", "80"]},
    ],
    "trusted_base": [
        "Props/C20Batch.lean is about `usedBatch s ids = ids.foldl txUsed s` on the reference model; that one HandleTxsUsed call with several hashes is this fold is checked by txpooldrv op usedn (verif hook VerifQueue.HandleTxsUsed) against both models",
        "Lean 4.33 kernel (axioms per theorem listed under coverage.axioms; at most propext, Classical.choice, Quot.sound)",
        "the reference model OasisModel/TxPool/Sched.lean is the specification; it is tied to go/runtime/txpool by the txpooldrv correspondence (checker with witness: the implementation's picks and eviction victims must be allowed by the model)",
        "the implementation-level model OasisModel/TxPool/Impl.lean is a hand translation of main_queue_scheduler.go; it is tied to the code state by state (max heap content, scheduled map, sender heaps compared after every operation of every generated history) — not by a mechanical extraction",
        "Go's container/heap keeps the heap order and the index fields (Swap/Push/Pop) consistent: a heap is modelled by its content, peek as any maximal element; the driver checks the real heap's order and index bookkeeping after every operation (VerifQueue.MaxHeapCheck)",
        "harness/cmd/txpooldrv, harness/hlib (generators, line protocol), the verif-tagged wrapper go/runtime/txpool/export_verif.go",
    ],
    "assumptions": [
        "sequence numbers are modelled as naturals below 2^64; the successor of 2^64-1 does not exist",
        "transaction hashes are unique per add (the pool rejects known hashes before the main queue)",
        "implementation-level model: the min-priority heap is identified with the txs map (both are updated by the same three primitives), a sender's txs map and sequence heap are one list; schedule limits and the capacity are non-negative",
    ],
    "explanation": "Theorems about the reference model for every operation history; correspondence implementation vs model on generated histories incl. the 2^63 and 2^64-1 boundaries.",
}
