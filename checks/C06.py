CONFIG = {
    "level": "proof",
    "level_text": "PARTIAL. Lean theorems (kernel-checked, no sorry/axioms): (A) on the abstract NodeDB contract for every history: a finalized root keeps its contents through every commit / finalize (whatever is discarded) / prune of another version, prune removes exactly the earliest finalized non-last version, nothing is ever reported under a root that was not committed under it; (B) on the bookkeeping model of the badger backend (MVCC store, rootsMeta, updatedNodes, maybe-lone/not-lone, lone-root pruning): every operation writes only at its own version's timestamp, so later commits/finalizations never change what an earlier version reads; the exact effect of Finalize on the roots of its version (readable afterwards iff readable before and disjoint from maybeLone\\notLone); prune_exact; and machine-checked COUNTEREXAMPLES showing that the unconditional readable_inv is false for the model (Finalize destroys the root it finalizes; Prune of an older version destroys a retained root); the repaired behaviours are kept as positive regression theorems (a finalized lone empty root no longer blocks pruning); (B2) on the bookkeeping model of the pathbadger backend (nodes keyed by (creation version, index), per-version sequence numbers of competing roots, pending/finalized key spaces, copy-then-delete Finalize, io-only Prune): for EVERY admissible history every root the database reports reads back completely and every node carries the hash recorded in the pointer that led to it (pathbadger_readable_inv / pathbadger_no_false_root, by an invariant proved for Commit, Finalize and Prune), and prune_exact; (C) the ABCI pruner arithmetic (keeps the last N, respects vetoes, lastRetained only advances past what was pruned, the database is synced before the retained version advances and a failed Sync or Prune leaves it where it was); the REAL abci genericPruner (verif export NewVerifStatePruner) is run over scripted node databases and every call is compared with that model. The real badger and pathbadger backends are tied on every run by dbdrv: generated version histories on real databases, every observer and a full read-back of every claimed root after every operation, against the contract (checker with witness), against the badger bookkeeping model (exact oracle: it must predict every result, every reported root and exactly which roots read back) against the pathbadger bookkeeping model (exact oracle at the level of the backend's own node keys, read out of its private pointer metadata; it must predict every result incl. backend-specific refusals, every reported root and the outcome ok / not-found / foreign of every read-back; the hypotheses of the pathbadger theorems about what a tree hands to a batch are evaluated on every real commit) and against each other.",
    "technique": "Lean 4 proof over contract + backend bookkeeping model; exact-oracle / witness-checking correspondence with the real badger and pathbadger NodeDBs",
    "models": ["nodedb"],
    "lean_sources": ["OasisModel/NodeDB", "OasisModel/Proto.lean"],
    "drivers": [
        {"name": "dbdrv",
         "quick": ["-cases", "60", "-versions", "8"],
         "thorough": ["-cases", "1500", "-versions", "12"],
         "timeout_quick": 900, "timeout_thorough": 3000},
    ],
    "trusted_base": [
        "Lean 4.33 kernel (axioms per theorem listed under coverage.axioms; at most propext, Classical.choice, Quot.sound)",
        "OasisModel/NodeDB/PathBadger.lean models pathbadger.go NewBatch/Commit/Finalize/Prune and node.go GetNode; tied by the dbdrv exact-oracle mode",
        "OasisModel/NodeDB/Spec.lean is the contract; OasisModel/NodeDB/Badger.lean models badger.go Commit/Finalize/Prune over an MVCC store with one atomic step per operation; both are tied to the Go code by the dbdrv correspondence, not by translation",
        "content addressing is idealised: a node hash determines the node (dbdrv reports any hash that stands for two contents or two child lists)",
        "the verif export go/consensus/cometbft/abci/export_verif_prune.go (constructs the real keep-N pruner)",
        "harness/cmd/dbdrv (generator, node-level logging wrapper around api.NodeDB/api.Batch, canonicalisation), harness/hlib",
        "Badger (dgraph-io/badger) itself: managed-mode MVCC semantics, write batches",
    ],
    "assumptions": [
        "histories inside the property's quantifier: candidates of a version derive from a finalized root of the previous version, from a root of the same version, or from nothing; versions are finalized in order",
        "write logs and multipart restore are outside the C06 models (multipart: see C07)",
    ],
    "partial": "The pruner tie uses a scripted database (call order, Sync inside/outside the advance), not a real one. No concurrency: 'reads unaffected by concurrent commit/finalize/prune' is a statement about Badger snapshots and Go locks and is not modelled. readable_inv for the badger model is proved as frame theorems + the exact Finalize characterisation + a sufficient condition; the unconditional statement is refuted by proved counterexamples that the real backend reproduces (corpus/C06).",
    "explanation": "Theorems about the contract for every history and about the badger bookkeeping model; correspondence of both real backends with contract, model and each other on generated histories with full read-back after every operation.",
}
