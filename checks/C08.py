CONFIG = {
    "level": "proof",
    "level_text": "Lean theorems (kernel-checked) on the layered-state delivery model: a transaction rejected at decode/authentication changes nothing; authentication changes exactly nonce+1, balance-fee, fee accumulator; a failing handler whose trace does not touch layer 0 leaves the post-authentication state. The tie is REGENERATED: tools/gen handlerfacts translates every ExecuteTx / ExecuteMessage handler of the consensus apps (staking, registry, governance, roothash, vault, beacon x3, keymanager secrets/churp) from /repo's current Go source into control-flow skeletons; the Lean analysis `flagged` (dirty flag per NewTransaction layer, state-wrapper-to-layer binding, error-branch correlation) is evaluated by the kernel (decide +kernel) and must equal the hand-justified expectation table, and every state-wrapper method seen must be classified read/write. The analysis is PROVED SOUND (OasisProofs/Props/C08Sound.lean, by rule induction over a concrete nondeterministic path semantics of the skeleton language, OasisModel/Handlers/FlowSem.lean): if `flagged` reports the list L for a skeleton, every path that ends in an ordinary error return and whose trace touches layer 0 returns through a site of L (flagged_sound_sites); with L = [] the block state tree is unchanged (flagged_sound_state); composed with the kernel-checked table for every regenerated root in handlers_sound / clean_handlers_sound. The proof forced three repairs of the analysis (loops unrolled to a fixpoint instead of three times; `return st.Set(..)` in a callee may be a state-unavailable failure, not ok; `return` inside a function literal leaves the literal) - each with a counterexample flow kept as an example.",
    "technique": "Lean 4 proof on delivery model + regenerated handler control-flow facts checked by kernel evaluation",
    "models": [],
    "lean_sources": ["OasisModel/Handlers"],
    "extra_theorem_files": [{"file": "OasisProofs/Props/C08Sound.lean", "namespace": "OasisProofs.C08Sound"}],
    "regen": [{"kind": "handlerfacts", "out": "HandlerFacts.lean"}],
    "generated_obligations": 40,
    "drivers": [
        {"name": "ledgerdrv", "needs_model": False,
         "quick": ["-spec", "c08", "-cases", "2000", "-blocks", "14"],
         "thorough": ["-spec", "c08", "-cases", "40000", "-blocks", "20"]},
    ],
    "trusted_base": [
        "Lean 4.33 kernel; `decide +kernel` (kernel evaluation, no extra axioms) for the regenerated tables",
        "tools/gen/handlerfacts.go (go/ast syntax translation of handlers to Flow, ~600 lines): that the paths of the Go handler are among the paths of the generated Flow term under the semantics OasisModel/Handlers/FlowSem.lean (`Path`) - in particular its treatment of break/continue (translated to skip), of wrapper/context aliasing by identifier, and the read/write classification by method name - is trusted, not proved",
        "OasisModel/Handlers/FlowSem.lean: the path semantics is the specification of what a Flow term means (layers, wrapper binding, error-branch selection, closing of overlays at call exit); the analysis `flagged` itself is NO LONGER trusted: it is proved sound against this semantics (Props/C08Sound.lean)",
        "the justification comments of the expectation table in OasisProofs/Props/C08.lean (hand-written, each flagged return site argued unreachable on available state)",
    ],
    "assumptions": [
        "state-read/write failures are state-unavailable errors, which the multiplexer turns into a halt, not a failed transaction",
        "methods classified as reads do not modify state",
    ],
    "partial": "Handlers are covered by regenerated control-flow facts (with a proved-sound analysis over a concrete path semantics of the facts language), not by a full semantic model of the Go code: the translator from Go to the facts language stays trusted; vault/keymanager/beacon/roothash bodies are only in the facts. CheckTx/simulation purity (separate trees) is not in the Lean model. Second tie: ledgerdrv -spec c08 drives the REAL staking app (AuthenticateTx + ExecuteTx as processTx does, gas limits exhausting at the byte charge / the operation charge / never) and requires, model-free, that a failed transaction leaves the full raw state dump unchanged except the signer's balance (-fee), nonce (+1) and the fee accumulator; the other applications' handlers are covered by the regenerated facts only.",
    "explanation": "Model theorems + regenerated handler facts (17 roots: authentication, post-execute, 15 handler roots).",
}
