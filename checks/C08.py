CONFIG = {
    "level": "proof",
    "level_text": "Lean theorems (kernel-checked) on the layered-state delivery model: a transaction rejected at decode/authentication changes nothing; authentication changes exactly nonce+1, balance-fee, fee accumulator; a failing handler whose trace does not touch layer 0 leaves the post-authentication state. The tie is REGENERATED: tools/gen handlerfacts translates every ExecuteTx / ExecuteMessage handler of the consensus apps (staking, registry, governance, roothash, vault, beacon x3, keymanager secrets/churp) from /repo's current Go source into control-flow skeletons; the Lean analysis `flagged` (dirty flag per NewTransaction layer, state-wrapper-to-layer binding, error-branch correlation) is evaluated by the kernel (decide +kernel) and must equal the hand-justified expectation table, and every state-wrapper method seen must be classified read/write.",
    "technique": "Lean 4 proof on delivery model + regenerated handler control-flow facts checked by kernel evaluation",
    "models": [],
    "lean_sources": ["OasisModel/Handlers"],
    "regen": [{"kind": "handlerfacts", "out": "HandlerFacts.lean"}],
    "generated_obligations": 17,
    "drivers": [
        {"name": "ledgerdrv", "needs_model": False,
         "quick": ["-spec", "c08", "-cases", "2000", "-blocks", "14"],
         "thorough": ["-spec", "c08", "-cases", "40000", "-blocks", "20"]},
    ],
    "trusted_base": [
        "Lean 4.33 kernel; `decide +kernel` (kernel evaluation, no extra axioms) for the regenerated tables",
        "tools/gen/handlerfacts.go (go/ast syntax translation of handlers to Flow, ~600 lines) and the analysis OasisModel/Handlers/Flow.lean: the analysis is executable Lean evaluated by the kernel but its soundness w.r.t. a concrete path semantics is NOT proved here (sanity examples only) — it is part of the trusted base of this tie",
        "the justification comments of the expectation table in OasisProofs/Props/C08.lean (hand-written, each flagged return site argued unreachable on available state)",
    ],
    "assumptions": [
        "state-read/write failures are state-unavailable errors, which the multiplexer turns into a halt, not a failed transaction",
        "methods classified as reads do not modify state",
    ],
    "partial": "Handlers are covered by regenerated control-flow facts, not by a full semantic model; vault/keymanager/beacon/roothash bodies are only in the facts. CheckTx/simulation purity (separate trees) is not in the Lean model. Second tie: ledgerdrv -spec c08 drives the REAL staking app (AuthenticateTx + ExecuteTx as processTx does, gas limits exhausting at the byte charge / the operation charge / never) and requires, model-free, that a failed transaction leaves the full raw state dump unchanged except the signer's balance (-fee), nonce (+1) and the fee accumulator; the other applications' handlers are covered by the regenerated facts only.",
    "explanation": "Model theorems + regenerated handler facts (17 roots: authentication, post-execute, 15 handler roots).",
}
