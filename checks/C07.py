CONFIG = {
    "level": "proof",
    "level_text": "PARTIAL. Lean theorems (kernel-checked, no sorry/axioms) about the write-ordering model of the badger backend, in which every operation is a plan of atomic durable steps in the code's order and a crash is a prefix of the plan: the full plan is the uninterrupted operation; whatever prefix is on disk, every read at an earlier version is unchanged (previously finalized versions intact for Commit/Finalize); before the last step all metadata observers are those of the old state (observably old or new); after a crash before the metadata commit a retried Commit / Finalize has the same plan and a retried Prune is accepted (it skips the lone roots whose root-node key is already gone), and each ends in a state that reads exactly like the uninterrupted one; a checkpoint restore interrupted before its Finalize's metadata commit leaves the last finalized version untouched and, after reopen, no restore in progress. For pathbadger (write-ordering model PathCrash.lean over the PathBadger bookkeeping model): the full plans of Commit / Finalize / Prune are the uninterrupted operations, their step names are the hook names, whatever prefix of a Commit or Finalize is on disk every root of an earlier version reads exactly as before, and the mechanism of the lost repeated restore (finding D10) is a theorem: after an aborted first attempt the second restore gets sequence number 1, Finalize copies nothing and the finalized root is unreadable. One COUNTEREXAMPLE is proved on the badger model and reproduced by the real backend: a crash between the Finalize of a restore and the deletion of its journal makes reopen delete the finalized version's nodes. The Go code is tied on every run by crashdrv: verif crash-point hooks between successive durable writes; the boundary sequence of every real operation must equal the model's plan (number, order, kind), and for EVERY boundary of the last operation of generated histories a child process exits there, the database is reopened, previously finalized roots are read back, the state is classified old/mid/new, the operation is retried and compared with the uninterrupted run; the classification must be the one the model predicts.",
    "technique": "Lean 4 proof over a write-ordering model + fault enumeration at verif-tagged crash points on the real badger and pathbadger NodeDBs",
    "models": ["nodedb"],
    "lean_sources": ["OasisModel/NodeDB", "OasisModel/Proto.lean"],
    "drivers": [
        {"name": "crashdrv",
         "quick": ["-cases", "24", "-versions", "4"],
         "thorough": ["-cases", "400", "-versions", "8"],
         "timeout_quick": 900, "timeout_thorough": 3000},
    ],
    "trusted_base": [
        "Lean 4.33 kernel (axioms per theorem listed under coverage.axioms; at most propext, Classical.choice, Quot.sound)",
        "atomicity of one WriteBatch.Flush / CommitAt, Badger's own recovery (NoFsync, process crash: the page cache survives) and the OS: trusted, not modelled; a crash INSIDE a flush is not injected",
        "OasisModel/NodeDB/Crash.lean (plans over the Badger bookkeeping model) is tied to badger.go by crashdrv (boundary sequences + predicted crash classes); pathbadger's plans (PathCrash.lean) are tied by the same boundary-sequence check (C07.path_plan_names links the table Crash.pathbadgerNames to the plans); its observable crash behaviour is judged directly against the property (old / new / retry completes), no retry theorem for pathbadger",
        "the verif hooks go/storage/mkvs/db/{badger,pathbadger}/crashpoint_verif.go (+ empty crashpoint_noverif.go) and the add-only verifCrashPoint(...) lines; harness/cmd/crashdrv, harness/hlib",
    ],
    "assumptions": [
        "a crash is a process exit between two durable writes (os.Exit inside the hook); power loss with fsync disabled is outside the model",
        "histories as in C06; the checkpoint restore is driven as the consensus layer does: StartMultipartInsert, checkpoint.Restorer chunks, Finalize",
    ],
    "partial": "Theorem is about the model's atomic steps; atomicity of one flush, Badger recovery and the OS are trusted. For pathbadger the retry-completes statements are only checked by fault enumeration (a retried Commit gets a new sequence number, so its state is not equal but only observably equal to the uninterrupted one); the multipart model covers only what finding D10 needs. Continued operation after retry is compared through the observers and a full read-back, not by further generated operations.",
    "explanation": "Theorems about plans/prefixes/recover on the badger write-ordering model; fault enumeration at every hook boundary of Commit, Finalize, Prune and a complete checkpoint restore on both real backends.",
}
