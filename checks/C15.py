CONFIG = {
    "level": "proof",
    "level_text": "Lean theorems (kernel-checked, no sorry/axioms) over unbounded naturals (Go: big.Int) for every pool state, amount and history: deposits mint the floor of the pro-rata share count (1:1 on an empty pool, refused on zero balance with outstanding shares), redemptions pay the floor of the pro-rata worth and redeeming everything empties the pool, neither a deposit nor a redemption lowers the share price so nobody's redeemable value falls through another's operation, no round trip and no interleaving of own deposits/redemptions yields a profit (potential-function argument over arbitrary histories with other delegators, rewards and slashes), the price falls only by slashing, slashing takes the floor of the same fraction from the active and debonding pool (total at most the penalty, value conserved into the common pool), a reclaim moves exactly the redeemed stake into the debonding pool, and a queued debonding delegation is paid exactly once, at the first epoch transition at or after its end epoch and never before. The model is tied to the Go source by a regenerated translation of the straight-line big-integer functions (bridge lemmas) and by the sharedrv correspondence on adversarial integers. The epoch-transition loop over the debonding queue as the code performs it (OasisModel/Staking/DebondLoop.lean: a store with explicit load/save, delegator and escrow account loaded fresh per entry, aliasing when they are the same account; OasisProofs/Props/C15DebondLoop.lean): the loop equals the functional fold of the ledger model over the entries for every store and entry list, error outcomes included (loop_refines_fold, onEpochChange_refines, loop_refines_debst), every entry's payout reaches its delegator's general balance exactly once at the price of the escrow's debonding pool at that point and balances are conserved (paid_exactly_once, payout_at_current_price, loop_conserves, loop_frame); a per-call cache of escrow accounts loses a payout on entries (D1→E),(E→V),(D3→E) (cached_escrow_loses_payout) and is harmless exactly when no escrow address is also a delegator address (loopCached_eq_loop_of_disjoint); tied by the regenerated statement list of onEpochChange (Props/C05LoopFacts.lean).",
    "technique": "Lean 4 proof over a Nat model + go/ast translation of the arithmetic with bridge lemmas + correspondence and spec-on-implementation with the real SharePool",
    "models": ["share", "ledger"],
    "regen": [{"kind": "muxfacts", "out": "MuxFacts.lean"}, {"kind": "quantity", "out": "SharePoolGen.lean"}, {"kind": "stmtfacts", "out": "StmtFactsStakingloops.lean", "args": ["stakingloops"]}],
    "extra_theorem_files": [{"file": "OasisProofs/Props/AppStateFacts.lean", "namespace": "OasisProofs.AppStateFacts"}, {"file": "OasisProofs/Props/C15DebondLoop.lean", "namespace": "OasisProofs.C15DebondLoop"}, {"file": "OasisProofs/Props/C05LoopFacts.lean", "namespace": "OasisProofs.C05LoopFacts"}],
    "lean_sources": ["OasisModel/Quantity.lean", "OasisModel/Staking/SharePool.lean", "OasisModel/Staking/Debond.lean",
                     "OasisModel/Staking/ShareDriver.lean", "OasisModel/Staking/Commission.lean", "OasisModel/Staking/Ledger.lean", "OasisModel/Staking/LedgerDriver.lean",
                     "OasisModel/Governance/Tally.lean", "OasisModel/Proto.lean", "OasisProofs/Helpers/Staking.lean"],
    "drivers": [
        {"name": "sharedrv",
         "quick": ["-cases", "1500", "-ops", "40"],
         "thorough": ["-cases", "30000", "-ops", "60"]},
        # the handlers around the pool arithmetic (addEscrow, reclaimEscrow -> debonding pool and
        # queue, debonding completion at epoch transitions, SlashEscrow, rewards with commission)
        # run in the REAL staking application against the ledger model (C05 correspondence); 40 % of the
        # histories are wind-down histories (several delegators and the escrow account itself reclaim from
        # the same escrow account with the same end epoch; escrow address before/between/after its
        # delegators; interleaved escrow accounts; slashing before completion); after every epoch
        # transition the `debond_exactly_once` clause is evaluated on the real ledger with the
        # debonding-queue model of the C15 theorems (SPEC debond-exactly-once)
        {"name": "ledgerdrv", "corpus": False,
         "quick": ["-cases", "400", "-blocks", "14"],
         "thorough": ["-cases", "8000", "-blocks", "20"]},
    ],
    "trusted_base": [
        "Lean 4.33 kernel (axioms per theorem listed under coverage.axioms; at most propext, Classical.choice, Quot.sound)",
        "the model OasisModel/Staking/{SharePool,Debond}.lean over Nat (Go: big.Int kept non-negative by quantity.Quantity) is what the theorems are about; it is tied to go/staking/api/api.go, go/common/quantity/quantity.go and slashPool/computeCommission in apps/staking/state/state.go by the regenerated translation tools/gen/quantity.go (a changed operand, rounding or guard breaks a bridge lemma) and by the sharedrv correspondence",
        "tools/gen/quantity.go (go/ast translator; fails on source outside its subset), harness/cmd/sharedrv, harness/hlib, the verif-tagged export file go/consensus/cometbft/apps/staking/state/export_verif.go (slashPool, computeCommission)",
    ],
    "assumptions": [
        "pointer arguments are non-nil and dst/src of Move are distinct cells (true at every call site; Move guards the src==n alias itself)",
        "the debonding queue model takes the MKVS iteration order of debondingQueueKeyFmt (big-endian epoch, delegator, escrow) as given (C03); the surrounding handlers (reclaimEscrow, onEpochChange, SlashEscrow state access) are tied by the C05 ledger correspondence, and the exactly-once clause is evaluated on every real epoch transition: each queue entry with end epoch <= epoch credited exactly StakeForShares at the debonding pool's price in queue order, the others untouched (DebSt.onEpochChange vs the real dump)",
        "rewards are only ever added to a pool with non-zero balance (AddRewards computes them as a multiple of the balance)",
    ],
    "explanation": "Theorems over Nat for all pools/amounts/histories; bridge lemmas to the regenerated translation of the Go arithmetic; real SharePool vs model and C15 clauses evaluated on real outcomes for adversarial integers (2^k±1 up to 2^256, maximal rounding remainders, zero balance with outstanding shares); real staking application on wind-down histories with the exactly-once clause evaluated on every epoch transition.",
}
