#!/bin/sh
# usage: confirm_seeded.sh <seeded dir> <worktree> <go package dir relative to worktree/go> <demo file name>
# Confirms: with patch existing tests pass and demo fails; without patch demo passes.
d=$1; wt=$2; pkg=$3; demo=${4:-zz_demo_test.go}
export GOFLAGS=-mod=mod GOPROXY=off
cd "$wt" || exit 2
git checkout -q -- . ; rm -f "go/$pkg/$demo"
git apply "$d/patch.diff" || { echo "CONFIRM: patch does not apply"; exit 2; }
( cd go && go test -count=1 "./$pkg/" >/tmp/confirm_existing.log 2>&1 ); e1=$?
cp "$d/demo_test.go" "go/$pkg/$demo"
( cd go && go test ${SEED_TAGS:+-tags $SEED_TAGS} -count=1 -run 'Demo|Verif|Seeded' "./$pkg/" >/tmp/confirm_demo_with.log 2>&1 ); e2=$?
git apply -R "$d/patch.diff"
( cd go && go test ${SEED_TAGS:+-tags $SEED_TAGS} -count=1 -run 'Demo|Verif|Seeded' "./$pkg/" >/tmp/confirm_demo_without.log 2>&1 ); e3=$?
rm -f "go/$pkg/$demo"; git checkout -q -- .
echo "CONFIRM existing-tests-with-patch=$e1 (want 0) demo-with-patch=$e2 (want non-0) demo-without-patch=$e3 (want 0)"
[ $e1 = 0 ] && [ $e2 != 0 ] && [ $e3 = 0 ]
