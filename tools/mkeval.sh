#!/bin/sh
# usage: tools/mkeval.sh <name>
# Creates/refreshes an isolated evaluation environment under /var/tmp/eval-<name>: a git worktree of
# /repo's HEAD (plus /repo's untracked verif hook files) and a copy of /verif's WORKING TREE whose
# harness builds against that worktree. Seeded patches are tried there, never in /repo:
#   cd /var/tmp/eval-<name>/verif && VERIF_REPO=/var/tmp/eval-<name>/repo tools/try_seeded.sh Cxx seeded/<id>/patch.diff
# Re-run after editing /verif to refresh the copy. Remove with: tools/mkeval.sh -rm <name>
if [ "$1" = "-rm" ]; then
  E=/var/tmp/eval-$2
  git -C /repo worktree remove --force "$E/repo" 2>/dev/null
  rm -rf "$E"; git -C /repo worktree prune; exit 0
fi
n=$1; E=/var/tmp/eval-$n
mkdir -p "$E"
[ -d "$E/repo" ] || git -C /repo worktree add -q --detach "$E/repo" HEAD
git -C "$E/repo" checkout -q -- . && git -C "$E/repo" checkout -q --detach "$(git -C /repo rev-parse HEAD)"
(cd /repo && git ls-files --others --exclude-standard | grep -i verif | while read f; do mkdir -p "$E/repo/$(dirname "$f")"; cp "$f" "$E/repo/$f"; done)
rsync -a --delete --exclude .git --exclude replays --exclude harness/bin /verif/ "$E/verif/"
sed -i "s#=> /repo/go#=> $E/repo/go#" "$E/verif/harness/go.mod"
echo "ready: cd $E/verif && VERIF_REPO=$E/repo tools/try_seeded.sh Cxx seeded/<id>/patch.diff"
