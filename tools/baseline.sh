#!/bin/sh
# Runs the pinned baseline test suite of /repo with the `verif` guard OFF and compares the result with
# the 1259 stable tests of /root/.vp/BASELINE.json. usage: tools/baseline.sh [logfile]
log=${1:-/tmp/verif-baseline.gotest.json}
export GOFLAGS=-mod=mod GOPROXY=off
: > "$log"
for m in $(cat /w/out/gomods.txt); do
  MF=$(cd /repo/$m && . /w/out/goenv.sh && gomodflag)
  (cd /repo/$m && go test $MF -json -vet=off -count=1 -timeout 25m ./...) >> "$log" 2>/dev/null
done
git -C /repo checkout -- go/go.sum 2>/dev/null
python3 - "$log" <<'PY'
import json,sys
base=json.load(open('/root/.vp/BASELINE.json'))
passed,failed=set(),set()
for line in open(sys.argv[1],errors='replace'):
    line=line.strip()
    if not line.startswith('{'): continue
    try: ev=json.loads(line)
    except Exception: continue
    a,t=ev.get('Action'),ev.get('Test')
    if t is None or a not in('pass','fail'): continue
    (passed if a=='pass' else failed).add(ev.get('Package','')+'::'+t)
passed-=failed
stable=set(base['stable_pass'])
missing=sorted(stable-passed)
print('baseline: stable=%d passed-now=%d missing=%d'%(len(stable),len(stable&passed),len(missing)))
for m in missing[:40]: print('  NOT PASSING:',m,'(failed)' if m in failed else '(absent)')
sys.exit(1 if missing else 0)
PY
