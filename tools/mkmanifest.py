#!/usr/bin/env python3
"""Regenerate /verif/MANIFEST.json from checks/*.py (one CONFIG per claimed property)."""
import importlib.util, json, os, re, subprocess
V = os.path.dirname(os.path.dirname(os.path.abspath(__file__)))
base = json.load(open("/root/.vp/BASELINE.json"))
props = [json.loads(l)["id"] for l in open(os.path.join(V, "properties.jsonl"))]
hooks = []
for line in open(os.path.join(V, "MANIFEST.hooks")):
    m = re.match(r"([0-9a-f]{7,40})\s", line)
    if m:
        hooks.append(m.group(1))
checks, na, served = [], [], []
for pid in props:
    path = os.path.join(V, "checks", pid + ".py")
    ready = pid in open(os.path.join(V, "checks", "READY")).read().split()
    if not os.path.exists(path) or not (ready or os.environ.get("MANIFEST_ALL")):
        na.append({"property_id": pid, "reason": "no check registered yet in this round: the Lean model, theorems and code tie for this property are still under construction (DESIGN.md §5 describes the plan); it is not claimed rather than claimed with a weaker technique"})
        continue
    spec = importlib.util.spec_from_file_location("c", path); mod = importlib.util.module_from_spec(spec); spec.loader.exec_module(mod)
    c = mod.CONFIG
    if c.get("not_applicable"):
        na.append({"property_id": pid, "reason": c["not_applicable"]})
        continue
    served.append(pid)
    checks.append({
        "property_id": pid,
        "quick_cmd": "./check %s --tier quick" % pid,
        "thorough_cmd": "./check %s --tier thorough" % pid,
        "evidence_file": "/verif/evidence/%s.json" % pid,
        "replay_cmd_template": "./check %s --replay {path}" % pid,
        "engine": "lean4-proof+go-correspondence",
        "level_claimed": {"category": c.get("level", "proof"), "text": c.get("level_text", c.get("explanation", "")), "design_ref": "DESIGN.md §5 " + pid},
        "level_note": c.get("level_note", "; ".join(c.get("trusted_base", []))),
        "technique": c.get("technique", "Lean 4 machine-checked proof about a formal model + checked correspondence model/implementation"),
    })
m = {
    "version": 1,
    "setup_cmd": "./setup.sh",
    "hooks": {"guard": "verif", "enable": "go build -tags verif (harness module /verif/harness, replace oasis-core/go => /repo/go)",
              "baseline_off_cmd": base["cmd"], "source_commits": hooks, "add_only": True},
    "engines": [
        {"name": "lean4-proof", "path": "lean/", "serves_properties": served, "kind_free_text": "Lean 4 models and theorems (lake project, core-only model library + proof library + oasis_model executable)"},
        {"name": "go-correspondence", "path": "harness/", "serves_properties": served, "kind_free_text": "Go drivers running the real packages in-process (-tags verif) against the Lean model over a line protocol; fact extractors in tools/gen"},
    ],
    "checks": checks,
    "notes": "Every check is `./check <id> --tier quick|thorough`; VERIF_SEED and VERIF_TIER are honoured. See DESIGN.md.",
    "not_applicable": na,
}
json.dump(m, open(os.path.join(V, "MANIFEST.json"), "w"), indent=1)
print("checks:", served, "not claimed:", [x["property_id"] for x in na])
