#!/bin/sh
# Run every registered check (quick) on the unchanged tree and report; evidence files are rewritten.
cd "$(dirname "$0")/.."
for p in $(cat checks/READY); do
  /usr/bin/time -f "$p %es" ./check $p --tier quick > /tmp/refresh_$p.log 2>&1; rc=$?
  echo "$p rc=$rc $(grep -c VIOLATION /tmp/refresh_$p.log) violations; $(grep KNOWN-FINDING /tmp/refresh_$p.log | wc -l) known; $(tail -1 /tmp/refresh_$p.log)"
done
