#!/bin/sh
# usage: eval_seeded.sh <Cxx> <out dir with m1..mN> <worktree>
# For every mutation: confirm it independently, run the property's check against it, store it under seeded/.
pid=$1; out=$2; wt=$3; pre=${4:-}
V=$(cd "$(dirname "$0")/.." && pwd)
cd "$V"
for d in "$out"/m*; do
  m=$(basename "$d")
  tags=$(python3 -c "import json;print(json.load(open('$d/meta.json')).get('tags',''))")
  [ -n "$tags" ] && export SEED_TAGS="$tags"
  dp=$(python3 -c "import json;print(json.load(open('$d/meta.json')).get('demo_path',''))")
  pkg=$(dirname "${dp#go/}")
  conf=$(tools/confirm_seeded.sh "$d" "$wt" "$pkg" 2>&1 | tail -1)
  res=$(tools/try_seeded.sh "$pid" "$d/patch.diff" 2>&1 | grep -E "VIOLATION|check-exit|KNOWN" | tr '\n' ' ')
  echo "== $pid-$m | $conf | $res"
  m="$pre$m"; mkdir -p "seeded/$pid-$m"; cp "$d"/* "seeded/$pid-$m/"
  python3 - "$pid" "$m" "$conf" "$res" <<'PY'
import json,sys
pid,m,conf,res=sys.argv[1:5]
p=f"seeded/{pid}-{m}/meta.json"; d=json.load(open(p))
d["confirmed_by_coordinator"]=conf
d["check_result"]=res
d["detected"]=("VIOLATION" in res)
json.dump(d,open(p,"w"),indent=1)
PY
done
