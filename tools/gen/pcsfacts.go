// pcsfacts: regenerated tie for property C18 (DESIGN.md §4.2 item 6).
//
// Reads go/common/sgx/pcs/{quote,tcb,policy,pcs,report,certificates}.go with go/parser
// (syntax only; a small syntactic type inference over the package's own struct types
// resolves receivers, parameters, locals, range variables and the results of the package's
// own methods) and emits lean/Generated/PcsFacts.lean with
//
//   - checks: the decision sequence of (*Quote).Verify with every call to a function of the
//     package inlined at its call site, in source order: one entry per `if <cond> { return
//     <error> }`, per unconditional error return, per early `return nil` and per error check
//     of a library call, as (function, condition text, first string literal of the error);
//   - fieldUses: for every field of the quote / collateral / policy structures the functions
//     (other than (un)marshalling, String and Error methods) that read it outside the
//     construction of an error value.
//
// The Lean side (OasisProofs/Props/C18.lean) holds the hand-written expectation of both
// tables, maps every check to the stage of the symbolic model and discharges equality by
// `decide`: removing, reordering or changing a check, or no longer reading a field, breaks
// the build. A selector on a tracked structure that cannot be resolved makes the generator FAIL.
package main

import (
	"bytes"
	"fmt"
	"go/ast"
	"go/parser"
	"go/printer"
	"go/token"
	"os"
	"path/filepath"
	"sort"
	"strconv"
	"strings"
)

func init() { kinds["pcsfacts"] = genPcsFacts }

type pfStructField struct{ name, typ string }

type pcsGen struct {
	fset    *token.FileSet
	structs map[string][]pfStructField // struct name -> fields (embedded ones promoted)
	order   []string                   // struct names in source order
	funcs   map[string]*ast.FuncDecl   // "Recv.Name" or "Name"
	results map[string][]string        // func key -> result types
	checks  [][3]string
	uses    map[string]map[string]bool // "Struct.field" -> set of function keys
	depth   int
}

// Interface methods are dispatched to their implementations (checked to exist).
var pfIfaceImpl = map[string][]string{
	"QuoteSignature": {"QuoteSignatureECDSA_P256"},
	"ReportBody":     {"SgxReport", "TdReport"},
	"QuoteHeader":    {"QuoteHeaderV3", "QuoteHeaderV4"},
}

var pfSkipFuncs = map[string]bool{
	"UnmarshalBinary": true, "UnmarshalBinaryWithTrailing": true, "MarshalBinary": true, "UnmarshalHex": false,
	"UnmarshalText": true, "MarshalText": true, "String": true, "Error": true,
}

func (g *pcsGen) text(n ast.Node) string {
	var b bytes.Buffer
	_ = printer.Fprint(&b, g.fset, n)
	return strings.Join(strings.Fields(b.String()), " ")
}

func (g *pcsGen) typeStr(e ast.Expr, owner string) string {
	switch t := e.(type) {
	case *ast.Ident:
		return t.Name
	case *ast.StarExpr:
		return "*" + g.typeStr(t.X, owner)
	case *ast.ArrayType:
		if t.Len == nil {
			return "[]" + g.typeStr(t.Elt, owner)
		}
		return "[" + g.text(t.Len) + "]" + g.typeStr(t.Elt, owner)
	case *ast.SelectorExpr:
		return g.text(t)
	case *ast.StructType:
		g.addStruct(owner, t)
		return owner
	case *ast.MapType:
		return "map"
	case *ast.InterfaceType:
		return "interface"
	case *ast.FuncType:
		return "func"
	}
	return g.text(e)
}

func (g *pcsGen) addStruct(name string, st *ast.StructType) {
	var fs []pfStructField
	for _, f := range st.Fields.List {
		if len(f.Names) == 0 { // embedded
			fs = append(fs, pfStructField{"<embedded>", g.typeStr(f.Type, name)})
			continue
		}
		for _, n := range f.Names {
			fs = append(fs, pfStructField{n.Name, g.typeStr(f.Type, name+"."+n.Name)})
		}
	}
	g.structs[name] = fs
	g.order = append(g.order, name)
}

func deref(t string) string { return strings.TrimPrefix(t, "*") }

func elemOf(t string) string {
	t = deref(t)
	if strings.HasPrefix(t, "[") {
		if i := strings.Index(t, "]"); i >= 0 {
			return t[i+1:]
		}
	}
	return ""
}

func (g *pcsGen) field(st, name string) (string, bool) {
	for _, f := range g.structs[st] {
		if f.name == name {
			return f.typ, true
		}
		if f.name == "<embedded>" {
			if t, ok := g.field(deref(f.typ), name); ok {
				return t, true
			}
		}
	}
	return "", false
}

func (g *pcsGen) methodKey(recvType, name string) (string, bool) {
	t := deref(recvType)
	if impls, ok := pfIfaceImpl[t]; ok {
		t = impls[0]
	}
	k := t + "." + name
	_, ok := g.funcs[k]
	return k, ok
}

type pfEnv map[string]string

// typeOf infers the type of an expression from the package's own declarations ("" = unknown).
func (g *pcsGen) typeOf(e ast.Expr, env pfEnv) string {
	switch x := e.(type) {
	case *ast.Ident:
		return env[x.Name]
	case *ast.ParenExpr:
		return g.typeOf(x.X, env)
	case *ast.StarExpr:
		return deref(g.typeOf(x.X, env))
	case *ast.UnaryExpr:
		if x.Op == token.AND {
			if t := g.typeOf(x.X, env); t != "" {
				return "*" + t
			}
		}
		return ""
	case *ast.SelectorExpr:
		st := deref(g.typeOf(x.X, env))
		if st == "" {
			return ""
		}
		if t, ok := g.field(st, x.Sel.Name); ok {
			return t
		}
		return ""
	case *ast.IndexExpr:
		return elemOf(g.typeOf(x.X, env))
	case *ast.SliceExpr:
		return g.typeOf(x.X, env)
	case *ast.TypeAssertExpr:
		if x.Type == nil {
			return ""
		}
		return g.typeStr(x.Type, "")
	case *ast.CompositeLit:
		if x.Type != nil {
			return g.typeStr(x.Type, "")
		}
	case *ast.CallExpr:
		if r := g.callResults(x, env); len(r) > 0 {
			return r[0]
		}
	}
	return ""
}

func (g *pcsGen) calleeKey(c *ast.CallExpr, env pfEnv) (string, bool) {
	switch f := c.Fun.(type) {
	case *ast.Ident:
		_, ok := g.funcs[f.Name]
		return f.Name, ok
	case *ast.SelectorExpr:
		if rt := g.typeOf(f.X, env); rt != "" {
			return g.methodKey(rt, f.Sel.Name)
		}
	}
	return "", false
}

func (g *pcsGen) callResults(c *ast.CallExpr, env pfEnv) []string {
	if k, ok := g.calleeKey(c, env); ok {
		return g.results[k]
	}
	return nil
}

// ---------------------------------------------------------------------------- field uses

func (g *pcsGen) isErrorCtor(n ast.Node) bool {
	switch x := n.(type) {
	case *ast.CallExpr:
		if s, ok := x.Fun.(*ast.SelectorExpr); ok {
			if id, ok := s.X.(*ast.Ident); ok && id.Name == "fmt" && s.Sel.Name == "Errorf" {
				return true
			}
		}
	case *ast.CompositeLit:
		if x.Type != nil && g.typeStr(x.Type, "") == "TCBOutOfDateError" {
			return true
		}
	}
	return false
}

// bindStmt extends env with what a statement declares.
func (g *pcsGen) bindStmt(s ast.Stmt, env pfEnv) {
	switch x := s.(type) {
	case *ast.AssignStmt:
		if len(x.Rhs) == 1 && len(x.Lhs) > 1 {
			var rts []string
			switch r := x.Rhs[0].(type) {
			case *ast.CallExpr:
				rts = g.callResults(r, env)
			case *ast.TypeAssertExpr:
				rts = []string{g.typeOf(r, env), "bool"}
			}
			for i, l := range x.Lhs {
				if id, ok := l.(*ast.Ident); ok && id.Name != "_" && i < len(rts) && rts[i] != "" && (x.Tok == token.DEFINE || env[id.Name] == "") {
					env[id.Name] = rts[i]
				}
			}
			return
		}
		for i, l := range x.Lhs {
			if id, ok := l.(*ast.Ident); ok && id.Name != "_" && i < len(x.Rhs) && x.Tok == token.DEFINE {
				if t := g.typeOf(x.Rhs[i], env); t != "" {
					env[id.Name] = t
				}
			}
		}
	case *ast.DeclStmt:
		if gd, ok := x.Decl.(*ast.GenDecl); ok && gd.Tok == token.VAR {
			for _, sp := range gd.Specs {
				vs := sp.(*ast.ValueSpec)
				for i, n := range vs.Names {
					if vs.Type != nil {
						env[n.Name] = g.typeStr(vs.Type, "")
					} else if i < len(vs.Values) {
						if t := g.typeOf(vs.Values[i], env); t != "" {
							env[n.Name] = t
						}
					}
				}
			}
		}
	case *ast.RangeStmt:
		if x.Tok == token.DEFINE {
			if id, ok := x.Value.(*ast.Ident); ok && id.Name != "_" {
				if t := elemOf(g.typeOf(x.X, env)); t != "" {
					env[id.Name] = t
				}
			}
		}
	}
}

func (g *pcsGen) funcEnv(fd *ast.FuncDecl) pfEnv {
	env := pfEnv{}
	if fd.Recv != nil {
		for _, f := range fd.Recv.List {
			for _, n := range f.Names {
				env[n.Name] = g.typeStr(f.Type, "")
			}
		}
	}
	g.bindParams(fd.Type, env)
	return env
}

func (g *pcsGen) bindParams(ft *ast.FuncType, env pfEnv) {
	if ft.Params == nil {
		return
	}
	for _, f := range ft.Params.List {
		for _, n := range f.Names {
			env[n.Name] = g.typeStr(f.Type, "")
		}
	}
}

// scanUses records every read of a tracked struct field in fd, outside error constructors.
func (g *pcsGen) scanUses(key string, fd *ast.FuncDecl) error {
	env := g.funcEnv(fd)
	var firstErr error
	var walk func(n ast.Node, inErr bool)
	walk = func(n ast.Node, inErr bool) {
		if n == nil {
			return
		}
		switch x := n.(type) {
		case *ast.FuncLit:
			g.bindParams(x.Type, env)
			walk(x.Body, inErr)
			return
		case *ast.BlockStmt:
			for _, s := range x.List {
				walk(s, inErr)
			}
			return
		case *ast.AssignStmt:
			for _, r := range x.Rhs {
				walk(r, inErr)
			}
			for _, l := range x.Lhs {
				if _, ok := l.(*ast.Ident); !ok {
					walk(l, inErr)
				}
			}
			g.bindStmt(x, env)
			return
		case *ast.DeclStmt:
			g.bindStmt(x, env)
			ast.Inspect(x, func(m ast.Node) bool {
				if vs, ok := m.(*ast.ValueSpec); ok {
					for _, v := range vs.Values {
						walk(v, inErr)
					}
					return false
				}
				return true
			})
			return
		case *ast.RangeStmt:
			walk(x.X, inErr)
			g.bindStmt(x, env)
			walk(x.Body, inErr)
			return
		case *ast.IfStmt:
			if x.Init != nil {
				walk(x.Init, inErr)
			}
			walk(x.Cond, inErr)
			walk(x.Body, inErr)
			if x.Else != nil {
				walk(x.Else, inErr)
			}
			return
		case *ast.SwitchStmt:
			if x.Init != nil {
				walk(x.Init, inErr)
			}
			if x.Tag != nil {
				walk(x.Tag, inErr)
			}
			walk(x.Body, inErr)
			return
		case *ast.TypeSwitchStmt:
			walk(x.Body, inErr)
			return
		case *ast.SelectorExpr:
			st := deref(g.typeOf(x.X, env))
			if st != "" {
				if _, isStruct := g.structs[st]; isStruct {
					if _, ok := g.field(st, x.Sel.Name); ok {
						if !inErr {
							owner := g.fieldOwner(st, x.Sel.Name)
							k := owner + "." + x.Sel.Name
							if g.uses[k] == nil {
								g.uses[k] = map[string]bool{}
							}
							g.uses[k][key] = true
						}
					} else if _, ok := g.methodKey(st, x.Sel.Name); !ok {
						if firstErr == nil {
							firstErr = fmt.Errorf("%s: selector %s: %s has neither field nor method %s", key, g.text(x), st, x.Sel.Name)
						}
					}
				}
			}
			walk(x.X, inErr)
			return
		}
		if g.isErrorCtor(n) {
			inErr = true
		}
		// generic traversal of children
		ast.Inspect(n, func(m ast.Node) bool {
			if m == n {
				return true
			}
			if m != nil {
				walk(m, inErr)
			}
			return false
		})
	}
	walk(fd.Body, false)
	return firstErr
}

func (g *pcsGen) fieldOwner(st, name string) string {
	for _, f := range g.structs[st] {
		if f.name == name {
			return st
		}
	}
	for _, f := range g.structs[st] {
		if f.name == "<embedded>" {
			if _, ok := g.field(deref(f.typ), name); ok {
				return g.fieldOwner(deref(f.typ), name)
			}
		}
	}
	return st
}

// ---------------------------------------------------------------------------- decision sequence

func (g *pcsGen) errLiteral(e ast.Expr) (string, bool) {
	switch x := e.(type) {
	case *ast.CallExpr:
		if g.isErrorCtor(x) && len(x.Args) > 0 {
			if bl, ok := x.Args[0].(*ast.BasicLit); ok {
				s, _ := strconv.Unquote(bl.Value)
				return s, true
			}
		}
	case *ast.UnaryExpr:
		if cl, ok := x.X.(*ast.CompositeLit); ok && g.isErrorCtor(cl) {
			return "TCBOutOfDateError " + g.text(cl.Elts[0]), true
		}
	case *ast.Ident:
		if x.Name == "err" {
			return "err", true
		}
	}
	return "", false
}

type pfWalk struct {
	g        *pcsGen
	key      string
	env      pfEnv
	lastLib  string // text of the last library call whose error has not been checked yet
	lastCall string // key of the last inlined package function
}

func (w *pfWalk) add(cond, msg string) { w.g.checks = append(w.g.checks, [3]string{w.key, cond, msg}) }

// inlineCalls inlines every package-level call inside e, in source order.
func (w *pfWalk) inlineCalls(e ast.Node) error {
	var err error
	ast.Inspect(e, func(n ast.Node) bool {
		if err != nil {
			return false
		}
		if _, ok := n.(*ast.FuncLit); ok {
			return false
		}
		c, ok := n.(*ast.CallExpr)
		if !ok {
			return true
		}
		for _, a := range c.Args {
			if e2 := w.inlineCalls(a); e2 != nil {
				err = e2
			}
		}
		if s, ok := c.Fun.(*ast.SelectorExpr); ok {
			if e2 := w.inlineCalls(s.X); e2 != nil {
				err = e2
			}
		}
		if k, ok := w.g.calleeKey(c, w.env); ok {
			name := k[strings.LastIndex(k, ".")+1:]
			if !pfSkipFuncs[name] && w.g.returnsError(k) {
				t := deref(w.g.typeOf(selX(c), w.env))
				if impls, isIface := pfIfaceImpl[t]; isIface && len(impls) > 1 {
					err = fmt.Errorf("%s: call %s dispatches to several implementations", w.key, w.g.text(c))
					return false
				}
				if e2 := w.g.inline(k); e2 != nil {
					err = e2
				}
				w.lastCall = k
			}
		} else if w.g.looksFallible(c) {
			w.lastLib = w.g.text(c.Fun)
		}
		return false
	})
	return err
}

func selX(c *ast.CallExpr) ast.Expr {
	if s, ok := c.Fun.(*ast.SelectorExpr); ok {
		return s.X
	}
	return nil
}

func (g *pcsGen) returnsError(k string) bool {
	for _, r := range g.results[k] {
		if r == "error" {
			return true
		}
	}
	return false
}

// looksFallible: library calls whose error result is checked by the verifier.
func (g *pcsGen) looksFallible(c *ast.CallExpr) bool {
	t := g.text(c.Fun)
	for _, p := range []string{"hex.DecodeString", "time.Parse", "json.Unmarshal", "asn1.Unmarshal", ".Verify", "CertFromPEM", "ecdsa.ParseUncompressedPublicKey", "UnmarshalHex", "x509.ParseCertificate"} {
		if strings.HasSuffix(t, p) || t == p {
			return true
		}
	}
	return false
}

func mentionsErr(e ast.Expr) bool {
	found := false
	ast.Inspect(e, func(n ast.Node) bool {
		if id, ok := n.(*ast.Ident); ok && id.Name == "err" {
			found = true
		}
		return true
	})
	return found
}

func (w *pfWalk) stmts(l []ast.Stmt, ctx string) error {
	for _, s := range l {
		if err := w.stmt(s, ctx); err != nil {
			return err
		}
	}
	return nil
}

func (w *pfWalk) stmt(s ast.Stmt, ctx string) error {
	g := w.g
	switch x := s.(type) {
	case *ast.BlockStmt:
		return w.stmts(x.List, ctx)
	case *ast.AssignStmt:
		for _, r := range x.Rhs {
			if err := w.inlineCalls(r); err != nil {
				return err
			}
		}
		g.bindStmt(x, w.env)
	case *ast.DeclStmt:
		g.bindStmt(x, w.env)
	case *ast.ExprStmt:
		return w.inlineCalls(x.X)
	case *ast.IncDecStmt, *ast.BranchStmt, *ast.EmptyStmt:
	case *ast.RangeStmt:
		g.bindStmt(x, w.env)
		return w.stmts(x.Body.List, ctx+"for "+g.text(x.X)+": ")
	case *ast.ForStmt:
		c := ""
		if x.Cond != nil {
			c = g.text(x.Cond)
		}
		return w.stmts(x.Body.List, ctx+"for "+c+": ")
	case *ast.IfStmt:
		if x.Init != nil {
			if err := w.stmt(x.Init, ctx); err != nil {
				return err
			}
		}
		if err := w.inlineCalls(x.Cond); err != nil {
			return err
		}
		cond := g.text(x.Cond)
		if mentionsErr(x.Cond) {
			if w.lastLib == "" {
				// error of an inlined package function: its checks are already listed; only a
				// wrapper with its own message is recorded
				cond = "err(" + w.lastCall + ")"
				for _, st := range x.Body.List {
					if rs, ok := st.(*ast.ReturnStmt); ok {
						for _, r := range rs.Results {
							if msg, ok := g.errLiteral(r); ok && msg != "err" {
								w.add(strings.TrimSpace(ctx+"if "+cond), msg)
							}
						}
					}
				}
				return nil
			}
			cond = "err(" + w.lastLib + ")"
			w.lastLib = ""
		}
		if err := w.stmts(x.Body.List, ctx+"if "+cond+": "); err != nil {
			return err
		}
		if x.Else != nil {
			return w.stmt(x.Else, ctx+"else("+cond+"): ")
		}
	case *ast.SwitchStmt:
		if x.Init != nil {
			if err := w.stmt(x.Init, ctx); err != nil {
				return err
			}
		}
		tag := ""
		if x.Tag != nil {
			tag = g.text(x.Tag)
		}
		for _, cc := range x.Body.List {
			cl := cc.(*ast.CaseClause)
			label := "default"
			if cl.List != nil {
				var ls []string
				for _, e := range cl.List {
					ls = append(ls, g.text(e))
				}
				label = "case " + strings.Join(ls, ", ")
			}
			if err := w.stmts(cl.Body, ctx+"switch "+tag+" "+label+": "); err != nil {
				return err
			}
		}
	case *ast.ReturnStmt:
		for _, r := range x.Results {
			if msg, ok := g.errLiteral(r); ok {
				if msg == "err" && w.lastLib == "" && !strings.Contains(ctx, "err(") {
					return nil // propagating the error of an inlined call
				}
				w.add(strings.TrimSuffix(strings.TrimSpace(ctx), ":"), msg)
				return nil
			}
		}
		for _, r := range x.Results {
			if c, ok := r.(*ast.CallExpr); ok {
				if _, tracked := g.calleeKey(c, w.env); tracked {
					return w.inlineCalls(c)
				}
			}
		}
		// a success return that is not the last statement of the function matters for the order
		if ctx != "" {
			w.add(strings.TrimSuffix(strings.TrimSpace(ctx), ":"), "<return ok>")
		}
	default:
		return fmt.Errorf("%s: unsupported statement %T", w.key, s)
	}
	return nil
}

func (g *pcsGen) inline(key string) error {
	fd := g.funcs[key]
	if fd == nil || fd.Body == nil {
		return fmt.Errorf("no body for %s", key)
	}
	g.depth++
	defer func() { g.depth-- }()
	if g.depth > 12 {
		return fmt.Errorf("call depth exceeded at %s", key)
	}
	w := &pfWalk{g: g, key: key, env: g.funcEnv(fd)}
	return w.stmts(fd.Body.List, "")
}

// ---------------------------------------------------------------------------- driver

func leanStr(s string) string {
	var b strings.Builder
	b.WriteByte('"')
	for _, r := range s {
		switch {
		case r == '"' || r == '\\':
			b.WriteByte('\\')
			b.WriteRune(r)
		case r == '\n':
			b.WriteString("\\n")
		case r == '\t':
			b.WriteString("\\t")
		case r < 0x20 || r > 0x7e:
			b.WriteString(fmt.Sprintf("\\u{%x}", r))
		default:
			b.WriteRune(r)
		}
	}
	b.WriteByte('"')
	return b.String()
}

// applyDefaultsSkeleton lists the statements of ApplyDefaultConstraints with their nesting depth:
// the three default-filling steps must stay independent `if`s (a switch or else-chain changes it).
func (g *pcsGen) applyDefaultsSkeleton(file string) ([][2]string, error) {
	f, err := parser.ParseFile(g.fset, file, nil, 0)
	if err != nil {
		return nil, err
	}
	var fd *ast.FuncDecl
	for _, d := range f.Decls {
		if x, ok := d.(*ast.FuncDecl); ok && x.Name.Name == "ApplyDefaultConstraints" && x.Recv != nil {
			fd = x
		}
	}
	if fd == nil || fd.Body == nil {
		return nil, fmt.Errorf("ApplyDefaultConstraints not found in %s", file)
	}
	var out [][2]string
	var walk func(l []ast.Stmt, d int)
	walk = func(l []ast.Stmt, d int) {
		for _, s := range l {
			switch x := s.(type) {
			case *ast.IfStmt:
				init := ""
				if x.Init != nil {
					init = g.text(x.Init) + "; "
				}
				out = append(out, [2]string{fmt.Sprintf("if@%d", d), init + g.text(x.Cond)})
				walk(x.Body.List, d+1)
				if x.Else != nil {
					out = append(out, [2]string{fmt.Sprintf("else@%d", d), ""})
					if b, ok := x.Else.(*ast.BlockStmt); ok {
						walk(b.List, d+1)
					} else {
						walk([]ast.Stmt{x.Else}, d+1)
					}
				}
			case *ast.BlockStmt:
				walk(x.List, d)
			case *ast.AssignStmt:
				out = append(out, [2]string{fmt.Sprintf("assign@%d", d), g.text(x)})
			default:
				out = append(out, [2]string{fmt.Sprintf("%T@%d", s, d), g.text(s)})
			}
		}
	}
	walk(fd.Body.List, 0)
	return out, nil
}

// stmtSkeleton lists every statement of a function with its nesting depth, in source order:
// (kind@depth, text). Conditions, range expressions, loop bounds, declarations, assignments and
// returns are kept verbatim (comments are not part of the syntax tree), so a changed comparison,
// offset rule, loop bound or early return changes the table.
func (g *pcsGen) stmtSkeleton(key string) ([][2]string, error) {
	return g.stmtSkeletonOf(key, g.funcs[key])
}

// fileFuncs parses one more Go file and returns its functions keyed "Recv.Name" / "Name".
func (g *pcsGen) fileFuncs(file string) (map[string]*ast.FuncDecl, error) {
	f, err := parser.ParseFile(g.fset, file, nil, 0)
	if err != nil {
		return nil, err
	}
	out := map[string]*ast.FuncDecl{}
	for _, d := range f.Decls {
		if x, ok := d.(*ast.FuncDecl); ok {
			key := x.Name.Name
			if x.Recv != nil && len(x.Recv.List) == 1 {
				key = deref(g.typeStr(x.Recv.List[0].Type, "")) + "." + key
			}
			out[key] = x
		}
	}
	return out, nil
}

func (g *pcsGen) stmtSkeletonOf(key string, fd *ast.FuncDecl) ([][2]string, error) {
	if fd == nil || fd.Body == nil {
		return nil, fmt.Errorf("no body for %s", key)
	}
	var out [][2]string
	add := func(kind string, d int, text string) { out = append(out, [2]string{fmt.Sprintf("%s@%d", kind, d), text}) }
	var walk func(l []ast.Stmt, d int) error
	walk = func(l []ast.Stmt, d int) error {
		for _, s := range l {
			switch x := s.(type) {
			case *ast.BlockStmt:
				if err := walk(x.List, d); err != nil {
					return err
				}
			case *ast.IfStmt:
				init := ""
				if x.Init != nil {
					init = g.text(x.Init) + "; "
				}
				add("if", d, init+g.text(x.Cond))
				if err := walk(x.Body.List, d+1); err != nil {
					return err
				}
				if x.Else != nil {
					add("else", d, "")
					if b, ok := x.Else.(*ast.BlockStmt); ok {
						if err := walk(b.List, d+1); err != nil {
							return err
						}
					} else if err := walk([]ast.Stmt{x.Else}, d+1); err != nil {
						return err
					}
				}
			case *ast.RangeStmt:
				kv := ""
				if x.Key != nil {
					kv = g.text(x.Key)
					if x.Value != nil {
						kv += ", " + g.text(x.Value)
					}
					kv += " " + x.Tok.String() + " "
				}
				add("range", d, kv+"range "+g.text(x.X))
				if err := walk(x.Body.List, d+1); err != nil {
					return err
				}
			case *ast.ForStmt:
				var parts []string
				for _, n := range []ast.Node{x.Init, x.Cond, x.Post} {
					if n == nil || n == ast.Node((*ast.ExprStmt)(nil)) {
						parts = append(parts, "")
						continue
					}
					parts = append(parts, g.text(n))
				}
				add("for", d, strings.Join(parts, "; "))
				if err := walk(x.Body.List, d+1); err != nil {
					return err
				}
			case *ast.SwitchStmt:
				init, tag := "", ""
				if x.Init != nil {
					init = g.text(x.Init) + "; "
				}
				if x.Tag != nil {
					tag = g.text(x.Tag)
				}
				add("switch", d, init+tag)
				for _, cc := range x.Body.List {
					cl := cc.(*ast.CaseClause)
					if cl.List == nil {
						add("default", d, "")
					} else {
						var ls []string
						for _, e := range cl.List {
							ls = append(ls, g.text(e))
						}
						add("case", d, strings.Join(ls, ", "))
					}
					if err := walk(cl.Body, d+1); err != nil {
						return err
					}
				}
			case *ast.AssignStmt:
				add("assign", d, g.text(x))
			case *ast.DeclStmt:
				add("decl", d, g.text(x))
			case *ast.ReturnStmt:
				add("return", d, g.text(x))
			case *ast.BranchStmt:
				add("branch", d, g.text(x))
			case *ast.ExprStmt:
				add("expr", d, g.text(x))
			case *ast.IncDecStmt:
				add("incdec", d, g.text(x))
			case *ast.EmptyStmt:
			default:
				return fmt.Errorf("%s: unsupported statement %T in skeleton", key, s)
			}
		}
		return nil
	}
	add("func", 0, g.text(fd.Type))
	if err := walk(fd.Body.List, 1); err != nil {
		return nil, err
	}
	return out, nil
}

// pfSkeletonFuncs are the pure decision functions of tcb.go whose statement skeleton is pinned.
var pfSkeletonFuncs = []string{"QuoteBundle.Verify", "TCBLevel.matches", "TCBInfo.getTCBLevel", "TCBInfo.validateTCBLevel", "TCBInfo.validateFMSPC",
	"TCBInfo.validate", "QEIdentity.validate", "QEIdentity.verify"}

func genPcsFacts(repo, out string, _ []string) error {
	dir := filepath.Join(repo, "go", "common", "sgx", "pcs")
	g := &pcsGen{fset: token.NewFileSet(), structs: map[string][]pfStructField{}, funcs: map[string]*ast.FuncDecl{},
		results: map[string][]string{}, uses: map[string]map[string]bool{}}
	files := []string{"quote.go", "tcb.go", "policy.go", "pcs.go", "report.go", "certificates.go"}
	var decls []*ast.FuncDecl
	for _, fn := range files {
		f, err := parser.ParseFile(g.fset, filepath.Join(dir, fn), nil, 0)
		if err != nil {
			return err
		}
		for _, d := range f.Decls {
			switch x := d.(type) {
			case *ast.GenDecl:
				if x.Tok != token.TYPE {
					continue
				}
				for _, sp := range x.Specs {
					ts := sp.(*ast.TypeSpec)
					if st, ok := ts.Type.(*ast.StructType); ok {
						g.addStruct(ts.Name.Name, st)
					}
				}
			case *ast.FuncDecl:
				key := x.Name.Name
				if x.Recv != nil && len(x.Recv.List) == 1 {
					key = deref(g.typeStr(x.Recv.List[0].Type, "")) + "." + key
				}
				g.funcs[key] = x
				var rs []string
				if x.Type.Results != nil {
					for _, r := range x.Type.Results.List {
						n := len(r.Names)
						if n == 0 {
							n = 1
						}
						for i := 0; i < n; i++ {
							rs = append(rs, g.typeStr(r.Type, ""))
						}
					}
				}
				g.results[key] = rs
				decls = append(decls, x)
			}
		}
	}
	for iface, impls := range pfIfaceImpl {
		for _, t := range impls {
			if _, ok := g.structs[t]; !ok {
				return fmt.Errorf("implementation %s of %s not found", t, iface)
			}
		}
	}
	// 1. decision sequence
	if err := g.inline("Quote.Verify"); err != nil {
		return err
	}
	if len(g.checks) < 40 {
		return fmt.Errorf("decision sequence suspiciously short: %d entries", len(g.checks))
	}
	// 2. field uses
	for _, fd := range decls {
		if fd.Body == nil || pfSkipFuncs[fd.Name.Name] {
			continue
		}
		key := fd.Name.Name
		if fd.Recv != nil && len(fd.Recv.List) == 1 {
			key = deref(g.typeStr(fd.Recv.List[0].Type, "")) + "." + key
		}
		if err := g.scanUses(key, fd); err != nil {
			return err
		}
	}
	tracked := []string{"Quote", "QuoteHeaderV3", "QuoteHeaderV4", "SgxReport", "TdReport", "QuoteSignatureECDSA_P256",
		"CertificationData_QEReport", "CertificationData_PPID", "CertificationData_PCKCertificateChain", "PCKInfo",
		"QuoteBundle", "TCBBundle", "SignedTCBInfo", "SignedQEIdentity", "TCBInfo", "TDXModule", "TDXModuleIdentity",
		"TCBLevel", "TCBLevel.TCB", "TCBComponent", "QEIdentity", "EnclaveTCBLevel", "EnclaveTCBLevel.TCB",
		"QuotePolicy", "TdxQuotePolicy", "TdxModulePolicy"}
	var b strings.Builder
	b.WriteString("/- GENERATED by /verif/tools/gen pcsfacts from the working tree of /repo. Do not edit. -/\n")
	b.WriteString("namespace Generated.PcsFacts\n\n")
	b.WriteString("/-- Decision sequence of (*Quote).Verify with the package's own calls inlined:\n(function, path condition of the return, first string literal of the error or `<return ok>`). -/\n")
	b.WriteString("def checks : List (String × String × String) := [\n")
	for i, c := range g.checks {
		sep := ","
		if i == len(g.checks)-1 {
			sep = ""
		}
		b.WriteString(fmt.Sprintf("  (%s, %s, %s)%s\n", leanStr(c[0]), leanStr(c[1]), leanStr(c[2]), sep))
	}
	b.WriteString("]\n\n")
	b.WriteString("/-- (structure, field, functions that read the field outside (un)marshalling and error values). -/\n")
	b.WriteString("def fieldUses : List (String × String × List String) := [\n")
	var rows []string
	for _, st := range tracked {
		fs, ok := g.structs[st]
		if !ok {
			return fmt.Errorf("tracked structure %s not found", st)
		}
		for _, f := range fs {
			if f.name == "<embedded>" {
				continue
			}
			var us []string
			for k := range g.uses[st+"."+f.name] {
				us = append(us, leanStr(k))
			}
			sort.Strings(us)
			rows = append(rows, fmt.Sprintf("  (%s, %s, [%s])", leanStr(st), leanStr(f.name), strings.Join(us, ", ")))
		}
	}
	b.WriteString(strings.Join(rows, ",\n"))
	b.WriteString("\n]\n\n")
	// 3. statement skeleton of (*TEEFeaturesSGX).ApplyDefaultConstraints (go/common/node/tee.go)
	skel, err := g.applyDefaultsSkeleton(filepath.Join(repo, "go", "common", "node", "tee.go"))
	if err != nil {
		return err
	}
	b.WriteString("/-- Statement skeleton of (*TEEFeaturesSGX).ApplyDefaultConstraints: (kind@depth, text), in source order. -/\n")
	b.WriteString("def applyDefaultConstraints : List (String × String) := [\n")
	for i, e := range skel {
		sep := ","
		if i == len(skel)-1 {
			sep = ""
		}
		b.WriteString(fmt.Sprintf("  (%s, %s)%s\n", leanStr(e[0]), leanStr(e[1]), sep))
	}
	b.WriteString("]\n\n")
	// 4. statement skeletons of the TCB decision functions (go/common/sgx/pcs/tcb.go)
	b.WriteString("/-- Statement skeletons of the TCB decision functions of tcb.go: (function, [(kind@depth, text)]), in source order. -/\n")
	b.WriteString("def tcbSkeletons : List (String × List (String × String)) := [\n")
	type skelT struct {
		key string
		fd  *ast.FuncDecl
	}
	var skels []skelT
	for _, key := range pfSkeletonFuncs {
		skels = append(skels, skelT{key, g.funcs[key]})
	}
	// node registration side: go/common/node/sgx.go and go/common/sgx/quote/quote.go
	for _, ff := range []struct {
		file string
		keys []string
	}{
		{filepath.Join(repo, "go", "common", "node", "sgx.go"), []string{"SGXConstraints.ValidateBasic", "SGXAttestation.Verify", "SGXAttestation.verifyAttestationSignature"}},
		{filepath.Join(repo, "go", "common", "sgx", "quote", "quote.go"), []string{"Quote.Verify", "Policy.Validate"}},
	} {
		fs, err := g.fileFuncs(ff.file)
		if err != nil {
			return err
		}
		for _, k := range ff.keys {
			skels = append(skels, skelT{filepath.Base(filepath.Dir(ff.file)) + "/" + k, fs[k]})
		}
	}
	for i, sk0 := range skels {
		key := sk0.key
		sk, err := g.stmtSkeletonOf(key, sk0.fd)
		if err != nil {
			return err
		}
		b.WriteString(fmt.Sprintf("  (%s, [\n", leanStr(key)))
		for j, e := range sk {
			sep := ","
			if j == len(sk)-1 {
				sep = ""
			}
			b.WriteString(fmt.Sprintf("    (%s, %s)%s\n", leanStr(e[0]), leanStr(e[1]), sep))
		}
		sep := ","
		if i == len(skels)-1 {
			sep = ""
		}
		b.WriteString("  ])" + sep + "\n")
	}
	b.WriteString("]\n\nend Generated.PcsFacts\n")
	return os.WriteFile(out, []byte(b.String()), 0o644)
}
