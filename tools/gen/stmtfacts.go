// stmtfacts: statement-level pins of hand-modelled functions.
//
// usage: gen stmtfacts -repo /repo -out Generated/StmtFacts_<group>.lean <group>
//
// For every function of the group the body is flattened into one line per simple statement (go/printer
// text, comments and layout dropped, markers for if / else / for / switch / case blocks; the flattener
// of mkvscachefacts.go). A Lean proof file pins each list next to the model that transcribes the
// function (`rfl`): any change of a statement, a condition or of the ORDER of statements breaks the
// pin until the new text has been read against the model. A function that does not exist or contains
// a construct the flattener does not know makes the generator fail.
package main

import (
	"fmt"
	"go/parser"
	"go/token"
	"os"
	"path/filepath"
	"strings"
)

func init() { kinds["stmtfacts"] = genStmtFacts }

type stmtTarget struct{ file, recv, fn, name string }

var stmtGroups = map[string][]stmtTarget{
	// C11: round-timer bookkeeping of the roothash application (OasisModel/Roothash/Timer.lean)
	"roothashtimer": {
		{"go/consensus/cometbft/apps/roothash/timeout.go", "Application", "processRoundTimeouts", "processRoundTimeouts"},
		{"go/consensus/cometbft/apps/roothash/timeout.go", "Application", "processRoundTimeout", "processRoundTimeout"},
		{"go/consensus/cometbft/apps/roothash/timeout.go", "", "rearmRoundTimeout", "rearmRoundTimeout"},
		{"go/consensus/cometbft/apps/roothash/roothash.go", "Application", "EndBlock", "endBlock"},
		{"go/consensus/cometbft/apps/roothash/finalization.go", "Application", "tryFinalizeRounds", "tryFinalizeRounds"},
	},
	// C12: the two-phase RestoreChunk of the checkpoint restorer (OasisModel/Mkvs/Chunk.lean rsStart / rsFinish)
	"restorer": {
		{"go/storage/mkvs/checkpoint/restorer.go", "restorer", "StartRestore", "startRestore"},
		{"go/storage/mkvs/checkpoint/restorer.go", "restorer", "AbortRestore", "abortRestore"},
		{"go/storage/mkvs/checkpoint/restorer.go", "restorer", "RestoreChunk", "restoreChunk"},
	},
	// C16: the response dispatcher of the runtime host protocol (OasisModel/Rhp/Dispatch.lean)
	"rhp": {
		{"go/runtime/host/protocol/connection.go", "connection", "call", "call"},
		{"go/runtime/host/protocol/connection.go", "connection", "handleMessage", "handleMessage"},
		{"go/runtime/host/protocol/connection.go", "connection", "workerIncoming", "workerIncoming"},
	},
	// C01: the multiplexer's time source on the delivery path (EpochChanged / GetEpoch of the block being
	// executed): the beacon service client's methods the abci package calls, and the callers
	"timesource": {
		{"go/consensus/cometbft/beacon/beacon.go", "ServiceClient", "GetBaseEpoch", "getBaseEpoch"},
		{"go/consensus/cometbft/beacon/beacon.go", "ServiceClient", "GetEpoch", "getEpoch"},
		{"go/consensus/cometbft/beacon/beacon.go", "ServiceClient", "GetFutureEpoch", "getFutureEpoch"},
		{"go/consensus/cometbft/abci/state.go", "applicationState", "EpochChanged", "epochChanged"},
		{"go/consensus/cometbft/abci/state.go", "applicationState", "GetEpoch", "stateGetEpoch"},
		{"go/consensus/cometbft/abci/state.go", "applicationState", "GetCurrentEpoch", "getCurrentEpoch"},
	},
	// C14: the election entry point: the before-schedule notification (whose subscribers freeze / suspend
	// nodes for this very election) precedes every read of node statuses
	"schedulerelect": {
		{"go/consensus/cometbft/apps/scheduler/scheduler.go", "Application", "elect", "elect"},
	},
	// C10: the key manager's epoch-transition status computation (OasisModel/Keymanager/Status.lean)
	"kmstatus": {
		{"go/consensus/cometbft/apps/keymanager/secrets/status.go", "", "generateStatus", "generateStatus"},
	},
	// C16: the consumers of a check-tx batch response of the untrusted runtime (OasisModel/Rhp/CheckTx.lean)
	"checktx": {
		{"go/runtime/host/helpers.go", "richRuntime", "CheckTx", "richCheckTx"},
		{"go/runtime/txpool/txpool.go", "txPool", "checkTxBatch", "checkTxBatch"},
	},
	// C13: commit, failed commit and retry (OasisModel/Mkvs/CommitRetry.lean)
	"commit": {
		{"go/storage/mkvs/commit.go", "tree", "commitWithHooks", "commitWithHooks"},
		{"go/storage/mkvs/commit.go", "tree", "CommitKnown", "commitKnown"},
	},
	// C01: the node-local upgrade manager consulted by the multiplexer in BeginBlock / EndBlock / Commit
	// (OasisModel/Upgrade/Manager.lean)
	"upgrademgr": {
		{"go/upgrade/upgrade.go", "upgradeManager", "ConsensusUpgrade", "consensusUpgrade"},
		{"go/upgrade/upgrade.go", "upgradeManager", "flushDescriptorLocked", "flushDescriptorLocked"},
		{"go/upgrade/api/api.go", "PendingUpgrade", "PushStage", "pushStage"},
		{"go/upgrade/api/api.go", "PendingUpgrade", "IsCompleted", "isCompleted"},
	},
	// C06: the multipart (checkpoint restore) write path of the badger backend
	// (OasisModel/NodeDB/BadgerRestore.lean)
	"badgermultipart": {
		{"go/storage/mkvs/db/badger/badger.go", "badgerBatch", "PutNode", "putNode"},
		{"go/storage/mkvs/db/badger/badger.go", "badgerNodeDB", "StartMultipartInsert", "startMultipartInsert"},
	},
	// C19: the trusted light-block store the stateless Core's "latest trusted height" comes from
	// (production wrapper around the CometBFT store; OasisModel/Stateless/Verify.lean takes the store's
	// last height as THE latest trusted height)
	"lightstore": {
		{"go/consensus/cometbft/light/store.go", "prunedStore", "LastLightBlockHeight", "lastLightBlockHeight"},
		{"go/consensus/cometbft/light/store.go", "prunedStore", "SaveLightBlock", "saveLightBlock"},
		{"go/consensus/cometbft/light/store.go", "prunedStore", "LightBlock", "lightBlock"},
		{"go/consensus/cometbft/light/store.go", "prunedStore", "DeleteLightBlock", "deleteLightBlock"},
		{"go/consensus/cometbft/light/client.go", "Client", "LastTrustedHeight", "lastTrustedHeight"},
	},
	// C16: nil-ness flow of the quote policy from the (untrusted) TEE constraints blob to quote verification
	// (OasisModel/Tee/PolicyFlow.lean)
	"teepolicy": {
		{"go/common/sgx/quote/quote.go", "Quote", "Verify", "quoteVerify"},
		{"go/common/node/tee.go", "TEEFeaturesSGX", "ApplyDefaultConstraints", "applyDefaultConstraints"},
	},
	// C04: lookup with a proof builder (OasisModel/Mkvs/Proof.lean doGet inclusion, ProofPosition.lean)
	"lookup": {
		{"go/storage/mkvs/lookup.go", "tree", "doGet", "doGet"},
		{"go/storage/mkvs/syncer/proof.go", "ProofBuilder", "Build", "proofBuild"},
		{"go/storage/mkvs/syncer/proof.go", "ProofBuilder", "Include", "proofInclude"},
	},
	// C05/C15: the reward and debonding loops whose deferred writes the ledger model mirrors
	"stakingloops": {
		{"go/consensus/cometbft/apps/staking/state/state.go", "MutableState", "AddRewards", "addRewards"},
		{"go/consensus/cometbft/apps/staking/staking.go", "Application", "onEpochChange", "onEpochChange"},
	},
}

func genStmtFacts(repo, out string, args []string) error {
	if len(args) != 1 {
		return fmt.Errorf("stmtfacts: exactly one group argument expected")
	}
	group := args[0]
	targets, ok := stmtGroups[group]
	if !ok {
		return fmt.Errorf("stmtfacts: unknown group %q", group)
	}
	x := &cacheX{fset: token.NewFileSet()}
	var b strings.Builder
	ns := "Generated.StmtFacts." + strings.ToUpper(group[:1]) + group[1:]
	fmt.Fprintf(&b, "-- GENERATED by tools/gen stmtfacts %s from /repo. Do not edit.\nnamespace %s\n\n", group, ns)
	for _, t := range targets {
		f, err := parser.ParseFile(x.fset, filepath.Join(repo, t.file), nil, 0)
		if err != nil {
			return err
		}
		fd := slFindFunc(f, t.recv, t.fn)
		if fd == nil || fd.Body == nil {
			return fmt.Errorf("%s: %s.%s not found", t.file, t.recv, t.fn)
		}
		var ls []string
		if err := x.lines(fd.Body.List, &ls); err != nil {
			return fmt.Errorf("%s.%s: %v", t.recv, t.fn, err)
		}
		fmt.Fprintf(&b, "/-- %s: %s.%s -/\n", t.file, t.recv, t.fn)
		b.WriteString(leanStrList(t.name+"Stmts", ls))
		b.WriteString("\n")
	}
	fmt.Fprintf(&b, "end %s\n", ns)
	return os.WriteFile(out, []byte(b.String()), 0o644)
}
