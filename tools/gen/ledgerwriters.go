// ledgerwriters: which methods of the staking ledger's mutable state are called from OUTSIDE the
// staking application (property C05).
//
// The ledger model (OasisModel/Staking/Ledger.lean) has one operation per exported mover of
// go/consensus/cometbft/apps/staking/state (Transfer, SlashEscrow, TransferFromCommon, AddRewards,
// governance deposit moves, ...).  Its theorems cover the other applications only as long as those
// applications touch the ledger through these movers.  This extractor lists, per application
// directory under go/consensus/cometbft/apps (staking itself excluded), the methods that are
// called on a value of type *stakingState.MutableState:
//   - a variable assigned from <alias>.NewMutableState(...) where <alias> imports .../apps/staking/state,
//   - a parameter / field / variable declared with type *<alias>.MutableState,
//   - a direct chain <alias>.NewMutableState(...).M(...).
// and that are declared with receiver *MutableState in the staking state package (so reads through
// the embedded ImmutableState are not listed).  A selector call on a receiver the extractor cannot
// classify is not listed: the extractor is a syntactic over-approximation only for the shapes above
// (trusted, see DESIGN).
package main

import (
	"fmt"
	"go/ast"
	"go/parser"
	"go/token"
	"os"
	"path/filepath"
	"sort"
	"strings"
)

func init() { kinds["ledgerwriters"] = genLedgerWriters }

const stakingStatePkg = "github.com/oasisprotocol/oasis-core/go/consensus/cometbft/apps/staking/state"

func genLedgerWriters(repo, out string, _ []string) error {
	fset := token.NewFileSet()
	stateDir := filepath.Join(repo, "go/consensus/cometbft/apps/staking/state")
	// 1. methods with receiver *MutableState in the staking state package
	mut := map[string]bool{}
	ents, err := os.ReadDir(stateDir)
	if err != nil {
		return err
	}
	for _, e := range ents {
		if e.IsDir() || !strings.HasSuffix(e.Name(), ".go") || strings.HasSuffix(e.Name(), "_test.go") {
			continue
		}
		f, err := parser.ParseFile(fset, filepath.Join(stateDir, e.Name()), nil, 0)
		if err != nil {
			return err
		}
		for _, d := range f.Decls {
			fd, ok := d.(*ast.FuncDecl)
			if !ok || fd.Recv == nil || len(fd.Recv.List) != 1 {
				continue
			}
			if st, ok := fd.Recv.List[0].Type.(*ast.StarExpr); ok {
				if id, ok := st.X.(*ast.Ident); ok && id.Name == "MutableState" {
					mut[fd.Name.Name] = true
				}
			}
		}
	}
	if len(mut) < 10 {
		return fmt.Errorf("only %d *MutableState methods found in %s", len(mut), stateDir)
	}
	// 2. callers in the other applications
	appsDir := filepath.Join(repo, "go/consensus/cometbft/apps")
	type pair struct{ app, method string }
	seen := map[pair]bool{}
	files := 0
	err = filepath.Walk(appsDir, func(p string, info os.FileInfo, err error) error {
		if err != nil {
			return err
		}
		rel, _ := filepath.Rel(appsDir, p)
		if info.IsDir() {
			if rel == "staking" {
				return filepath.SkipDir
			}
			return nil
		}
		if !strings.HasSuffix(p, ".go") || strings.HasSuffix(p, "_test.go") {
			return nil
		}
		f, err := parser.ParseFile(fset, p, nil, 0)
		if err != nil {
			return err
		}
		alias := ""
		for _, im := range f.Imports {
			if strings.Trim(im.Path.Value, `"`) == stakingStatePkg {
				alias = "state"
				if im.Name != nil {
					alias = im.Name.Name
				}
			}
		}
		if alias == "" {
			return nil
		}
		files++
		app := strings.Split(rel, string(filepath.Separator))[0]
		isNew := func(e ast.Expr) bool {
			c, ok := e.(*ast.CallExpr)
			if !ok {
				return false
			}
			s, ok := c.Fun.(*ast.SelectorExpr)
			if !ok || s.Sel.Name != "NewMutableState" {
				return false
			}
			id, ok := s.X.(*ast.Ident)
			return ok && id.Name == alias
		}
		isMutType := func(e ast.Expr) bool {
			st, ok := e.(*ast.StarExpr)
			if !ok {
				return false
			}
			s, ok := st.X.(*ast.SelectorExpr)
			if !ok || s.Sel.Name != "MutableState" {
				return false
			}
			id, ok := s.X.(*ast.Ident)
			return ok && id.Name == alias
		}
		vars := map[string]bool{}
		ast.Inspect(f, func(n ast.Node) bool {
			switch x := n.(type) {
			case *ast.AssignStmt:
				if len(x.Lhs) == len(x.Rhs) {
					for i, r := range x.Rhs {
						if id, ok := x.Lhs[i].(*ast.Ident); ok && isNew(r) {
							vars[id.Name] = true
						}
					}
				}
			case *ast.ValueSpec:
				for i, nm := range x.Names {
					if (x.Type != nil && isMutType(x.Type)) || (i < len(x.Values) && isNew(x.Values[i])) {
						vars[nm.Name] = true
					}
				}
			case *ast.Field:
				if isMutType(x.Type) {
					for _, nm := range x.Names {
						vars[nm.Name] = true
					}
				}
			}
			return true
		})
		ast.Inspect(f, func(n ast.Node) bool {
			c, ok := n.(*ast.CallExpr)
			if !ok {
				return true
			}
			s, ok := c.Fun.(*ast.SelectorExpr)
			if !ok || !mut[s.Sel.Name] {
				return true
			}
			recv := false
			switch r := s.X.(type) {
			case *ast.Ident:
				recv = vars[r.Name]
			case *ast.SelectorExpr: // x.field
				recv = vars[r.Sel.Name]
			case *ast.CallExpr:
				recv = isNew(r)
			}
			if recv {
				seen[pair{app, s.Sel.Name}] = true
			}
			return true
		})
		return nil
	})
	if err != nil {
		return err
	}
	if files == 0 {
		return fmt.Errorf("no application file imports %s", stakingStatePkg)
	}
	var ps []pair
	for p := range seen {
		ps = append(ps, p)
	}
	sort.Slice(ps, func(i, j int) bool {
		if ps[i].app != ps[j].app {
			return ps[i].app < ps[j].app
		}
		return ps[i].method < ps[j].method
	})
	var ms []string
	for m := range mut {
		ms = append(ms, m)
	}
	sort.Strings(ms)
	var b strings.Builder
	b.WriteString("/- GENERATED by tools/gen ledgerwriters from /repo's working tree. Do not edit. -/\nnamespace Generated.LedgerWriters\n\n")
	b.WriteString("/-- methods declared with receiver *MutableState in apps/staking/state -/\ndef mutableMethods : List String := [\n")
	for i, m := range ms {
		sep := ","
		if i == len(ms)-1 {
			sep = ""
		}
		fmt.Fprintf(&b, "  %q%s\n", m, sep)
	}
	b.WriteString("]\n\n/-- (application, method) pairs: mutable staking-state methods called from other applications -/\ndef externalCalls : List (String × String) := [\n")
	for i, p := range ps {
		sep := ","
		if i == len(ps)-1 {
			sep = ""
		}
		fmt.Fprintf(&b, "  (%q, %q)%s\n", p.app, p.method, sep)
	}
	b.WriteString("]\n\nend Generated.LedgerWriters\n")
	return os.WriteFile(out, []byte(b.String()), 0o644)
}
