// gen: extractors and translators that regenerate lean/Generated/*.lean from /repo's
// current working tree (the "regenerated" tie of DESIGN.md §4.2).
//
// usage: gen <kind> -repo /repo -out <file.lean> [args]
//
// Each kind lives in its own file and registers itself in `kinds` from init().
// A generator that meets source outside its supported subset must fail (non-zero exit),
// never skip silently.
package main

import (
	"flag"
	"fmt"
	"os"
	"sort"
)

type genFunc func(repo, out string, args []string) error

var kinds = map[string]genFunc{}

func main() {
	if len(os.Args) < 2 {
		usage()
	}
	kind := os.Args[1]
	fs := flag.NewFlagSet(kind, flag.ExitOnError)
	repo := fs.String("repo", "/repo", "repository root")
	out := fs.String("out", "", "output Lean file")
	_ = fs.Parse(os.Args[2:])
	f, ok := kinds[kind]
	if !ok {
		usage()
	}
	if err := f(*repo, *out, fs.Args()); err != nil {
		fmt.Fprintf(os.Stderr, "gen %s: %v\n", kind, err)
		os.Exit(1)
	}
}

func usage() {
	ks := make([]string, 0, len(kinds))
	for k := range kinds {
		ks = append(ks, k)
	}
	sort.Strings(ks)
	fmt.Fprintf(os.Stderr, "usage: gen <kind> -repo DIR -out FILE\nkinds: %v\n", ks)
	os.Exit(2)
}
