// appstate: process-local mutable state of the consensus applications (property C01).
//
// Replicas agree only if block execution is a function of the consensus state and the block. Anything
// an application object keeps IN MEMORY across calls (a cache, a counter, a memoised lookup) is state
// that a replica restarted from disk or restored from a checkpoint does not have. This extractor lists,
// for every type in go/consensus/cometbft/apps/** that has a BeginBlock / EndBlock / ExecuteTx /
// ExecuteMessage method (the applications and their backends/extensions):
//   appStateFields  — every field of the struct, "pkgdir.Type.field : type"
//   appStateWrites  — every statement in a method of such a type that writes through the receiver
//                     (assignment, ++/--, delete(recv.x, …), append into a receiver field),
//                     "pkgdir.Type.method: stmt"
// OasisProofs/Props/C01.lean pins both lists with a classification of every entry (configuration set
// at construction / wiring done once in OnRegister / node-local service handle): a new field or a new
// write through the receiver breaks the build. go/ast only.
package main

import (
	"fmt"
	"go/ast"
	"go/parser"
	"go/token"
	"os"
	"path/filepath"
	"sort"
	"strings"
)

type asFile struct {
	fset *token.FileSet
	f    *ast.File
	src  []byte
	dir  string // package dir relative to apps/
}

func (m *asFile) text(n ast.Node) string {
	s := string(m.src[m.fset.Position(n.Pos()).Offset:m.fset.Position(n.End()).Offset])
	return strings.Join(strings.Fields(s), " ")
}

func asRecvType(fd *ast.FuncDecl) (recv, typ string) {
	if fd.Recv == nil || len(fd.Recv.List) != 1 {
		return "", ""
	}
	f := fd.Recv.List[0]
	if len(f.Names) == 1 {
		recv = f.Names[0].Name
	}
	t := f.Type
	if s, ok := t.(*ast.StarExpr); ok {
		t = s.X
	}
	if id, ok := t.(*ast.Ident); ok {
		typ = id.Name
	}
	return
}

// rootIdent strips selectors, indexes, stars and parentheses.
func asRoot(e ast.Expr) (string, bool) {
	depth := 0
	for {
		switch x := e.(type) {
		case *ast.SelectorExpr:
			e = x.X
			depth++
		case *ast.IndexExpr:
			e = x.X
			depth++
		case *ast.StarExpr:
			e = x.X
		case *ast.ParenExpr:
			e = x.X
		case *ast.Ident:
			return x.Name, depth > 0
		default:
			return "", false
		}
	}
}

func appStateFacts(repo string) (fields, writes []string, err error) {
	root := filepath.Join(repo, "go", "consensus", "cometbft", "apps")
	var files []*asFile
	err = filepath.Walk(root, func(p string, info os.FileInfo, e error) error {
		if e != nil {
			return e
		}
		if info.IsDir() || !strings.HasSuffix(p, ".go") || strings.HasSuffix(p, "_test.go") || strings.Contains(filepath.Base(p), "verif") {
			return nil
		}
		src, e := os.ReadFile(p)
		if e != nil {
			return e
		}
		fset := token.NewFileSet()
		f, e := parser.ParseFile(fset, p, src, 0)
		if e != nil {
			return e
		}
		rel, _ := filepath.Rel(root, filepath.Dir(p))
		files = append(files, &asFile{fset, f, src, filepath.ToSlash(rel)})
		return nil
	})
	if err != nil {
		return
	}
	// application types: "dir.Type"
	hooks := map[string]bool{"BeginBlock": true, "EndBlock": true, "ExecuteTx": true, "ExecuteMessage": true}
	appType := map[string]bool{}
	for _, m := range files {
		for _, d := range m.f.Decls {
			if fd, ok := d.(*ast.FuncDecl); ok && hooks[fd.Name.Name] {
				if _, t := asRecvType(fd); t != "" {
					appType[m.dir+"."+t] = true
				}
			}
		}
	}
	for _, m := range files {
		for _, d := range m.f.Decls {
			switch x := d.(type) {
			case *ast.GenDecl:
				for _, s := range x.Specs {
					ts, ok := s.(*ast.TypeSpec)
					if !ok || !appType[m.dir+"."+ts.Name.Name] {
						continue
					}
					st, ok := ts.Type.(*ast.StructType)
					if !ok {
						continue
					}
					for _, f := range st.Fields.List {
						names := []string{"(embedded)"}
						if len(f.Names) > 0 {
							names = nil
							for _, n := range f.Names {
								names = append(names, n.Name)
							}
						}
						for _, n := range names {
							fields = append(fields, fmt.Sprintf("%s.%s.%s : %s", m.dir, ts.Name.Name, n, m.text(f.Type)))
						}
					}
				}
			case *ast.FuncDecl:
				recv, typ := asRecvType(x)
				if recv == "" || recv == "_" || !appType[m.dir+"."+typ] || x.Body == nil {
					continue
				}
				where := fmt.Sprintf("%s.%s.%s", m.dir, typ, x.Name.Name)
				ast.Inspect(x.Body, func(n ast.Node) bool {
					switch s := n.(type) {
					case *ast.AssignStmt:
						for _, l := range s.Lhs {
							if r, deep := asRoot(l); r == recv && deep {
								writes = append(writes, where+": "+m.text(s))
								break
							}
						}
					case *ast.IncDecStmt:
						if r, deep := asRoot(s.X); r == recv && deep {
							writes = append(writes, where+": "+m.text(s))
						}
					case *ast.CallExpr:
						if id, ok := s.Fun.(*ast.Ident); ok && (id.Name == "delete" || id.Name == "clear") && len(s.Args) > 0 {
							if r, deep := asRoot(s.Args[0]); r == recv && deep {
								writes = append(writes, where+": "+m.text(s))
							}
						}
					}
					return true
				})
			}
		}
	}
	sort.Strings(fields)
	sort.Strings(writes)
	return
}

// blockCtxFacts: every use of the per-block context (`<x>.BlockContext()`) in the consensus layer —
// the only state besides the state tree that survives from DeliverTx to EndBlock — as
// "file:function: statement", and for every call of a helper that WRITES it from a transaction
// handler (RegisterRuntimeForFinalization) whether a failing return (`return … err`-like, i.e. a return
// whose last result is not the literal nil) follows the call in the same function: a failed
// transaction must not leave anything in the block context (property C08).
func blockCtxFacts(repo string) (uses, writerCalls []string, err error) {
	root := filepath.Join(repo, "go", "consensus", "cometbft")
	err = filepath.Walk(root, func(p string, info os.FileInfo, e error) error {
		if e != nil {
			return e
		}
		if info.IsDir() || !strings.HasSuffix(p, ".go") || strings.HasSuffix(p, "_test.go") || strings.Contains(filepath.Base(p), "verif") {
			return nil
		}
		src, e := os.ReadFile(p)
		if e != nil {
			return e
		}
		fset := token.NewFileSet()
		f, e := parser.ParseFile(fset, p, src, 0)
		if e != nil {
			return e
		}
		rel, _ := filepath.Rel(filepath.Join(repo, "go"), p)
		m := &asFile{fset, f, src, filepath.ToSlash(rel)}
		for _, d := range f.Decls {
			fd, ok := d.(*ast.FuncDecl)
			if !ok || fd.Body == nil {
				continue
			}
			name := fd.Name.Name
			if _, t := asRecvType(fd); t != "" {
				name = t + "." + name
			}
			if fd.Name.Name == "BlockContext" {
				continue // the accessors themselves
			}
			// uses, by innermost simple statement
			var stack []ast.Node
			ast.Inspect(fd.Body, func(n ast.Node) bool {
				if n == nil {
					stack = stack[:len(stack)-1]
					return true
				}
				stack = append(stack, n)
				if c, ok := n.(*ast.CallExpr); ok {
					if se, ok := c.Fun.(*ast.SelectorExpr); ok && se.Sel.Name == "BlockContext" && len(c.Args) == 0 {
						var st ast.Node = c
						for i := len(stack) - 1; i >= 0; i-- {
							switch stack[i].(type) {
							case *ast.AssignStmt, *ast.ExprStmt, *ast.ReturnStmt, *ast.RangeStmt, *ast.IfStmt, *ast.DeclStmt:
								st = stack[i]
								i = -1
							}
						}
						txt := m.text(st)
						if r, ok := st.(*ast.RangeStmt); ok {
							txt = "for … range " + m.text(r.X)
						}
						if i, ok := st.(*ast.IfStmt); ok {
							txt = "if " + m.text(i.Cond)
							if i.Init != nil {
								txt = "if " + m.text(i.Init) + "; " + m.text(i.Cond)
							}
						}
						uses = append(uses, fmt.Sprintf("%s:%s: %s", m.dir, name, txt))
					}
				}
				return true
			})
			// writer helper calls
			ast.Inspect(fd.Body, func(n ast.Node) bool {
				c, ok := n.(*ast.CallExpr)
				if !ok {
					return true
				}
				callee := ""
				switch fn := c.Fun.(type) {
				case *ast.SelectorExpr:
					callee = fn.Sel.Name
				case *ast.Ident:
					callee = fn.Name
				}
				if callee != "RegisterRuntimeForFinalization" || fd.Name.Name == callee {
					return true
				}
				failingAfter := false
				ast.Inspect(fd.Body, func(k ast.Node) bool {
					if _, ok := k.(*ast.FuncLit); ok {
						return false
					}
					if r, ok := k.(*ast.ReturnStmt); ok && r.Pos() > c.End() && len(r.Results) > 0 {
						if id, ok := r.Results[len(r.Results)-1].(*ast.Ident); !ok || id.Name != "nil" {
							failingAfter = true
						}
					}
					return true
				})
				writerCalls = append(writerCalls, fmt.Sprintf("%s:%s: %s failing-return-after=%v", m.dir, name, m.text(c), failingAfter))
				return true
			})
		}
		return nil
	})
	sort.Strings(uses)
	sort.Strings(writerCalls)
	return
}
