// cborfacts: regenerated facts for property C16 (the exploration part and the constants of
// the hand-written codec model):
//
//   - the cbor.DecOptions composite literals of go/common/cbor/cbor.go (strict options for
//     untrusted input) and which DecMode Unmarshal/NewDecoder/MessageReader.Read use;
//   - the defaults the pinned fxamacker/cbor version applies to options that are left unset
//     (MaxNestedLevels, MaxArrayElements, MaxMapPairs), read from the module cache;
//   - the size checks that precede decoding (abci decodeTx: MaxTxSize before cbor.Unmarshal;
//     MessageReader.Read: maxMessageSize before Decode);
//   - constants of the hand-written codecs (maxProofDepth, proof entry tags, node prefixes)
//     and the verifier's depth guard.
//
// Anything the extractor does not find makes it fail (non-zero exit), never skip.
package main

import (
	"fmt"
	"go/ast"
	"go/parser"
	"go/token"
	"os"
	"os/exec"
	"path/filepath"
	"regexp"
	"sort"
	"strconv"
	"strings"
)

func init() { kinds["cborfacts"] = genCborFacts }

func cfParseFile(path string) (*token.FileSet, *ast.File, error) {
	fset := token.NewFileSet()
	f, err := parser.ParseFile(fset, path, nil, 0)
	return fset, f, err
}

// cfIntValue evaluates integer literals and products of them (64 * 1024 * 1024), `_` separators allowed.
func cfIntValue(e ast.Expr) (uint64, bool) {
	switch x := e.(type) {
	case *ast.BasicLit:
		if x.Kind != token.INT {
			return 0, false
		}
		v, err := strconv.ParseUint(strings.ReplaceAll(x.Value, "_", ""), 0, 64)
		return v, err == nil
	case *ast.BinaryExpr:
		a, ok1 := cfIntValue(x.X)
		b, ok2 := cfIntValue(x.Y)
		if ok1 && ok2 && x.Op == token.MUL {
			return a * b, true
		}
	case *ast.ParenExpr:
		return cfIntValue(x.X)
	}
	return 0, false
}

func cfExprString(e ast.Expr) string {
	switch x := e.(type) {
	case *ast.Ident:
		return x.Name
	case *ast.SelectorExpr:
		return cfExprString(x.X) + "." + x.Sel.Name
	case *ast.BasicLit:
		return x.Value
	case *ast.CallExpr:
		args := make([]string, len(x.Args))
		for i, a := range x.Args {
			args[i] = cfExprString(a)
		}
		return cfExprString(x.Fun) + "(" + strings.Join(args, ", ") + ")"
	case *ast.StarExpr:
		return "*" + cfExprString(x.X)
	case *ast.UnaryExpr:
		return x.Op.String() + cfExprString(x.X)
	case *ast.BinaryExpr:
		return cfExprString(x.X) + " " + x.Op.String() + " " + cfExprString(x.Y)
	case *ast.ParenExpr:
		return "(" + cfExprString(x.X) + ")"
	}
	return fmt.Sprintf("<%T>", e)
}

// cfOptionLiterals returns, for every package-level `name = cbor.DecOptions{...}`, field -> value text.
func cfOptionLiterals(f *ast.File) map[string]map[string]string {
	out := map[string]map[string]string{}
	for _, d := range f.Decls {
		gd, ok := d.(*ast.GenDecl)
		if !ok || gd.Tok != token.VAR {
			continue
		}
		for _, s := range gd.Specs {
			vs := s.(*ast.ValueSpec)
			for i, n := range vs.Names {
				if i >= len(vs.Values) {
					continue
				}
				cl, ok := vs.Values[i].(*ast.CompositeLit)
				if !ok || cfExprString(cl.Type) != "cbor.DecOptions" {
					continue
				}
				m := map[string]string{}
				for _, el := range cl.Elts {
					kv, ok := el.(*ast.KeyValueExpr)
					if !ok {
						m["<positional>"] = "true"
						continue
					}
					if v, ok := cfIntValue(kv.Value); ok {
						m[cfExprString(kv.Key)] = strconv.FormatUint(v, 10)
					} else {
						m[cfExprString(kv.Key)] = cfExprString(kv.Value)
					}
				}
				out[n.Name] = m
			}
		}
	}
	return out
}

func cfFindFunc(f *ast.File, recv, name string) *ast.FuncDecl {
	for _, d := range f.Decls {
		fd, ok := d.(*ast.FuncDecl)
		if !ok || fd.Name.Name != name {
			continue
		}
		r := ""
		if fd.Recv != nil && len(fd.Recv.List) > 0 {
			r = strings.TrimPrefix(cfExprString(fd.Recv.List[0].Type), "*")
		}
		if r == recv {
			return fd
		}
	}
	return nil
}

// cfFirstPos returns the position of the first node in fn for which pred holds (or token.NoPos).
func cfFirstPos(fn *ast.FuncDecl, pred func(ast.Node) bool) token.Pos {
	pos := token.NoPos
	ast.Inspect(fn.Body, func(n ast.Node) bool {
		if n != nil && pos == token.NoPos && pred(n) {
			pos = n.Pos()
		}
		return pos == token.NoPos
	})
	return pos
}

func cfIsCall(n ast.Node, fun string) bool {
	c, ok := n.(*ast.CallExpr)
	return ok && cfExprString(c.Fun) == fun
}

var _ = cfIsCall

func cfConstInts(f *ast.File) map[string]uint64 {
	out := map[string]uint64{}
	for _, d := range f.Decls {
		gd, ok := d.(*ast.GenDecl)
		if !ok || gd.Tok != token.CONST {
			continue
		}
		for _, s := range gd.Specs {
			vs := s.(*ast.ValueSpec)
			for i, n := range vs.Names {
				if i < len(vs.Values) {
					if v, ok := cfIntValue(vs.Values[i]); ok {
						out[n.Name] = v
					}
				}
			}
		}
	}
	return out
}

func genCborFacts(repo, out string, _ []string) error {
	goDir := filepath.Join(repo, "go")
	// 1. decode option literals and the modes built from them.
	_, cf, err := cfParseFile(filepath.Join(goDir, "common/cbor/cbor.go"))
	if err != nil {
		return err
	}
	lits := cfOptionLiterals(cf)
	for _, want := range []string{"decOptions", "decOptionsTrusted", "decOptionsRPC"} {
		if _, ok := lits[want]; !ok {
			return fmt.Errorf("cbor.go: option literal %s not found", want)
		}
	}
	// mode <- options assignments in init(): `if decMode, err = decOptions.DecMode(); ...`
	modeFrom := map[string]string{}
	if fn := cfFindFunc(cf, "", "init"); fn != nil {
		ast.Inspect(fn.Body, func(n ast.Node) bool {
			as, ok := n.(*ast.AssignStmt)
			if ok && len(as.Lhs) == 2 && len(as.Rhs) == 1 {
				if c, ok := as.Rhs[0].(*ast.CallExpr); ok {
					if se, ok := c.Fun.(*ast.SelectorExpr); ok && se.Sel.Name == "DecMode" {
						modeFrom[cfExprString(as.Lhs[0])] = cfExprString(se.X)
					}
				}
			}
			return true
		})
	}
	// which mode the entry points use: the receiver of `.Unmarshal(` / `.NewDecoder(` in their bodies
	uses := map[string]string{}
	for _, name := range []string{"Unmarshal", "UnmarshalTrusted", "UnmarshalRPC", "NewDecoder", "NewDecoderRPC"} {
		fn := cfFindFunc(cf, "", name)
		if fn == nil {
			return fmt.Errorf("cbor.go: func %s not found", name)
		}
		ast.Inspect(fn.Body, func(n ast.Node) bool {
			if c, ok := n.(*ast.CallExpr); ok {
				if se, ok := c.Fun.(*ast.SelectorExpr); ok && (se.Sel.Name == "Unmarshal" || se.Sel.Name == "NewDecoder") {
					uses[name] = cfExprString(se.X)
				}
			}
			return true
		})
		if uses[name] == "" {
			return fmt.Errorf("cbor.go: %s does not call a DecMode", name)
		}
	}

	// 2. MessageReader.Read: length check before Decode; which decoder.
	fset2, codec, err := cfParseFile(filepath.Join(goDir, "common/cbor/codec.go"))
	if err != nil {
		return err
	}
	_ = fset2
	cconst := cfConstInts(codec)
	read := cfFindFunc(codec, "MessageReader", "Read")
	if read == nil {
		return fmt.Errorf("codec.go: MessageReader.Read not found")
	}
	sizeCheck := cfFirstPos(read, func(n ast.Node) bool {
		b, ok := n.(*ast.BinaryExpr)
		return ok && cfExprString(b) == "length > maxMessageSize"
	})
	decodePos := cfFirstPos(read, func(n ast.Node) bool { return cfIsCall(n, "dec.Decode") })
	readerDecoder := ""
	ast.Inspect(read.Body, func(n ast.Node) bool {
		if c, ok := n.(*ast.CallExpr); ok {
			if id, ok := c.Fun.(*ast.Ident); ok && strings.HasPrefix(id.Name, "NewDecoder") {
				readerDecoder = id.Name
			}
		}
		return true
	})
	limitReader := cfFirstPos(read, func(n ast.Node) bool { return cfIsCall(n, "io.LimitReader") })

	// 3. abci decodeTx: size limit before cbor.Unmarshal.
	_, txf, err := cfParseFile(filepath.Join(goDir, "consensus/cometbft/abci/transaction.go"))
	if err != nil {
		return err
	}
	dtx := cfFindFunc(txf, "abciMux", "decodeTx")
	if dtx == nil {
		return fmt.Errorf("transaction.go: decodeTx not found")
	}
	txSize := cfFirstPos(dtx, func(n ast.Node) bool {
		b, ok := n.(*ast.BinaryExpr)
		return ok && cfExprString(b) == "uint64(len(rawTx)) > params.MaxTxSize"
	})
	oversized := cfFirstPos(dtx, func(n ast.Node) bool {
		r, ok := n.(*ast.ReturnStmt)
		return ok && len(r.Results) == 3 && cfExprString(r.Results[2]) == "consensus.ErrOversizedTx"
	})
	txUnmarshal := cfFirstPos(dtx, func(n ast.Node) bool { return cfIsCall(n, "cbor.Unmarshal") })

	// 4. constants of the hand-written codecs and the verifier's guards.
	_, pf, err := cfParseFile(filepath.Join(goDir, "storage/mkvs/syncer/proof.go"))
	if err != nil {
		return err
	}
	pconst := cfConstInts(pf)
	_, nf, err := cfParseFile(filepath.Join(goDir, "storage/mkvs/node/node.go"))
	if err != nil {
		return err
	}
	nconst := cfConstInts(nf)
	vp := cfFindFunc(pf, "ProofVerifier", "verifyProof")
	if vp == nil {
		return fmt.Errorf("proof.go: verifyProof not found")
	}
	var guards []string
	for _, st := range vp.Body.List {
		if is, ok := st.(*ast.IfStmt); ok && is.Init == nil {
			guards = append(guards, cfExprString(is.Cond))
		}
	}
	recursive := 0
	depthArgs := map[string]bool{}
	ast.Inspect(vp.Body, func(n ast.Node) bool {
		if c, ok := n.(*ast.CallExpr); ok && cfExprString(c.Fun) == "pv.verifyProof" && len(c.Args) == 6 {
			recursive++
			depthArgs[cfExprString(c.Args[3])] = true
		}
		return true
	})
	var dargs []string
	for k := range depthArgs {
		dargs = append(dargs, k)
	}
	sort.Strings(dargs)

	// 5. defaults of the pinned fxamacker/cbor version.
	gomod, err := os.ReadFile(filepath.Join(goDir, "go.mod"))
	if err != nil {
		return err
	}
	m := regexp.MustCompile(`github.com/fxamacker/cbor/v2 (v[0-9][^\s]*)`).FindSubmatch(gomod)
	if m == nil {
		return fmt.Errorf("go.mod: fxamacker/cbor version not found")
	}
	libVer := string(m[1])
	cache, err := exec.Command("go", "env", "GOMODCACHE").Output()
	if err != nil {
		return fmt.Errorf("go env GOMODCACHE: %v", err)
	}
	libDecode := filepath.Join(strings.TrimSpace(string(cache)), "github.com/fxamacker/cbor/v2@"+libVer, "decode.go")
	_, lf, err := cfParseFile(libDecode)
	if err != nil {
		return fmt.Errorf("library source: %v", err)
	}
	lconst := cfConstInts(lf)
	var nestedDefault uint64
	ast.Inspect(lf, func(n ast.Node) bool {
		is, ok := n.(*ast.IfStmt)
		if ok && cfExprString(is.Cond) == "opts.MaxNestedLevels == 0" && len(is.Body.List) == 1 {
			if as, ok := is.Body.List[0].(*ast.AssignStmt); ok && len(as.Rhs) == 1 {
				if v, ok := cfIntValue(as.Rhs[0]); ok {
					nestedDefault = v
				}
			}
		}
		return true
	})
	if nestedDefault == 0 || lconst["defaultMaxArrayElements"] == 0 || lconst["defaultMaxMapPairs"] == 0 {
		return fmt.Errorf("library defaults not found in %s", libDecode)
	}

	// ---- emit
	var b strings.Builder
	b.WriteString("-- GENERATED by tools/gen cborfacts from /repo's working tree. Do not edit.\n")
	b.WriteString("namespace Generated.CborFacts\n\n")
	b.WriteString("/-- One cbor.DecOptions literal; unset string fields are \"\" and unset numbers 0. -/\n")
	b.WriteString("structure DecOpts where\n  dupMapKey : String\n  indefLength : String\n  tagsMd : String\n  extraReturnErrors : String\n  maxArrayElements : Nat\n  maxMapPairs : Nat\n  maxNestedLevels : Nat\n  otherFields : List String\n  deriving DecidableEq, Repr\n\n")
	known := map[string]bool{"DupMapKey": true, "IndefLength": true, "TagsMd": true, "ExtraReturnErrors": true,
		"MaxArrayElements": true, "MaxMapPairs": true, "MaxNestedLevels": true}
	num := func(s string) string {
		if s == "" {
			return "0"
		}
		return s
	}
	for _, name := range []string{"decOptions", "decOptionsTrusted", "decOptionsRPC"} {
		l := lits[name]
		var other []string
		for k := range l {
			if !known[k] {
				other = append(other, strconv.Quote(k+"="+l[k]))
			}
		}
		sort.Strings(other)
		for _, k := range []string{"MaxArrayElements", "MaxMapPairs", "MaxNestedLevels"} {
			if v, ok := l[k]; ok {
				if _, err := strconv.ParseUint(v, 10, 64); err != nil {
					return fmt.Errorf("%s.%s is not an integer literal: %s", name, k, v)
				}
			}
		}
		fmt.Fprintf(&b, "def %s : DecOpts :=\n  { dupMapKey := %q, indefLength := %q, tagsMd := %q, extraReturnErrors := %q,\n    maxArrayElements := %s, maxMapPairs := %s, maxNestedLevels := %s, otherFields := [%s] }\n\n",
			name, l["DupMapKey"], l["IndefLength"], l["TagsMd"], l["ExtraReturnErrors"],
			num(l["MaxArrayElements"]), num(l["MaxMapPairs"]), num(l["MaxNestedLevels"]), strings.Join(other, ", "))
	}
	b.WriteString("/-- DecMode variable -> options literal it is built from (init). -/\n")
	var mk []string
	for k := range modeFrom {
		mk = append(mk, k)
	}
	sort.Strings(mk)
	b.WriteString("def modeFrom : List (String × String) := [")
	for i, k := range mk {
		if i > 0 {
			b.WriteString(", ")
		}
		fmt.Fprintf(&b, "(%q, %q)", k, modeFrom[k])
	}
	b.WriteString("]\n\n/-- Entry point -> DecMode variable it decodes with. -/\ndef entryUses : List (String × String) := [")
	for i, k := range []string{"Unmarshal", "UnmarshalTrusted", "UnmarshalRPC", "NewDecoder", "NewDecoderRPC"} {
		if i > 0 {
			b.WriteString(", ")
		}
		fmt.Fprintf(&b, "(%q, %q)", k, uses[k])
	}
	b.WriteString("]\n\n")
	fmt.Fprintf(&b, "/-- Defaults the pinned library applies to unset options. -/\ndef libVersion : String := %q\ndef libDefaultMaxNestedLevels : Nat := %d\ndef libDefaultMaxArrayElements : Nat := %d\ndef libDefaultMaxMapPairs : Nat := %d\n\n",
		libVer, nestedDefault, lconst["defaultMaxArrayElements"], lconst["defaultMaxMapPairs"])
	fmt.Fprintf(&b, "/-- MessageReader.Read (runtime-host frames): limit, order of the checks, decoder. -/\ndef maxMessageSize : Nat := %d\ndef frameSizeCheckBeforeDecode : Bool := %v\ndef frameLimitReaderBeforeDecode : Bool := %v\ndef frameDecoder : String := %q\n\n",
		cconst["maxMessageSize"], sizeCheck != token.NoPos && decodePos != token.NoPos && sizeCheck < decodePos,
		limitReader != token.NoPos && decodePos != token.NoPos && limitReader < decodePos, readerDecoder)
	fmt.Fprintf(&b, "/-- abci decodeTx: the MaxTxSize comparison and its ErrOversizedTx return precede cbor.Unmarshal. -/\ndef txSizeCheckBeforeDecode : Bool := %v\n\n",
		txSize != token.NoPos && oversized != token.NoPos && txUnmarshal != token.NoPos && txSize < oversized && oversized < txUnmarshal)
	fmt.Fprintf(&b, "/-- Hand-written codec constants. -/\ndef maxProofDepth : Nat := %d\ndef proofEntryFull : Nat := %d\ndef proofEntryHash : Nat := %d\ndef prefixLeafNode : Nat := %d\ndef prefixInternalNode : Nat := %d\ndef prefixNilNode : Nat := %d\n\n",
		pconst["maxProofDepth"], pconst["proofEntryFull"], pconst["proofEntryHash"],
		nconst["PrefixLeafNode"], nconst["PrefixInternalNode"], nconst["PrefixNilNode"])
	if _, ok := pconst["maxProofDepth"]; !ok {
		return fmt.Errorf("proof.go: maxProofDepth not found")
	}
	b.WriteString("/-- Top-level guards of verifyProof, in source order. -/\ndef verifyGuards : List String := [")
	for i, g := range guards {
		if i > 0 {
			b.WriteString(", ")
		}
		b.WriteString(strconv.Quote(g))
	}
	fmt.Fprintf(&b, "]\n\n/-- Recursive calls of verifyProof and the depth expressions they pass. -/\ndef verifyRecursiveCalls : Nat := %d\ndef verifyDepthArgs : List String := [", recursive)
	for i, g := range dargs {
		if i > 0 {
			b.WriteString(", ")
		}
		b.WriteString(strconv.Quote(g))
	}
	b.WriteString("]\n\nend Generated.CborFacts\n")
	return os.WriteFile(out, []byte(b.String()), 0o644)
}
