// sigcontexts: regenerated tie for property C09 (DESIGN.md §4.2 item 2).
//
// Reads every non-test Go file below <repo>/go with go/parser (syntax only, no type
// checking) and emits lean/Generated/SigContexts.lean with
//
//   - table: every call `signature.NewContext(arg, opts...)` (the selector must resolve,
//     through the file's import table, to .../common/crypto/signature; inside that package
//     the unqualified call counts too) with its options. `arg` must be a string literal, or
//     `fmt.Sprintf("literal-prefix%v...", ...)`, in which case only the literal prefix up to
//     the first verb is recorded and the entry is marked open (closed = false).
//     Options must be `WithChainSeparation()` or `WithDynamicSuffix(<string literal>, <int const>)`;
//     integer constants are evaluated by a tiny evaluator (literals, * + - ( ), constants of
//     the same or an imported oasis-core package). Anything else makes the generator FAIL.
//   - chainContextSeparator, chainContextMaxSize (signer.go constants);
//   - chainContextBody: the source text of the body of (*genesis Document).ChainContext;
//   - withSuffixArgs: the argument text of every `.WithSuffix(x)` call site (file, text);
//   - methodMetadataImpls: every method named MethodMetadata declared in non-test files
//     (implementers of transaction.MethodMetadataProvider; a critical method skips the
//     nonce check in abci/transaction.go processTx);
//   - nonceWriters: every syntactic write (`++`, `--`, `=`, `+=`, ...) to a selector ending in
//     `.General.Nonce` in non-test files (file, enclosing function, statement text);
//   - systemMethods: the keys of consensus/api SystemMethods;
//   - accountKeyWrites: every `X.Insert(ctx, accountKeyFmt.Encode(...), ...)` / `X.Remove(ctx, accountKeyFmt.Encode(...))`
//     (file, function, operation): the raw writers of the staking account key space;
//   - accountWriters: every call `X.SetAccount(ctx, addr, acct)` (and any call of a method whose name starts
//     with Remove/Delete and contains "Account", except the allowance/hook helpers that go through
//     SetAccount) with (file, function, address argument, account argument, provenance of the account
//     argument inside the function: the right-hand sides that define it, "param", or "?").
package main

import (
	"bytes"
	"fmt"
	"go/ast"
	"go/parser"
	"go/printer"
	"go/token"
	"os"
	"path/filepath"
	"sort"
	"strconv"
	"strings"
)

const (
	sigModPrefix = "github.com/oasisprotocol/oasis-core/go/"
	sigPkgPath   = sigModPrefix + "common/crypto/signature"
)

func init() { kinds["sigcontexts"] = genSigContexts }

type sigEntry struct {
	raw    string
	chain  bool
	hasDyn bool
	dyn    string
	dynMax int
	closed bool
	file   string
	line   int
}

type sigGen struct {
	root   string // <repo>/go
	fset   *token.FileSet
	consts map[string]map[string]ast.Expr // dir -> const name -> expr
	cimps  map[string]map[string]map[string]string
}

func (g *sigGen) rel(p string) string {
	r, _ := filepath.Rel(g.root, p)
	return filepath.ToSlash(r)
}

// importsOf maps the local package name of every import in the file to its path.
func importsOf(f *ast.File) map[string]string {
	m := map[string]string{}
	for _, im := range f.Imports {
		p, _ := strconv.Unquote(im.Path.Value)
		name := p[strings.LastIndex(p, "/")+1:]
		if im.Name != nil {
			name = im.Name.Name
		}
		m[name] = p
	}
	return m
}

// loadConsts parses the non-test files of a package directory and records its constants.
func (g *sigGen) loadConsts(dir string) error {
	if _, ok := g.consts[dir]; ok {
		return nil
	}
	g.consts[dir] = map[string]ast.Expr{}
	g.cimps[dir] = map[string]map[string]string{}
	ents, err := os.ReadDir(dir)
	if err != nil {
		return err
	}
	for _, e := range ents {
		n := e.Name()
		if e.IsDir() || !strings.HasSuffix(n, ".go") || strings.HasSuffix(n, "_test.go") {
			continue
		}
		f, err := parser.ParseFile(g.fset, filepath.Join(dir, n), nil, 0)
		if err != nil {
			return err
		}
		imps := importsOf(f)
		for _, d := range f.Decls {
			gd, ok := d.(*ast.GenDecl)
			if !ok || gd.Tok != token.CONST {
				continue
			}
			for _, s := range gd.Specs {
				vs := s.(*ast.ValueSpec)
				for i, name := range vs.Names {
					if i < len(vs.Values) {
						g.consts[dir][name.Name] = vs.Values[i]
						g.cimps[dir][name.Name] = imps
					}
				}
			}
		}
	}
	return nil
}

// evalInt evaluates a constant integer expression appearing in package directory dir.
func (g *sigGen) evalInt(dir string, imps map[string]string, e ast.Expr, depth int) (int, error) {
	if depth > 20 {
		return 0, fmt.Errorf("constant evaluation too deep")
	}
	switch x := e.(type) {
	case *ast.BasicLit:
		if x.Kind != token.INT {
			return 0, fmt.Errorf("not an integer literal: %s", x.Value)
		}
		v, err := strconv.ParseInt(x.Value, 0, 64)
		return int(v), err
	case *ast.ParenExpr:
		return g.evalInt(dir, imps, x.X, depth+1)
	case *ast.BinaryExpr:
		a, err := g.evalInt(dir, imps, x.X, depth+1)
		if err != nil {
			return 0, err
		}
		b, err := g.evalInt(dir, imps, x.Y, depth+1)
		if err != nil {
			return 0, err
		}
		switch x.Op {
		case token.MUL:
			return a * b, nil
		case token.ADD:
			return a + b, nil
		case token.SUB:
			return a - b, nil
		}
		return 0, fmt.Errorf("unsupported operator %s", x.Op)
	case *ast.Ident:
		if err := g.loadConsts(dir); err != nil {
			return 0, err
		}
		ce, ok := g.consts[dir][x.Name]
		if !ok {
			return 0, fmt.Errorf("constant %s not found in %s", x.Name, g.rel(dir))
		}
		return g.evalInt(dir, g.cimps[dir][x.Name], ce, depth+1)
	case *ast.SelectorExpr:
		id, ok := x.X.(*ast.Ident)
		if !ok {
			return 0, fmt.Errorf("unsupported selector")
		}
		p, ok := imps[id.Name]
		if !ok || !strings.HasPrefix(p, sigModPrefix) {
			return 0, fmt.Errorf("constant %s.%s: package outside oasis-core", id.Name, x.Sel.Name)
		}
		d2 := filepath.Join(g.root, strings.TrimPrefix(p, sigModPrefix))
		return g.evalInt(d2, nil, &ast.Ident{Name: x.Sel.Name}, depth+1)
	}
	return 0, fmt.Errorf("unsupported constant expression %T", e)
}

func (g *sigGen) text(n ast.Node) string {
	var b bytes.Buffer
	_ = printer.Fprint(&b, g.fset, n)
	return strings.Join(strings.Fields(b.String()), " ")
}

// provenance describes where the account value passed to SetAccount comes from inside function fd:
// the right-hand sides of every assignment/definition of the identifier before the call (source order),
// "param" for a parameter or receiver, "range" for a range variable, the expression text itself if it is
// not a plain identifier, "?" if no definition was found.
func (g *sigGen) provenance(fd *ast.FuncDecl, arg ast.Expr, callPos token.Pos) string {
	id, ok := arg.(*ast.Ident)
	if !ok {
		return "expr:" + g.text(arg)
	}
	var srcs []string
	add := func(s string) {
		for _, x := range srcs {
			if x == s {
				return
			}
		}
		srcs = append(srcs, s)
	}
	fields := []*ast.FieldList{fd.Type.Params, fd.Recv}
	for _, fl := range fields {
		if fl == nil {
			continue
		}
		for _, f := range fl.List {
			for _, n := range f.Names {
				if n.Name == id.Name {
					add("param")
				}
			}
		}
	}
	ast.Inspect(fd.Body, func(n ast.Node) bool {
		if n == nil || n.Pos() >= callPos {
			return n == nil || n.Pos() < callPos
		}
		switch st := n.(type) {
		case *ast.AssignStmt:
			for i, l := range st.Lhs {
				if li, ok := l.(*ast.Ident); ok && li.Name == id.Name {
					if len(st.Rhs) == len(st.Lhs) {
						add(g.text(st.Rhs[i]))
					} else if len(st.Rhs) == 1 {
						add(g.text(st.Rhs[0]))
					}
				}
			}
		case *ast.RangeStmt:
			for _, e := range []ast.Expr{st.Key, st.Value} {
				if li, ok := e.(*ast.Ident); ok && li.Name == id.Name {
					add("range " + g.text(st.X))
				}
			}
		case *ast.ValueSpec:
			for i, nme := range st.Names {
				if nme.Name == id.Name {
					if i < len(st.Values) {
						add(g.text(st.Values[i]))
					} else {
						add("var " + g.text(st.Type))
					}
				}
			}
		}
		return true
	})
	if len(srcs) == 0 {
		return "?"
	}
	return strings.Join(srcs, " | ")
}

// cut shortens long expression texts (composite literals) so that the pinned expectation stays readable.
func cut(s string) string {
	if len(s) > 72 {
		return s[:69] + "..."
	}
	return s
}

// isSigFunc reports whether call.Fun denotes function `name` of the signature package.
func isSigFunc(fun ast.Expr, imps map[string]string, inSigPkg bool, name string) bool {
	switch f := fun.(type) {
	case *ast.SelectorExpr:
		id, ok := f.X.(*ast.Ident)
		return ok && f.Sel.Name == name && imps[id.Name] == sigPkgPath
	case *ast.Ident:
		return inSigPkg && f.Name == name
	}
	return false
}

func lstr(s string) string {
	for _, c := range s {
		if c < 0x20 || c > 0x7e {
			panic("non-printable-ASCII character in emitted string: " + strconv.Quote(s))
		}
	}
	return strconv.Quote(s)
}

func lbytes(s string) string {
	lstr(s)
	parts := make([]string, len(s))
	for i := 0; i < len(s); i++ {
		parts[i] = strconv.Itoa(int(s[i]))
	}
	return "[" + strings.Join(parts, ", ") + "]"
}

func genSigContexts(repo, out string, _ []string) (err error) {
	defer func() {
		if r := recover(); r != nil {
			err = fmt.Errorf("%v", r)
		}
	}()
	g := &sigGen{root: filepath.Join(repo, "go"), fset: token.NewFileSet(),
		consts: map[string]map[string]ast.Expr{}, cimps: map[string]map[string]map[string]string{}}
	var (
		entries      []sigEntry
		suffixArgs   [][2]string
		mmImpls      []string
		nonceWriters [][3]string
		keyWrites    [][3]string
		acctWriters  [][5]string
		sysMethods   []string
		sep          string
		sepFound     bool
		maxSize      = -1
		chainBody    string
		files        int
	)
	walkErr := filepath.Walk(g.root, func(path string, info os.FileInfo, err error) error {
		if err != nil {
			return err
		}
		if info.IsDir() {
			if n := info.Name(); n == "vendor" || n == "testdata" || strings.HasPrefix(n, ".") {
				return filepath.SkipDir
			}
			return nil
		}
		if !strings.HasSuffix(path, ".go") || strings.HasSuffix(path, "_test.go") {
			return nil
		}
		f, err := parser.ParseFile(g.fset, path, nil, 0)
		if err != nil {
			return fmt.Errorf("parse %s: %v", path, err)
		}
		files++
		dir := filepath.Dir(path)
		rel := g.rel(path)
		imps := importsOf(f)
		inSig := g.rel(dir) == strings.TrimPrefix(sigPkgPath, sigModPrefix)

		for _, d := range f.Decls {
			switch dd := d.(type) {
			case *ast.FuncDecl:
				if dd.Recv != nil && dd.Name.Name == "MethodMetadata" {
					mmImpls = append(mmImpls, rel+": "+g.text(dd.Recv.List[0].Type))
				}
				if rel == "genesis/api/api.go" && dd.Recv != nil && dd.Name.Name == "ChainContext" && dd.Body != nil {
					var parts []string
					for _, s := range dd.Body.List {
						parts = append(parts, g.text(s))
					}
					chainBody = strings.Join(parts, "; ")
				}
				if dd.Body != nil {
					fn := dd.Name.Name
					ast.Inspect(dd.Body, func(n ast.Node) bool {
						isNonce := func(e ast.Expr) bool {
							s, ok := e.(*ast.SelectorExpr)
							if !ok || s.Sel.Name != "Nonce" {
								return false
							}
							s2, ok := s.X.(*ast.SelectorExpr)
							return ok && s2.Sel.Name == "General"
						}
						// replacing the whole General sub-struct overwrites the nonce too
						isGeneral := func(e ast.Expr) bool {
							s, ok := e.(*ast.SelectorExpr)
							return ok && s.Sel.Name == "General"
						}
						switch st := n.(type) {
						case *ast.IncDecStmt:
							if isNonce(st.X) {
								nonceWriters = append(nonceWriters, [3]string{rel, fn, g.text(st)})
							}
						case *ast.AssignStmt:
							for _, l := range st.Lhs {
								if isNonce(l) || isGeneral(l) {
									nonceWriters = append(nonceWriters, [3]string{rel, fn, g.text(st)})
								}
							}
						case *ast.CallExpr:
							sel, ok := st.Fun.(*ast.SelectorExpr)
							if !ok {
								return true
							}
							name := sel.Sel.Name
							// raw writes of the account key space
							if (name == "Insert" || name == "Remove") && len(st.Args) >= 2 {
								if kc, ok := st.Args[1].(*ast.CallExpr); ok {
									if ks, ok := kc.Fun.(*ast.SelectorExpr); ok && ks.Sel.Name == "Encode" {
										if kid, ok := ks.X.(*ast.Ident); ok && kid.Name == "accountKeyFmt" {
											keyWrites = append(keyWrites, [3]string{rel, fn, name})
										}
									}
								}
							}
							isRemoval := (strings.HasPrefix(name, "Remove") || strings.HasPrefix(name, "Delete")) &&
								strings.Contains(name, "Account")
							if name == "SetAccount" && len(st.Args) == 3 {
								acctWriters = append(acctWriters, [5]string{rel, fn, cut(g.text(st.Args[1])), cut(g.text(st.Args[2])),
									cut(g.provenance(dd, st.Args[2], st.Pos()))})
							} else if isRemoval {
								acctWriters = append(acctWriters, [5]string{rel, fn, cut(g.text(st)), "-", "removal"})
							}
						}
						return true
					})
				}
			case *ast.GenDecl:
				if inSig && dd.Tok == token.CONST {
					for _, s := range dd.Specs {
						vs := s.(*ast.ValueSpec)
						for i, n := range vs.Names {
							if i >= len(vs.Values) {
								continue
							}
							switch n.Name {
							case "chainContextSeparator":
								bl, ok := vs.Values[i].(*ast.BasicLit)
								if !ok || bl.Kind != token.STRING {
									return fmt.Errorf("chainContextSeparator is not a string literal")
								}
								sep, _ = strconv.Unquote(bl.Value)
								sepFound = true
							case "chainContextMaxSize":
								v, err := g.evalInt(dir, imps, vs.Values[i], 0)
								if err != nil {
									return fmt.Errorf("chainContextMaxSize: %v", err)
								}
								maxSize = v
							}
						}
					}
				}
				if rel == "consensus/api/api.go" && dd.Tok == token.VAR {
					for _, s := range dd.Specs {
						vs := s.(*ast.ValueSpec)
						for i, n := range vs.Names {
							if n.Name != "SystemMethods" || i >= len(vs.Values) {
								continue
							}
							cl, ok := vs.Values[i].(*ast.CompositeLit)
							if !ok {
								return fmt.Errorf("SystemMethods is not a composite literal")
							}
							for _, el := range cl.Elts {
								kv, ok := el.(*ast.KeyValueExpr)
								if !ok {
									return fmt.Errorf("SystemMethods element is not key: value")
								}
								sysMethods = append(sysMethods, g.text(kv.Key))
							}
						}
					}
				}
			}
		}

		var ferr error
		ast.Inspect(f, func(n ast.Node) bool {
			call, ok := n.(*ast.CallExpr)
			if !ok || ferr != nil {
				return ferr == nil
			}
			if sel, ok := call.Fun.(*ast.SelectorExpr); ok && sel.Sel.Name == "WithSuffix" && len(call.Args) == 1 {
				suffixArgs = append(suffixArgs, [2]string{rel, g.text(call.Args[0])})
			}
			if !isSigFunc(call.Fun, imps, inSig, "NewContext") {
				return true
			}
			pos := g.fset.Position(call.Pos())
			fail := func(format string, a ...any) bool {
				ferr = fmt.Errorf("%s:%d: %s", rel, pos.Line, fmt.Sprintf(format, a...))
				return false
			}
			if len(call.Args) == 0 {
				return fail("NewContext without arguments")
			}
			e := sigEntry{file: rel, line: pos.Line, closed: true}
			switch a := call.Args[0].(type) {
			case *ast.BasicLit:
				if a.Kind != token.STRING {
					return fail("NewContext argument is not a string")
				}
				e.raw, _ = strconv.Unquote(a.Value)
			case *ast.CallExpr:
				s, ok := a.Fun.(*ast.SelectorExpr)
				if !ok {
					return fail("unsupported NewContext argument %s", g.text(a))
				}
				pk, ok := s.X.(*ast.Ident)
				if !ok || imps[pk.Name] != "fmt" || s.Sel.Name != "Sprintf" || len(a.Args) == 0 {
					return fail("unsupported NewContext argument %s", g.text(a))
				}
				bl, ok := a.Args[0].(*ast.BasicLit)
				if !ok || bl.Kind != token.STRING {
					return fail("unsupported Sprintf format in NewContext")
				}
				format, _ := strconv.Unquote(bl.Value)
				if i := strings.IndexByte(format, '%'); i >= 0 {
					format = format[:i]
				}
				e.raw, e.closed = format, false
			default:
				return fail("unsupported NewContext argument %s (not a string literal)", g.text(a))
			}
			for _, o := range call.Args[1:] {
				oc, ok := o.(*ast.CallExpr)
				switch {
				case ok && isSigFunc(oc.Fun, imps, inSig, "WithChainSeparation") && len(oc.Args) == 0:
					e.chain = true
				case ok && isSigFunc(oc.Fun, imps, inSig, "WithDynamicSuffix") && len(oc.Args) == 2:
					bl, ok := oc.Args[0].(*ast.BasicLit)
					if !ok || bl.Kind != token.STRING {
						return fail("WithDynamicSuffix: suffix is not a string literal")
					}
					e.dyn, _ = strconv.Unquote(bl.Value)
					v, err := g.evalInt(dir, imps, oc.Args[1], 0)
					if err != nil {
						return fail("WithDynamicSuffix: %v", err)
					}
					if e.dyn == "" {
						return fail("WithDynamicSuffix with empty suffix (treated by signer.go as no suffix)")
					}
					e.hasDyn, e.dynMax = true, v
				default:
					return fail("unsupported context option %s", g.text(o))
				}
			}
			if call.Ellipsis.IsValid() {
				return fail("variadic option slice")
			}
			entries = append(entries, e)
			return true
		})
		return ferr
	})
	if walkErr != nil {
		return walkErr
	}
	if !sepFound || maxSize < 0 {
		return fmt.Errorf("chainContextSeparator/chainContextMaxSize not found in %s", sigPkgPath)
	}
	if chainBody == "" {
		return fmt.Errorf("(*Document).ChainContext not found in genesis/api/api.go")
	}
	if len(entries) == 0 {
		return fmt.Errorf("no signature.NewContext call found (scanned %d files)", files)
	}
	sort.SliceStable(entries, func(i, j int) bool {
		if entries[i].raw != entries[j].raw {
			return entries[i].raw < entries[j].raw
		}
		return entries[i].file < entries[j].file
	})
	sort.Slice(suffixArgs, func(i, j int) bool { return suffixArgs[i][0]+suffixArgs[i][1] < suffixArgs[j][0]+suffixArgs[j][1] })
	sort.Strings(mmImpls)
	sort.Slice(nonceWriters, func(i, j int) bool {
		return strings.Join(nonceWriters[i][:], "|") < strings.Join(nonceWriters[j][:], "|")
	})
	sort.Strings(sysMethods)
	sort.Slice(keyWrites, func(i, j int) bool { return strings.Join(keyWrites[i][:], "|") < strings.Join(keyWrites[j][:], "|") })
	sort.SliceStable(acctWriters, func(i, j int) bool {
		return strings.Join(acctWriters[i][:3], "|") < strings.Join(acctWriters[j][:3], "|")
	})

	var b strings.Builder
	b.WriteString("/- GENERATED by /verif/tools/gen sigcontexts from the working tree of /repo. Do not edit. -/\n")
	b.WriteString("namespace Generated.SigContexts\n\n")
	fmt.Fprintf(&b, "/-- Number of non-test Go files scanned. -/\ndef filesScanned : Nat := %d\n\n", files)
	b.WriteString("/-- (raw context bytes, chain separation, dynamic suffix (literal bytes, max length), closed (string literal), file).\n")
	b.WriteString("Byte lists rather than strings: kernel reduction of `String.toList` is slow. -/\n")
	b.WriteString("def table : List (List Nat × Bool × Option (List Nat × Nat) × Bool × String) := [\n")
	for i, e := range entries {
		dyn := "none"
		if e.hasDyn {
			dyn = fmt.Sprintf("some (%s, %d)", lbytes(e.dyn), e.dynMax)
		}
		comma := ","
		if i == len(entries)-1 {
			comma = ""
		}
		fmt.Fprintf(&b, "  -- %s%s  (line %d)\n", lstr(e.raw), map[bool]string{true: "", false: "..."}[e.closed], e.line)
		fmt.Fprintf(&b, "  (%s, %v, %s, %v, %s)%s\n", lbytes(e.raw), e.chain, dyn, e.closed, lstr(e.file), comma)
	}
	b.WriteString("]\n\n")
	fmt.Fprintf(&b, "def chainContextSeparator : String := %s\n", lstr(sep))
	fmt.Fprintf(&b, "def chainContextSeparatorBytes : List Nat := %s\n", lbytes(sep))
	fmt.Fprintf(&b, "def chainContextMaxSize : Nat := %d\n", maxSize)
	fmt.Fprintf(&b, "def chainContextBody : String := %s\n\n", lstr(chainBody))
	pairs := func(name string, l [][2]string) {
		fmt.Fprintf(&b, "def %s : List (String × String) := [", name)
		for i, p := range l {
			if i > 0 {
				b.WriteString(",")
			}
			fmt.Fprintf(&b, "\n  (%s, %s)", lstr(p[0]), lstr(p[1]))
		}
		b.WriteString("]\n\n")
	}
	pairs("withSuffixArgs", suffixArgs)
	strs := func(name string, l []string) {
		fmt.Fprintf(&b, "def %s : List String := [", name)
		for i, p := range l {
			if i > 0 {
				b.WriteString(", ")
			}
			b.WriteString(lstr(p))
		}
		b.WriteString("]\n\n")
	}
	strs("methodMetadataImpls", mmImpls)
	strs("systemMethods", sysMethods)
	fmt.Fprintf(&b, "def nonceWriters : List (String × String × String) := [")
	for i, p := range nonceWriters {
		if i > 0 {
			b.WriteString(",")
		}
		fmt.Fprintf(&b, "\n  (%s, %s, %s)", lstr(p[0]), lstr(p[1]), lstr(p[2]))
	}
	b.WriteString("]\n\n")
	fmt.Fprintf(&b, "def accountKeyWrites : List (String × String × String) := [")
	for i, p := range keyWrites {
		if i > 0 {
			b.WriteString(",")
		}
		fmt.Fprintf(&b, "\n  (%s, %s, %s)", lstr(p[0]), lstr(p[1]), lstr(p[2]))
	}
	b.WriteString("]\n\n")
	b.WriteString("/-- (file, function, address argument, account argument, provenance of the account argument). -/\n")
	fmt.Fprintf(&b, "def accountWriters : List (String × String × String × String × String) := [")
	for i, p := range acctWriters {
		if i > 0 {
			b.WriteString(",")
		}
		fmt.Fprintf(&b, "\n  (%s, %s, %s, %s, %s)", lstr(p[0]), lstr(p[1]), lstr(p[2]), lstr(p[3]), lstr(p[4]))
	}
	b.WriteString("]\n\nend Generated.SigContexts\n")
	return os.WriteFile(out, []byte(b.String()), 0o644)
}
