// slashfacts: operation skeleton of the roothash slashed-funds distribution (property C10).
//
// From go/consensus/cometbft/apps/roothash/slashing.go it extracts, in source order, the
// quantity operations, staking-state calls, early-return guards and loops of
// distributeSlashedFunds and onRuntimeIncorrectResults and the percentage used by
// onEvidenceRuntimeEquivocation; from go/registry/api/runtime.go the guards of
// RuntimeStakingParameters.ValidateBasic and whether Runtime.ValidateBasic calls it.
// Props/C10Slash.lean compares them with the skeleton its model transcribes.
//
// Statement shapes (anything else inside the three functions fails loudly):
//   x := <expr>                              emitted, unless <expr> only builds a wrapper/address/slice
//   var x T                                  skipped
//   if [_,] err := <call>; err != nil {..}   emitted as <call>
//   v, err := <call>  +  if err != nil {..}  emitted as <call>
//   if err = <call>; err != nil {..}         emitted as <call>
//   if <cond> { ...; return nil }            emitted as "if <cond> return"
//   for _, v := range <xs> { body }          emitted as "for <xs> { op; op }" (dropped when body has no op)
//   <logger call>                            skipped
//   return <call>                            emitted as <call>;  return nil skipped
package main

import (
	"bytes"
	"fmt"
	"go/ast"
	"go/parser"
	"go/printer"
	"go/token"
	"os"
	"path/filepath"
	"strings"
)

func init() { kinds["slashfacts"] = genSlashFacts }

type slashX struct{ fset *token.FileSet }

func (x *slashX) src(n ast.Node) string {
	var b bytes.Buffer
	_ = printer.Fprint(&b, x.fset, n)
	return strings.Join(strings.Fields(b.String()), " ")
}

func slErrNotNil(e ast.Expr) bool {
	b, ok := e.(*ast.BinaryExpr)
	if !ok || b.Op != token.NEQ {
		return false
	}
	l, ok1 := b.X.(*ast.Ident)
	r, ok2 := b.Y.(*ast.Ident)
	return ok1 && ok2 && l.Name == "err" && r.Name == "nil"
}

func isLoggerCall(s string) bool { return strings.HasPrefix(s, "ctx.Logger().") }

func isPlumbing(rhs string) bool {
	for _, p := range []string{"NewMutableState(", "staking.NewAddress(", "staking.NewRuntimeAddress(", "append("} {
		if strings.Contains(rhs, p) {
			return true
		}
	}
	return false
}

func (x *slashX) ops(stmts []ast.Stmt) ([]string, error) {
	var out []string
	for i := 0; i < len(stmts); i++ {
		switch s := stmts[i].(type) {
		case *ast.DeclStmt:
			// var x T
		case *ast.ExprStmt:
			if t := x.src(s.X); !isLoggerCall(t) {
				return nil, fmt.Errorf("unsupported expression statement: %s", t)
			}
		case *ast.AssignStmt:
			if len(s.Rhs) != 1 {
				return nil, fmt.Errorf("unsupported assignment: %s", x.src(s))
			}
			rhs := x.src(s.Rhs[0])
			hasErr := false
			for _, l := range s.Lhs {
				if id, ok := l.(*ast.Ident); ok && id.Name == "err" {
					hasErr = true
				}
			}
			if hasErr {
				// v, err := call ; followed by if err != nil
				if i+1 >= len(stmts) {
					return nil, fmt.Errorf("error result not checked: %s", x.src(s))
				}
				nx, ok := stmts[i+1].(*ast.IfStmt)
				if !ok || nx.Init != nil || !slErrNotNil(nx.Cond) {
					return nil, fmt.Errorf("error result not checked right away: %s", x.src(s))
				}
				out = append(out, rhs)
				i++
				continue
			}
			if isPlumbing(rhs) {
				continue
			}
			out = append(out, x.src(s))
		case *ast.IfStmt:
			if s.Else != nil {
				return nil, fmt.Errorf("unsupported if/else: %s", x.src(s.Cond))
			}
			if s.Init != nil {
				a, ok := s.Init.(*ast.AssignStmt)
				if !ok || len(a.Rhs) != 1 || !slErrNotNil(s.Cond) {
					return nil, fmt.Errorf("unsupported if with init: %s", x.src(s.Init))
				}
				out = append(out, x.src(a.Rhs[0]))
				continue
			}
			if slErrNotNil(s.Cond) {
				return nil, fmt.Errorf("dangling error check")
			}
			// plain guard: body must be logger calls followed by `return nil`
			n := len(s.Body.List)
			if n == 0 {
				return nil, fmt.Errorf("empty guard body: %s", x.src(s.Cond))
			}
			ret, ok := s.Body.List[n-1].(*ast.ReturnStmt)
			if !ok || len(ret.Results) != 1 || x.src(ret.Results[0]) != "nil" {
				return nil, fmt.Errorf("guard does not end in `return nil`: %s", x.src(s.Cond))
			}
			inner, err := x.ops(s.Body.List[:n-1])
			if err != nil {
				return nil, err
			}
			if len(inner) != 0 {
				return nil, fmt.Errorf("guard body performs operations: %s", x.src(s.Cond))
			}
			out = append(out, "if "+x.src(s.Cond)+" return")
		case *ast.RangeStmt:
			inner, err := x.ops(s.Body.List)
			if err != nil {
				return nil, err
			}
			if len(inner) > 0 {
				out = append(out, "for "+x.src(s.X)+" { "+strings.Join(inner, "; ")+" }")
			}
		case *ast.ReturnStmt:
			if len(s.Results) != 1 {
				return nil, fmt.Errorf("unsupported return: %s", x.src(s))
			}
			if t := x.src(s.Results[0]); t != "nil" {
				out = append(out, t)
			}
		default:
			return nil, fmt.Errorf("unsupported statement: %s", x.src(s))
		}
	}
	return out, nil
}

func slFindFunc(f *ast.File, recv, name string) *ast.FuncDecl {
	for _, d := range f.Decls {
		fd, ok := d.(*ast.FuncDecl)
		if !ok || fd.Name.Name != name {
			continue
		}
		if recv == "" && fd.Recv == nil {
			return fd
		}
		if recv != "" && fd.Recv != nil && len(fd.Recv.List) == 1 {
			t := fd.Recv.List[0].Type
			if st, ok := t.(*ast.StarExpr); ok {
				t = st.X
			}
			if id, ok := t.(*ast.Ident); ok && id.Name == recv {
				return fd
			}
		}
	}
	return nil
}

func leanStrList(name string, l []string) string {
	var b strings.Builder
	fmt.Fprintf(&b, "def %s : List String := [", name)
	for i, s := range l {
		if i > 0 {
			b.WriteString(",")
		}
		fmt.Fprintf(&b, "\n  %q", s)
	}
	b.WriteString("]\n")
	return b.String()
}

func genSlashFacts(repo, out string, _ []string) error {
	x := &slashX{fset: token.NewFileSet()}
	slashPath := filepath.Join(repo, "go/consensus/cometbft/apps/roothash/slashing.go")
	sf, err := parser.ParseFile(x.fset, slashPath, nil, 0)
	if err != nil {
		return err
	}
	var b strings.Builder
	b.WriteString("-- GENERATED by tools/gen slashfacts from go/consensus/cometbft/apps/roothash/slashing.go and go/registry/api/runtime.go. Do not edit.\nnamespace Generated.SlashFacts\n\n")
	for _, p := range []struct{ fn, lean string }{{"distributeSlashedFunds", "distributeOps"}, {"onRuntimeIncorrectResults", "incorrectResultsOps"}} {
		fd := slFindFunc(sf, "", p.fn)
		if fd == nil {
			return fmt.Errorf("%s not found in slashing.go", p.fn)
		}
		ops, err := x.ops(fd.Body.List)
		if err != nil {
			return fmt.Errorf("%s: %w", p.fn, err)
		}
		b.WriteString(leanStrList(p.lean, ops) + "\n")
	}
	// percentage of the equivocation path
	fd := slFindFunc(sf, "", "onEvidenceRuntimeEquivocation")
	if fd == nil {
		return fmt.Errorf("onEvidenceRuntimeEquivocation not found")
	}
	pct := ""
	ast.Inspect(fd.Body, func(n ast.Node) bool {
		if a, ok := n.(*ast.AssignStmt); ok && len(a.Lhs) == 1 && len(a.Rhs) == 1 {
			if id, ok := a.Lhs[0].(*ast.Ident); ok && id.Name == "runtimePercentage" {
				pct = x.src(a.Rhs[0])
			}
		}
		return true
	})
	if pct == "" {
		return fmt.Errorf("runtimePercentage assignment not found in onEvidenceRuntimeEquivocation")
	}
	fmt.Fprintf(&b, "def equivocationPercentage : String := %q\n\n", pct)

	rtPath := filepath.Join(repo, "go/registry/api/runtime.go")
	rf, err := parser.ParseFile(x.fset, rtPath, nil, 0)
	if err != nil {
		return err
	}
	vb := slFindFunc(rf, "RuntimeStakingParameters", "ValidateBasic")
	if vb == nil {
		return fmt.Errorf("RuntimeStakingParameters.ValidateBasic not found")
	}
	var guards []string
	for _, st := range vb.Body.List {
		is, ok := st.(*ast.IfStmt)
		if !ok || is.Init != nil || len(is.Body.List) == 0 {
			continue
		}
		// only guards that reject: body ends in `return <non-nil>`
		if ret, ok := is.Body.List[len(is.Body.List)-1].(*ast.ReturnStmt); ok && len(ret.Results) == 1 && x.src(ret.Results[0]) != "nil" {
			guards = append(guards, x.src(is.Cond))
		}
	}
	b.WriteString(leanStrList("validateBasicGuards", guards) + "\n")
	rv := slFindFunc(rf, "Runtime", "ValidateBasic")
	if rv == nil {
		return fmt.Errorf("Runtime.ValidateBasic not found")
	}
	calls := false
	for _, st := range rv.Body.List {
		// top-level `if err := r.Staking.ValidateBasic(r.Kind); err != nil { return ... }`
		if is, ok := st.(*ast.IfStmt); ok && is.Init != nil && slErrNotNil(is.Cond) {
			if a, ok := is.Init.(*ast.AssignStmt); ok && len(a.Rhs) == 1 && strings.HasPrefix(x.src(a.Rhs[0]), "r.Staking.ValidateBasic(") {
				if n := len(is.Body.List); n > 0 {
					if _, ok := is.Body.List[n-1].(*ast.ReturnStmt); ok {
						calls = true
					}
				}
			}
		}
	}
	fmt.Fprintf(&b, "def runtimeValidateCallsStaking : Bool := %v\n\nend Generated.SlashFacts\n", calls)
	return os.WriteFile(out, []byte(b.String()), 0o644)
}
