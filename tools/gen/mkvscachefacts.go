// mkvscachefacts: the replacement policy of the MKVS node cache (properties C03/C02).
//
// From go/storage/mkvs/cache.go it extracts
//   * for each policy function (useNode, markPosition, tryCommitNode, rollbackNode, tryRemoveNode,
//     tryEvictInternal, tryEvictLeaf, derefNodePtr) its statements in source order, one line per
//     simple statement, with markers for if/else/switch/case/for blocks (comments and layout do not
//     matter, any change of a statement, a condition or the order does);
//   * derived facts the LRU model of OasisModel/Mkvs/Lru.lean rests on:
//       derefUseNodeDominatesNodeReturns  every `return` of derefNodePtr whose first result is not
//                                         the literal nil is preceded, on every path, by the
//                                         unconditional top-level call c.useNode(ptr)
//       useNodeMovesToFront               useNode calls MoveToFront(ptr.LRU) on the list of the node's kind
//       evictInternalTakesBack            tryEvictInternal takes its victim with c.lruInternal.Back()
//       commitInsertsAfterMarkOrFront     tryCommitNode inserts with InsertAfter(ptr, c.lruInternalPos),
//                                         else PushFront(ptr)
//       markTakesFront                    markPosition remembers c.lruInternal.Front()
//   * the call sites of derefNodePtr in the operations (lookup.go, insert.go, remove.go,
//     iterator.go): function and number of calls.
// Props/C03Cache.lean compares all of it with what the model transcribes.
package main

import (
	"bytes"
	"fmt"
	"go/ast"
	"go/parser"
	"go/printer"
	"go/token"
	"os"
	"path/filepath"
	"sort"
	"strings"
)

func init() { kinds["mkvscachefacts"] = genMkvsCacheFacts }

type cacheX struct{ fset *token.FileSet }

func (x *cacheX) src(n ast.Node) string {
	var b bytes.Buffer
	_ = printer.Fprint(&b, x.fset, n)
	return strings.Join(strings.Fields(b.String()), " ")
}

// lines flattens a statement list.
func (x *cacheX) lines(stmts []ast.Stmt, out *[]string) error {
	for _, st := range stmts {
		switch s := st.(type) {
		case *ast.ExprStmt, *ast.AssignStmt, *ast.IncDecStmt, *ast.ReturnStmt, *ast.DeclStmt, *ast.BranchStmt, *ast.SendStmt:
			*out = append(*out, x.src(s))
		case *ast.BlockStmt:
			if err := x.lines(s.List, out); err != nil {
				return err
			}
		case *ast.IfStmt:
			head := "if "
			if s.Init != nil {
				head += x.src(s.Init) + "; "
			}
			*out = append(*out, head+x.src(s.Cond)+" {")
			if err := x.lines(s.Body.List, out); err != nil {
				return err
			}
			*out = append(*out, "}")
			if s.Else != nil {
				*out = append(*out, "else {")
				if err := x.lines([]ast.Stmt{s.Else}, out); err != nil {
					return err
				}
				*out = append(*out, "}")
			}
		case *ast.ForStmt:
			if s.Init != nil || s.Post != nil {
				return fmt.Errorf("unsupported for statement: %s", x.src(s))
			}
			c := ""
			if s.Cond != nil {
				c = x.src(s.Cond)
			}
			*out = append(*out, "for "+c+" {")
			if err := x.lines(s.Body.List, out); err != nil {
				return err
			}
			*out = append(*out, "}")
		case *ast.RangeStmt:
			head := "for "
			if s.Key != nil {
				head += x.src(s.Key)
				if s.Value != nil {
					head += ", " + x.src(s.Value)
				}
				head += " " + s.Tok.String() + " "
			}
			*out = append(*out, head+"range "+x.src(s.X)+" {")
			if err := x.lines(s.Body.List, out); err != nil {
				return err
			}
			*out = append(*out, "}")
		case *ast.DeferStmt:
			if fl, ok := s.Call.Fun.(*ast.FuncLit); ok && len(s.Call.Args) == 0 {
				*out = append(*out, "defer func() {")
				if err := x.lines(fl.Body.List, out); err != nil {
					return err
				}
				*out = append(*out, "}()")
			} else {
				*out = append(*out, "defer "+x.src(s.Call))
			}
		case *ast.GoStmt:
			if fl, ok := s.Call.Fun.(*ast.FuncLit); ok && len(s.Call.Args) == 0 {
				*out = append(*out, "go func() {")
				if err := x.lines(fl.Body.List, out); err != nil {
					return err
				}
				*out = append(*out, "}()")
			} else {
				*out = append(*out, "go "+x.src(s.Call))
			}
		case *ast.SelectStmt:
			*out = append(*out, "select {")
			for _, c := range s.Body.List {
				cc, ok := c.(*ast.CommClause)
				if !ok {
					return fmt.Errorf("unsupported select body")
				}
				if cc.Comm == nil {
					*out = append(*out, "default:")
				} else {
					*out = append(*out, "case "+x.src(cc.Comm)+":")
				}
				if err := x.lines(cc.Body, out); err != nil {
					return err
				}
			}
			*out = append(*out, "}")
		case *ast.LabeledStmt:
			*out = append(*out, x.src(s.Label)+":")
			if err := x.lines([]ast.Stmt{s.Stmt}, out); err != nil {
				return err
			}
		case *ast.SwitchStmt:
			head := "switch "
			if s.Init != nil {
				head += x.src(s.Init) + "; "
			}
			if s.Tag != nil {
				head += x.src(s.Tag)
			}
			*out = append(*out, head+" {")
			if err := x.cases(s.Body, out); err != nil {
				return err
			}
			*out = append(*out, "}")
		case *ast.TypeSwitchStmt:
			*out = append(*out, "switch "+x.src(s.Assign)+" {")
			if err := x.cases(s.Body, out); err != nil {
				return err
			}
			*out = append(*out, "}")
		default:
			return fmt.Errorf("unsupported statement: %s", x.src(s))
		}
	}
	return nil
}

func (x *cacheX) cases(body *ast.BlockStmt, out *[]string) error {
	for _, c := range body.List {
		cc, ok := c.(*ast.CaseClause)
		if !ok {
			return fmt.Errorf("unsupported switch body")
		}
		if cc.List == nil {
			*out = append(*out, "default:")
		} else {
			var l []string
			for _, e := range cc.List {
				l = append(l, x.src(e))
			}
			*out = append(*out, "case "+strings.Join(l, ", ")+":")
		}
		if err := x.lines(cc.Body, out); err != nil {
			return err
		}
	}
	return nil
}

// returnsBefore collects every return statement nested anywhere in the statements.
func returnsIn(stmts []ast.Stmt) []*ast.ReturnStmt {
	var rs []*ast.ReturnStmt
	for _, s := range stmts {
		ast.Inspect(s, func(n ast.Node) bool {
			if _, ok := n.(*ast.FuncLit); ok {
				return false
			}
			if r, ok := n.(*ast.ReturnStmt); ok {
				rs = append(rs, r)
			}
			return true
		})
	}
	return rs
}

func genMkvsCacheFacts(repo, out string, _ []string) error {
	x := &cacheX{fset: token.NewFileSet()}
	dir := filepath.Join(repo, "go/storage/mkvs")
	cf, err := parser.ParseFile(x.fset, filepath.Join(dir, "cache.go"), nil, 0)
	if err != nil {
		return err
	}
	var b strings.Builder
	b.WriteString("-- GENERATED by tools/gen mkvscachefacts from go/storage/mkvs/{cache,lookup,insert,remove,iterator}.go. Do not edit.\nnamespace Generated.MkvsCacheFacts\n\n")

	funcs := map[string]*ast.FuncDecl{}
	for _, name := range []string{"useNode", "markPosition", "tryCommitNode", "rollbackNode", "tryRemoveNode", "tryEvictInternal", "tryEvictLeaf", "derefNodePtr"} {
		fd := slFindFunc(cf, "cache", name)
		if fd == nil || fd.Body == nil {
			return fmt.Errorf("cache.%s not found", name)
		}
		funcs[name] = fd
		var ls []string
		if err := x.lines(fd.Body.List, &ls); err != nil {
			return fmt.Errorf("cache.%s: %v", name, err)
		}
		b.WriteString(leanStrList(name+"Stmts", ls))
		b.WriteString("\n")
	}

	// derefNodePtr: the unconditional top-level c.useNode(<pointer parameter>) dominates every
	// return of a non-nil node.
	deref := funcs["derefNodePtr"]
	if len(deref.Type.Params.List) < 2 || len(deref.Type.Params.List[1].Names) != 1 {
		return fmt.Errorf("derefNodePtr: unexpected parameters")
	}
	ptrName := deref.Type.Params.List[1].Names[0].Name
	recvName := deref.Recv.List[0].Names[0].Name
	want := fmt.Sprintf("%s.useNode(%s)", recvName, ptrName)
	dominates := false
	for i, st := range deref.Body.List {
		if es, ok := st.(*ast.ExprStmt); ok && x.src(es.X) == want {
			dominates = true
			for _, r := range returnsIn(deref.Body.List[:i]) {
				if len(r.Results) == 0 || x.src(r.Results[0]) != "nil" {
					dominates = false
				}
			}
			break
		}
	}
	fmt.Fprintf(&b, "def derefUseNodeDominatesNodeReturns : Bool := %v\n\n", dominates)
	nodeReturns := 0
	for _, r := range returnsIn(deref.Body.List) {
		if len(r.Results) > 0 && x.src(r.Results[0]) != "nil" {
			nodeReturns++
		}
	}
	fmt.Fprintf(&b, "def derefNodeReturns : Nat := %d\n\n", nodeReturns)

	has := func(fn, text string) bool {
		var ls []string
		_ = x.lines(funcs[fn].Body.List, &ls)
		for _, l := range ls {
			if strings.Contains(l, text) {
				return true
			}
		}
		return false
	}
	fmt.Fprintf(&b, "def useNodeMovesToFront : Bool := %v\n\n", has("useNode", recvName+".lruInternal.MoveToFront("+"ptr.LRU)") && has("useNode", recvName+".lruLeaf.MoveToFront(ptr.LRU)"))
	fmt.Fprintf(&b, "def evictInternalTakesBack : Bool := %v\n\n", has("tryEvictInternal", "elem := "+recvName+".lruInternal.Back()") && !has("tryEvictInternal", "Front()"))
	fmt.Fprintf(&b, "def commitInsertsAfterMarkOrFront : Bool := %v\n\n", has("tryCommitNode", "ptr.LRU = "+recvName+".lruInternal.InsertAfter(ptr, "+recvName+".lruInternalPos)") && has("tryCommitNode", "ptr.LRU = "+recvName+".lruInternal.PushFront(ptr)") && !has("tryCommitNode", "PushBack"))
	fmt.Fprintf(&b, "def markTakesFront : Bool := %v\n\n", has("markPosition", recvName+".lruInternalPos = "+recvName+".lruInternal.Front()"))

	// call sites of derefNodePtr in the operations
	var sites []string
	for _, file := range []string{"lookup.go", "insert.go", "remove.go", "iterator.go", "cache.go"} {
		f, err := parser.ParseFile(x.fset, filepath.Join(dir, file), nil, 0)
		if err != nil {
			return err
		}
		for _, d := range f.Decls {
			fd, ok := d.(*ast.FuncDecl)
			if !ok || fd.Body == nil {
				continue
			}
			n := 0
			ast.Inspect(fd.Body, func(nd ast.Node) bool {
				if c, ok := nd.(*ast.CallExpr); ok {
					if se, ok := c.Fun.(*ast.SelectorExpr); ok && se.Sel.Name == "derefNodePtr" {
						n++
					}
				}
				return true
			})
			if n > 0 {
				sites = append(sites, fmt.Sprintf("%s:%s:%d", file, fd.Name.Name, n))
			}
		}
	}
	sort.Strings(sites)
	b.WriteString(leanStrList("derefCallSites", sites))
	// the write paths, statement by statement: what OasisModel/Mkvs/Lazy.lean mirrors (order of the
	// child-slot selection, the prefetch of both children, the recursion, the error check and the
	// assignment of the child pointer)
	for _, w := range [][2]string{{"insert.go", "doInsert"}, {"remove.go", "doRemove"}} {
		f, err := parser.ParseFile(x.fset, filepath.Join(dir, w[0]), nil, 0)
		if err != nil {
			return err
		}
		fd := slFindFunc(f, "tree", w[1])
		if fd == nil || fd.Body == nil {
			return fmt.Errorf("tree.%s not found", w[1])
		}
		var ls []string
		if err := x.lines(fd.Body.List, &ls); err != nil {
			return fmt.Errorf("tree.%s: %v", w[1], err)
		}
		b.WriteString("\n")
		b.WriteString(leanStrList(w[1]+"Stmts", ls))
	}
	b.WriteString("\nend Generated.MkvsCacheFacts\n")
	return os.WriteFile(out, []byte(b.String()), 0o644)
}
