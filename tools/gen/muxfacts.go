// muxfacts: source facts of the ABCI multiplexer's proposal cache (property C01), regenerated so
// that the hand-written model OasisModel/Mux/Proposal.lean is re-checked against what the code
// says now.  go/ast only (no types needed): the facts are pieces of source text, printed
// canonically with go/printer, from
//
//	go/consensus/cometbft/abci/state.go   proposalState fields; isEqual parameters and every
//	                                      condition it tests; needsExecution; resetProposalIfChanged
//	go/consensus/cometbft/abci/mux.go     the cache-reuse condition of ProcessProposal; what
//	                                      PrepareProposal records; the arguments of both
//	                                      executeProposal calls; the BlockInfo BeginBlock builds;
//	                                      the cached-result guards of BeginBlock/DeliverTx/EndBlock
//	go/consensus/cometbft/abci/system.go  the guards of processSystemTx / validateSystemTxs
//	go/consensus/cometbft/api/block.go    BlockInfo fields (everything an application can read
//	                                      about the block besides its transactions)
//
// Output: lean/Generated/MuxFacts.lean; OasisProofs/Props/C01.lean compares with expectations.
package main

import (
	"bytes"
	"fmt"
	"go/ast"
	"go/parser"
	"go/printer"
	"go/token"
	"os"
	"path/filepath"
	"sort"
	"strings"
)

func init() { kinds["muxfacts"] = genMuxFacts }

type mfFile struct {
	fset *token.FileSet
	f    *ast.File
}

func mfParse(path string) (*mfFile, error) {
	fset := token.NewFileSet()
	f, err := parser.ParseFile(fset, path, nil, parser.SkipObjectResolution)
	if err != nil {
		return nil, err
	}
	return &mfFile{fset, f}, nil
}

func (m *mfFile) src(n ast.Node) string {
	var b bytes.Buffer
	_ = printer.Fprint(&b, m.fset, n)
	return strings.Join(strings.Fields(b.String()), " ")
}

func (m *mfFile) fn(name string) *ast.FuncDecl {
	for _, d := range m.f.Decls {
		if fd, ok := d.(*ast.FuncDecl); ok && fd.Name.Name == name {
			return fd
		}
	}
	return nil
}

func (m *mfFile) structFields(name string) []string {
	var out []string
	ast.Inspect(m.f, func(n ast.Node) bool {
		ts, ok := n.(*ast.TypeSpec)
		if !ok || ts.Name.Name != name {
			return true
		}
		if st, ok := ts.Type.(*ast.StructType); ok {
			for _, f := range st.Fields.List {
				for _, nm := range f.Names {
					out = append(out, nm.Name+" "+m.src(f.Type))
				}
			}
		}
		return false
	})
	return out
}

// ifConds lists the conditions of all if statements in a function body, in source order.
func (m *mfFile) ifConds(fd *ast.FuncDecl) []string {
	var out []string
	ast.Inspect(fd.Body, func(n ast.Node) bool {
		if s, ok := n.(*ast.IfStmt); ok {
			c := m.src(s.Cond)
			if s.Init != nil {
				c = m.src(s.Init) + "; " + c
			}
			out = append(out, c)
		}
		return true
	})
	return out
}

func (m *mfFile) params(fd *ast.FuncDecl) []string {
	var out []string
	for _, f := range fd.Type.Params.List {
		for _, nm := range f.Names {
			out = append(out, nm.Name+" "+m.src(f.Type))
		}
	}
	return out
}

// callsTo lists the argument lists of all calls to a method/function with the given name.
func (m *mfFile) callsTo(fd *ast.FuncDecl, name string) []string {
	var out []string
	ast.Inspect(fd.Body, func(n ast.Node) bool {
		c, ok := n.(*ast.CallExpr)
		if !ok {
			return true
		}
		var fn string
		switch f := c.Fun.(type) {
		case *ast.SelectorExpr:
			fn = f.Sel.Name
		case *ast.Ident:
			fn = f.Name
		}
		if fn == name {
			args := make([]string, len(c.Args))
			for i, a := range c.Args {
				args[i] = m.src(a)
			}
			out = append(out, strings.Join(args, ", "))
		}
		return true
	})
	return out
}

// assignsTo lists `lhs = rhs` statements whose left side starts with the given prefix.
func (m *mfFile) assignsTo(fd *ast.FuncDecl, prefix string) []string {
	var out []string
	ast.Inspect(fd.Body, func(n ast.Node) bool {
		a, ok := n.(*ast.AssignStmt)
		if !ok || len(a.Lhs) != 1 || len(a.Rhs) != 1 {
			return true
		}
		l := m.src(a.Lhs[0])
		if strings.HasPrefix(l, prefix) {
			out = append(out, l+" "+a.Tok.String()+" "+m.src(a.Rhs[0]))
		}
		return true
	})
	return out
}

// compositeLit returns the key: value elements of the first composite literal of the named type.
func (m *mfFile) compositeLit(fd *ast.FuncDecl, typ string) []string {
	var out []string
	found := false
	ast.Inspect(fd.Body, func(n ast.Node) bool {
		if found {
			return false
		}
		cl, ok := n.(*ast.CompositeLit)
		if !ok || m.src(cl.Type) != typ {
			return true
		}
		found = true
		for _, e := range cl.Elts {
			out = append(out, m.src(e))
		}
		return false
	})
	return out
}

func leanList(name string, l []string) string {
	var b strings.Builder
	fmt.Fprintf(&b, "def %s : List String := [", name)
	for i, s := range l {
		if i > 0 {
			b.WriteString(",")
		}
		fmt.Fprintf(&b, "\n  %q", s)
	}
	b.WriteString("]\n\n")
	return b.String()
}

func genMuxFacts(repo, out string, _ []string) error {
	abci := filepath.Join(repo, "go", "consensus", "cometbft", "abci")
	state, err := mfParse(filepath.Join(abci, "state.go"))
	if err != nil {
		return err
	}
	mux, err := mfParse(filepath.Join(abci, "mux.go"))
	if err != nil {
		return err
	}
	sys, err := mfParse(filepath.Join(abci, "system.go"))
	if err != nil {
		return err
	}
	blk, err := mfParse(filepath.Join(repo, "go", "consensus", "cometbft", "api", "block.go"))
	if err != nil {
		return err
	}
	need := func(m *mfFile, name string) (*ast.FuncDecl, error) {
		fd := m.fn(name)
		if fd == nil || fd.Body == nil {
			return nil, fmt.Errorf("function %s not found", name)
		}
		return fd, nil
	}
	var b strings.Builder
	b.WriteString("/- GENERATED by tools/gen muxfacts from the working tree of /repo — do not edit.\n")
	b.WriteString("   Source facts of the proposal cache (abci/state.go, abci/mux.go, abci/system.go, api/block.go). -/\n")
	b.WriteString("namespace Generated.MuxFacts\n\n")

	fields := state.structFields("proposalState")
	if len(fields) == 0 {
		return fmt.Errorf("struct proposalState not found")
	}
	b.WriteString(leanList("proposalStateFields", fields))
	bi := blk.structFields("BlockInfo")
	if len(bi) == 0 {
		return fmt.Errorf("struct BlockInfo not found")
	}
	b.WriteString(leanList("blockInfoFields", bi))

	for _, it := range []struct {
		m    *mfFile
		fn   string
		name string
		kind string
		arg  string
	}{
		{state, "isEqual", "isEqualParams", "params", ""},
		{state, "isEqual", "isEqualConditions", "ifs", ""},
		{state, "needsExecution", "needsExecutionReturns", "returns", ""},
		{state, "resetProposalIfChanged", "resetIfChangedConditions", "ifs", ""},
		{state, "setResults", "setResultsAssigns", "assigns", "ps."},
		{mux, "ProcessProposal", "processProposalConditions", "ifs", ""},
		{mux, "ProcessProposal", "processProposalExecuteArgs", "calls", "executeProposal"},
		{mux, "ProcessProposal", "processProposalAssigns", "assigns", "mux.state.proposal."},
		{mux, "PrepareProposal", "prepareProposalExecuteArgs", "calls", "executeProposal"},
		{mux, "PrepareProposal", "prepareProposalRecords", "assigns", "p."},
		{mux, "PrepareProposal", "prepareProposalResultAssigns", "assigns", "mux.state.proposal."},
		{mux, "executeProposal", "executeProposalAssigns", "assigns", "mux.state.proposal."},
		{mux, "executeProposal", "executeProposalSetResults", "calls", "setResults"},
		{mux, "BeginBlock", "beginBlockConditions", "ifs", ""},
		{mux, "BeginBlock", "beginBlockInfo", "lit", "api.BlockInfo"},
		{mux, "DeliverTx", "deliverTxConditions", "ifs", ""},
		{mux, "DeliverTx", "deliverTxAssigns", "assigns", "mux.state.proposal."},
		{mux, "EndBlock", "endBlockConditions", "ifs", ""},
		{sys, "processSystemTx", "processSystemTxConditions", "ifs", ""},
		{sys, "validateSystemTxs", "validateSystemTxsConditions", "ifs", ""},
		{sys, "prepareSystemTxs", "prepareSystemTxsMeta", "lit", "consensus.BlockMetadata"},
	} {
		fd, err := need(it.m, it.fn)
		if err != nil {
			return err
		}
		var l []string
		switch it.kind {
		case "params":
			l = it.m.params(fd)
		case "ifs":
			l = it.m.ifConds(fd)
		case "calls":
			l = it.m.callsTo(fd, it.arg)
		case "assigns":
			l = it.m.assignsTo(fd, it.arg)
		case "lit":
			l = it.m.compositeLit(fd, it.arg)
		case "returns":
			ast.Inspect(fd.Body, func(n ast.Node) bool {
				if r, ok := n.(*ast.ReturnStmt); ok {
					for _, e := range r.Results {
						l = append(l, it.m.src(e))
					}
				}
				return true
			})
		}
		if len(l) == 0 {
			return fmt.Errorf("%s: nothing extracted for %s (source changed shape?)", it.fn, it.name)
		}
		b.WriteString(leanList(it.name, l))
	}
	uses, err := mfLocalUses(repo)
	if err != nil {
		return err
	}
	b.WriteString("/-- A use of a replica-local input (own identity, local configuration, local upgrade backend)\n")
	b.WriteString("inside the abci package, the abci API package or an application.  `guards`: the conditions of\n")
	b.WriteString("the enclosing if statements (then-branches), outermost first; `checkOnly`: one of them is a\n")
	b.WriteString("positive `IsCheckOnly()` test. -/\n")
	b.WriteString("structure LocalUse where\n  file : String\n  fn : String\n  use : String\n  guards : String\n  checkOnly : Bool\n  ord : Nat\n  deriving DecidableEq, Repr\n\n")
	b.WriteString("def localInputUses : List LocalUse := [")
	for i, u := range uses {
		if i > 0 {
			b.WriteString(",")
		}
		fmt.Fprintf(&b, "\n  ⟨%q, %q, %q, %q, %v, %d⟩", u.file, u.fn, u.use, u.guards, u.checkOnly, u.ord)
	}
	b.WriteString("]\n\n")
	calls, err := mfUpgraderCalls(repo)
	if err != nil {
		return err
	}
	b.WriteString("/-- A call of the node-LOCAL upgrade manager (`upgrader.<method>`) in the abci package or an\n")
	b.WriteString("application: the statement that consumes its result (the enclosing if/switch, or the assignment\n")
	b.WriteString("and the statement after it), and every `return` / `panic` inside that statement. -/\n")
	b.WriteString("structure UpgraderCall where\n  file : String\n  fn : String\n  method : String\n  stmt : String\n  exits : List String\n  deriving DecidableEq, Repr\n\n")
	b.WriteString("def upgraderCalls : List UpgraderCall := [")
	for i, c := range calls {
		if i > 0 {
			b.WriteString(",")
		}
		ex := make([]string, len(c.exits))
		for j, e := range c.exits {
			ex[j] = fmt.Sprintf("%q", e)
		}
		fmt.Fprintf(&b, "\n  ⟨%q, %q, %q,\n    %q,\n    [%s]⟩", c.file, c.fn, c.method, c.stmt, strings.Join(ex, ", "))
	}
	b.WriteString("]\n\n")
	// process-local state of the applications (appstate.go)
	asFields, asWrites, err := appStateFacts(repo)
	if err != nil {
		return err
	}
	b.WriteString("/-- Fields of every type in apps/** with a BeginBlock/EndBlock/ExecuteTx/ExecuteMessage method. -/\n")
	b.WriteString(leanList("appStateFields", asFields))
	b.WriteString("/-- Statements in methods of those types that write through the receiver. -/\n")
	b.WriteString(leanList("appStateWrites", asWrites))
	bcUses, bcWriters, err := blockCtxFacts(repo)
	if err != nil {
		return err
	}
	b.WriteString("/-- Every use of the per-block context in go/consensus/cometbft (file:function: statement). -/\n")
	b.WriteString(leanList("blockCtxUses", bcUses))
	b.WriteString("/-- Calls of helpers that write the block context from a transaction handler. -/\n")
	b.WriteString(leanList("blockCtxWriterCalls", bcWriters))
	b.WriteString("end Generated.MuxFacts\n")
	return os.WriteFile(out, []byte(b.String()), 0o644)
}

// ---- calls of the node-local upgrade manager ---------------------------------------------

type mfCall struct {
	file, fn, method, stmt string
	exits                  []string
}

// upgraderMethod returns the method name if n contains a call `upgrader.<M>(…)`.
func mfUpgraderMethod(n ast.Node) string {
	found := ""
	if n == nil {
		return ""
	}
	ast.Inspect(n, func(c ast.Node) bool {
		if found != "" {
			return false
		}
		if _, isFn := c.(*ast.FuncLit); isFn {
			return false
		}
		if call, ok := c.(*ast.CallExpr); ok {
			if sel, ok := call.Fun.(*ast.SelectorExpr); ok {
				if id, ok := sel.X.(*ast.Ident); ok && id.Name == "upgrader" {
					found = sel.Sel.Name
				}
			}
		}
		return true
	})
	return found
}

func (m *mfFile) exitsIn(n ast.Node) []string {
	var out []string
	if n == nil {
		return nil
	}
	ast.Inspect(n, func(c ast.Node) bool {
		switch x := c.(type) {
		case *ast.ReturnStmt:
			out = append(out, m.src(x))
		case *ast.CallExpr:
			if id, ok := x.Fun.(*ast.Ident); ok && id.Name == "panic" {
				out = append(out, m.src(x))
			}
		}
		return true
	})
	return out
}

func mfUpgraderCalls(repo string) ([]mfCall, error) {
	var out []mfCall
	for _, r := range []string{"abci", "apps"} {
		root := filepath.Join(repo, "go", "consensus", "cometbft", r)
		err := filepath.Walk(root, func(path string, info os.FileInfo, err error) error {
			if err != nil {
				return err
			}
			if info.IsDir() || !strings.HasSuffix(path, ".go") || strings.HasSuffix(path, "_test.go") {
				return nil
			}
			src, err := os.ReadFile(path)
			if err != nil {
				return err
			}
			if bytes.Contains(src, []byte("//go:build verif")) {
				return nil
			}
			m, err := mfParse(path)
			if err != nil {
				return err
			}
			rel, _ := filepath.Rel(repo, path)
			for _, d := range m.f.Decls {
				fd, ok := d.(*ast.FuncDecl)
				if !ok || fd.Body == nil {
					continue
				}
				fn := fd.Name.Name
				if fd.Recv != nil && len(fd.Recv.List) > 0 {
					fn = strings.TrimPrefix(m.src(fd.Recv.List[0].Type), "*") + "." + fn
				}
				var list func(stmts []ast.Stmt)
				var one func(st ast.Stmt, next ast.Stmt)
				list = func(stmts []ast.Stmt) {
					for i, st := range stmts {
						var next ast.Stmt
						if i+1 < len(stmts) {
							next = stmts[i+1]
						}
						one(st, next)
					}
				}
				one = func(st ast.Stmt, next ast.Stmt) {
					switch x := st.(type) {
					case *ast.IfStmt:
						meth := mfUpgraderMethod(x.Init)
						if meth == "" {
							meth = mfUpgraderMethod(x.Cond)
						}
						if meth != "" {
							out = append(out, mfCall{rel, fn, meth, m.src(x), m.exitsIn(x)})
						}
						list(x.Body.List)
						if x.Else != nil {
							one(x.Else, nil)
						}
					case *ast.SwitchStmt:
						meth := mfUpgraderMethod(x.Init)
						if meth == "" && x.Tag != nil {
							meth = mfUpgraderMethod(x.Tag)
						}
						if meth != "" {
							out = append(out, mfCall{rel, fn, meth, m.src(x), m.exitsIn(x)})
						}
						for _, c := range x.Body.List {
							list(c.(*ast.CaseClause).Body)
						}
					case *ast.BlockStmt:
						list(x.List)
					case *ast.ForStmt:
						list(x.Body.List)
					case *ast.RangeStmt:
						list(x.Body.List)
					case *ast.TypeSwitchStmt:
						for _, c := range x.Body.List {
							list(c.(*ast.CaseClause).Body)
						}
					case *ast.SelectStmt:
						for _, c := range x.Body.List {
							list(c.(*ast.CommClause).Body)
						}
					case *ast.LabeledStmt:
						one(x.Stmt, next)
					default:
						if meth := mfUpgraderMethod(st); meth != "" {
							text := m.src(st)
							var exits []string
							if next != nil {
								text += " ; " + m.src(next)
								exits = m.exitsIn(next)
							}
							out = append(out, mfCall{rel, fn, meth, text, exits})
						}
					}
				}
				list(fd.Body.List)
			}
			return nil
		})
		if err != nil {
			return nil, err
		}
	}
	return out, nil
}

// ---- replica-local inputs -------------------------------------------------------------------

type mfUse struct {
	file, fn, use, guards string
	checkOnly             bool
	ord                   int
}

// Selector names that read something only this node has: its identity, its local configuration,
// its local upgrade backend.
var mfLocalNames = map[string]bool{
	"OwnTxSigner": true, "OwnTxSignerAddress": true, "LocalMinGasPrice": true,
	"identity": true, "minGasPrice": true, "ownTxSigner": true, "ownTxSignerAddress": true,
	"haltEpoch": true, "haltHeight": true, "shouldLocalHalt": true,
	"Upgrader": true, "upgrader": true,
}

// ApplicationConfig fields that feed the inputs above (storage, pruning and checkpointer settings do
// not reach the applications).
var mfLocalCfg = map[string]bool{"Identity": true, "MinGasPrice": true, "HaltEpoch": true, "HaltHeight": true}

func mfLocalUses(repo string) ([]mfUse, error) {
	var out []mfUse
	roots := []string{"abci", "api", "apps"}
	for _, r := range roots {
		root := filepath.Join(repo, "go", "consensus", "cometbft", r)
		err := filepath.Walk(root, func(path string, info os.FileInfo, err error) error {
			if err != nil {
				return err
			}
			if info.IsDir() || !strings.HasSuffix(path, ".go") || strings.HasSuffix(path, "_test.go") {
				return nil
			}
			src, err := os.ReadFile(path)
			if err != nil {
				return err
			}
			if bytes.Contains(src, []byte("//go:build verif")) {
				return nil // verification hooks, not part of the node
			}
			m, err := mfParse(path)
			if err != nil {
				return err
			}
			rel, _ := filepath.Rel(repo, path)
			inAbci := r == "abci"
			for _, d := range m.f.Decls {
				fd, ok := d.(*ast.FuncDecl)
				if !ok || fd.Body == nil {
					continue
				}
				fn := fd.Name.Name
				if fd.Recv != nil && len(fd.Recv.List) > 0 {
					t := m.src(fd.Recv.List[0].Type)
					fn = strings.TrimPrefix(t, "*") + "." + fn
				}
				var guards []string
				var walk func(n ast.Node)
				walk = func(n ast.Node) {
					switch x := n.(type) {
					case nil:
						return
					case *ast.IfStmt:
						walk(x.Cond)
						guards = append(guards, m.src(x.Cond))
						if x.Init != nil {
							// the value bound in the init statement is consumed under the condition
							walk(x.Init)
						}
						walk(x.Body)
						guards = guards[:len(guards)-1]
						if x.Else != nil {
							guards = append(guards, "!("+m.src(x.Cond)+")")
							walk(x.Else)
							guards = guards[:len(guards)-1]
						}
						return
					case *ast.SelectorExpr:
						hit := mfLocalNames[x.Sel.Name]
						if id, ok := x.X.(*ast.Ident); ok && inAbci && id.Name == "cfg" && mfLocalCfg[x.Sel.Name] {
							hit = true
						}
						if hit {
							u := mfUse{file: rel, fn: fn, use: m.src(x), guards: strings.Join(guards, " && ")}
							for _, g := range guards {
								for _, op := range strings.Split(g, " && ") {
									if strings.HasSuffix(op, "IsCheckOnly()") && !strings.HasPrefix(op, "!") && !strings.Contains(op, "||") {
										u.checkOnly = true
									}
								}
							}
							out = append(out, u)
						}
						walk(x.X)
						return
					}
					// generic traversal of children
					ast.Inspect(n, func(c ast.Node) bool {
						if c == n {
							return true
						}
						if c != nil {
							walk(c)
						}
						return false
					})
				}
				walk(fd.Body)
			}
			return nil
		})
		if err != nil {
			return nil, err
		}
	}
	sort.SliceStable(out, func(i, j int) bool {
		if out[i].file != out[j].file {
			return out[i].file < out[j].file
		}
		return false
	})
	cnt := map[string]int{}
	for i := range out {
		k := out[i].file + "\x00" + out[i].fn + "\x00" + out[i].use + "\x00" + out[i].guards
		out[i].ord = cnt[k]
		cnt[k]++
	}
	return out, nil
}
