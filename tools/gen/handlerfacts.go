package main

// handlerfacts: translate the transaction handlers of the consensus applications into a small
// control-flow language (`Flow`, see lean/OasisModel/Handlers/Flow.lean) that keeps exactly what
// matters for "a failed transaction changes nothing": persistent writes (and the state wrapper /
// transaction layer they go through), NewTransaction / Commit, message publication, and error /
// ok returns.  The Lean side runs a (proved sound) analysis over the regenerated flows.
//
// Pure syntax translation with go/ast (no type information):
//   * state variables: `v := <pkg>.NewMutableState(<ctx>.State())`, `NewStakeAccumulatorCache(<ctx>)`
//     and parameters whose declared type mentions MutableState / StakeAccumulatorCache;
//   * a call `<statevar>.<Method>(…)` is a write iff Method matches writeRe; all methods seen on
//     state variables are also emitted (readMethods) so that a new method must be classified;
//   * `<c> = <c>.NewTransaction()` / `<d> := <c>.NewTransaction()` → beginTx; `<c>.Commit()` on a
//     context variable → commitTx;
//   * calls to functions/methods declared in the same package are inlined (depth-limited, no
//     recursion) with parameter→argument renaming for identifiers;
//   * `if err != nil {…}` directly after a call is kept as `ifErr` so the analysis can follow only
//     the matching branch; other conditionals become `alt`, loops `loop`.
// Anything the translator does not understand in a position that matters (nested function
// literals containing writes, goto, labelled branches into handlers) makes it fail.

import (
	"fmt"
	"go/ast"
	"go/parser"
	"go/printer"
	"go/token"
	"os"
	"path/filepath"
	"regexp"
	"sort"
	"strings"
)

func init() { kinds["handlerfacts"] = genHandlerFacts }

var writeRe = regexp.MustCompile(`^(Set|Remove|Delete|Clear|Add|Sub|Transfer|Slash|Commit|Insert|Put|Append|Update|Reset|Claim|Release|Suspend|Resume|Create|Discard|Store|Push|Pop|Inc|Dec|Schedule|Expire|Cancel|Finish|Close|Burn|Mint|Move|Shrink)([A-Z]|$)`)

// totalReads are state reads that fail only when the state itself is unavailable/corrupted
// (they return a default for a missing key); the multiplexer turns such errors into a halt,
// not into a failed transaction.
var totalReads = map[string]bool{"ConsensusParameters": true, "Account": true}

// fatalMode: translate for the fatal-path ledger (C10): inline every same-package callee and the
// methods of the application's state package, keep all error returns.
var fatalMode bool

type hfPkg struct {
	sub   *hfPkg // the application's `state` sub-package (fatal mode only)
	name  string
	funcs map[string]*ast.FuncDecl // by name (methods and functions); nil when ambiguous
	fset  *token.FileSet
}

type hfCtx struct {
	pkg      *hfPkg
	stateVar map[string]bool // identifiers known to be state wrappers
	ctxVar   map[string]bool // identifiers known to be *api.Context
	rename   map[string]string
	stack    []string
	readM    map[string]bool
	writeM   map[string]bool
	fn       *ast.FuncDecl
	ids      map[string]int // variable numbering of this root (shared by inlined callees)
	guard    string          // text of the innermost enclosing non-error condition (handler facts only)
	constB   map[string]bool // parameters bound to a literal true/false at the inlined call site
}

// vid numbers a (renamed) variable; 0 is reserved for "unknown".
func (c *hfCtx) vid(name string) string {
	if name == "?" || name == "" {
		return "0"
	}
	if n, ok := c.ids[name]; ok {
		return fmt.Sprint(n)
	}
	n := len(c.ids) + 1
	c.ids[name] = n
	return fmt.Sprint(n)
}

func (c *hfCtx) rn(id string) string {
	if r, ok := c.rename[id]; ok {
		return r
	}
	return id
}

func loadPkg(dir string) (*hfPkg, error) {
	fset := token.NewFileSet()
	p := &hfPkg{name: filepath.Base(dir), funcs: map[string]*ast.FuncDecl{}, fset: fset}
	ents, err := os.ReadDir(dir)
	if err != nil {
		return nil, err
	}
	seen := map[string]int{}
	qual := map[string]*ast.FuncDecl{}
	for _, e := range ents {
		n := e.Name()
		if e.IsDir() || !strings.HasSuffix(n, ".go") || strings.HasSuffix(n, "_test.go") || strings.HasSuffix(n, "_verif.go") {
			continue
		}
		f, err := parser.ParseFile(fset, filepath.Join(dir, n), nil, 0)
		if err != nil {
			return nil, err
		}
		for _, d := range f.Decls {
			if fd, ok := d.(*ast.FuncDecl); ok && fd.Body != nil {
				seen[fd.Name.Name]++
				p.funcs[fd.Name.Name] = fd
				if fd.Recv != nil && len(fd.Recv.List) == 1 {
					qual[strings.TrimPrefix(typeStr(fd.Recv.List[0].Type), "*")+"."+fd.Name.Name] = fd
				}
			}
		}
	}
	for n, k := range seen {
		if k > 1 {
			p.funcs[n] = nil // ambiguous by name: never inlined
		}
	}
	for k, fd := range qual {
		p.funcs[k] = fd
	}
	return p, nil
}

func typeStr(e ast.Expr) string {
	switch t := e.(type) {
	case *ast.StarExpr:
		return "*" + typeStr(t.X)
	case *ast.SelectorExpr:
		return typeStr(t.X) + "." + t.Sel.Name
	case *ast.Ident:
		return t.Name
	case *ast.ArrayType:
		return "[]" + typeStr(t.Elt)
	}
	return "?"
}

func lastResultIsError(fd *ast.FuncDecl) bool {
	if fd.Type.Results == nil || len(fd.Type.Results.List) == 0 {
		return false
	}
	l := fd.Type.Results.List[len(fd.Type.Results.List)-1]
	return typeStr(l.Type) == "error"
}

func q(s string) string { return fmt.Sprintf("%q", s) }

func seq(parts []string) string {
	var keep []string
	for _, p := range parts {
		if p != "" && p != ".skip" {
			keep = append(keep, p)
		}
	}
	if len(keep) == 0 {
		return ".skip"
	}
	if len(keep) == 1 {
		return keep[0]
	}
	return ".seq [" + strings.Join(keep, ", ") + "]"
}

func alt(parts []string) string {
	allSkip := true
	for _, p := range parts {
		if p != ".skip" {
			allSkip = false
		}
	}
	if allSkip {
		return ".skip"
	}
	return ".alt [" + strings.Join(parts, ", ") + "]"
}

func (c *hfCtx) pos(n ast.Node) string {
	p := c.pkg.fset.Position(n.Pos())
	base := fmt.Sprintf("%s:%s", filepath.Base(p.Filename), c.fn.Name.Name)
	if r, ok := n.(*ast.ReturnStmt); ok && len(r.Results) > 0 {
		base += ":" + exprText(r.Results[len(r.Results)-1])
	}
	if !fatalMode && c.guard != "" {
		base += " @ " + c.guard
	}
	return base
}

// exprText renders a short, line-number-free description of a returned error expression.
func exprText(e ast.Expr) string {
	switch x := e.(type) {
	case *ast.Ident:
		return x.Name
	case *ast.SelectorExpr:
		return exprText(x.X) + "." + x.Sel.Name
	case *ast.BasicLit:
		v := strings.Trim(x.Value, "\"`")
		if len(v) > 48 {
			v = v[:48]
		}
		return v
	case *ast.CallExpr:
		t := exprText(x.Fun)
		if len(x.Args) > 0 {
			t += "(" + exprText(x.Args[0]) + ")"
		}
		return t
	case *ast.StarExpr:
		return "*" + exprText(x.X)
	case *ast.UnaryExpr:
		return x.Op.String() + exprText(x.X)
	}
	return "_"
}

// calls returns the flow of all calls inside an expression, in evaluation order (arguments first).
func (c *hfCtx) exprFlow(e ast.Expr) (string, error) {
	if e == nil {
		return ".skip", nil
	}
	var parts []string
	var firstErr error
	var visit func(n ast.Node) bool
	visit = func(n ast.Node) bool {
		switch x := n.(type) {
		case *ast.FuncLit:
			// A function literal may or may not run; translate its body as an optional block.
			sub := *c
			sub.fn = &ast.FuncDecl{Name: c.fn.Name, Type: x.Type, Body: x.Body} // returns belong to the literal
			fl, err := sub.blockFlow(x.Body.List)
			if err != nil {
				firstErr = err
			}
			if fl != ".skip" {
				parts = append(parts, alt([]string{".loop ("+stripRet(fl)+")", ".skip"}))
			}
			return false
		case *ast.CallExpr:
			for _, a := range x.Args {
				ast.Inspect(a, visit)
			}
			// receiver chain calls (e.g. ctx.MessageDispatcher().Publish)
			if se, ok := x.Fun.(*ast.SelectorExpr); ok {
				ast.Inspect(se.X, visit)
			}
			fl, err := c.callFlow(x)
			if err != nil && firstErr == nil {
				firstErr = err
			}
			if fl != ".skip" {
				parts = append(parts, fl)
			}
			return false
		}
		return true
	}
	ast.Inspect(e, visit)
	return seq(parts), firstErr
}

// stripRet makes returns inside a closure body harmless for the enclosing function (they return
// from the closure only); we conservatively keep the events and drop nothing else.
func stripRet(fl string) string {
	fl = regexp.MustCompile(`\.ret(Err|ErrVar|Last|Maybe) "[^"]*"`).ReplaceAllString(fl, ".closureRet")
	fl = strings.ReplaceAll(fl, ".retErrU", ".closureRet")
	fl = strings.ReplaceAll(fl, ".retOk", ".closureRet")
	return fl
}

func identName(e ast.Expr) string {
	if id, ok := e.(*ast.Ident); ok {
		return id.Name
	}
	return ""
}

// isStateCtor recognises `<pkg>.NewMutableState(<c>.State())` and `NewStakeAccumulatorCache(<c>)`.
func (c *hfCtx) isStateCtor(call *ast.CallExpr) (ctxv string, ok bool) {
	var name string
	switch f := call.Fun.(type) {
	case *ast.SelectorExpr:
		name = f.Sel.Name
	case *ast.Ident:
		name = f.Name
	}
	if name == "NewMutableState" && len(call.Args) == 1 {
		if inner, ok := call.Args[0].(*ast.CallExpr); ok {
			if se, ok := inner.Fun.(*ast.SelectorExpr); ok && se.Sel.Name == "State" {
				if id := identName(se.X); id != "" {
					return c.rn(id), true
				}
			}
		}
		return "?", true
	}
	if name == "NewStakeAccumulatorCache" && len(call.Args) >= 1 {
		if id := identName(call.Args[0]); id != "" {
			return c.rn(id), true
		}
		return "?", true
	}
	return "", false
}

func (c *hfCtx) callFlow(call *ast.CallExpr) (string, error) {
	switch f := call.Fun.(type) {
	case *ast.SelectorExpr:
		recv := identName(f.X)
		m := f.Sel.Name
		if recv == "fmt" || recv == "errors" || m == "Debug" || m == "Info" || m == "Warn" || m == "Error" || m == "EmitEvent" || m == "Logger" {
			return ".skip", nil
		}
		if recv != "" && c.ctxVar[recv] {
			switch m {
			case "Commit":
				return ".commitTx " + c.vid(c.rn(recv)), nil
			case "NewTransaction":
				// handled at the assignment; a bare call is unsupported
				return ".skip", nil
			}
			return ".skip", nil
		}
		if fatalMode && recv != "" && c.stateVar[recv] && c.pkg.sub != nil {
			if fd, ok := c.pkg.sub.funcs[m]; ok && fd != nil && !simpleAccessor(fd) {
				saved := c.pkg
				c.pkg = c.pkg.sub
				fl, err := c.inline(fd, call)
				c.pkg = saved
				return fl, err
			}
		}
		if recv != "" && c.stateVar[recv] {
			if writeRe.MatchString(m) {
				c.writeM[m] = true
				return fmt.Sprintf(".write %s %s", c.vid(c.rn(recv)), q(m)), nil
			}
			c.readM[m] = true
			if totalReads[m] {
				return ".extU", nil
			}
			return ".ext", nil
		}
		if m == "Publish" {
			// message dispatch: other applications may write through the given context
			cv := "?"
			if len(call.Args) > 0 {
				if id := identName(call.Args[0]); id != "" && c.ctxVar[id] {
					cv = c.rn(id)
				}
			}
			return ".publish " + c.vid(cv), nil
		}
		// method of the same package (e.g. app.transfer)
		if fd, ok := c.pkg.funcs[m]; ok && fd != nil && recv != "" && !isPkgIdent(recv) {
			return c.inline(fd, call)
		}
		// fatal mode: methods of helper types declared in the application's state package
		// (e.g. EpochSigning.EligibleEntities), resolved by their (package-unique) name
		if fatalMode && c.pkg.sub != nil && !isPkgIdent(recv) && len(m) > 5 {
			if fd, ok := c.pkg.sub.funcs[m]; ok && fd != nil && fd.Recv != nil && lastResultIsError(fd) && !simpleAccessor(fd) {
				saved := c.pkg
				c.pkg = c.pkg.sub
				fl, err := c.inline(fd, call)
				c.pkg = saved
				return fl, err
			}
		}
		return ".ext", nil
	case *ast.Ident:
		switch f.Name {
		case "panic":
			return ".halt", nil
		case "len", "cap", "append", "make", "new", "copy", "delete", "min", "max", "string", "int", "uint64", "int64", "byte", "clear":
			return ".skip", nil
		}
		if fd, ok := c.pkg.funcs[f.Name]; ok && fd != nil {
			return c.inline(fd, call)
		}
		return ".ext", nil
	}
	return ".ext", nil
}

func isPkgIdent(s string) bool {
	// imported package qualifiers used in the apps; conservative list + convention
	switch s {
	case "registry", "staking", "governance", "roothash", "beacon", "scheduler", "cbor", "fmt", "api", "abciAPI", "tmapi",
		"registryState", "stakingState", "governanceState", "roothashState", "beaconState", "schedulerState", "vaultState",
		"secretsState", "churpState", "consensusState", "quantity", "errors", "signature", "hash", "transaction", "node",
		"commitment", "block", "message", "vault", "secrets", "churp", "keymanager", "kmCommon", "common", "upgrade", "bytes", "sort", "slices", "math", "time":
		return true
	}
	return false
}

func (c *hfCtx) inline(fd *ast.FuncDecl, call *ast.CallExpr) (string, error) {
	name := fd.Name.Name
	for _, s := range c.stack {
		if s == name {
			return ".ext", nil // recursion: opaque
		}
	}
	if len(c.stack) >= 7 {
		return ".ext", nil
	}
	sub := &hfCtx{pkg: c.pkg, stateVar: map[string]bool{}, ctxVar: map[string]bool{}, rename: map[string]string{},
		stack: append(append([]string{}, c.stack...), name), readM: c.readM, writeM: c.writeM, fn: fd, ids: c.ids,
		constB: map[string]bool{}}
	// parameters
	i := 0
	for _, fld := range fd.Type.Params.List {
		ts := typeStr(fld.Type)
		names := fld.Names
		if len(names) == 0 {
			i++
			continue
		}
		for _, pn := range names {
			var arg ast.Expr
			if i < len(call.Args) {
				arg = call.Args[i]
			}
			i++
			an := identName(arg)
			if ts == "bool" && (an == "true" || an == "false") {
				sub.constB[pn.Name] = an == "true"
			}
			if strings.Contains(ts, "MutableState") || strings.Contains(ts, "StakeAccumulatorCache") {
				sub.stateVar[pn.Name] = true
				if an != "" {
					sub.rename[pn.Name] = c.rn(an)
				} else {
					sub.rename[pn.Name] = "?"
				}
			}
			if strings.HasSuffix(ts, "Context") && strings.HasPrefix(ts, "*") {
				sub.ctxVar[pn.Name] = true
				if an != "" {
					sub.rename[pn.Name] = c.rn(an)
				} else {
					sub.rename[pn.Name] = "?"
				}
			}
		}
	}
	body, err := sub.blockFlow(fd.Body.List)
	if err != nil {
		return "", err
	}
	if !fatalMode && !strings.Contains(body, ".write") && !strings.Contains(body, ".publish") && !strings.Contains(body, "Tx") && !strings.Contains(body, ".mk") {
		// nothing of interest inside: an opaque fallible call
		return ".ext", nil
	}
	return fmt.Sprintf(".call %s (%s)", q(name), body), nil
}

func (c *hfCtx) blockFlow(stmts []ast.Stmt) (string, error) {
	var parts []string
	for i := 0; i < len(stmts); i++ {
		fl, err := c.stmtFlow(stmts[i])
		if err != nil {
			return "", err
		}
		parts = append(parts, fl)
	}
	return seq(parts), nil
}

func isErrNotNil(e ast.Expr) bool {
	b, ok := e.(*ast.BinaryExpr)
	if !ok || b.Op != token.NEQ {
		return false
	}
	return identName(b.X) == "err" && identName(b.Y) == "nil"
}

func isErrIsNil(e ast.Expr) bool {
	b, ok := e.(*ast.BinaryExpr)
	if !ok || b.Op != token.EQL {
		return false
	}
	return identName(b.X) == "err" && identName(b.Y) == "nil"
}

func (c *hfCtx) assignFlow(lhs []ast.Expr, rhs []ast.Expr) (string, error) {
	var parts []string
	for i, r := range rhs {
		if call, ok := r.(*ast.CallExpr); ok {
			// ctx = ctx.NewTransaction()
			if se, ok := call.Fun.(*ast.SelectorExpr); ok && se.Sel.Name == "NewTransaction" {
				old := identName(se.X)
				nw := ""
				if i < len(lhs) {
					nw = identName(lhs[i])
				}
				if old == "" || nw == "" || !c.ctxVar[old] {
					return "", fmt.Errorf("%s: unsupported NewTransaction form", c.pos(call))
				}
				c.ctxVar[nw] = true
				newName := nw
				if nw != old {
					// a fresh variable: give it a unique name within the flow
					newName = c.fn.Name.Name + "." + nw
					c.rename[nw] = newName
				} else {
					newName = c.rn(old)
				}
				parts = append(parts, fmt.Sprintf(".beginTx %s %s", c.vid(newName), c.vid(c.rn(old))))
				continue
			}
			if cv, ok := c.isStateCtor(call); ok {
				// first evaluate nested calls in args (none of interest), then bind
				if i < len(lhs) {
					if v := identName(lhs[i]); v != "" && v != "_" {
						c.stateVar[v] = true
						uniq := c.fn.Name.Name + "." + v
						c.rename[v] = uniq
						parts = append(parts, fmt.Sprintf(".mk %s %s", c.vid(uniq), c.vid(cv)))
						continue
					}
				}
				parts = append(parts, ".ext")
				continue
			}
			// derived contexts: cc := ctx.WithCallerAddress(...) / NewChild / WithSimulation
			if se, ok := call.Fun.(*ast.SelectorExpr); ok {
				if old := identName(se.X); old != "" && c.ctxVar[old] &&
					(strings.HasPrefix(se.Sel.Name, "With") || se.Sel.Name == "NewChild") && i < len(lhs) {
					if nw := identName(lhs[i]); nw != "" {
						c.ctxVar[nw] = true
						c.rename[nw] = c.rn(old)
					}
				}
			}
		}
		fl, err := c.exprFlow(r)
		if err != nil {
			return "", err
		}
		parts = append(parts, fl)
	}
	return seq(parts), nil
}

func (c *hfCtx) stmtFlow(s ast.Stmt) (string, error) {
	switch x := s.(type) {
	case nil:
		return ".skip", nil
	case *ast.BlockStmt:
		return c.blockFlow(x.List)
	case *ast.ExprStmt:
		return c.exprFlow(x.X)
	case *ast.AssignStmt:
		return c.assignFlow(x.Lhs, x.Rhs)
	case *ast.DeclStmt:
		var parts []string
		if gd, ok := x.Decl.(*ast.GenDecl); ok {
			for _, sp := range gd.Specs {
				if vs, ok := sp.(*ast.ValueSpec); ok {
					if strings.Contains(typeStrOrEmpty(vs.Type), "MutableState") || strings.Contains(typeStrOrEmpty(vs.Type), "StakeAccumulatorCache") {
						for _, n := range vs.Names {
							c.stateVar[n.Name] = true
							// bound later by assignment; until then its layer is the current context's
							c.rename[n.Name] = c.fn.Name.Name + "." + n.Name
						}
					}
					lhs := make([]ast.Expr, len(vs.Names))
					for i, n := range vs.Names {
						lhs[i] = n
					}
					fl, err := c.assignFlow(lhs, vs.Values)
					if err != nil {
						return "", err
					}
					parts = append(parts, fl)
				}
			}
		}
		return seq(parts), nil
	case *ast.IfStmt:
		var parts []string
		initFl, err := c.stmtFlow(x.Init)
		if err != nil {
			return "", err
		}
		parts = append(parts, initFl)
		condFl, err := c.exprFlow(x.Cond)
		if err != nil {
			return "", err
		}
		parts = append(parts, condFl)
		if v, ok := c.constCond(x.Cond); ok {
			// decided by a boolean literal bound at the inlined call site: only that branch exists
			if v {
				fl, err := c.blockFlow(x.Body.List)
				if err != nil {
					return "", err
				}
				return seq(append(parts, fl)), nil
			}
			if x.Else != nil {
				fl, err := c.stmtFlow(x.Else)
				if err != nil {
					return "", err
				}
				return seq(append(parts, fl)), nil
			}
			return seq(parts), nil
		}
		savedGuard := c.guard
		plainErr := isErrNotNil(x.Cond) || isErrIsNil(x.Cond)
		if !plainErr {
			c.guard = c.condText(x.Cond)
		}
		thenFl, err := c.blockFlow(x.Body.List)
		c.guard = savedGuard
		if err != nil {
			return "", err
		}
		elseFl := ".skip"
		if x.Else != nil {
			if !plainErr {
				c.guard = "!(" + c.condText(x.Cond) + ")"
			}
			elseFl, err = c.stmtFlow(x.Else)
			c.guard = savedGuard
			if err != nil {
				return "", err
			}
		}
		switch {
		case isErrNotNil(x.Cond):
			parts = append(parts, fmt.Sprintf(".ifErr (%s) (%s)", thenFl, elseFl))
		case isErrIsNil(x.Cond):
			parts = append(parts, fmt.Sprintf(".ifErr (%s) (%s)", elseFl, thenFl))
		default:
			parts = append(parts, ".clearErr", alt([]string{thenFl, elseFl}))
		}
		return seq(parts), nil
	case *ast.SwitchStmt:
		var parts []string
		initFl, err := c.stmtFlow(x.Init)
		if err != nil {
			return "", err
		}
		tagFl, err := c.exprFlow(x.Tag)
		if err != nil {
			return "", err
		}
		if identName(x.Tag) == "err" {
			// `switch err { case nil: A; case E: B; default: C }` right after a fallible call
			var okAlts, errAlts []string
			for _, cl := range x.Body.List {
				cc := cl.(*ast.CaseClause)
				fl, err := c.blockFlow(cc.Body)
				if err != nil {
					return "", err
				}
				isNil := false
				for _, e := range cc.List {
					if identName(e) == "nil" {
						isNil = true
					}
				}
				if isNil {
					okAlts = append(okAlts, fl)
				} else {
					errAlts = append(errAlts, fl)
				}
			}
			if len(okAlts) == 0 {
				okAlts = []string{".skip"}
			}
			if len(errAlts) == 0 {
				errAlts = []string{".skip"}
			}
			parts = append(parts, initFl, fmt.Sprintf(".ifErr (%s) (%s)", alt(errAlts), alt(okAlts)))
			return seq(parts), nil
		}
		parts = append(parts, initFl, tagFl, ".clearErr")
		var alts []string
		var ft []bool
		hasDefault := false
		for _, cl := range x.Body.List {
			cc := cl.(*ast.CaseClause)
			if cc.List == nil {
				hasDefault = true
			}
			isFT := false
			if n := len(cc.Body); n > 0 {
				if br, ok := cc.Body[n-1].(*ast.BranchStmt); ok && br.Tok == token.FALLTHROUGH {
					isFT = true
				}
			}
			ft = append(ft, isFT)
			var cparts []string
			var gtexts []string
			for _, e := range cc.List {
				fl, err := c.exprFlow(e)
				if err != nil {
					return "", err
				}
				cparts = append(cparts, fl)
				gtexts = append(gtexts, c.condText(e))
			}
			savedGuard := c.guard
			if cc.List == nil {
				c.guard = "default"
			} else {
				c.guard = "case " + strings.Join(gtexts, ", ")
			}
			fl, err := c.blockFlow(cc.Body)
			c.guard = savedGuard
			if err != nil {
				return "", err
			}
			cparts = append(cparts, fl)
			alts = append(alts, seq(cparts))
		}
		for k := len(alts) - 2; k >= 0; k-- {
			if ft[k] {
				alts[k] = seq([]string{alts[k], alts[k+1]})
			}
		}
		if !hasDefault {
			alts = append(alts, ".skip")
		}
		parts = append(parts, alt(alts))
		return seq(parts), nil
	case *ast.TypeSwitchStmt:
		var alts []string
		for _, cl := range x.Body.List {
			cc := cl.(*ast.CaseClause)
			fl, err := c.blockFlow(cc.Body)
			if err != nil {
				return "", err
			}
			alts = append(alts, fl)
		}
		alts = append(alts, ".skip")
		return seq([]string{".clearErr", alt(alts)}), nil
	case *ast.ForStmt:
		initFl, err := c.stmtFlow(x.Init)
		if err != nil {
			return "", err
		}
		condFl, err := c.exprFlow(x.Cond)
		if err != nil {
			return "", err
		}
		postFl, err := c.stmtFlow(x.Post)
		if err != nil {
			return "", err
		}
		bodyFl, err := c.blockFlow(x.Body.List)
		if err != nil {
			return "", err
		}
		return seq([]string{initFl, ".clearErr", ".loop (" + seq([]string{condFl, bodyFl, postFl}) + ")", ".clearErr"}), nil
	case *ast.RangeStmt:
		xf, err := c.exprFlow(x.X)
		if err != nil {
			return "", err
		}
		bodyFl, err := c.blockFlow(x.Body.List)
		if err != nil {
			return "", err
		}
		return seq([]string{xf, ".clearErr", ".loop (" + bodyFl + ")", ".clearErr"}), nil
	case *ast.ReturnStmt:
		var parts []string
		// tail call `return f(...)`: the callee's outcome is the outcome
		for _, r := range x.Results {
			fl, err := c.exprFlow(r)
			if err != nil {
				return "", err
			}
			parts = append(parts, fl)
		}
		if !lastResultIsError(c.fn) || len(x.Results) == 0 {
			if len(x.Results) == 0 && lastResultIsError(c.fn) {
				parts = append(parts, ".retMaybe "+q(c.pos(x))) // naked return with named results
			} else {
				parts = append(parts, ".retOk")
			}
			return seq(parts), nil
		}
		last := x.Results[len(x.Results)-1]
		switch {
		case identName(last) == "nil":
			parts = append(parts, ".retOk")
		case isUnavailable(last):
			parts = append(parts, ".retErrU")
		case isErrWrap(last):
			parts = append(parts, ".retErrVar "+q(c.pos(x))) // wraps and propagates `err`
		case isErrCtor(last):
			parts = append(parts, ".retErr "+q(c.pos(x)))
		case isCall(last) && len(x.Results) == 1:
			parts = append(parts, ".retLast "+q(c.pos(x))) // returns whatever the call just made returned
		case identName(last) == "err":
			parts = append(parts, ".retErrVar "+q(c.pos(x)))
		default:
			parts = append(parts, ".retErr "+q(c.pos(x)))
		}
		return seq(parts), nil
	case *ast.DeferStmt:
		// `defer ctx.Close()` is the rollback of an uncommitted transaction; modelled by the
		// analysis at function exit. Other deferred calls: translate as optional.
		if se, ok := x.Call.Fun.(*ast.SelectorExpr); ok && (se.Sel.Name == "Close" || se.Sel.Name == "Discard") {
			return ".skip", nil
		}
		fl, err := c.exprFlow(x.Call)
		if err != nil {
			return "", err
		}
		if fl == ".skip" || fl == ".ext" {
			return ".skip", nil
		}
		return "", fmt.Errorf("%s: unsupported defer with effects", c.pos(x))
	case *ast.BranchStmt:
		switch x.Tok {
		case token.CONTINUE, token.BREAK, token.FALLTHROUGH:
			return ".skip", nil // over-approximated by loop/alt semantics (fallthrough: see switch)
		}
		return "", fmt.Errorf("%s: unsupported branch statement %s", c.pos(x), x.Tok)
	case *ast.IncDecStmt, *ast.EmptyStmt:
		return ".skip", nil
	case *ast.GoStmt:
		return "", fmt.Errorf("%s: go statement in handler", c.pos(x))
	case *ast.LabeledStmt:
		return c.stmtFlow(x.Stmt)
	case *ast.SelectStmt, *ast.SendStmt:
		return "", fmt.Errorf("%s: channel operation in handler", c.pos(s))
	}
	return "", fmt.Errorf("unsupported statement %T", s)
}

func isCall(e ast.Expr) bool { _, ok := e.(*ast.CallExpr); return ok }

// condText renders a condition as source text (whitespace-normalised, truncated).
func (c *hfCtx) condText(e ast.Expr) string {
	if e == nil {
		return ""
	}
	var b strings.Builder
	if err := printer.Fprint(&b, c.pkg.fset, e); err != nil {
		return "?"
	}
	t := strings.Join(strings.Fields(b.String()), " ")
	if len(t) > 90 {
		t = t[:90]
	}
	return t
}

// constCond evaluates a condition that only depends on parameters bound to boolean literals.
// ok is false when the condition is not decided by them.
func (c *hfCtx) constCond(e ast.Expr) (val, ok bool) {
	switch x := e.(type) {
	case *ast.ParenExpr:
		return c.constCond(x.X)
	case *ast.Ident:
		v, ok := c.constB[x.Name]
		return v, ok
	case *ast.UnaryExpr:
		if x.Op == token.NOT {
			v, ok := c.constCond(x.X)
			return !v, ok
		}
	case *ast.BinaryExpr:
		l, lok := c.constCond(x.X)
		r, rok := c.constCond(x.Y)
		switch x.Op {
		case token.LAND:
			if (lok && !l) || (rok && !r) {
				return false, true
			}
			if lok && rok {
				return true, true
			}
		case token.LOR:
			if (lok && l) || (rok && r) {
				return true, true
			}
			if lok && rok {
				return false, true
			}
		}
	}
	return false, false
}

// isErrWrap recognises `fmt.Errorf("…%w…", …, err)`: propagation of the pending error.
func isErrWrap(e ast.Expr) bool {
	call, ok := e.(*ast.CallExpr)
	if !ok || !isErrCtor(e) || len(call.Args) < 2 {
		return false
	}
	lit, ok := call.Args[0].(*ast.BasicLit)
	if !ok || !strings.Contains(lit.Value, "%w") {
		return false
	}
	return identName(call.Args[len(call.Args)-1]) == "err"
}

// isUnavailable recognises `abciAPI.UnavailableStateError(err)`.
func isUnavailable(e ast.Expr) bool {
	call, ok := e.(*ast.CallExpr)
	if !ok {
		return false
	}
	se, ok := call.Fun.(*ast.SelectorExpr)
	return ok && se.Sel.Name == "UnavailableStateError"
}

// simpleAccessor: a state-package method whose every error return is a state-unavailable error
// or nil (plain getters/setters); it is kept opaque (read/write classification applies).
func simpleAccessor(fd *ast.FuncDecl) bool {
	simple := true
	ast.Inspect(fd.Body, func(n ast.Node) bool {
		if r, ok := n.(*ast.ReturnStmt); ok && len(r.Results) > 0 {
			last := r.Results[len(r.Results)-1]
			if identName(last) == "nil" || isUnavailable(last) {
				return true
			}
			simple = false
		}
		return true
	})
	return simple
}

// isErrCtor recognises expressions that construct a new error value (fmt.Errorf, errors.New, …).
func isErrCtor(e ast.Expr) bool {
	call, ok := e.(*ast.CallExpr)
	if !ok {
		return false
	}
	se, ok := call.Fun.(*ast.SelectorExpr)
	if !ok {
		return false
	}
	pk := identName(se.X)
	return (pk == "fmt" && se.Sel.Name == "Errorf") || (pk == "errors" && (se.Sel.Name == "New" || se.Sel.Name == "WithContext"))
}

func typeStrOrEmpty(e ast.Expr) string {
	if e == nil {
		return ""
	}
	return typeStr(e)
}

type hfRoot struct{ dir, fn string }

func genHandlerFacts(repo, out string, args []string) error {
	apps := filepath.Join(repo, "go/consensus/cometbft/apps")
	roots := []hfRoot{
		{"staking/state", "AuthenticateAndPayFees"}, {"staking", "PostExecuteTx"},
		{"staking", "ExecuteTx"}, {"registry", "ExecuteTx"}, {"governance", "ExecuteTx"},
		{"roothash", "ExecuteTx"}, {"vault", "ExecuteTx"}, {"beacon", "Application.ExecuteTx"},
		{"beacon", "backendVRF.ExecuteTx"}, {"beacon", "backendInsecure.ExecuteTx"},
		{"keymanager/secrets", "ExecuteTx"}, {"keymanager/churp", "ExecuteTx"},
		{"staking", "ExecuteMessage"}, {"registry", "ExecuteMessage"}, {"governance", "ExecuteMessage"},
		{"roothash", "ExecuteMessage"}, {"vault", "ExecuteMessage"}, {"scheduler", "ExecuteMessage"},
	}
	var b strings.Builder
	b.WriteString("import OasisModel.Handlers.Flow\n/- REGENERATED by tools/gen handlerfacts from /repo — do not edit. -/\nnamespace Generated.HandlerFacts\nopen OasisModel.Handlers\n\n")
	readM, writeM := map[string]bool{}, map[string]bool{}
	var names []string
	for _, r := range roots {
		p, err := loadPkg(filepath.Join(apps, r.dir))
		if err != nil {
			return err
		}
		fd := p.funcs[r.fn]
		if fd == nil {
			// beacon dispatches to backends with the same method name: take every candidate
			return fmt.Errorf("%s: %s not found or ambiguous", r.dir, r.fn)
		}
		c := &hfCtx{pkg: p, stateVar: map[string]bool{}, ctxVar: map[string]bool{}, rename: map[string]string{},
			stack: []string{r.fn}, readM: readM, writeM: writeM, fn: fd, ids: map[string]int{}, constB: map[string]bool{}}
		for _, fld := range fd.Type.Params.List {
			ts := typeStr(fld.Type)
			for _, n := range fld.Names {
				if strings.HasSuffix(ts, "Context") {
					c.ctxVar[n.Name] = true
				}
			}
		}
		fl, err := c.blockFlow(fd.Body.List)
		if err != nil {
			return fmt.Errorf("%s.%s: %v", r.dir, r.fn, err)
		}
		id := strings.ReplaceAll(r.dir, "/", "_") + "_" + strings.ReplaceAll(r.fn, ".", "_")
		names = append(names, id)
		b.WriteString(fmt.Sprintf("def %s : Flow :=\n  %s\n\n", id, fl))
	}
	b.WriteString("def all : List (String × Flow) := [\n")
	for i, n := range names {
		sep := ","
		if i == len(names)-1 {
			sep = ""
		}
		b.WriteString(fmt.Sprintf("  (%s, %s)%s\n", q(n), n, sep))
	}
	b.WriteString("]\n\n")

	// Per-message-kind flows of every ExecuteMessage root: `switch msg.Kind { case K: … }`.
	type mk struct{ root, kind, def string }
	var kinds []mk
	for _, r := range roots {
		if !strings.HasSuffix(r.fn, "ExecuteMessage") {
			continue
		}
		p, err := loadPkg(filepath.Join(apps, r.dir))
		if err != nil {
			return err
		}
		fd := p.funcs[r.fn]
		rootID := strings.ReplaceAll(r.dir, "/", "_") + "_" + strings.ReplaceAll(r.fn, ".", "_")
		for si, st := range fd.Body.List {
			sw, ok := st.(*ast.SwitchStmt)
			if !ok {
				continue
			}
			if se, ok := sw.Tag.(*ast.SelectorExpr); !ok || se.Sel.Name != "Kind" {
				continue
			}
			for _, cl := range sw.Body.List {
				cc := cl.(*ast.CaseClause)
				for _, ke := range cc.List {
					kname := exprText(ke)
					if i := strings.LastIndex(kname, "."); i >= 0 {
						kname = kname[i+1:]
					}
					c := &hfCtx{pkg: p, stateVar: map[string]bool{}, ctxVar: map[string]bool{}, rename: map[string]string{},
						stack: []string{r.fn}, readM: map[string]bool{}, writeM: map[string]bool{}, fn: fd, ids: map[string]int{}, constB: map[string]bool{}}
					for _, fld := range fd.Type.Params.List {
						ts := typeStr(fld.Type)
						for _, n := range fld.Names {
							if strings.HasSuffix(ts, "Context") {
								c.ctxVar[n.Name] = true
							}
						}
					}
					pre, err := c.blockFlow(fd.Body.List[:si])
					if err != nil {
						return err
					}
					body, err := c.blockFlow(cc.Body)
					if err != nil {
						return err
					}
					def := rootID + "__" + kname
					b.WriteString(fmt.Sprintf("def %s : Flow :=\n  %s\n\n", def, seq([]string{pre, body})))
					kinds = append(kinds, mk{rootID, kname, def})
				}
			}
		}
	}
	b.WriteString("def msgKinds : List (String × String × Flow) := [\n")
	for i, k := range kinds {
		sep := ","
		if i == len(kinds)-1 {
			sep = ""
		}
		b.WriteString(fmt.Sprintf("  (%s, %s, %s)%s\n", q(k.root), q(k.kind), k.def, sep))
	}
	b.WriteString("]\n\n")
	b.WriteString("def writeMethods : List String := [" + joinSorted(writeM) + "]\n")
	b.WriteString("def readMethods : List String := [" + joinSorted(readM) + "]\n")
	b.WriteString("\nend Generated.HandlerFacts\n")
	return os.WriteFile(out, []byte(b.String()), 0o644)
}

func init() { kinds["fatalpaths"] = genFatalPaths }

func genFatalPaths(repo, out string, args []string) error {
	fatalMode = true
	apps := filepath.Join(repo, "go/consensus/cometbft/apps")
	roots := []hfRoot{
		{"beacon", "Application.BeginBlock"}, {"beacon", "Application.EndBlock"},
		{"governance", "BeginBlock"}, {"governance", "EndBlock"},
		{"keymanager", "Application.BeginBlock"}, {"keymanager", "Application.EndBlock"},
		{"keymanager/churp", "BeginBlock"}, {"keymanager/secrets", "BeginBlock"},
		{"registry", "BeginBlock"}, {"registry", "EndBlock"},
		{"roothash", "BeginBlock"}, {"roothash", "EndBlock"},
		{"scheduler", "BeginBlock"}, {"scheduler", "EndBlock"},
		{"staking", "BeginBlock"}, {"staking", "EndBlock"},
		{"vault", "BeginBlock"}, {"vault", "EndBlock"},
	}
	var b strings.Builder
	b.WriteString("import OasisModel.Handlers.Flow\n/- REGENERATED by tools/gen fatalpaths from /repo — do not edit. -/\nnamespace Generated.FatalPaths\nopen OasisModel.Handlers\n\n")
	var names []string
	for _, r := range roots {
		p, err := loadPkg(filepath.Join(apps, r.dir))
		if err != nil {
			return err
		}
		if sp, err := loadPkg(filepath.Join(apps, r.dir, "state")); err == nil {
			p.sub = sp
		}
		fd := p.funcs[r.fn]
		if fd == nil {
			return fmt.Errorf("%s: %s not found or ambiguous", r.dir, r.fn)
		}
		c := &hfCtx{pkg: p, stateVar: map[string]bool{}, ctxVar: map[string]bool{}, rename: map[string]string{},
			stack: []string{r.fn}, readM: map[string]bool{}, writeM: map[string]bool{}, fn: fd, ids: map[string]int{}, constB: map[string]bool{}}
		for _, fld := range fd.Type.Params.List {
			ts := typeStr(fld.Type)
			for _, n := range fld.Names {
				if strings.HasSuffix(ts, "Context") {
					c.ctxVar[n.Name] = true
				}
			}
		}
		fl, err := c.blockFlow(fd.Body.List)
		if err != nil {
			return fmt.Errorf("%s.%s: %v", r.dir, r.fn, err)
		}
		id := strings.ReplaceAll(r.dir, "/", "_") + "_" + strings.ReplaceAll(r.fn, ".", "_")
		names = append(names, id)
		b.WriteString(fmt.Sprintf("def %s : Flow :=\n  %s\n\n", id, fl))
	}
	b.WriteString("def all : List (String × Flow) := [\n")
	for i, n := range names {
		sep := ","
		if i == len(names)-1 {
			sep = ""
		}
		b.WriteString(fmt.Sprintf("  (%s, %s)%s\n", q(n), n, sep))
	}
	b.WriteString("]\n\nend Generated.FatalPaths\n")
	return os.WriteFile(out, []byte(b.String()), 0o644)
}

func joinSorted(m map[string]bool) string {
	var ks []string
	for k := range m {
		ks = append(ks, q(k))
	}
	sort.Strings(ks)
	return strings.Join(ks, ", ")
}
