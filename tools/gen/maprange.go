// maprange: the map-range site ledger of DESIGN.md §4.2.4 (property C01).
//
// Lists every place in the consensus-critical packages where Go's randomized map iteration
// order can become visible:
//
//	range      `for … := range m`       with m of map type (go/types; type parameters by core type)
//	mapsiter   `for … := range maps.Keys(m) / maps.Values(m) / maps.All(m)`   (std iterators)
//	mapscall   any other call of maps.Keys / maps.Values (std or x/exp) on a map — the order
//	           escapes into a slice/iterator value
//
// in non-test files, keyed by file / enclosing function / ranged expression / ordinal of that
// (function, expression) pair.  Line numbers are emitted as comments only, so that unrelated
// edits do not disturb the ledger.  Types are resolved with go/types through
// golang.org/x/tools/go/packages (full type checking of the listed packages, no heuristic).
//
// Output: lean/Generated/MapRangeSites.lean; OasisProofs/Props/C01.lean holds the hand-written
// expectation table and proves `sites = expected` by `decide`.
package main

import (
	"fmt"
	"go/ast"
	"go/token"
	"go/types"
	"os"
	"path/filepath"
	"sort"
	"strings"

	"golang.org/x/tools/go/packages"
)

func init() { kinds["maprange"] = genMapRange }

var mapRangePatterns = []string{
	"./consensus/cometbft/abci/...",
	"./consensus/cometbft/api/...",
	"./consensus/cometbft/apps/...",
	"./staking/api",
	"./registry/api",
	"./roothash/api/...",
	"./governance/api",
	"./scheduler/api",
	// further API packages the applications call into during block execution
	"./vault/api/...",
	"./keymanager/api/...",
	"./keymanager/secrets/...",
	"./keymanager/churp/...",
	"./beacon/api/...",
	"./upgrade/api/...",
	"./consensus/api/...",
	"./common/quantity/...",
}

type mrSite struct {
	file, fn, expr, kind string
	ord                  int
	line                 int
}

func mrIsMapType(t types.Type) bool {
	if t == nil {
		return false
	}
	switch u := t.Underlying().(type) {
	case *types.Map:
		return true
	case *types.Interface:
		// type parameter: look at the type set's core type
		if tp, ok := t.(*types.TypeParam); ok {
			_ = tp
			core := mrCoreMap(u)
			return core
		}
	}
	return false
}

// mrCoreMap reports whether every term of the constraint interface is a map type.
func mrCoreMap(iface *types.Interface) bool {
	found := false
	for i := 0; i < iface.NumEmbeddeds(); i++ {
		switch e := iface.EmbeddedType(i).(type) {
		case *types.Union:
			for j := 0; j < e.Len(); j++ {
				if _, ok := e.Term(j).Type().Underlying().(*types.Map); !ok {
					return false
				}
				found = true
			}
		default:
			if _, ok := e.Underlying().(*types.Map); ok {
				found = true
			} else if in, ok := e.Underlying().(*types.Interface); ok {
				if mrCoreMap(in) {
					found = true
				}
			}
		}
	}
	return found
}

// mrMapsCall recognises maps.Keys / maps.Values / maps.All (std `maps` or golang.org/x/exp/maps)
// applied to a map and returns the selector name.
func mrMapsCall(info *types.Info, e ast.Expr) (string, ast.Expr, bool) {
	call, ok := e.(*ast.CallExpr)
	if !ok || len(call.Args) < 1 {
		return "", nil, false
	}
	var sel *ast.SelectorExpr
	switch f := call.Fun.(type) {
	case *ast.SelectorExpr:
		sel = f
	case *ast.IndexExpr:
		sel, _ = f.X.(*ast.SelectorExpr)
	case *ast.IndexListExpr:
		sel, _ = f.X.(*ast.SelectorExpr)
	}
	if sel == nil {
		return "", nil, false
	}
	id, ok := sel.X.(*ast.Ident)
	if !ok {
		return "", nil, false
	}
	pn, ok := info.Uses[id].(*types.PkgName)
	if !ok {
		return "", nil, false
	}
	p := pn.Imported().Path()
	if p != "maps" && p != "golang.org/x/exp/maps" {
		return "", nil, false
	}
	switch sel.Sel.Name {
	case "Keys", "Values", "All":
		if mrIsMapType(info.TypeOf(call.Args[0])) {
			return sel.Sel.Name, call.Args[0], true
		}
	}
	return "", nil, false
}

func mrRecvName(fd *ast.FuncDecl) string {
	if fd.Recv == nil || len(fd.Recv.List) == 0 {
		return fd.Name.Name
	}
	t := fd.Recv.List[0].Type
	for {
		switch x := t.(type) {
		case *ast.StarExpr:
			t = x.X
			continue
		case *ast.IndexExpr:
			t = x.X
			continue
		case *ast.IndexListExpr:
			t = x.X
			continue
		}
		break
	}
	if id, ok := t.(*ast.Ident); ok {
		return id.Name + "." + fd.Name.Name
	}
	return fd.Name.Name
}

func genMapRange(repo, out string, _ []string) error {
	goDir := filepath.Join(repo, "go")
	cfg := &packages.Config{
		Mode: packages.NeedName | packages.NeedFiles | packages.NeedSyntax | packages.NeedTypes |
			packages.NeedTypesInfo | packages.NeedImports | packages.NeedDeps,
		Dir:   goDir,
		Tests: false,
		Env:   append(os.Environ(), "GOFLAGS=-mod=mod", "GOPROXY=off"),
	}
	pkgs, err := packages.Load(cfg, mapRangePatterns...)
	if err != nil {
		return fmt.Errorf("packages.Load: %w", err)
	}
	if len(pkgs) == 0 {
		return fmt.Errorf("no packages matched")
	}
	var sites []mrSite
	seenFile := map[string]bool{}
	for _, p := range pkgs {
		if len(p.Errors) > 0 {
			return fmt.Errorf("package %s does not type-check: %v", p.PkgPath, p.Errors[0])
		}
		if p.TypesInfo == nil {
			return fmt.Errorf("package %s: no type information", p.PkgPath)
		}
		for _, f := range p.Syntax {
			fname := p.Fset.Position(f.Pos()).Filename
			if strings.HasSuffix(fname, "_test.go") || seenFile[fname] {
				continue
			}
			seenFile[fname] = true
			rel, err := filepath.Rel(repo, fname)
			if err != nil {
				return err
			}
			for _, d := range f.Decls {
				fn := "<package-level>"
				if fd, ok := d.(*ast.FuncDecl); ok {
					fn = mrRecvName(fd)
				}
				// calls that are the operand of a range statement are reported as mapsiter, not twice
				rangedCalls := map[ast.Expr]bool{}
				add := func(pos token.Pos, kind string, x ast.Expr) {
					sites = append(sites, mrSite{file: rel, fn: fn, expr: types.ExprString(x), kind: kind,
						line: p.Fset.Position(pos).Line})
				}
				ast.Inspect(d, func(nd ast.Node) bool {
					switch s := nd.(type) {
					case *ast.RangeStmt:
						if mrIsMapType(p.TypesInfo.TypeOf(s.X)) {
							add(s.Pos(), "range", s.X)
						} else if name, arg, ok := mrMapsCall(p.TypesInfo, s.X); ok {
							rangedCalls[s.X] = true
							add(s.Pos(), "mapsiter."+name, arg)
						}
					case *ast.CallExpr:
						if rangedCalls[s] {
							return true
						}
						if name, arg, ok := mrMapsCall(p.TypesInfo, s); ok {
							add(s.Pos(), "mapscall."+name, arg)
						}
					}
					return true
				})
			}
		}
	}
	sort.SliceStable(sites, func(i, j int) bool {
		a, b := sites[i], sites[j]
		if a.file != b.file {
			return a.file < b.file
		}
		return a.line < b.line
	})
	// ordinal of (file, fn, expr, kind)
	cnt := map[string]int{}
	for i := range sites {
		k := sites[i].file + "\x00" + sites[i].fn + "\x00" + sites[i].expr + "\x00" + sites[i].kind
		sites[i].ord = cnt[k]
		cnt[k]++
	}
	var b strings.Builder
	b.WriteString("/- GENERATED by tools/gen maprange from the working tree of /repo — do not edit.\n")
	b.WriteString("   Every place where Go map iteration order can become visible in the consensus-critical\n")
	b.WriteString("   packages (go/types resolved).  Packages: " + strings.Join(mapRangePatterns, " ") + " -/\n")
	b.WriteString("namespace Generated.MapRangeSites\n\n")
	b.WriteString("structure Site where\n  file : String\n  fn : String\n  expr : String\n  kind : String\n  ord : Nat\n  deriving DecidableEq, Repr\n\n")
	b.WriteString("def sites : List Site := [\n")
	for i, s := range sites {
		sep := ","
		if i == len(sites)-1 {
			sep = ""
		}
		fmt.Fprintf(&b, "  ⟨%q, %q, %q, %q, %d⟩%s -- line %d\n", s.file, s.fn, s.expr, s.kind, s.ord, sep, s.line)
	}
	b.WriteString("]\n\n")
	fmt.Fprintf(&b, "def packagesLoaded : Nat := %d\n\n", len(pkgs))
	b.WriteString("end Generated.MapRangeSites\n")
	return os.WriteFile(out, []byte(b.String()), 0o644)
}
