module verifgen

go 1.26.3

// go/types loading for extractors that need resolved types (maprange). Versions are the ones
// pinned by /repo/go/go.sum (copied next to this file on every run) and present in the module cache.
require golang.org/x/tools v0.47.0

require (
	golang.org/x/mod v0.37.0 // indirect
	golang.org/x/sync v0.22.0 // indirect
)
