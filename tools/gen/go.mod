module verifgen

go 1.23
