// quantity: the "Quantity-DSL translator" (DESIGN.md §4.2.1).
//
// Translates the pure straight-line big-integer functions of oasis-core into Lean definitions:
//
//	level 1 (namespace Generated.QuantityGen, over Int = math/big.Int):
//	    go/common/quantity/quantity.go: isValid, IsValid, IsZero, Cmp, Clone, Add, Sub, SubUpTo,
//	    Mul, Quo, Move, MoveUpTo
//	level 2 (namespace Generated.SharePoolGen, over Nat, calling the OasisModel.QN interface whose
//	    functions are proved equal to level 1 on non-negative arguments):
//	    go/staking/api/api.go: SharePool.{sharesForStake, Deposit, StakeForShares, Withdraw}
//	    go/consensus/cometbft/apps/staking/state/state.go: slashPool, computeCommission
//
// Conventions of the output: a pointer argument (or receiver) that the Go code mutates becomes a
// `let mut` variable whose final value is returned; a function with an `error` result lives in
// `Except QErr`; the value returned is the tuple (non-error results..., mutated arguments in
// parameter order...).  A *SharePool is expanded into its two quantities.  `x == nil` is
// translated as `false` and pointer equality of two arguments (the alias guard of Move) as
// `false` (the model's value semantics: arguments are non-nil, distinct cells); both stay visible
// in the output.
//
// Anything outside the supported subset makes the translator fail (non-zero exit): a changed
// source either still translates — and then the bridge lemmas in OasisProofs/Props/C15.lean must
// still hold — or breaks the regen step.
package main

import (
	"fmt"
	"go/ast"
	"go/parser"
	"go/token"
	"os"
	"path/filepath"
	"strings"
)

func init() { kinds["quantity"] = genQuantity }

type vkind int

const (
	kQ      vkind = iota // *quantity.Quantity / quantity.Quantity (one integer)
	kPool                // *staking.SharePool (two integers)
	kBig                 // *big.Int / big.Int (level 1 only)
	kIgnore              // context, state receiver
)

type goParam struct {
	name string
	kind vkind
	ptr  bool
}

type fnSig struct {
	goName   string
	lean     string   // Lean name used at call sites
	params   []goParam // receiver first
	results  []string // Lean types of the non-error results
	hasErr   bool
	mutated  []string // expanded Lean parameter names that are mutated, in parameter order
	atomic   bool     // no error is raised after a mutation (needed for `_ = f(...)`)
	expanded []string
}

type translator struct {
	fset    *token.FileSet
	ty      string // "Int" or "Nat"
	level1  bool
	fns     map[string]*fnSig // callable by Go name (methods and functions share one table)
	skipNil map[string]string // function -> parameter whose `== nil` guard block is skipped
	out     []string
	notes   []string
	guards  []string // alias guards found in the source: `if a == b { b = b.Clone() }`

	// per function
	cur       *fnSig
	vars      map[string]vkind
	isParam   map[string]bool
	detached  map[string]bool
	rebound   []string // pointer parameters that are re-assigned (`n = n.Clone()`): local mutable copies
	declared  map[string]bool
	mutSet    map[string]bool
	mutatedSo bool
	atomic    bool
	tmp       int
}

type unsupported struct{ msg string }

func (t *translator) fail(n ast.Node, f string, a ...any) {
	pos := ""
	if n != nil {
		pos = t.fset.Position(n.Pos()).String() + ": "
	}
	panic(unsupported{pos + fmt.Sprintf(f, a...)})
}

var leanKeywords = map[string]bool{"from": true, "to": true, "at": true, "end": true, "in": true, "do": true,
	"then": true, "else": true, "fun": true, "let": true, "have": true, "show": true, "with": true, "match": true,
	"open": true, "def": true, "by": true, "if": true, "for": true, "return": true, "instance": true, "where": true}

func ident(s string) string {
	if leanKeywords[s] {
		return s + "_"
	}
	return s
}

func typeKind(e ast.Expr) (vkind, bool, bool) {
	ptr := false
	if s, ok := e.(*ast.StarExpr); ok {
		ptr = true
		e = s.X
	}
	name := ""
	switch x := e.(type) {
	case *ast.Ident:
		name = x.Name
	case *ast.SelectorExpr:
		if p, ok := x.X.(*ast.Ident); ok {
			name = p.Name + "." + x.Sel.Name
		}
	}
	switch name {
	case "Quantity", "quantity.Quantity":
		return kQ, ptr, true
	case "SharePool", "staking.SharePool":
		return kPool, ptr, true
	case "big.Int":
		return kBig, ptr, true
	case "MutableState", "context.Context":
		return kIgnore, ptr, true
	}
	return 0, ptr, false
}

func expand(p goParam) []string {
	switch p.kind {
	case kPool:
		return []string{ident(p.name) + "_Balance", ident(p.name) + "_TotalShares"}
	case kIgnore:
		return nil
	}
	return []string{ident(p.name)}
}

// ---------------------------------------------------------------- expressions

func (t *translator) lv(e ast.Expr) (string, bool) {
	switch x := e.(type) {
	case *ast.ParenExpr:
		return t.lv(x.X)
	case *ast.Ident:
		if k, ok := t.vars[x.Name]; ok && (k == kQ || k == kBig) {
			return ident(x.Name), true
		}
	case *ast.UnaryExpr:
		if x.Op == token.AND {
			return t.lv(x.X)
		}
	case *ast.StarExpr:
		return t.lv(x.X)
	case *ast.SelectorExpr:
		if x.Sel.Name == "inner" {
			return t.lv(x.X)
		}
		if id, ok := x.X.(*ast.Ident); ok && t.vars[id.Name] == kPool {
			if _, ok := t.vars[id.Name]; ok && (x.Sel.Name == "Balance" || x.Sel.Name == "TotalShares") {
				return ident(id.Name) + "_" + x.Sel.Name, true
			}
		}
	}
	return "", false
}

func (t *translator) isName(e ast.Expr, names ...string) bool {
	s := ""
	switch x := e.(type) {
	case *ast.Ident:
		s = x.Name
	case *ast.SelectorExpr:
		if p, ok := x.X.(*ast.Ident); ok {
			s = p.Name + "." + x.Sel.Name
		}
	}
	for _, n := range names {
		if s == n {
			return true
		}
	}
	return false
}

// val translates a quantity / big.Int valued expression.
func (t *translator) val(e ast.Expr) string {
	if v, ok := t.lv(e); ok {
		return v
	}
	switch x := e.(type) {
	case *ast.ParenExpr:
		return t.val(x.X)
	case *ast.UnaryExpr:
		if x.Op == token.AND {
			if cl, ok := x.X.(*ast.CompositeLit); ok { // &Quantity{inner: amount} / &Quantity{}
				if len(cl.Elts) == 0 {
					return "0"
				}
				if kv, ok := cl.Elts[0].(*ast.KeyValueExpr); ok && len(cl.Elts) == 1 && t.isName(kv.Key, "inner") {
					return t.val(kv.Value)
				}
			}
			if t.isName(x.X, "zero") {
				return "0"
			}
		}
	case *ast.Ident:
		if x.Name == "zero" {
			return "0"
		}
		if x.Name == "CommissionRateDenominator" {
			return "commissionRateDenominator"
		}
	case *ast.SelectorExpr:
		if t.isName(x, "staking.CommissionRateDenominator") {
			return "commissionRateDenominator"
		}
	case *ast.CallExpr:
		sig, args, _ := t.call(x)
		if sig.hasErr || len(sig.mutated) > 0 || len(sig.results) != 1 || sig.results[0] != t.ty {
			t.fail(e, "call %s used as a value but is not a pure quantity function", sig.goName)
		}
		return "(" + strings.Join(append([]string{sig.lean}, args...), " ") + ")"
	}
	t.fail(e, "unsupported quantity expression")
	return ""
}

// intExpr translates an int-valued expression (results of Cmp).
func (t *translator) intExpr(e ast.Expr) string {
	switch x := e.(type) {
	case *ast.ParenExpr:
		return t.intExpr(x.X)
	case *ast.BasicLit:
		if x.Kind == token.INT {
			return x.Value
		}
	case *ast.UnaryExpr:
		if x.Op == token.SUB {
			return "(-" + t.intExpr(x.X) + ")"
		}
	case *ast.CallExpr:
		if se, ok := x.Fun.(*ast.SelectorExpr); ok && t.level1 {
			if recv, ok := t.bigRecv(se.X); ok && len(x.Args) == 1 {
				switch se.Sel.Name {
				case "Cmp":
					return "(Big.cmp " + recv + " " + t.val(x.Args[0]) + ")"
				case "CmpAbs":
					return "(Big.cmpAbs " + recv + " " + t.val(x.Args[0]) + ")"
				}
			}
		}
		sig, args, _ := t.call(x)
		if sig.hasErr || len(sig.mutated) > 0 || len(sig.results) != 1 || sig.results[0] != "Int" {
			t.fail(e, "call %s used as an int but is not a pure int function", sig.goName)
		}
		return "(" + strings.Join(append([]string{sig.lean}, args...), " ") + ")"
	}
	t.fail(e, "unsupported int expression")
	return ""
}

// bigRecv recognises a big.Int receiver expression (x.inner or a big.Int variable).
func (t *translator) bigRecv(e ast.Expr) (string, bool) {
	if se, ok := e.(*ast.SelectorExpr); ok && se.Sel.Name == "inner" {
		return t.lv(se.X)
	}
	if id, ok := e.(*ast.Ident); ok && t.vars[id.Name] == kBig {
		return ident(id.Name), true
	}
	return "", false
}

func (t *translator) isPtrParam(e ast.Expr) bool {
	id, ok := e.(*ast.Ident)
	return ok && t.isParam[id.Name]
}

// cond translates a boolean expression to a Lean Bool term.
func (t *translator) cond(e ast.Expr) string {
	switch x := e.(type) {
	case *ast.ParenExpr:
		return t.cond(x.X)
	case *ast.UnaryExpr:
		if x.Op == token.NOT {
			return "(!" + t.cond(x.X) + ")"
		}
	case *ast.BinaryExpr:
		switch x.Op {
		case token.LOR:
			return "(" + t.cond(x.X) + " || " + t.cond(x.Y) + ")"
		case token.LAND:
			return "(" + t.cond(x.X) + " && " + t.cond(x.Y) + ")"
		case token.EQL, token.NEQ:
			if t.isName(x.Y, "nil") && t.isPtrParam(x.X) {
				t.note("`%s == nil` is translated as false (arguments are non-nil)", x.X.(*ast.Ident).Name)
				if x.Op == token.EQL {
					return "false"
				}
				return "true"
			}
			if t.isPtrParam(x.X) && t.isPtrParam(x.Y) {
				t.note("pointer equality `%s == %s` is translated as false (distinct cells)", x.X.(*ast.Ident).Name, x.Y.(*ast.Ident).Name)
				g := fmt.Sprintf("%s: %s == %s", t.cur.goName, x.X.(*ast.Ident).Name, x.Y.(*ast.Ident).Name)
				dup := false
				for _, h := range t.guards {
					dup = dup || h == g
				}
				if !dup {
					t.guards = append(t.guards, g)
				}
				if x.Op == token.EQL {
					return "false"
				}
				return "true"
			}
			op := "=="
			if x.Op == token.NEQ {
				op = "!="
			}
			return "(" + t.intExpr(x.X) + " " + op + " " + t.intExpr(x.Y) + ")"
		case token.LSS, token.LEQ, token.GTR, token.GEQ:
			op := map[token.Token]string{token.LSS: "<", token.LEQ: "≤", token.GTR: ">", token.GEQ: "≥"}[x.Op]
			return "(decide (" + t.intExpr(x.X) + " " + op + " " + t.intExpr(x.Y) + "))"
		}
	case *ast.CallExpr:
		sig, args, _ := t.call(x)
		if sig.hasErr || len(sig.mutated) > 0 || len(sig.results) != 1 || sig.results[0] != "Bool" {
			t.fail(e, "call %s used as a condition but is not a pure bool function", sig.goName)
		}
		return "(" + strings.Join(append([]string{sig.lean}, args...), " ") + ")"
	}
	t.fail(e, "unsupported condition")
	return ""
}

func (t *translator) note(f string, a ...any) {
	s := t.cur.goName + ": " + fmt.Sprintf(f, a...)
	for _, n := range t.notes {
		if n == s {
			return
		}
	}
	t.notes = append(t.notes, s)
}

// call resolves a call to a translated function; returns its signature, the Lean argument terms
// (expanded) and, aligned with sig.mutated, the variables to rebind ("_" if the argument is a temporary).
func (t *translator) call(ce *ast.CallExpr) (*fnSig, []string, []string) {
	var name string
	var goArgs []ast.Expr
	switch f := ce.Fun.(type) {
	case *ast.Ident:
		name = f.Name
		goArgs = ce.Args
	case *ast.SelectorExpr:
		name = f.Sel.Name
		if p, ok := f.X.(*ast.Ident); ok && (p.Name == "quantity" || p.Name == "staking") && t.vars[p.Name] == 0 {
			if _, isVar := t.vars[p.Name]; !isVar {
				goArgs = ce.Args
				break
			}
		}
		goArgs = append([]ast.Expr{f.X}, ce.Args...)
	default:
		t.fail(ce, "unsupported call")
	}
	sig, ok := t.fns[name]
	if !ok {
		t.fail(ce, "call to %s, which is not a translated function", name)
	}
	// drop ignored parameters of the callee (state receiver, context)
	var ps []goParam
	for _, p := range sig.params {
		if p.kind != kIgnore {
			ps = append(ps, p)
		}
	}
	var as []ast.Expr
	if len(goArgs) == len(sig.params) {
		for i, p := range sig.params {
			if p.kind != kIgnore {
				as = append(as, goArgs[i])
			}
		}
	} else {
		t.fail(ce, "call to %s with %d arguments, expected %d", name, len(goArgs), len(sig.params))
	}
	var args []string
	rebind := map[string]string{}
	for i, p := range ps {
		a := as[i]
		switch p.kind {
		case kPool:
			id, ok := a.(*ast.Ident)
			if !ok || t.vars[id.Name] != kPool {
				t.fail(a, "share pool argument must be a variable")
			}
			ex := expand(goParam{name: id.Name, kind: kPool})
			args = append(args, ex...)
			ce2 := expand(p)
			rebind[ce2[0]], rebind[ce2[1]] = ex[0], ex[1]
		default:
			if v, ok := t.lv(a); ok {
				args = append(args, v)
				rebind[expand(p)[0]] = v
			} else {
				args = append(args, t.val(a))
				rebind[expand(p)[0]] = "_"
			}
		}
	}
	var targets []string
	for _, m := range sig.mutated {
		targets = append(targets, rebind[m])
	}
	return sig, args, targets
}

// ---------------------------------------------------------------- statements

func (t *translator) assign(ind, v, rhs string) string {
	if t.isParamVar(v) {
		if t.detached[v] {
			// rebinding of a pointer parameter: local
		} else {
			t.mutSet[v] = true
			t.mutatedSo = true
		}
	}
	if t.declared[v] {
		return ind + v + " := " + rhs
	}
	t.declared[v] = true
	return ind + "let mut " + v + " := " + rhs
}

func (t *translator) isParamVar(v string) bool {
	for _, e := range t.cur.expanded {
		if e == v {
			return true
		}
	}
	return false
}

func proj(i, n int) string {
	if n == 1 {
		return ""
	}
	s := ""
	for j := 0; j < i; j++ {
		s += ".2"
	}
	if i < n-1 {
		s += ".1"
	}
	return s
}

// bind emits `let r ← call` and the rebinding of results and mutated arguments.
func (t *translator) bind(ind string, ce *ast.CallExpr, resultNames []string) []string {
	sig, args, targets := t.call(ce)
	if !sig.hasErr {
		t.fail(ce, "call to %s in an error-checked position has no error result", sig.goName)
	}
	if t.mutatedSo {
		t.atomic = false
	}
	if len(resultNames) != len(sig.results) {
		t.fail(ce, "call to %s binds %d results, has %d", sig.goName, len(resultNames), len(sig.results))
	}
	all := append(append([]string{}, resultNames...), targets...)
	t.tmp++
	r := fmt.Sprintf("r%d", t.tmp)
	lines := []string{fmt.Sprintf("%slet %s ← %s", ind, r, strings.Join(append([]string{sig.lean}, args...), " "))}
	for i, v := range all {
		if v == "_" {
			continue
		}
		lines = append(lines, t.assign(ind, v, r+proj(i, len(all))))
	}
	if len(all) == 0 {
		lines[0] = fmt.Sprintf("%slet _ ← %s", ind, strings.Join(append([]string{sig.lean}, args...), " "))
	}
	return lines
}

func (t *translator) errConst(e ast.Expr) (string, bool) {
	switch {
	case t.isName(e, "ErrInvalidQuantity", "quantity.ErrInvalidQuantity"):
		return "QErr.invalidQuantity", true
	case t.isName(e, "ErrInsufficientBalance", "quantity.ErrInsufficientBalance"):
		return "QErr.insufficientBalance", true
	case t.isName(e, "ErrInvalidAccount", "quantity.ErrInvalidAccount"):
		return "QErr.invalidAccount", true
	case t.isName(e, "ErrInvalidArgument", "staking.ErrInvalidArgument"):
		return "QErr.invalidArgument", true
	}
	return "", false
}

// propagates reports whether e is `err` or fmt.Errorf("...%w", ..., err).
func (t *translator) propagates(e ast.Expr) bool {
	if t.isName(e, "err") {
		return true
	}
	if ce, ok := e.(*ast.CallExpr); ok && t.isName(ce.Fun, "fmt.Errorf") && len(ce.Args) >= 2 {
		if lit, ok := ce.Args[0].(*ast.BasicLit); ok && strings.Contains(lit.Value, "%w") {
			return t.isName(ce.Args[len(ce.Args)-1], "err")
		}
	}
	return false
}

// errCheck recognises `if err != nil { return nil..., err }`.
func (t *translator) errCheck(s ast.Stmt) bool {
	is, ok := s.(*ast.IfStmt)
	if !ok || is.Else != nil {
		return false
	}
	be, ok := is.Cond.(*ast.BinaryExpr)
	if !ok || be.Op != token.NEQ || !t.isName(be.X, "err") || !t.isName(be.Y, "nil") || len(is.Body.List) != 1 {
		return false
	}
	rs, ok := is.Body.List[0].(*ast.ReturnStmt)
	if !ok || len(rs.Results) == 0 || !t.propagates(rs.Results[len(rs.Results)-1]) {
		return false
	}
	for _, r := range rs.Results[:len(rs.Results)-1] {
		if !t.isName(r, "nil") {
			return false
		}
	}
	return true
}

func (t *translator) retTuple(vals []string) string {
	all := append(append([]string{}, vals...), t.cur.mutated...)
	switch len(all) {
	case 0:
		return "()"
	case 1:
		return all[0]
	}
	return "(" + strings.Join(all, ", ") + ")"
}

func (t *translator) resultNames(lhs []ast.Expr) []string {
	var names []string
	for _, l := range lhs[:len(lhs)-1] {
		id, ok := l.(*ast.Ident)
		if !ok {
			t.fail(l, "unsupported assignment target")
		}
		if id.Name == "_" {
			names = append(names, "_")
			continue
		}
		if _, known := t.vars[id.Name]; !known {
			t.vars[id.Name] = kQ
		}
		names = append(names, ident(id.Name))
	}
	return names
}

// block translates statements; returns the lines and whether control always leaves the function.
func (t *translator) block(stmts []ast.Stmt, ind string) ([]string, bool) {
	var out []string
	for i := 0; i < len(stmts); i++ {
		switch s := stmts[i].(type) {
		case *ast.ReturnStmt:
			out = append(out, t.ret(s, ind)...)
			if i != len(stmts)-1 {
				t.fail(stmts[i+1], "statement after return")
			}
			return out, true
		case *ast.DeclStmt:
			gd, ok := s.Decl.(*ast.GenDecl)
			if !ok || gd.Tok != token.VAR {
				t.fail(s, "unsupported declaration")
			}
			for _, sp := range gd.Specs {
				vs := sp.(*ast.ValueSpec)
				k, _, ok := typeKind(vs.Type)
				if !ok || len(vs.Values) != 0 || (k != kQ && k != kBig) {
					t.fail(s, "unsupported variable declaration")
				}
				for _, n := range vs.Names {
					t.vars[n.Name] = k
					out = append(out, t.assign(ind, ident(n.Name), "(0 : "+t.ty+")"))
				}
			}
		case *ast.ExprStmt:
			out = append(out, t.exprStmt(s, ind)...)
		case *ast.AssignStmt:
			// x, err := CALL  followed by the error check
			if len(s.Rhs) == 1 {
				if ce, ok := s.Rhs[0].(*ast.CallExpr); ok && len(s.Lhs) >= 2 && t.isName(s.Lhs[len(s.Lhs)-1], "err") {
					if i+1 >= len(stmts) || !t.errCheck(stmts[i+1]) {
						t.fail(s, "error result is not checked by the next statement")
					}
					out = append(out, t.bind(ind, ce, t.resultNames(s.Lhs))...)
					i++
					continue
				}
			}
			out = append(out, t.assignStmt(s, ind)...)
		case *ast.IfStmt:
			// if err := CALL; err != nil { return ..., err }
			if s.Init != nil {
				as, ok := s.Init.(*ast.AssignStmt)
				if !ok || len(as.Rhs) != 1 || !t.isName(as.Lhs[len(as.Lhs)-1], "err") {
					t.fail(s, "unsupported if-init")
				}
				ce, ok := as.Rhs[0].(*ast.CallExpr)
				if !ok {
					t.fail(s, "unsupported if-init")
				}
				probe := &ast.IfStmt{Cond: s.Cond, Body: s.Body, Else: s.Else}
				if !t.errCheck(probe) {
					t.fail(s, "if with init is not a plain error check")
				}
				out = append(out, t.bind(ind, ce, t.resultNames(as.Lhs))...)
				continue
			}
			// skipped nil guard
			if be, ok := s.Cond.(*ast.BinaryExpr); ok && be.Op == token.EQL && t.isName(be.Y, "nil") {
				if id, ok := be.X.(*ast.Ident); ok && t.skipNil[t.cur.goName] == id.Name && s.Else == nil {
					t.note("the `%s == nil` block (state access) is not translated; the translation assumes %s != nil", id.Name, id.Name)
					continue
				}
			}
			c := t.cond(s.Cond)
			save := t.snapshot()
			body, term := t.block(s.Body.List, ind+"  ")
			out = append(out, ind+"if "+c+" then")
			out = append(out, body...)
			switch {
			case s.Else != nil:
				eb, ok := s.Else.(*ast.BlockStmt)
				if !ok {
					t.fail(s, "else-if is not supported")
				}
				t.restoreDecl(save)
				ebody, eterm := t.block(eb.List, ind+"  ")
				t.restoreDecl(save)
				out = append(out, ind+"else")
				out = append(out, ebody...)
				if term && eterm {
					if i != len(stmts)-1 {
						t.fail(stmts[i+1], "unreachable statement")
					}
					return out, true
				}
				if term != eterm {
					t.fail(s, "if/else where only one branch returns is not supported")
				}
			case term:
				t.restoreDecl(save)
				rest, rterm := t.block(stmts[i+1:], ind+"  ")
				if !rterm {
					t.fail(s, "code after an early return does not itself return")
				}
				out = append(out, ind+"else")
				out = append(out, rest...)
				return out, true
			default:
				t.restoreDecl(save)
			}
		case *ast.SwitchStmt:
			out = append(out, t.switchStmt(s, ind)...)
		default:
			t.fail(s, "unsupported statement")
		}
	}
	return out, false
}

func (t *translator) snapshot() map[string]bool {
	m := map[string]bool{}
	for k, v := range t.declared {
		m[k] = v
	}
	return m
}

// restoreDecl forgets variables first declared inside a branch (Lean scoping).
func (t *translator) restoreDecl(m map[string]bool) {
	t.declared = map[string]bool{}
	for k, v := range m {
		t.declared[k] = v
	}
}

func (t *translator) switchStmt(s *ast.SwitchStmt, ind string) []string {
	if s.Init != nil || s.Tag == nil {
		t.fail(s, "unsupported switch")
	}
	tag := t.intExpr(s.Tag)
	var out []string
	var def *ast.CaseClause
	n := 0
	for _, c := range s.Body.List {
		cc := c.(*ast.CaseClause)
		if cc.List == nil {
			def = cc
			continue
		}
		if len(cc.List) != 1 {
			t.fail(cc, "unsupported case list")
		}
		save := t.snapshot()
		body, term := t.block(cc.Body, ind+"  ")
		t.restoreDecl(save)
		if term {
			t.fail(cc, "return inside switch is not supported")
		}
		kw := "if"
		if n > 0 {
			kw = "else if"
		}
		out = append(out, fmt.Sprintf("%s%s (%s == %s) then", ind, kw, tag, t.intExpr(cc.List[0])))
		out = append(out, body...)
		n++
	}
	if def == nil || n == 0 {
		t.fail(s, "switch without default or without cases")
	}
	save := t.snapshot()
	body, term := t.block(def.Body, ind+"  ")
	t.restoreDecl(save)
	if term {
		t.fail(def, "return inside switch is not supported")
	}
	out = append(out, ind+"else")
	return append(out, body...)
}

func (t *translator) exprStmt(s *ast.ExprStmt, ind string) []string {
	ce, ok := s.X.(*ast.CallExpr)
	if !ok {
		t.fail(s, "unsupported expression statement")
	}
	se, ok := ce.Fun.(*ast.SelectorExpr)
	if ok && t.level1 {
		if recv, ok := t.bigRecv(se.X); ok {
			ops := map[string]string{"Add": "%s + %s", "Sub": "%s - %s", "Mul": "%s * %s", "Quo": "Big.quo %s %s"}
			if f, ok := ops[se.Sel.Name]; ok && len(ce.Args) == 2 {
				return []string{t.assign(ind, recv, fmt.Sprintf(f, t.val(ce.Args[0]), t.val(ce.Args[1])))}
			}
			if se.Sel.Name == "Set" && len(ce.Args) == 1 {
				return []string{t.assign(ind, recv, t.val(ce.Args[0]))}
			}
			t.fail(s, "unsupported big.Int operation %s", se.Sel.Name)
		}
	}
	t.fail(s, "call statement whose result is dropped")
	return nil
}

func (t *translator) assignStmt(s *ast.AssignStmt, ind string) []string {
	if len(s.Lhs) != 1 || len(s.Rhs) != 1 {
		t.fail(s, "unsupported assignment")
	}
	// _ = CALL : the error is deliberately ignored
	if t.isName(s.Lhs[0], "_") {
		ce, ok := s.Rhs[0].(*ast.CallExpr)
		if !ok {
			t.fail(s, "unsupported blank assignment")
		}
		sig, args, targets := t.call(ce)
		if !sig.hasErr || len(sig.results) != 0 {
			t.fail(s, "blank assignment of a call that does not return just an error")
		}
		if !sig.atomic {
			t.fail(s, "error of %s is ignored but %s may fail after mutating", sig.goName, sig.goName)
		}
		t.tmp++
		r := fmt.Sprintf("r%d", t.tmp)
		lines := []string{ind + "match " + strings.Join(append([]string{sig.lean}, args...), " ") + " with"}
		lines = append(lines, ind+"| .ok "+r+" =>")
		n := 0
		for i, v := range targets {
			if v == "_" {
				continue
			}
			lines = append(lines, t.assign(ind+"  ", v, r+proj(i, len(targets))))
			n++
		}
		if n == 0 {
			lines = append(lines, ind+"  pure ()")
		}
		lines = append(lines, ind+"| .error _ => pure ()")
		t.note("the error of %s is ignored (`_ = ...`); on error the argument is left unchanged", sig.goName)
		return lines
	}
	id, ok := s.Lhs[0].(*ast.Ident)
	if !ok {
		t.fail(s, "unsupported assignment target")
	}
	rhs := t.val(s.Rhs[0])
	if t.isParam[id.Name] && t.vars[id.Name] == kQ {
		// `n = n.Clone()`: rebinding of a pointer parameter; later mutations would be local
		t.detached[ident(id.Name)] = true
		found := false
		for _, r := range t.rebound {
			found = found || r == ident(id.Name)
		}
		if !found {
			t.rebound = append(t.rebound, ident(id.Name))
		}
	}
	if _, known := t.vars[id.Name]; !known {
		t.vars[id.Name] = kQ
	}
	return []string{t.assign(ind, ident(id.Name), rhs)}
}

func (t *translator) ret(s *ast.ReturnStmt, ind string) []string {
	cur := t.cur
	if !cur.hasErr {
		if len(s.Results) != 1 || len(cur.results) != 1 {
			t.fail(s, "unsupported return")
		}
		var v string
		switch cur.results[0] {
		case "Bool":
			v = t.cond(s.Results[0])
		case "Int":
			if t.ty == "Int" {
				// ambiguous: quantity or int; decide by expression shape
				if _, ok := s.Results[0].(*ast.CallExpr); ok {
					v = t.intExpr(s.Results[0])
				} else {
					v = t.val(s.Results[0])
				}
			} else {
				v = t.intExpr(s.Results[0])
			}
		default:
			v = t.val(s.Results[0])
		}
		return []string{ind + "return " + v}
	}
	n := len(s.Results)
	if n == 0 {
		t.fail(s, "naked return")
	}
	last := s.Results[n-1]
	if ec, ok := t.errConst(last); ok {
		if t.mutatedSo {
			t.atomic = false
		}
		return []string{ind + "throw " + ec}
	}
	if t.isName(last, "nil") {
		var vals []string
		for _, r := range s.Results[:n-1] {
			vals = append(vals, t.val(r))
		}
		if len(vals) != len(cur.results) {
			t.fail(s, "return with %d values, expected %d", len(vals), len(cur.results))
		}
		return []string{ind + "return " + t.retTuple(vals)}
	}
	// tail call: `return quantity.Move(...)`
	if ce, ok := last.(*ast.CallExpr); ok && n == 1 && len(cur.results) == 0 {
		lines := t.bind(ind, ce, nil)
		return append(lines, ind+"return "+t.retTuple(nil))
	}
	t.fail(s, "unsupported return")
	return nil
}

// ---------------------------------------------------------------- functions

func leanType(e ast.Expr, ty string) (string, bool) {
	if id, ok := e.(*ast.Ident); ok {
		switch id.Name {
		case "bool":
			return "Bool", true
		case "int":
			return "Int", true
		}
	}
	if k, _, ok := typeKind(e); ok && (k == kQ || k == kBig) {
		return ty, true
	}
	return "", false
}

func (t *translator) translate(fd *ast.FuncDecl, leanName string) {
	sig := &fnSig{goName: fd.Name.Name, lean: leanName, atomic: true}
	add := func(fl *ast.FieldList) {
		if fl == nil {
			return
		}
		for _, f := range fl.List {
			k, ptr, ok := typeKind(f.Type)
			if !ok {
				t.fail(f, "unsupported parameter type")
			}
			if len(f.Names) == 0 {
				sig.params = append(sig.params, goParam{name: "_", kind: k, ptr: ptr})
			}
			for _, n := range f.Names {
				sig.params = append(sig.params, goParam{name: n.Name, kind: k, ptr: ptr})
			}
		}
	}
	add(fd.Recv)
	add(fd.Type.Params)
	if fd.Type.Results != nil {
		for _, f := range fd.Type.Results.List {
			cnt := len(f.Names)
			if cnt == 0 {
				cnt = 1
			}
			for j := 0; j < cnt; j++ {
				if id, ok := f.Type.(*ast.Ident); ok && id.Name == "error" {
					sig.hasErr = true
					continue
				}
				lt, ok := leanType(f.Type, t.ty)
				if !ok {
					t.fail(f, "unsupported result type")
				}
				if sig.hasErr {
					t.fail(f, "error must be the last result")
				}
				sig.results = append(sig.results, lt)
			}
		}
	}
	for _, p := range sig.params {
		sig.expanded = append(sig.expanded, expand(p)...)
	}
	var lines []string
	t.rebound = nil
	// two passes: the first determines the mutated parameters
	for pass := 0; pass < 2; pass++ {
		t.cur = sig
		t.vars, t.isParam, t.detached = map[string]vkind{}, map[string]bool{}, map[string]bool{}
		t.declared, t.mutSet = map[string]bool{}, map[string]bool{}
		t.mutatedSo, t.atomic, t.tmp = false, true, 0
		for _, p := range sig.params {
			t.vars[p.name] = p.kind
			if p.ptr || p.kind == kPool {
				t.isParam[p.name] = true
			}
		}
		var head []string
		for _, m := range sig.mutated {
			head = append(head, "  let mut "+m+" := "+m)
			t.declared[m] = true
		}
		for _, m := range t.rebound {
			if !t.declared[m] {
				head = append(head, "  let mut "+m+" := "+m)
				t.declared[m] = true
			}
		}
		body, term := t.block(fd.Body.List, "  ")
		if !term {
			t.fail(fd, "function body does not end in return")
		}
		lines = append(head, body...)
		sig.mutated = nil
		for _, e := range sig.expanded {
			if t.mutSet[e] {
				sig.mutated = append(sig.mutated, e)
			}
		}
		sig.atomic = t.atomic
		for _, p := range sig.params {
			if !p.ptr && p.kind != kIgnore {
				for _, e := range expand(p) {
					if t.mutSet[e] {
						t.fail(fd, "value parameter %s is mutated", p.name)
					}
				}
			}
		}
	}
	// result type
	var comps []string
	comps = append(comps, sig.results...)
	for range sig.mutated {
		comps = append(comps, t.ty)
	}
	rt := "Unit"
	if len(comps) > 0 {
		rt = strings.Join(comps, " × ")
	}
	var ps string
	if len(sig.expanded) > 0 {
		ps = " (" + strings.Join(sig.expanded, " ") + " : " + t.ty + ")"
	}
	doc := fmt.Sprintf("/-- %s  (returns: %s", t.fset.Position(fd.Pos()), strings.Join(sig.results, ", "))
	if len(sig.mutated) > 0 {
		doc += "; mutated: " + strings.Join(sig.mutated, ", ")
	}
	doc += ") -/"
	t.out = append(t.out, doc)
	if sig.hasErr {
		t.out = append(t.out, fmt.Sprintf("def %s%s : Except QErr (%s) := do", fd.Name.Name, ps, rt))
	} else {
		if len(sig.mutated) > 0 {
			t.fail(fd, "function without error result mutates its arguments")
		}
		if len(lines) == 1 && strings.HasPrefix(lines[0], "  return ") {
			// a single expression
			t.out = append(t.out, fmt.Sprintf("def %s%s : %s :=", fd.Name.Name, ps, rt))
			lines = []string{"  " + strings.TrimPrefix(lines[0], "  return ")}
		} else {
			t.out = append(t.out, fmt.Sprintf("def %s%s : %s := Id.run do", fd.Name.Name, ps, rt))
		}
	}
	t.out = append(t.out, lines...)
	t.out = append(t.out, "")
	t.fns[fd.Name.Name] = sig
}

func findFunc(f *ast.File, recv, name string) *ast.FuncDecl {
	for _, d := range f.Decls {
		fd, ok := d.(*ast.FuncDecl)
		if !ok || fd.Name.Name != name {
			continue
		}
		r := ""
		if fd.Recv != nil && len(fd.Recv.List) == 1 {
			ty := fd.Recv.List[0].Type
			if s, ok := ty.(*ast.StarExpr); ok {
				ty = s.X
			}
			if id, ok := ty.(*ast.Ident); ok {
				r = id.Name
			}
		}
		if r == recv {
			return fd
		}
	}
	return nil
}

func constInt(f *ast.File, name string) (string, bool) {
	for _, d := range f.Decls {
		gd, ok := d.(*ast.GenDecl)
		if !ok || gd.Tok != token.CONST {
			continue
		}
		for _, sp := range gd.Specs {
			vs := sp.(*ast.ValueSpec)
			for i, n := range vs.Names {
				if n.Name == name && i < len(vs.Values) {
					if lit, ok := vs.Values[i].(*ast.BasicLit); ok && lit.Kind == token.INT {
						return strings.ReplaceAll(lit.Value, "_", ""), true
					}
				}
			}
		}
	}
	return "", false
}

type target struct{ recv, name string }

func quoteAll(l []string) string {
	var q []string
	for _, s := range l {
		q = append(q, fmt.Sprintf("%q", s))
	}
	return strings.Join(q, ", ")
}

func genQuantity(repo, out string, _ []string) (err error) {
	defer func() {
		if r := recover(); r != nil {
			if u, ok := r.(unsupported); ok {
				err = fmt.Errorf("source outside the translatable subset: %s", u.msg)
				return
			}
			panic(r)
		}
	}()
	fset := token.NewFileSet()
	parse := func(rel string) *ast.File {
		f, perr := parser.ParseFile(fset, filepath.Join(repo, rel), nil, 0)
		if perr != nil {
			panic(unsupported{perr.Error()})
		}
		return f
	}
	qf := parse("go/common/quantity/quantity.go")
	af := parse("go/staking/api/api.go")
	cf := parse("go/staking/api/commission.go")
	sf := parse("go/consensus/cometbft/apps/staking/state/state.go")

	var b []string
	b = append(b, "/- GENERATED by tools/gen quantity from /repo's working tree — do not edit. -/")
	b = append(b, "import OasisModel.Quantity", "", "set_option linter.unusedVariables false", "")

	// level 1
	t1 := &translator{fset: fset, ty: "Int", level1: true, fns: map[string]*fnSig{}, skipNil: map[string]string{}}
	t1.fns["NewQuantity"] = &fnSig{goName: "NewQuantity", lean: "NewQuantity", results: []string{"Int"}, atomic: true}
	l1 := []target{{"", "isValid"}, {"Quantity", "IsValid"}, {"Quantity", "IsZero"}, {"Quantity", "Cmp"}, {"Quantity", "Clone"},
		{"Quantity", "Add"}, {"Quantity", "Sub"}, {"Quantity", "SubUpTo"}, {"Quantity", "Mul"}, {"Quantity", "Quo"},
		{"", "Move"}, {"", "MoveUpTo"}}
	for _, tg := range l1 {
		fd := findFunc(qf, tg.recv, tg.name)
		if fd == nil {
			return fmt.Errorf("quantity.go: function %s.%s not found", tg.recv, tg.name)
		}
		t1.translate(fd, tg.name)
	}
	b = append(b, "namespace Generated.QuantityGen", "open OasisModel", "",
		"/-- quantity.NewQuantity: `&Quantity{}`. -/", "def NewQuantity : Int := 0", "")
	b = append(b, t1.out...)
	b = append(b, "/-- Alias guards present in the source (`if src == n { n = n.Clone() }`): they make the pointer",
		"semantics of the Go code coincide with the value semantics of this translation. -/",
		fmt.Sprintf("def aliasGuards : List String := [%s]", quoteAll(t1.guards)), "")
	b = append(b, "end Generated.QuantityGen", "")

	// level 2: callees are the QN interface in the calling convention computed above
	t2 := &translator{fset: fset, ty: "Nat", fns: map[string]*fnSig{},
		skipNil: map[string]string{"computeCommission": "rate"}}
	for name, s := range t1.fns {
		if name == "isValid" {
			continue
		}
		c := *s
		c.lean = "QN." + name
		for i, r := range c.results {
			if r == "Int" && name != "Cmp" {
				c.results = append([]string{}, c.results...)
				c.results[i] = "Nat"
			}
		}
		t2.fns[name] = &c
	}
	exp, ok := constInt(cf, "commissionRateDenominatorExponent")
	if !ok {
		return fmt.Errorf("commission.go: constant commissionRateDenominatorExponent not found")
	}
	l2 := []struct {
		f  *ast.File
		tg target
	}{{af, target{"SharePool", "sharesForStake"}}, {af, target{"SharePool", "Deposit"}},
		{af, target{"SharePool", "StakeForShares"}}, {af, target{"SharePool", "Withdraw"}},
		{sf, target{"", "slashPool"}}, {sf, target{"MutableState", "computeCommission"}}}
	for _, x := range l2 {
		fd := findFunc(x.f, x.tg.recv, x.tg.name)
		if fd == nil {
			return fmt.Errorf("function %s.%s not found", x.tg.recv, x.tg.name)
		}
		t2.translate(fd, x.tg.name)
	}
	b = append(b, "namespace Generated.SharePoolGen", "open OasisModel", "",
		"/-- staking.CommissionRateDenominator = 10 ^ commissionRateDenominatorExponent (commission.go). -/",
		"def commissionRateDenominator : Nat := 10 ^ "+exp, "")
	b = append(b, t2.out...)
	b = append(b, "/-- Assumptions and deliberate simplifications made by the translator (also listed in the evidence). -/",
		"def notes : List String := [")
	all := append(append([]string{}, t1.notes...), t2.notes...)
	for i, n := range all {
		sep := ","
		if i == len(all)-1 {
			sep = ""
		}
		b = append(b, "  "+fmt.Sprintf("%q", n)+sep)
	}
	b = append(b, "]", "", "end Generated.SharePoolGen")
	return os.WriteFile(out, []byte(strings.Join(b, "\n")+"\n"), 0o644)
}
