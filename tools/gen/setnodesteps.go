// setnode-steps: extracts the sequence of store writes of MutableState.SetNode and
// MutableState.RemoveNode (go/consensus/cometbft/apps/registry/state/state.go) in source order,
// each with its guard, and emits them as Lean lists of OasisModel.Registry.Step / RmWrite
// (property C17).  Props/C17.lean compares them by `decide` with the lists the model is proved about,
// so reordering, dropping, adding or re-guarding a write breaks the build.
//
// Supported shape (anything else fails loudly):
//   x, err := node.ID.MarshalBinary(); if err != nil { return err }
//   if err = s.ms.Insert|Remove(ctx, <fmt>.Encode(<args>)[, val]); err != nil { return ... }
//   address := []byte(tmcrypto.PublicKeyToCometBFT(&<node|existingNode>.Consensus.ID).Address())
//   if existingNode != nil && !existingNode.<K>.Equal(node.<K>) { ... }      guard "changed K"
//   if existingNode != nil { ... }                                           (only as a wrapper of the above)
//   return nil
package main

import (
	"bytes"
	"fmt"
	"go/ast"
	"go/parser"
	"go/printer"
	"go/token"
	"os"
	"path/filepath"
	"strings"
)

func init() { kinds["setnode-steps"] = genSetNodeSteps }

type snStep struct {
	guard string // "" | cons | p2p | vrf | tls
	write string // Lean constructor application
}

type snExtractor struct {
	fset    *token.FileSet
	addr    string // what `address` currently denotes: "old" | "new" | "node"
	newName string // name of the new/only node parameter
	oldName string // name of the existing node parameter ("" for RemoveNode)
	remove  bool   // extracting RemoveNode
	steps   []snStep
}

func (x *snExtractor) src(n ast.Node) string {
	var b bytes.Buffer
	_ = printer.Fprint(&b, x.fset, n)
	return b.String()
}

var snKinds = map[string]string{"Consensus.ID": "cons", "P2P.ID": "p2p", "VRF.ID": "vrf", "TLS.PubKey": "tls"}

// keyOf parses `&<who>.<Kind>` and returns who and the key kind.
func (x *snExtractor) keyOf(arg string) (who, kind string, ok bool) {
	arg = strings.TrimPrefix(arg, "&")
	for sel, k := range snKinds {
		if strings.HasSuffix(arg, "."+sel) {
			return strings.TrimSuffix(arg, "."+sel), k, true
		}
	}
	return "", "", false
}

func (x *snExtractor) storeCall(call *ast.CallExpr, guard string) error {
	sel, ok := call.Fun.(*ast.SelectorExpr)
	if !ok || x.src(sel.X) != "s.ms" || (sel.Sel.Name != "Insert" && sel.Sel.Name != "Remove") {
		return fmt.Errorf("unsupported call %s", x.src(call))
	}
	op := sel.Sel.Name
	if len(call.Args) < 2 {
		return fmt.Errorf("unsupported store call %s", x.src(call))
	}
	enc, ok := call.Args[1].(*ast.CallExpr)
	if !ok {
		return fmt.Errorf("unsupported key expression %s", x.src(call.Args[1]))
	}
	esel, ok := enc.Fun.(*ast.SelectorExpr)
	if !ok || esel.Sel.Name != "Encode" {
		return fmt.Errorf("unsupported key expression %s", x.src(enc))
	}
	kf := x.src(esel.X)
	var args []string
	for _, a := range enc.Args {
		args = append(args, x.src(a))
	}
	arg := strings.Join(args, ", ")
	val := ""
	if len(call.Args) > 2 {
		val = x.src(call.Args[2])
	}
	n, o := x.newName, x.oldName
	w := ""
	switch {
	case x.remove:
		if op != "Remove" {
			return fmt.Errorf("RemoveNode performs %s", x.src(call))
		}
		switch {
		case kf == "signedNodeKeyFmt" && arg == "&"+n+".ID":
			w = ".node"
		case kf == "signedNodeByEntityKeyFmt" && arg == "&"+n+".EntityID, &"+n+".ID":
			w = ".byEntity"
		case kf == "nodeStatusKeyFmt" && arg == "&"+n+".ID":
			w = ".status"
		case kf == "nodeByConsAddressKeyFmt" && arg == "address" && x.addr == "new":
			w = ".addr"
		case kf == "keyMapKeyFmt":
			who, kind, ok := x.keyOf(arg)
			if !ok || who != n {
				return fmt.Errorf("unsupported key map removal %s", x.src(call))
			}
			w = ".key ." + kind
		}
	case op == "Insert" && kf == "signedNodeKeyFmt" && arg == "&"+n+".ID":
		w = ".insNode"
	case op == "Insert" && kf == "signedNodeByEntityKeyFmt" && arg == "&"+n+".EntityID, &"+n+".ID":
		w = ".insByEntity"
	case op == "Remove" && kf == "nodeByConsAddressKeyFmt" && arg == "address" && x.addr == "old":
		w = ".rmAddr"
	case op == "Insert" && kf == "nodeByConsAddressKeyFmt" && arg == "address" && x.addr == "new" && val == "rawNodeID":
		w = ".insAddr"
	case kf == "keyMapKeyFmt":
		who, kind, ok := x.keyOf(arg)
		switch {
		case ok && op == "Remove" && who == o:
			w = ".rmKey ." + kind
		case ok && op == "Insert" && who == n && val == "rawNodeID":
			w = ".insKey ." + kind
		}
	}
	if w == "" {
		return fmt.Errorf("unrecognised store write %s (address=%s)", x.src(call), x.addr)
	}
	x.steps = append(x.steps, snStep{guard, w})
	return nil
}

// guardOf recognises `existingNode != nil && !existingNode.K.Equal(node.K)`, `existingNode != nil`
// and `!existingNode.K.Equal(node.K)`; returns the key kind ("" for the bare nil test).
func (x *snExtractor) guardOf(cond ast.Expr, haveNil bool) (kind string, nilTest bool, err error) {
	c := x.src(cond)
	o, n := x.oldName, x.newName
	if c == o+" != nil" {
		return "", true, nil
	}
	for sel, k := range snKinds {
		ch := "!" + o + "." + sel + ".Equal(" + n + "." + sel + ")"
		if c == o+" != nil && "+ch || (haveNil && c == ch) {
			return k, false, nil
		}
	}
	return "", false, fmt.Errorf("unsupported condition `%s`", c)
}

func (x *snExtractor) block(stmts []ast.Stmt, guard string, haveNil bool) error {
	for _, st := range stmts {
		switch t := st.(type) {
		case *ast.ReturnStmt:
			// `return nil` / error returns carry no writes
		case *ast.AssignStmt:
			s := x.src(t)
			switch {
			case strings.HasPrefix(s, "rawNodeID, err := "+x.newName+".ID.MarshalBinary()"):
			case strings.HasPrefix(s, "address := []byte(tmcrypto.PublicKeyToCometBFT(&"):
				switch {
				case x.oldName != "" && strings.Contains(s, "(&"+x.oldName+".Consensus.ID)"):
					x.addr = "old"
				case strings.Contains(s, "(&"+x.newName+".Consensus.ID)"):
					x.addr = "new"
				default:
					return fmt.Errorf("unsupported address binding `%s`", s)
				}
			default:
				return fmt.Errorf("unsupported statement `%s`", s)
			}
		case *ast.IfStmt:
			if t.Init != nil {
				as, ok := t.Init.(*ast.AssignStmt)
				if !ok || len(as.Rhs) != 1 {
					return fmt.Errorf("unsupported if-init `%s`", x.src(t.Init))
				}
				call, ok := as.Rhs[0].(*ast.CallExpr)
				if !ok {
					return fmt.Errorf("unsupported if-init `%s`", x.src(t.Init))
				}
				if err := x.storeCall(call, guard); err != nil {
					return err
				}
				continue
			}
			if x.src(t.Cond) == "err != nil" { // error check of the MarshalBinary call
				continue
			}
			if t.Else != nil {
				return fmt.Errorf("unsupported else branch at %s", x.fset.Position(t.Pos()))
			}
			kind, nilTest, err := x.guardOf(t.Cond, haveNil)
			if err != nil {
				return err
			}
			switch {
			case nilTest:
				if guard != "" {
					return fmt.Errorf("nil test nested under a guard at %s", x.fset.Position(t.Pos()))
				}
				// a bare `existingNode != nil` wrapper may only contain guarded blocks
				for _, inner := range t.Body.List {
					if is, ok := inner.(*ast.IfStmt); !ok || is.Init != nil {
						return fmt.Errorf("write guarded only by `%s` at %s", x.src(t.Cond), x.fset.Position(inner.Pos()))
					}
				}
				if err := x.block(t.Body.List, "", true); err != nil {
					return err
				}
			default:
				if guard != "" {
					return fmt.Errorf("nested guards at %s", x.fset.Position(t.Pos()))
				}
				if err := x.block(t.Body.List, kind, haveNil); err != nil {
					return err
				}
			}
		default:
			return fmt.Errorf("unsupported statement `%s`", x.src(st))
		}
	}
	return nil
}

func genSetNodeSteps(repo, out string, _ []string) error {
	path := filepath.Join(repo, "go/consensus/cometbft/apps/registry/state/state.go")
	fset := token.NewFileSet()
	f, err := parser.ParseFile(fset, path, nil, 0)
	if err != nil {
		return err
	}
	find := func(name string) *ast.FuncDecl {
		for _, d := range f.Decls {
			if fd, ok := d.(*ast.FuncDecl); ok && fd.Name.Name == name && fd.Recv != nil {
				return fd
			}
		}
		return nil
	}
	paramNames := func(fd *ast.FuncDecl) []string {
		var ns []string
		for _, p := range fd.Type.Params.List {
			for _, n := range p.Names {
				ns = append(ns, n.Name)
			}
		}
		return ns
	}
	sn := find("SetNode")
	rn := find("RemoveNode")
	if sn == nil || rn == nil {
		return fmt.Errorf("SetNode/RemoveNode not found in %s", path)
	}
	ps := paramNames(sn)
	if len(ps) != 4 { // ctx, existingNode, node, signedNode
		return fmt.Errorf("SetNode has unexpected parameters %v", ps)
	}
	xs := &snExtractor{fset: fset, oldName: ps[1], newName: ps[2]}
	if err := xs.block(sn.Body.List, "", false); err != nil {
		return fmt.Errorf("SetNode: %w", err)
	}
	pr := paramNames(rn)
	if len(pr) != 2 {
		return fmt.Errorf("RemoveNode has unexpected parameters %v", pr)
	}
	xr := &snExtractor{fset: fset, newName: pr[1], remove: true}
	if err := xr.block(rn.Body.List, "", false); err != nil {
		return fmt.Errorf("RemoveNode: %w", err)
	}
	for _, s := range xr.steps {
		if s.guard != "" {
			return fmt.Errorf("RemoveNode has a guarded write")
		}
	}

	var b strings.Builder
	b.WriteString("import OasisModel.Registry.Steps\n")
	b.WriteString("/- GENERATED by tools/gen setnode-steps from go/consensus/cometbft/apps/registry/state/state.go. Do not edit. -/\n")
	b.WriteString("namespace Generated.Registry\nopen OasisModel.Registry\n\n")
	b.WriteString("/-- Store writes of `MutableState.SetNode` in source order, with their guards. -/\n")
	b.WriteString("def setNodeSteps : List Step :=\n  [ ")
	for i, s := range xs.steps {
		if i > 0 {
			b.WriteString(",\n    ")
		}
		g := "none"
		if s.guard != "" {
			g = "some ." + s.guard
		}
		fmt.Fprintf(&b, "⟨%s, %s⟩", g, s.write)
	}
	b.WriteString(" ]\n\n/-- Store removals of `MutableState.RemoveNode` in source order. -/\n")
	b.WriteString("def removeNodeSteps : List RmWrite :=\n  [ ")
	for i, s := range xr.steps {
		if i > 0 {
			b.WriteString(", ")
		}
		b.WriteString(s.write)
	}
	b.WriteString(" ]\n\nend Generated.Registry\n")
	return os.WriteFile(out, []byte(b.String()), 0o644)
}
