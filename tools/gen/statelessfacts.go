// statelessfacts: regenerated tie for property C19 (DESIGN.md §4.2 item 6).
//
// Reads (go/parser, syntax only) the stateless verification code and the response types and emits
// lean/Generated/StatelessFacts.lean with, for every verification function,
//
//   - checks_<fn>: the source-ordered list of guarded error returns: for every `if` statement
//     (nested ones included) whose body returns a non-nil error, the pair
//     (printed `init; cond`, error message literal | "<err>" for a propagated error);
//   - uses_<fn>_<param>: the sorted set of selector paths rooted at the response parameter
//     that occur anywhere in the function (`blk.StateRoot.Hash`, `results.Height`, ...);
//   - calls_<fn>: for the state-root / results-hash resolution helpers, the source-ordered list
//     of call expressions;
//
// and fields_<Type>: the field names of the response structs. The proof file compares every
// table with a hand-written expectation (`rfl`), so removing, reordering or changing a
// comparison in core.go, or adding a field to a response type, breaks the build.
package main

import (
	"bytes"
	"fmt"
	"go/ast"
	"go/parser"
	"go/printer"
	"go/token"
	"os"
	"path/filepath"
	"sort"
	"strconv"
	"strings"
)

func init() { kinds["statelessfacts"] = genStatelessFacts }

type slFunc struct {
	file  string // relative to <repo>/go
	recv  string // "" or receiver type name
	name  string
	lean  string   // Lean identifier suffix
	param string   // response parameter whose selector paths are collected ("" = none)
	calls bool     // emit calls_<fn>
}

var slFuncs = []slFunc{
	{"consensus/cometbft/stateless/core.go", "", "verifyBlock", "verifyBlock", "blk", false},
	{"consensus/cometbft/stateless/core.go", "Core", "verifyBlockResults", "coreVerifyBlockResults", "results", true},
	{"consensus/cometbft/stateless/core.go", "", "verifyBlockResults", "verifyBlockResults", "results", false},
	{"consensus/cometbft/stateless/core.go", "Core", "verifyParameters", "verifyParameters", "params", false},
	{"consensus/cometbft/stateless/core.go", "", "verifyTransactions", "verifyTransactions", "txs", false},
	{"consensus/cometbft/stateless/core.go", "", "verifyTransactionProof", "verifyTransactionProof", "proof", true},
	{"consensus/cometbft/stateless/core.go", "Core", "verifyNextValidators", "verifyNextValidators", "validators", false},
	{"consensus/cometbft/stateless/core.go", "Core", "fetchStateRoot", "fetchStateRoot", "", true},
	{"consensus/cometbft/stateless/core.go", "Core", "fetchStateRootFromLightBlock", "fetchStateRootFromLightBlock", "", true},
	{"consensus/cometbft/stateless/core.go", "Core", "fetchStateRootFromMetaTx", "fetchStateRootFromMetaTx", "", true},
	{"consensus/cometbft/stateless/core.go", "", "stateRootFromBlockTxs", "stateRootFromBlockTxs", "txs", true},
	{"consensus/cometbft/stateless/core.go", "", "stateRootFromMetaTx", "stateRootFromMetaTx", "", false},
	{"consensus/cometbft/stateless/core.go", "Core", "fetchResultsHash", "fetchResultsHash", "", true},
	{"consensus/cometbft/stateless/core.go", "Core", "fetchResultsHashFromLightBlock", "fetchResultsHashFromLightBlock", "", true},
	{"consensus/cometbft/stateless/core.go", "Core", "GetBlock", "GetBlock", "", true},
	{"consensus/cometbft/stateless/core.go", "Core", "GetTransactions", "GetTransactions", "", true},
	{"consensus/cometbft/stateless/core.go", "Core", "GetBlockResults", "GetBlockResults", "", true},
	{"consensus/cometbft/stateless/core.go", "Core", "GetValidators", "GetValidators", "", true},
	{"consensus/cometbft/stateless/core.go", "Core", "GetParameters", "GetParameters", "", true},
	{"consensus/cometbft/stateless/core.go", "Core", "SubmitTxWithProof", "SubmitTxWithProof", "proof", true},
	{"consensus/cometbft/stateless/core.go", "Core", "lightBlock", "lightBlock", "", true},
	{"consensus/cometbft/api/api.go", "", "NewBlockResultsMeta", "NewBlockResultsMeta", "", false},
	{"consensus/cometbft/crypto/merkle/merkle.go", "", "VerifyTransaction", "merkleVerifyTransaction", "", true},
	{"consensus/cometbft/crypto/merkle/merkle.go", "", "Verify", "merkleVerify", "", true},
	{"consensus/cometbft/crypto/merkle/merkle.go", "", "hashTransaction", "merkleHashTransaction", "", true},
}

type slType struct {
	file string
	name string
}

var slTypes = []slType{
	{"consensus/api/api.go", "Block"},
	{"consensus/api/api.go", "BlockResults"},
	{"consensus/api/light.go", "Validators"},
	{"consensus/api/light.go", "Parameters"},
	{"consensus/cometbft/api/api.go", "BlockMeta"},
	{"consensus/cometbft/api/api.go", "BlockResultsMeta"},
	{"consensus/api/transaction/transaction.go", "Proof"},
	{"consensus/api/meta.go", "BlockMetadata"},
	{"storage/mkvs/node/node.go", "Root"},
}

func slPrint(fset *token.FileSet, n ast.Node) string {
	var buf bytes.Buffer
	cfg := printer.Config{Mode: printer.RawFormat}
	if err := cfg.Fprint(&buf, fset, n); err != nil {
		return "<unprintable>"
	}
	return strings.Join(strings.Fields(buf.String()), " ")
}

func slLeanStr(s string) string {
	s = strings.ReplaceAll(s, `\`, `\\`)
	s = strings.ReplaceAll(s, `"`, `\"`)
	return `"` + s + `"`
}

// slErrOfReturn describes the error a return statement returns ("" when it returns nil).
func slErrOfReturn(fset *token.FileSet, rs *ast.ReturnStmt) string {
	if len(rs.Results) == 0 {
		return ""
	}
	last := rs.Results[len(rs.Results)-1]
	switch e := last.(type) {
	case *ast.Ident:
		if e.Name == "nil" {
			return ""
		}
		if e.Name == "err" {
			return "<err>"
		}
		return "<" + e.Name + ">"
	case *ast.CallExpr:
		if sel, ok := e.Fun.(*ast.SelectorExpr); ok && sel.Sel.Name == "Errorf" && len(e.Args) > 0 {
			if lit, ok := e.Args[0].(*ast.BasicLit); ok && lit.Kind == token.STRING {
				s, _ := strconv.Unquote(lit.Value)
				return s
			}
		}
		return "<call " + slPrint(fset, e.Fun) + ">"
	}
	return "<expr>"
}

func slSelectorPath(e ast.Expr) (string, bool) {
	switch x := e.(type) {
	case *ast.Ident:
		return x.Name, true
	case *ast.SelectorExpr:
		p, ok := slSelectorPath(x.X)
		if !ok {
			return "", false
		}
		return p + "." + x.Sel.Name, true
	}
	return "", false
}

func genStatelessFacts(repo, out string, _ []string) error {
	root := filepath.Join(repo, "go")
	fset := token.NewFileSet()
	files := map[string]*ast.File{}
	load := func(rel string) (*ast.File, error) {
		if f, ok := files[rel]; ok {
			return f, nil
		}
		f, err := parser.ParseFile(fset, filepath.Join(root, rel), nil, 0)
		if err != nil {
			return nil, err
		}
		files[rel] = f
		return f, nil
	}

	var b strings.Builder
	b.WriteString("/- GENERATED by tools/gen statelessfacts from /repo's working tree. Do not edit. -/\n")
	b.WriteString("namespace Generated.StatelessFacts\n\n")

	for _, t := range slTypes {
		f, err := load(t.file)
		if err != nil {
			return err
		}
		var fields []string
		found := false
		ast.Inspect(f, func(n ast.Node) bool {
			ts, ok := n.(*ast.TypeSpec)
			if !ok || ts.Name.Name != t.name {
				return true
			}
			st, ok := ts.Type.(*ast.StructType)
			if !ok {
				return true
			}
			found = true
			for _, fl := range st.Fields.List {
				if len(fl.Names) == 0 {
					fields = append(fields, "<embedded "+slPrint(fset, fl.Type)+">")
				}
				for _, n := range fl.Names {
					fields = append(fields, n.Name)
				}
			}
			return false
		})
		if !found {
			return fmt.Errorf("struct %s not found in %s", t.name, t.file)
		}
		fmt.Fprintf(&b, "def fields_%s : List String := [%s]\n\n", t.name, slJoin(fields))
	}

	for _, fn := range slFuncs {
		f, err := load(fn.file)
		if err != nil {
			return err
		}
		var decl *ast.FuncDecl
		for _, d := range f.Decls {
			fd, ok := d.(*ast.FuncDecl)
			if !ok || fd.Name.Name != fn.name {
				continue
			}
			recv := ""
			if fd.Recv != nil && len(fd.Recv.List) == 1 {
				t := fd.Recv.List[0].Type
				if st, ok := t.(*ast.StarExpr); ok {
					t = st.X
				}
				if id, ok := t.(*ast.Ident); ok {
					recv = id.Name
				}
			}
			if recv == fn.recv {
				decl = fd
			}
		}
		if decl == nil || decl.Body == nil {
			return fmt.Errorf("function %s.%s not found in %s", fn.recv, fn.name, fn.file)
		}

		// the statement preceding every `if` (to show where a bare `err != nil` comes from)
		prev := map[*ast.IfStmt]ast.Stmt{}
		ast.Inspect(decl.Body, func(n ast.Node) bool {
			var list []ast.Stmt
			switch x := n.(type) {
			case *ast.BlockStmt:
				list = x.List
			case *ast.CaseClause:
				list = x.Body
			}
			for i, st := range list {
				if is, ok := st.(*ast.IfStmt); ok && i > 0 {
					prev[is] = list[i-1]
				}
			}
			return true
		})

		// the `if` statements whose then-branch encloses a node (guards of nested checks)
		guards := map[*ast.IfStmt][]string{}
		var walkGuards func(n ast.Node, g []string)
		walkGuards = func(n ast.Node, g []string) {
			ast.Inspect(n, func(m ast.Node) bool {
				is, ok := m.(*ast.IfStmt)
				if !ok || m == n {
					return true
				}
				guards[is] = g
				walkGuards(is.Body, append(append([]string(nil), g...), slPrint(fset, is.Cond)))
				if is.Else != nil {
					walkGuards(is.Else, append(append([]string(nil), g...), "!("+slPrint(fset, is.Cond)+")"))
				}
				return false
			})
		}
		walkGuards(decl.Body, nil)

		// guarded error returns, in source order
		var checks []string
		ast.Inspect(decl.Body, func(n ast.Node) bool {
			is, ok := n.(*ast.IfStmt)
			if !ok {
				return true
			}
			msg := ""
			for _, st := range is.Body.List {
				if rs, ok := st.(*ast.ReturnStmt); ok {
					msg = slErrOfReturn(fset, rs)
				}
			}
			if msg != "" {
				cond := slPrint(fset, is.Cond)
				if is.Init != nil {
					cond = slPrint(fset, is.Init) + "; " + cond
				} else if as, ok := prev[is].(*ast.AssignStmt); ok && cond == "err != nil" {
					cond = slPrint(fset, as) + "; " + cond
				}
				if g := guards[is]; len(g) > 0 {
					cond = strings.Join(g, " && ") + " => " + cond
				}
				checks = append(checks, "("+slLeanStr(cond)+", "+slLeanStr(msg)+")")
			}
			return true
		})
		fmt.Fprintf(&b, "def checks_%s : List (String × String) := [\n  %s]\n\n", fn.lean, strings.Join(checks, ",\n  "))

		if fn.param != "" {
			set := map[string]bool{}
			ast.Inspect(decl.Body, func(n ast.Node) bool {
				if ce, ok := n.(*ast.CallExpr); ok {
					// a method call on a field: record the field, not the method
					if sel, ok := ce.Fun.(*ast.SelectorExpr); ok {
						if p, ok := slSelectorPath(sel.X); ok && (strings.HasPrefix(p, fn.param+".") || p == fn.param) {
							set[p] = true
							for _, a := range ce.Args {
								ast.Inspect(a, func(m ast.Node) bool {
									if se, ok := m.(*ast.SelectorExpr); ok {
										if q, ok := slSelectorPath(se); ok && strings.HasPrefix(q, fn.param+".") {
											set[q] = true
											return false
										}
									}
									return true
								})
							}
							return false
						}
					}
					return true
				}
				se, ok := n.(*ast.SelectorExpr)
				if !ok {
					// a bare use of the parameter (e.g. `range txs`, `len(txs)`, `NewBlockResultsMeta(results)`)
					if id, ok := n.(*ast.Ident); ok && id.Name == fn.param {
						set[fn.param] = true
					}
					return true
				}
				if p, ok := slSelectorPath(se); ok && strings.HasPrefix(p, fn.param+".") {
					set[p] = true
					return false
				}
				return true
			})
			var uses []string
			for p := range set {
				uses = append(uses, p)
			}
			sort.Strings(uses)
			fmt.Fprintf(&b, "def uses_%s : List String := [%s]\n\n", fn.lean, slJoin(uses))
		}

		if fn.calls {
			var calls []string
			ast.Inspect(decl.Body, func(n ast.Node) bool {
				ce, ok := n.(*ast.CallExpr)
				if !ok {
					return true
				}
				if sel, ok := ce.Fun.(*ast.SelectorExpr); ok {
					// skip logging and error formatting
					if p, ok := slSelectorPath(sel); ok && (strings.HasPrefix(p, "c.logger.") || p == "fmt.Errorf") {
						return false
					}
				}
				calls = append(calls, slPrint(fset, ce))
				return true
			})
			fmt.Fprintf(&b, "def calls_%s : List String := [\n  %s]\n\n", fn.lean, strings.Join(slQuoteAll(calls), ",\n  "))
		}
	}
	b.WriteString("end Generated.StatelessFacts\n")
	return os.WriteFile(out, []byte(b.String()), 0o644)
}

func slQuoteAll(l []string) []string {
	q := make([]string, len(l))
	for i, s := range l {
		q[i] = slLeanStr(s)
	}
	return q
}

func slJoin(l []string) string { return strings.Join(slQuoteAll(l), ", ") }
