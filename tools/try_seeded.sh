#!/bin/sh
# usage: try_seeded.sh <property id> <patch.diff> [tier]   — apply a seeded change to $VERIF_REPO (default /repo), run the check, undo it.
pid=$1; patch=$2; tier=${3:-quick}
V=$(cd "$(dirname "$0")/.." && pwd); R=${VERIF_REPO:-/repo}
cd "$V"
git -C "$R" apply "$patch" || { echo "patch does not apply"; exit 2; }
./check "$pid" --tier "$tier"; rc=$?
git -C "$R" apply -R "$patch" || echo "WARNING: could not revert $patch"
echo "check-exit=$rc"
