#!/bin/sh
# usage: try_seeded.sh <property id> <patch.diff> [tier]   — apply a seeded change to /repo, run the check, undo it.
pid=$1; patch=$2; tier=${3:-quick}
cd /verif
git -C /repo apply "$patch" || { echo "patch does not apply"; exit 2; }
./check "$pid" --tier "$tier"; rc=$?
git -C /repo apply -R "$patch" || echo "WARNING: could not revert $patch"
echo "check-exit=$rc"
