#!/usr/bin/env python3
"""Print the build targets of all registered checks: `lake` targets or `drivers`."""
import importlib.util, os, sys
V = os.path.dirname(os.path.dirname(os.path.abspath(__file__)))
lake, drivers, regen = [], [], False
for f in sorted(os.listdir(os.path.join(V, "checks"))):
    if not f.endswith(".py"):
        continue
    pid = f[:-3]
    if pid not in open(os.path.join(V, "checks", "READY")).read().split():
        continue
    spec = importlib.util.spec_from_file_location("c", os.path.join(V, "checks", f)); m = importlib.util.module_from_spec(spec)
    try:
        spec.loader.exec_module(m)
    except Exception as e:
        print("bad config", f, e, file=sys.stderr); continue
    c = m.CONFIG
    if c.get("not_applicable"):
        continue
    lake.append("OasisProofs.Props." + pid)
    for e in c.get("extra_theorem_files", []):
        lake.append(e.get("module") or e["file"][:-5].replace("/", "."))
    lake += ["om_" + x for x in c.get("models", [])]
    drivers += [d["name"] for d in c.get("drivers", [])]
    regen = regen or bool(c.get("regen"))
what = sys.argv[1] if len(sys.argv) > 1 else "lake"
if what == "lake":
    print(" ".join(dict.fromkeys(lake)))
elif what == "drivers":
    print(" ".join(dict.fromkeys(drivers)))
elif what == "pids":
    print(" ".join(dict.fromkeys(x.split(".")[-1] for x in lake if x.startswith("OasisProofs"))))
