#!/usr/bin/env python3
"""usage: mkpin.py <group> <LeanFileName> <doc-file> [<order-json>]
Regenerates lean/Generated/StmtFacts<Group>.lean with tools/gen stmtfacts and writes
lean/OasisProofs/Props/<LeanFileName>.lean pinning every statement list of the group (rfl) plus optional
order obligations: order-json = [[theoremName, listName, [line, line, ...]], ...] (strictly increasing
positions of the given lines in the pinned list)."""
import json, os, re, subprocess, sys
V = os.path.dirname(os.path.dirname(os.path.abspath(__file__)))
group, fname, docfile = sys.argv[1:4]
orders = json.load(open(sys.argv[4])) if len(sys.argv) > 4 else []
Ns = group[:1].upper() + group[1:]
mod = "StmtFacts" + Ns
subprocess.check_call([os.path.join(V, "harness/bin/gen"), "stmtfacts", "-repo", os.environ.get("VERIF_REPO", "/repo"),
                       "-out", os.path.join(V, "lean/Generated", mod + ".lean"), group])
src = open(os.path.join(V, "lean/Generated", mod + ".lean")).read()
defs = re.findall(r'def (\w+) : List String := \[(.*?)\]\n', src, re.S)
doc = open(docfile).read().strip()
out = f"/-\n{doc}\n\n`tools/gen stmtfacts {group}` flattens the functions into one line per simple statement on every run; the\nlists are pinned here (`rfl`). A change of a statement, a condition or of the order of statements breaks the\npin until the new text has been read against the model.\n-/\nimport Generated.{mod}\n\nnamespace OasisProofs.{fname}\n\n"
out += "/-- Position of the first line equal to `s`. -/\ndef pos (l : List String) (s : String) : Option Nat :=\n  let i := l.findIdx (· == s)\n  if i < l.length then some i else none\n\n/-- The lines occur in this order (strictly increasing positions). -/\ndef inOrder (l : List String) : List String → Option Nat → Bool\n  | [], _ => true\n  | s :: rest, prev =>\n    match pos l s, prev with\n    | none, _ => false\n    | some i, none => inOrder l rest (some i)\n    | some i, some p => decide (p < i) && inOrder l rest (some i)\n\n"
for name, body in defs:
    out += f"def expected_{name} : List String := [{body}]\n\ntheorem {name}_as_modelled : Generated.StmtFacts.{Ns}.{name} = expected_{name} := rfl\n\n"
for thm, lst, lines in orders:
    ll = ", ".join(json.dumps(x, ensure_ascii=False) for x in lines)
    out += f"theorem {thm} :\n    inOrder expected_{lst} [{ll}] none = true := by decide +kernel\n\n"
out += f"end OasisProofs.{fname}\n"
open(os.path.join(V, "lean/OasisProofs/Props", fname + ".lean"), "w").write(out)
print("wrote", fname)
