// codecdrv: correspondence between the real hand-written MKVS decoders/encoders
// (go/storage/mkvs/node: Key, Depth, LeafNode, InternalNode, node.UnmarshalBinary;
// go/storage/mkvs/syncer: ProofVerifier) and the Lean model (`om_codec`), property C16.
//
// Every case is one operation on one byte string. The real code runs in-process (panics
// recovered, wall time and allocated bytes measured, a watchdog for hangs and heap growth);
// its answer is appended to the line and the model replies `ok` or `DIVERGE`.
// Independently of the model the spec predicates of C16 are evaluated on what the
// implementation returned: consumed <= len(input), re-marshalled bytes = input[:consumed],
// allocation bounded by the input length, time bounded.
package main

import (
	"bytes"
	"context"
	"encoding/hex"
	"errors"
	"flag"
	"fmt"
	"hash/fnv"
	"os"
	"regexp"
	"strconv"
	"strings"
	"time"

	"verifharness/codeclib"
	"verifharness/hlib"

	"github.com/oasisprotocol/oasis-core/go/common"
	"github.com/oasisprotocol/oasis-core/go/common/crypto/hash"
	"github.com/oasisprotocol/oasis-core/go/common/sgx/pcs"
	"github.com/oasisprotocol/oasis-core/go/storage/mkvs"
	"github.com/oasisprotocol/oasis-core/go/storage/mkvs/node"
	"github.com/oasisprotocol/oasis-core/go/storage/mkvs/syncer"
	"github.com/oasisprotocol/oasis-core/go/storage/mkvs/writelog"
)

// Allocation bound checked on the implementation: bytes allocated by one decode call
// <= allocFactor*len(input) + allocSlack. The model proves sum(make lengths) <= len(input);
// the factor covers size-class rounding, the slack the node/pointer structs and error values.
const (
	allocFactor = 3
	allocSlack  = 4096
	slowLimit   = 2 * time.Second
)

// fnv64 hashes an op line (the distinct-case sets keep hashes, not the lines).
func fnv64(s string) uint64 {
	h := fnv.New64a()
	_, _ = h.Write([]byte(s))
	return h.Sum64()
}

func hx(b []byte) string {
	if len(b) == 0 {
		return "-"
	}
	return hex.EncodeToString(b)
}

func unhx(s string) []byte {
	if s == "-" {
		return []byte{}
	}
	b, err := hex.DecodeString(s)
	if err != nil {
		panic("bad hex in op: " + s)
	}
	return b
}

// optional hex: "~" is nil
func unhxOpt(s string) []byte {
	if s == "~" {
		return nil
	}
	return unhx(s)
}

func errClass(err error) string {
	switch {
	case errors.Is(err, node.ErrMalformedNode):
		return "node"
	case errors.Is(err, node.ErrMalformedKey):
		return "key"
	case errors.Is(err, hash.ErrMalformed):
		return "hash"
	}
	m := err.Error()
	for _, p := range [][2]string{
		{"unsupported proof version", "bad-version"},
		{"empty proof", "empty-proof"},
		{"malformed proof", "malformed-proof"},
		{"max proof depth exceeded", "max-depth"},
		{"unused entries", "unused-entries"},
		{"unexpected entry", "unexpected-entry"},
		{"bad root", "bad-root"},
	} {
		if strings.Contains(m, p[0]) {
			return p[1]
		}
	}
	return "other:" + strings.ReplaceAll(m, " ", "_")
}

// quoteErrClass maps the errors of pcs.Quote.UnmarshalBinaryWithTrailing to the model's classes
// (the Go code distinguishes them by message only).
func quoteErrClass(err error) string {
	m := err.Error()
	for _, p := range [][2]string{
		{"invalid quote length", "len"},
		{"unsupported quote version", "version"},
		{"data in reserved field", "reserved"},
		{"unsupported TEE type", "tee"},
		{"unsupported QE vendor", "vendor"},
		{"invalid quote body length", "bodylen"},
		{"malformed TDX attributes", "tdattr"},
		{"unexpected trailing data", "trailing"},
		{"unsupported attestation key type", "keytype"},
		{"invalid ECDSA-P256 quote signature length", "siglen"},
		{"invalid ECDSA-P256 quote signature certification data size", "v4size"},
		{"unexpected certification data", "v4type"},
		{"missing report body", "qeNoBody"},
		{"missing report signature", "qeNoSig"},
		{"missing authentication data size", "qeNoAuthSize"},
		{"invalid authentication data size", "qeAuthSize"},
		{"missing certification data type", "qeNoCdType"},
		{"missing certification data size", "qeNoCdSize"},
		{"invalid certification data size", "qeCdSize"},
		{"invalid PPID certification data length", "ppidlen"},
		{"bad X509 certificate in PCK chain", "pem"},
		{"unsupported certification data type", "cdtype"},
	} {
		if strings.Contains(m, p[0]) {
			return p[1]
		}
	}
	return "other:" + strings.ReplaceAll(m, " ", "_")
}

func leafSlot(p *node.Pointer) string {
	if p == nil {
		return "~"
	}
	l, ok := p.Node.(*node.LeafNode)
	if !ok || l == nil {
		return "?"
	}
	return hx(l.Key) + ":" + hx(l.Value)
}

func ptrHash(p *node.Pointer) string {
	if p == nil {
		return "~"
	}
	return hx(p.Hash[:])
}

func marshals(n node.Node) (full, cv0, cv1 []byte) {
	full, err := n.MarshalBinary()
	if err != nil {
		panic(err)
	}
	if cv0, err = n.CompactMarshalBinaryV0(); err != nil {
		panic(err)
	}
	if cv1, err = n.CompactMarshalBinaryV1(); err != nil {
		panic(err)
	}
	return
}

var badRootRe = regexp.MustCompile(`bad root \(expected: [0-9a-f]+ got: ([0-9a-f]{64})\)`)

// implResult is the implementation's answer to one op.
type implResult struct {
	line   string // op + answer, as sent to the model
	class  string // ok / err:<class> (for the counters)
	sig    string // non-empty: a C16 spec predicate failed on the implementation
	detail string
}

// runImpl executes one op on the real code.
func runImpl(op string, exact bool) (res implResult) {
	w := strings.Fields(op)
	kind := w[0]
	var answer string
	var inLen, nEntries int
	var post func() (string, string) // spec predicates needing the decoded result
	g := codeclib.Run(exact, func() {
		switch kind {
		case "consts":
			var h hash.Hash
			h.Empty()
			answer = fmt.Sprintf("%s %d %d %d %d %d", hx(h[:]), node.PrefixLeafNode, node.PrefixInternalNode, node.PrefixNilNode, hash.Size, node.DepthSize)
		case "depth":
			data := unhx(w[1])
			inLen = len(data)
			var d node.Depth
			n, err := d.UnmarshalBinary(data)
			if err != nil {
				answer = "err " + errClass(err)
				return
			}
			answer = fmt.Sprintf("ok %d %d", n, uint16(d))
			post = func() (string, string) {
				if n > len(data) {
					return "consumed-gt-len", fmt.Sprintf("consumed %d of %d", n, len(data))
				}
				if !bytes.Equal(d.MarshalBinary(), data[:n]) {
					return "noncanonical", "Depth re-marshal differs from consumed input"
				}
				return "", ""
			}
		case "key":
			data := unhx(w[1])
			inLen = len(data)
			var k node.Key
			n, err := k.SizedUnmarshalBinary(data)
			if err != nil {
				answer = "err " + errClass(err)
				return
			}
			post = func() (string, string) {
				re, _ := k.MarshalBinary()
				answer = fmt.Sprintf("ok %d %s", n, hx(re))
				if n > len(data) {
					return "consumed-gt-len", fmt.Sprintf("consumed %d of %d", n, len(data))
				}
				if !bytes.Equal(re, data[:n]) {
					return "noncanonical", "Key re-marshal differs from consumed input"
				}
				return "", ""
			}
		case "leaf":
			data := unhx(w[1])
			inLen = len(data)
			var l node.LeafNode
			n, err := l.SizedUnmarshalBinary(data)
			if err != nil {
				answer = "err " + errClass(err)
				return
			}
			post = func() (string, string) {
				re, _ := l.MarshalBinary()
				answer = fmt.Sprintf("ok %d %s %s %s", n, hx(l.Key), hx(l.Value), hx(re))
				if n > len(data) {
					return "consumed-gt-len", fmt.Sprintf("consumed %d of %d", n, len(data))
				}
				if !bytes.Equal(re, data[:n]) {
					return "noncanonical", "LeafNode re-marshal differs from consumed input"
				}
				return "", ""
			}
		case "inode":
			data := unhx(w[1])
			inLen = len(data)
			var in node.InternalNode
			n, err := in.SizedUnmarshalBinary(data)
			if err != nil {
				answer = "err " + errClass(err)
				return
			}
			post = func() (string, string) {
				full, cv0, cv1 := marshals(&in)
				answer = fmt.Sprintf("ok %d %d %s %s %s %s %s %s %s", n, uint16(in.LabelBitLength), hx(in.Label),
					leafSlot(in.LeafNode), ptrHash(in.Left), ptrHash(in.Right), hx(full), hx(cv0), hx(cv1))
				if n > len(data) {
					return "consumed-gt-len", fmt.Sprintf("consumed %d of %d", n, len(data))
				}
				if !bytes.Equal(full, data[:n]) && !bytes.Equal(cv0, data[:n]) {
					return "noncanonical", "InternalNode re-marshal (full and compact) differs from consumed input"
				}
				return "", ""
			}
		case "node":
			data := unhx(w[1])
			inLen = len(data)
			nd, err := node.UnmarshalBinary(data)
			if err != nil {
				answer = "err " + errClass(err)
				return
			}
			post = func() (string, string) {
				full, cv0, cv1 := marshals(nd)
				t := "L"
				if _, ok := nd.(*node.InternalNode); ok {
					t = "I"
				}
				answer = fmt.Sprintf("ok %s %s %s %s", t, hx(full), hx(cv0), hx(cv1))
				if !bytes.HasPrefix(data, full) && !bytes.HasPrefix(data, cv0) {
					return "noncanonical", "node re-marshal is not a prefix of the input"
				}
				return "", ""
			}
		case "quote":
			// pcs.Quote.UnmarshalBinaryWithTrailing: the hand-written length-prefixed framing of an
			// attestation quote (PEM/x509 of the certificate chain is outside the model).
			data := unhx(w[2])
			inLen = len(data)
			var q pcs.Quote
			n, err := q.UnmarshalBinaryWithTrailing(data, w[1] == "1")
			if err != nil {
				answer = "err " + quoteErrClass(err)
				return
			}
			qs, ok := q.Signature().(*pcs.QuoteSignatureECDSA_P256)
			if !ok {
				answer = "err other:signature-type"
				return
			}
			answer = fmt.Sprintf("ok %d %d %d %d", n, q.Header().Version(), uint32(q.Header().TeeType()),
				uint16(qs.CertificationData().CertificationDataType()))
			post = func() (string, string) {
				if n > len(data) {
					return "consumed-gt-len", fmt.Sprintf("consumed %d of %d", n, len(data))
				}
				return "", ""
			}
		case "proof":
			v, err := strconv.ParseUint(w[1], 10, 16)
			if err != nil {
				panic("bad proof version in op")
			}
			var entries [][]byte
			if w[2] != "none" {
				for _, e := range strings.Split(w[2], ",") {
					entries = append(entries, unhxOpt(e))
					inLen += len(e) / 2
					nEntries++
				}
			}
			answer = verifyReal(uint16(v), entries)
		case "enc-key":
			k := node.Key(unhx(w[1]))
			b, _ := k.MarshalBinary()
			answer = hx(b)
			inLen = len(k)
		case "enc-leaf":
			l := node.LeafNode{Key: unhx(w[1]), Value: unhx(w[2])}
			b, _ := l.MarshalBinary()
			answer = hx(b)
			inLen = len(b)
		case "enc-inode":
			in := buildInode(w[1:])
			full, cv0, cv1 := marshals(in)
			answer = fmt.Sprintf("%s %s %s", hx(full), hx(cv0), hx(cv1))
			inLen = len(full)
		default:
			panic("unknown op " + op)
		}
	})
	var postSig, postDetail string
	if post != nil && g.Panic == "" {
		g2 := codeclib.Run(false, func() { postSig, postDetail = post() })
		if g2.Panic != "" {
			g.Panic = "re-marshal of the decoded value: " + g2.Panic
		}
	}
	res.line = op + " " + answer
	res.class = "ok"
	if strings.HasPrefix(answer, "err ") {
		res.class = "err:" + strings.Fields(answer)[1]
	}
	if g.Alloc > 0 && inLen > 0 && !strings.HasPrefix(kind, "enc-") {
		noteAlloc(kind, g.Alloc, inLen)
	}
	switch {
	case g.Panic != "":
		res.line = op + " PANIC"
		res.class = "panic"
		res.sig, res.detail = "panic-"+kind, fmt.Sprintf("Go panic in %s: %s", kind, g.Panic)
	case g.Elapsed > slowLimit:
		res.sig, res.detail = "slow-"+kind, fmt.Sprintf("%s took %v on %d input bytes", kind, g.Elapsed, inLen)
	case exact && kind == "quote" && g.Alloc > uint64(64*inLen+(1<<20)):
		// quote: structs, the auth data copy, and PEM + x509 parsing of the certificate chain
		res.sig, res.detail = "alloc-quote", fmt.Sprintf("quote decoding allocated %d bytes on %d input bytes", g.Alloc, inLen)
	case exact && !strings.HasPrefix(kind, "enc-") && kind != "consts" && kind != "proof" && kind != "quote" &&
		g.Alloc > uint64(allocFactor*inLen+allocSlack):
		res.sig, res.detail = "alloc-"+kind, fmt.Sprintf("%s allocated %d bytes on %d input bytes", kind, g.Alloc, inLen)
	case exact && kind == "proof" && g.Alloc > uint64(16*inLen+4096*nEntries+65536):
		// three verifier runs (root discovery, write log, pointer tree): node structs, pointers,
		// hasher states and error strings per entry
		res.sig, res.detail = "alloc-proof", fmt.Sprintf("verifier allocated %d bytes on %d entries / %d entry bytes", g.Alloc, nEntries, inLen)
	case postSig != "":
		res.sig, res.detail = postSig+"-"+kind, postDetail
	}
	if strings.Contains(answer, "other:") && res.sig == "" {
		res.sig, res.detail = "unclassified-error-"+kind, answer
	}
	return
}

// maxAlloc records, per op kind, the largest observed (allocated bytes - slack)/input ratio x100
// and the largest absolute allocation (reported in the counters).
var maxAlloc = map[string]uint64{}

func noteAlloc(kind string, alloc uint64, inLen int) {
	if alloc > maxAlloc["max-alloc-bytes:"+kind] {
		maxAlloc["max-alloc-bytes:"+kind] = alloc
	}
	if alloc > 1024 {
		r := (alloc - 1024) * 100 / uint64(inLen)
		if r > maxAlloc["max-alloc-minus-1KiB-per-input-byte-x100:"+kind] {
			maxAlloc["max-alloc-minus-1KiB-per-input-byte-x100:"+kind] = r
		}
	}
}

func buildInode(w []string) *node.InternalNode {
	bits, err := strconv.ParseUint(w[0], 10, 16)
	if err != nil {
		panic("bad bits in op")
	}
	in := &node.InternalNode{LabelBitLength: node.Depth(bits), Label: unhx(w[1])}
	if w[2] != "~" {
		kv := strings.Split(w[2], ":")
		in.LeafNode = &node.Pointer{Clean: true, Node: &node.LeafNode{Key: unhx(kv[0]), Value: unhx(kv[1])}}
	}
	if w[3] != "~" {
		in.Left = &node.Pointer{Clean: true}
		copy(in.Left.Hash[:], unhx(w[3]))
	}
	if w[4] != "~" {
		in.Right = &node.Pointer{Clean: true}
		copy(in.Right.Hash[:], unhx(w[4]))
	}
	return in
}

func showWriteLog(wl writelog.WriteLog) string {
	if len(wl) == 0 {
		return "none"
	}
	s := make([]string, len(wl))
	for i, e := range wl {
		s[i] = hx(e.Key) + ":" + hx(e.Value)
	}
	return strings.Join(s, ",")
}

// verifyReal runs the real verifier. The root the proof hashes to is unknown to the model
// (no hashing there): a first run against the zero hash yields `bad root (... got: R)` exactly
// when the traversal succeeded; the second run against R must then succeed.
func verifyReal(v uint16, entries [][]byte) string {
	ctx := context.Background()
	var pv syncer.ProofVerifier
	var root hash.Hash
	proof := syncer.Proof{V: v, UntrustedRoot: root, Entries: entries}
	_, err := pv.VerifyProofToWriteLog(ctx, root, &proof)
	if err == nil {
		return "other:accepted-with-zero-root"
	}
	m := badRootRe.FindStringSubmatch(err.Error())
	if m == nil {
		return "err " + errClass(err)
	}
	if err = root.UnmarshalHex(m[1]); err != nil {
		return "other:unparsable-root"
	}
	proof.UntrustedRoot = root
	wl, err := pv.VerifyProofToWriteLog(ctx, root, &proof)
	if err != nil {
		return "other:second-run:" + errClass(err)
	}
	// The pointer-returning variant must agree.
	ptr, err := pv.VerifyProof(ctx, root, &proof)
	if err != nil {
		return "other:VerifyProof-disagrees:" + errClass(err)
	}
	if h := ptr.GetHash(); !h.Equal(&root) {
		return "other:VerifyProof-root-differs"
	}
	return "ok " + showWriteLog(wl)
}

// ------------------------------------------------------------------------------- generators

type gen struct {
	r      *hlib.Rng
	res    *hlib.Result
	quotes bool
}

func (g *gen) key() []byte {
	switch g.r.Intn(12) {
	case 0:
		return []byte{}
	case 1:
		return codeclib.RandBytes(g.r, 255+g.r.Intn(3))
	case 2:
		return codeclib.RandBytes(g.r, 33)
	default:
		return codeclib.RandBytes(g.r, 1+g.r.Intn(12))
	}
}

func (g *gen) value() []byte {
	switch g.r.Intn(10) {
	case 0:
		return []byte{}
	case 1:
		return codeclib.RandBytes(g.r, 250+g.r.Intn(20))
	default:
		return codeclib.RandBytes(g.r, g.r.Intn(24))
	}
}

func (g *gen) hash() []byte {
	if g.r.Chance(1, 8) {
		var h hash.Hash
		h.Empty()
		return h[:]
	}
	return codeclib.RandBytes(g.r, 32)
}

func (g *gen) leaf() *node.LeafNode { return &node.LeafNode{Key: g.key(), Value: g.value()} }

// inode returns a random internal node; wf=false lets the label length disagree with the bit length.
func (g *gen) inode(wf bool) *node.InternalNode {
	bits := g.r.Intn(40)
	switch g.r.Intn(10) {
	case 0:
		bits = 0
	case 1:
		bits = 8 * g.r.Intn(5)
	case 2:
		bits = 250 + g.r.Intn(20)
	}
	in := &node.InternalNode{LabelBitLength: node.Depth(bits)}
	ll := in.LabelBitLength.ToBytes()
	if !wf {
		ll = g.r.Intn(6)
	}
	in.Label = codeclib.RandBytes(g.r, ll)
	if g.r.Bool() {
		in.LeafNode = &node.Pointer{Clean: true, Node: g.leaf()}
	}
	if g.r.Chance(3, 4) {
		in.Left = &node.Pointer{Clean: true}
		copy(in.Left.Hash[:], g.hash())
	}
	if g.r.Chance(3, 4) {
		in.Right = &node.Pointer{Clean: true}
		copy(in.Right.Hash[:], g.hash())
	}
	return in
}

func encInodeOp(in *node.InternalNode) string {
	return fmt.Sprintf("enc-inode %d %s %s %s %s", uint16(in.LabelBitLength), hx(in.Label), leafSlot(in.LeafNode), ptrHash(in.Left), ptrHash(in.Right))
}

// tree emits the entries (pre-order) of a random proof tree for the given version.
func (g *gen) tree(v int, depth, budget int, out *[]string) {
	k := g.r.Intn(10)
	if depth >= budget {
		k = g.r.Intn(5)
	}
	switch {
	case k == 0:
		*out = append(*out, "~")
	case k <= 2:
		*out = append(*out, "02"+hex.EncodeToString(codeclib.RandBytes(g.r, 32)))
	case k <= 4:
		b, _ := g.leaf().CompactMarshalBinaryV1()
		*out = append(*out, "01"+hex.EncodeToString(b))
	default:
		in := g.inode(true)
		in.Left, in.Right = nil, nil
		var b []byte
		form := g.r.Intn(10)
		switch {
		case form == 0: // full serialization inside a proof
			in.Left = &node.Pointer{Clean: true}
			copy(in.Left.Hash[:], g.hash())
			b, _ = in.MarshalBinary()
		case v == 0 || form == 1:
			b, _ = in.CompactMarshalBinaryV0()
		default:
			b, _ = in.CompactMarshalBinaryV1()
		}
		*out = append(*out, "01"+hex.EncodeToString(b))
		if v == 1 {
			// leaf slot entry
			switch g.r.Intn(6) {
			case 0:
				g.tree(v, depth+1, budget, out) // anything (also an internal node) in the leaf slot
			case 1, 2:
				*out = append(*out, "~")
			default:
				lb, _ := g.leaf().CompactMarshalBinaryV1()
				*out = append(*out, "01"+hex.EncodeToString(lb))
			}
		}
		g.tree(v, depth+1, budget, out)
		g.tree(v, depth+1, budget, out)
	}
}

// chain emits a left spine of n nested internal nodes (depths 0..n-1) ending in a leaf.
func (g *gen) chain(v, n int) []string {
	var out []string
	in := &node.InternalNode{LabelBitLength: 1, Label: []byte{0x80}}
	b, _ := in.CompactMarshalBinaryV1()
	e := "01" + hex.EncodeToString(b)
	for i := 0; i < n; i++ {
		out = append(out, e)
		if v == 1 {
			out = append(out, "~")
		}
	}
	lb, _ := g.leaf().CompactMarshalBinaryV1()
	out = append(out, "01"+hex.EncodeToString(lb))
	for i := 0; i < n; i++ {
		out = append(out, "~")
	}
	return out
}

// realProof builds a proof with the real tree and proof builder.
func (g *gen) realProof(v uint16) []string {
	ctx := context.Background()
	t := mkvs.New(nil, nil, node.RootTypeState)
	defer t.Close()
	n := 1 + g.r.Intn(12)
	var keys [][]byte
	for i := 0; i < n; i++ {
		k := g.key()
		if g.r.Chance(1, 3) && len(keys) > 0 { // prefix-related keys
			k = append(append([]byte{}, keys[g.r.Intn(len(keys))]...), codeclib.RandBytes(g.r, g.r.Intn(3))...)
		}
		keys = append(keys, k)
		if err := t.Insert(ctx, k, g.value()); err != nil {
			panic(err)
		}
	}
	var ns common.Namespace
	_, root, err := t.Commit(ctx, ns, 1)
	if err != nil {
		panic(err)
	}
	pb, err := syncer.NewProofBuilderForVersion(root, root, v)
	if err != nil {
		panic(err)
	}
	it := t.NewIterator(ctx, mkvs.WithProofBuilder(pb))
	defer it.Close()
	it.Seek(keys[g.r.Intn(len(keys))])
	for steps := g.r.Intn(4); it.Valid() && steps > 0; steps-- {
		it.Next()
	}
	p, err := it.GetProof()
	if err != nil {
		panic(err)
	}
	var out []string
	for _, e := range p.Entries {
		if e == nil {
			out = append(out, "~")
		} else {
			out = append(out, hx(e))
		}
	}
	return out
}

func proofOp(v int, entries []string) string {
	if len(entries) == 0 {
		return fmt.Sprintf("proof %d none", v)
	}
	return fmt.Sprintf("proof %d %s", v, strings.Join(entries, ","))
}

// mutateProof applies one structural or byte-level mutation to an entry list.
func (g *gen) mutateProof(v int, entries []string) (int, []string) {
	e := append([]string(nil), entries...)
	k := g.r.Intn(9)
	g.res.Count("proof-mut:" + []string{"drop", "dup", "append", "nil", "empty", "bytes", "version", "swap", "truncate"}[k])
	switch k {
	case 0:
		if len(e) > 0 {
			i := g.r.Intn(len(e))
			e = append(e[:i], e[i+1:]...)
		}
	case 1:
		if len(e) > 0 {
			i := g.r.Intn(len(e))
			e = append(e[:i+1], e[i:]...)
		}
	case 2:
		e = append(e, []string{"~", "-", "02" + hex.EncodeToString(codeclib.RandBytes(g.r, 32))}[g.r.Intn(3)])
	case 3:
		if len(e) > 0 {
			e[g.r.Intn(len(e))] = "~"
		}
	case 4:
		if len(e) > 0 {
			e[g.r.Intn(len(e))] = "-"
		}
	case 5:
		if len(e) > 0 {
			i := g.r.Intn(len(e))
			if e[i] != "~" {
				m, mk := codeclib.Mutate(g.r, unhx(e[i]), nil, false)
				g.res.Count("mut:" + mk)
				e[i] = hx(m)
			}
		}
	case 6:
		v = []int{0, 1, 2, 65535}[g.r.Intn(4)]
	case 7:
		if len(e) > 1 {
			i, j := g.r.Intn(len(e)), g.r.Intn(len(e))
			e[i], e[j] = e[j], e[i]
		}
	case 8:
		if len(e) > 0 {
			e = e[:g.r.Intn(len(e))]
		}
	}
	return v, e
}

// ---- PCS quote seeds (framing model)

var repoDir = func() string {
	if d := os.Getenv("VERIF_REPO"); d != "" {
		return d
	}
	return "/repo"
}()

// syntheticQuote builds a structurally valid quote with PPID certification data (no PEM): version
// 3 or 4, SGX or TDX report body, authentication data of the given size.
func syntheticQuote(version uint16, tdx bool, auth int, cdType uint16) []byte {
	le16 := func(v uint16) []byte { return []byte{byte(v), byte(v >> 8)} }
	le32 := func(v uint32) []byte { return []byte{byte(v), byte(v >> 8), byte(v >> 16), byte(v >> 24)} }
	hdr := append(le16(version), le16(2)...)
	tee := uint32(0)
	if tdx {
		tee = 0x81
	}
	hdr = append(hdr, le32(tee)...)
	hdr = append(hdr, 0, 0, 0, 0)
	hdr = append(hdr, pcs.QEVendorID_Intel...)
	hdr = append(hdr, make([]byte, 20)...)
	body := make([]byte, 384)
	if tdx {
		body = make([]byte, 584)
	}
	qe := make([]byte, 384+64)
	qe = append(qe, le16(uint16(auth))...)
	qe = append(qe, bytes.Repeat([]byte{0xa5}, auth)...)
	qe = append(qe, le16(cdType)...)
	qe = append(qe, le32(404)...)
	qe = append(qe, bytes.Repeat([]byte{0x5a}, 404)...)
	sig := make([]byte, 128)
	if version == 4 {
		sig = append(sig, le16(6)...)
		sig = append(sig, le32(uint32(len(qe)))...)
	}
	sig = append(sig, qe...)
	out := append(hdr, body...)
	out = append(out, le32(uint32(len(sig)))...)
	return append(out, sig...)
}

var quoteSeedsCache [][]byte

// quoteSeeds: the repository's SGX and TDX test vectors (PEM chains) and synthetic PPID quotes.
func quoteSeeds() [][]byte {
	if quoteSeedsCache != nil {
		return quoteSeedsCache
	}
	for _, f := range []string{"quote_v3_ecdsa_p256_pck_chain.bin", "quote_v4_tdx_ecdsa_p256.bin", "quote_v3_ecdsa_p256_eppid.bin",
		"quote_v4_tdx_ecdsa_p256_out_of_date.bin", "quote_v4_tdx_ecdsa_p256_trailing.bin"} {
		b, err := os.ReadFile(repoDir + "/go/common/sgx/pcs/testdata/" + f)
		if err != nil {
			panic(err)
		}
		quoteSeedsCache = append(quoteSeedsCache, b)
	}
	quoteSeedsCache = append(quoteSeedsCache, syntheticQuote(3, false, 32, 1), syntheticQuote(4, true, 32, 2), syntheticQuote(4, false, 0, 3),
		syntheticQuote(3, false, 0, 5), syntheticQuote(3, false, 300, 7))
	return quoteSeedsCache
}

func quoteOp(r *hlib.Rng, b []byte) string {
	return fmt.Sprintf("quote %d %s", r.Intn(2), hx(b))
}

// quoteSweep: every length / type field of a quote, at every nesting level, set to every boundary
// value (0, 1, around the remaining and total length, 2^15, 2^16, 2^31, 2^32-k), resized and
// truncated tails: the two smallest repository vectors (one SGX, one TDX) and the synthetic quotes.
func quoteSweep(r *hlib.Rng, res *hlib.Result) []string {
	var ops []string
	seeds := quoteSeeds()
	for _, i := range []int{0, 1, 5, 6, 7, 8} {
		sd := seeds[i]
		for _, m := range codeclib.FieldSweep(sd, codeclib.QuoteLenFields(sd)) {
			ops = append(ops, quoteOp(r, m.Data))
			res.Count("quote-lenfield:" + m.What)
		}
	}
	return ops
}

// genOps produces the ops of one case group: a valid seed object, its encodings fed to every
// decoder, and `muts` single mutations of each encoding.
func (g *gen) genOps(muts int) []string {
	var ops []string
	decodeAll := func(kinds []string, b []byte) {
		for _, k := range kinds {
			ops = append(ops, k+" "+hx(b))
		}
	}
	mutants := func(kinds []string, b, other []byte) {
		for i := 0; i < muts; i++ {
			m, mk := codeclib.Mutate(g.r, b, other, false)
			g.res.Count("mut:" + mk)
			decodeAll(kinds, m)
		}
	}
	switch k := g.r.Intn(100); {
	case g.quotes && g.r.Chance(1, 12): // PCS quote framing
		seeds := quoteSeeds()
		sd := seeds[g.r.Intn(len(seeds))]
		ops = append(ops, "quote 0 "+hx(sd), "quote 1 "+hx(sd))
		for i := 0; i < muts; i++ {
			m, n := sd, 1+g.r.Intn(2)
			for j := 0; j < n; j++ {
				var mk string
				if g.r.Bool() {
					m, mk = codeclib.MutateField(g.r, m, codeclib.QuoteLenFields(m))
					mk = "quote-lenfield"
				} else {
					m, mk = codeclib.Mutate(g.r, m, seeds[g.r.Intn(len(seeds))], false)
				}
				g.res.Count("mut:" + mk)
			}
			ops = append(ops, quoteOp(g.r, m))
		}
	case k < 12: // keys and depths
		key := g.key()
		if g.r.Chance(1, 40) {
			key = codeclib.RandBytes(g.r, 65534+g.r.Intn(5)) // uint16 truncation in Key.MarshalBinary
		}
		ops = append(ops, "enc-key "+hx(key))
		b, _ := node.Key(key).MarshalBinary()
		if len(b) < 2000 {
			decodeAll([]string{"key", "depth"}, b)
			mutants([]string{"key", "depth"}, b, nil)
		} else {
			decodeAll([]string{"key"}, b)
		}
	case k < 32: // leaves
		l := g.leaf()
		ops = append(ops, fmt.Sprintf("enc-leaf %s %s", hx(l.Key), hx(l.Value)))
		b, _ := l.MarshalBinary()
		decodeAll([]string{"leaf", "node"}, b)
		o, _ := g.leaf().MarshalBinary()
		mutants([]string{"leaf", "node"}, b, o)
	case k < 62: // internal nodes, all three serializations
		in := g.inode(!g.r.Chance(1, 6))
		ops = append(ops, encInodeOp(in))
		full, cv0, cv1 := marshals(in)
		for _, b := range [][]byte{full, cv0, cv1} {
			decodeAll([]string{"inode", "node"}, b)
		}
		seed := [][]byte{full, cv0, cv1}[g.r.Intn(3)]
		mutants([]string{"inode", "node"}, seed, full)
	case k < 70: // unstructured bytes with a plausible first byte
		for i := 0; i < 1+muts; i++ {
			b := codeclib.RandBytes(g.r, g.r.Intn(80))
			if len(b) > 0 && g.r.Chance(3, 4) {
				b[0] = byte(g.r.Intn(3))
			}
			decodeAll([]string{"key", "depth", "leaf", "inode", "node"}, b)
		}
	case k < 82: // generated proof trees
		v := g.r.Intn(2)
		var e []string
		g.tree(v, 0, 1+g.r.Intn(5), &e)
		ops = append(ops, proofOp(v, e))
		for i := 0; i < muts; i++ {
			mv, me := g.mutateProof(v, e)
			ops = append(ops, proofOp(mv, me))
		}
	case k < 90: // proofs built by the real tree
		v := g.r.Intn(2)
		e := g.realProof(uint16(v))
		ops = append(ops, proofOp(v, e))
		g.res.Count("proof-seed:real")
		for i := 0; i < muts; i++ {
			mv, me := g.mutateProof(v, e)
			ops = append(ops, proofOp(mv, me))
		}
	default: // depth guard: chains around maxProofDepth
		v := g.r.Intn(2)
		n := 125 + g.r.Intn(8)
		if g.r.Chance(1, 6) {
			n = 300 + g.r.Intn(2000)
		}
		e := g.chain(v, n)
		ops = append(ops, proofOp(v, e))
		g.res.Count(fmt.Sprintf("proof-seed:chain-%s", map[bool]string{true: "le129", false: "gt129"}[n <= 129]))
		if g.r.Bool() {
			mv, me := g.mutateProof(v, e)
			ops = append(ops, proofOp(mv, me))
		}
	}
	return ops
}

// ------------------------------------------------------------------------------- checking

// checkOps runs implementation and model over the ops; returns the failures found.
func checkOps(ops []string, exact bool, count func(op, class string), wd *codeclib.Watchdog) []hlib.Failure {
	var fails []hlib.Failure
	lines := make([]string, len(ops))
	for i, op := range ops {
		wd.Begin(op)
		r := runImpl(op, exact)
		// Allocation and time measurements see the whole process (GC, other goroutines):
		// a measurement over the bound must persist over three more runs to count.
		for retry := 0; retry < 3 && (strings.HasPrefix(r.sig, "alloc-") || strings.HasPrefix(r.sig, "slow-")); retry++ {
			r = runImpl(op, exact)
		}
		wd.End()
		lines[i] = r.line
		if count != nil {
			count(op, r.class)
		}
		if r.sig != "" {
			kind := "spec"
			if strings.HasPrefix(r.sig, "panic") {
				kind = "panic"
			}
			fails = append(fails, hlib.Failure{Kind: kind, Detail: r.detail, Case: []string{op}, Sig: r.sig})
		}
	}
	ans, err := hlib.RunModel("codec", lines)
	if err != nil {
		return append(fails, hlib.Failure{Kind: "divergence", Detail: "model-error: " + err.Error(), Sig: "model-error"})
	}
	for i, a := range ans {
		if a != "ok" {
			d := a
			if len(d) > 600 {
				d = d[:600] + "..."
			}
			fails = append(fails, hlib.Failure{Kind: "divergence", Detail: fmt.Sprintf("`%.200s`: %s", lines[i], d),
				Case: []string{ops[i]}, Sig: "diverge-" + strings.Fields(ops[i])[0]})
		}
	}
	return fails
}

// shrinkOp minimizes the byte string of a failing decode op (same signature must persist).
func shrinkOp(f hlib.Failure, wd *codeclib.Watchdog) hlib.Failure {
	if len(f.Case) != 1 {
		return f
	}
	w := strings.Fields(f.Case[0])
	if len(w) == 3 && w[0] == "proof" && w[2] != "none" {
		// Minimize the entry list.
		evals := 0
		still := func(c []string) bool {
			if evals++; evals > 300 {
				return false
			}
			for _, g := range checkOps([]string{"proof " + w[1] + " " + strings.Join(c, ",")}, true, nil, wd) {
				if g.Sig == f.Sig {
					return true
				}
			}
			return false
		}
		min := hlib.Shrink(strings.Split(w[2], ","), still)
		for _, g := range checkOps([]string{"proof " + w[1] + " " + strings.Join(min, ",")}, true, nil, wd) {
			if g.Sig == f.Sig {
				g.Seed = f.Seed
				return g
			}
		}
		return f
	}
	if len(w) != 2 || w[1] == "-" {
		return f
	}
	data := unhx(w[1])
	evals := 0
	still := func(c []byte) bool {
		if evals++; evals > 300 {
			return false
		}
		for _, g := range checkOps([]string{w[0] + " " + hx(c)}, true, nil, wd) {
			if g.Sig == f.Sig {
				return true
			}
		}
		return false
	}
	min := hlib.Shrink(data, still)
	op := w[0] + " " + hx(min)
	for _, g := range checkOps([]string{op}, true, nil, wd) {
		if g.Sig == f.Sig {
			g.Seed = f.Seed
			return g
		}
	}
	return f
}

func main() {
	seed := flag.Uint64("seed", 1, "seed")
	cases := flag.Int("cases", 300, "number of case groups (seed object + mutants)")
	muts := flag.Int("muts", 6, "mutants per encoding")
	out := flag.String("out", "-", "result file")
	replay := flag.String("replay", "", "replay file (one op per line)")
	corpus := flag.String("corpus", "", "corpus dir, run first")
	quotes := flag.Bool("quotes", true, "include the PCS quote framing (model OasisModel/Codec/Quote.lean)")
	flag.Parse()

	res := hlib.NewResult("codecdrv", *seed)
	res.Rule = "one case = one operation on one byte string (decode by Key/Depth/LeafNode/InternalNode/node.UnmarshalBinary, proof verification for versions 0/1, or an encoder call); seeds are random well-formed and ill-formed values marshalled by the real encoders (full and compact V0/V1), proofs from random trees, from the real tree+ProofBuilder, and left spines of 125..132 and 300..2300 nodes; each seed is followed by single mutations (bit flips, interesting bytes, 16/32/64-bit length windows incl. huge and near-remaining-length values, truncated tails, extensions around 64 bytes, deletions, insertions, duplications, splices; for proofs also entry drop/dup/append/nil/empty/swap/truncate and version changes); `quote` ops: pcs.Quote.UnmarshalBinaryWithTrailing (both trailing modes) on the repository's SGX/TDX vectors and synthetic PPID quotes, a deterministic sweep of every length/type field at every nesting level over the boundary values (0, 1, around remaining/total length, 2^15, 2^16, 2^31-k, 2^32-k), resized and truncated tails, and random field / byte mutations; non-trivial = accepted by the implementation; distinct by op text"
	res.Explanation = "CORRESPONDENCE (ties the Lean model of the hand-written decoders to the Go code) plus spec-on-implementation (consumed<=len, canonical re-marshal, allocation<=3*len+4096, no panic/hang)"
	wd := codeclib.StartWatchdog(20*time.Second, 2<<30, func(c, reason string) {
		if len(c) > 4000 {
			c = c[:4000] + "..."
		}
		res.Fail(hlib.Failure{Kind: "spec", Detail: "watchdog: " + reason + " while decoding", Case: []string{c}, Sig: "watchdog-" + reason})
		res.Write(*out)
	})

	add := func(fs []hlib.Failure, cs uint64, minimize bool) {
		for _, f := range fs {
			f.Seed = cs
			if minimize {
				f = shrinkOp(f, wd)
			}
			res.Fail(f)
		}
	}

	if *replay != "" {
		ops, err := hlib.ReadLines(*replay)
		if err != nil {
			fmt.Fprintln(os.Stderr, err)
			os.Exit(2)
		}
		res.Cases = len(ops)
		res.Ops = len(ops)
		add(checkOps(ops, true, func(op, class string) { res.Count("res:" + strings.Fields(op)[0] + ":" + class) }, wd), 0, false)
		res.Write(*out)
		return
	}
	// Constants first, then the corpus.
	add(checkOps([]string{"consts"}, true, nil, wd), 0, false)
	if *corpus != "" {
		ents, _ := os.ReadDir(*corpus)
		for _, e := range ents {
			if !strings.HasPrefix(e.Name(), "codec-") {
				continue
			}
			if ops, err := hlib.ReadLines(*corpus + "/" + e.Name()); err == nil && len(ops) > 0 {
				add(checkOps(ops, true, nil, wd), 0, false)
				res.Cases += len(ops)
				res.Count("corpus")
			}
		}
	}

	rng := hlib.NewRng(*seed)
	g := &gen{r: rng, res: res, quotes: *quotes}
	seen := map[uint64]bool{}
	accepted := map[uint64]bool{}
	count := func(op, class string) {
		k := strings.Fields(op)[0]
		res.Count("op:" + k)
		res.Count("res:" + k + ":" + class)
		if class == "ok" && !strings.HasPrefix(k, "enc-") && !accepted[fnv64(op)] {
			accepted[fnv64(op)] = true
			res.Distinct++
		}
	}
	batchSeed := rng.Seed()
	var batch []string
	flush := func() {
		if len(batch) == 0 {
			return
		}
		add(checkOps(batch, true, count, wd), batchSeed, true)
		batch = batch[:0]
		batchSeed = rng.Seed()
	}
	if *quotes {
		for _, op := range quoteSweep(rng.Fork(), res) {
			res.Cases++
			res.Ops++
			batch = append(batch, op)
			if len(batch) >= 500 {
				flush()
			}
		}
		flush()
	}
	for i := 0; i < *cases && len(res.Failures) < 5; i++ {
		ops := g.genOps(*muts)
		for _, op := range ops {
			res.Cases++
			res.Ops++
			if !seen[fnv64(op)] {
				seen[fnv64(op)] = true
				res.Count("distinct-inputs")
			}
		}
		if i < 2 {
			res.AddSample(ops[:min(len(ops), 4)])
		}
		batch = append(batch, ops...)
		if len(batch) >= 2000 {
			flush()
		}
	}
	flush()
	for k, v := range maxAlloc {
		res.Counters[k] = int(v)
	}
	res.Write(*out)
}
