package main

import (
	"bytes"
	"context"
	"crypto/sha256"
	"fmt"
	"strconv"
	"strings"

	cmtmerkle "github.com/cometbft/cometbft/crypto/merkle"
	cmttypes "github.com/cometbft/cometbft/types"

	"verifharness/hlib"

	"github.com/oasisprotocol/oasis-core/go/common/cbor"
	consensus "github.com/oasisprotocol/oasis-core/go/consensus/api"
	"github.com/oasisprotocol/oasis-core/go/consensus/api/transaction"
	"github.com/oasisprotocol/oasis-core/go/consensus/cometbft/crypto/merkle"
	"github.com/oasisprotocol/oasis-core/go/consensus/cometbft/light"
	"github.com/oasisprotocol/oasis-core/go/consensus/cometbft/stateless"
)

var rescScenarios = []string{"skip", "verified", "skipnext", "empty", "gap"}
var srootScenarios = []string{"next", "cur", "shortapp", "noprov", "empty"}

func ref(b bool) string {
	if b {
		return "ref=1"
	}
	return ""
}

func digest(parts ...[]byte) string {
	h := sha256.New()
	for _, p := range parts {
		h.Write(p)
		h.Write([]byte{0xff})
	}
	return fmt.Sprintf("%x", h.Sum(nil)[:8])
}

// runOps executes ops on a fixture. The honest response of every kind goes first: it must be
// accepted and is the model's reference for the agreement predicates.
func (r *runner) runOps(fx *fixture, ops []string) {
	fixLn := "fix " + fx.id
	ctx := context.Background()
	orig := map[string]*kvs{}
	res := r.res

	doBlock := func(mut string, op string) {
		b, lb := fx.blk, fx.lb
		switch mut {
		case "orig":
		case "wronglb":
			lb = fx.lb2
		default:
			b = applyBlockMut(fx, mut)
		}
		caseLn := []string{fixLn, op}
		v, pmsg := implBlock(b, lb)
		res.Count("mut:block")
		if v == "PANIC" {
			r.fail("panic", "panic-verifyBlock", "verifyBlock panicked on "+mut+": "+pmsg, caseLn)
			return
		}
		res.Count("verdict:block:" + v)
		k := blockKVs(b, lb)
		r.add(item{kind: "block", mut: mut, caseLn: caseLn, line: k.line("vblock", "want="+v, ref(mut == "orig"))})
		if mut == "orig" {
			orig["block"] = k
			if v != "ok" {
				r.fail("spec", "honest-rejected:block", "the honest block was rejected: "+v, caseLn)
			}
			return
		}
		r.distinct("block", fx.id, mut, digest(b.Meta, []byte(k.line(""))))
		if v == "ok" {
			if mut == "wronglb" {
				r.fail("spec", "accepted-bound:block.wrong-lightblock", "block accepted against another light block", caseLn)
				return
			}
			r.accepted("block", mut, k.diff(orig["block"], "lb."), caseLn, false)
		}
	}

	doTxs := func(mut string, op string) {
		txs, lb := fx.txs, fx.lb
		switch mut {
		case "orig":
		case "wronglb":
			lb = fx.lb2
		default:
			txs = applyTxsMut(fx, mut)
		}
		caseLn := []string{fixLn, op}
		v, pmsg := implTxs(txs, lb)
		res.Count("mut:txs")
		if v == "PANIC" {
			r.fail("panic", "panic-verifyTransactions", "verifyTransactions panicked on "+mut+": "+pmsg, caseLn)
			return
		}
		res.Count("verdict:txs:" + v)
		r.add(item{kind: "txs", mut: mut, caseLn: caseLn, line: fmt.Sprintf("vtxs want=%s txs=%s dh=%s", v, hxl(txs), hx(lb.DataHash))})
		same := len(txs) == len(fx.txs)
		for i := 0; same && i < len(txs); i++ {
			same = bytes.Equal(txs[i], fx.txs[i])
		}
		if mut == "orig" {
			if v != "1" {
				r.fail("spec", "honest-rejected:txs", "the honest transaction list was rejected", caseLn)
			}
			return
		}
		if !same || mut == "wronglb" {
			r.distinct("txs", fx.id, mut, hxl(txs))
			if v == "1" {
				r.fail("spec", "accepted-bound:txs", "an altered transaction list was accepted: "+mut, caseLn)
			}
		}
	}

	resLine := func(op string, v string, isRef bool, k *kvs, extra ...string) string {
		return k.line(op, append([]string{"want=" + v, ref(isRef)}, extra...)...)
	}

	doRes := func(mut string, op string) {
		rs, lb, rh := fx.results, fx.lb, fx.lb2.LastResultsHash.Bytes()
		switch mut {
		case "orig":
		case "wronglb":
			lb = fx.lb2
		case "wronghash":
			rh = fx.lb.LastResultsHash
		default:
			rs = applyResultsMut(fx, mut)
		}
		caseLn := []string{fixLn, op}
		k, hasNil := resultsKVs(rs)
		v, pmsg := implResults(rs, rh, lb)
		res.Count("mut:res")
		if v == "PANIC" {
			sig := "panic-verifyBlockResults"
			if hasNil {
				sig = "panic-results-null-entry"
			}
			r.fail("panic", sig, "verifyBlockResults panicked on "+mut+": "+pmsg, caseLn)
			return
		}
		res.Count("verdict:res:" + v)
		if hasNil && v == "ok" {
			r.fail("spec", "accepted-bound:res.null-entry", "results with a null transaction result were accepted", caseLn)
			return
		}
		k.set("rh", hx(rh))
		k.set("lb.h", i64(lb.Height))
		r.add(item{kind: "res", mut: mut, caseLn: caseLn, line: resLine("vres", v, mut == "orig", k)})
		if mut == "orig" {
			orig["res"] = k
			if v != "ok" {
				r.fail("spec", "honest-rejected:res", "the honest block results were rejected: "+v, caseLn)
			}
			return
		}
		r.distinct("res", fx.id, mut, digest(rs.Meta), k.m["r.h"])
		if v == "ok" {
			if mut == "wronglb" || mut == "wronghash" {
				r.fail("spec", "accepted-bound:res.wrong-lightblock", "results accepted against another light block / results hash", caseLn)
				return
			}
			r.accepted("res", mut, k.diff(orig["res"], "lb."), caseLn, false)
		}
	}

	doResc := func(sc, mut string, op string) {
		caseLn := []string{fixLn, op}
		var lc *light.Client
		lbArg := fx.lb
		rs := fx.results
		if mut != "orig" {
			rs = applyResultsMut(fx, mut)
		}
		switch sc {
		case "skip":
			lc = newLightClient(fx.lb.ChainID, fx.lb)
		case "verified":
			lc = newLightClient(fx.lb.ChainID, fx.lb, fx.lb2)
		case "skipnext":
			lc = newLightClient(fx.lb.ChainID, fx.lb, fx.lb2)
			lbArg = fx.lb2
			rs = &consensus.BlockResults{Height: rs.Height + 1, Meta: rs.Meta}
		case "empty":
			lc = newLightClient(fx.lb.ChainID)
		case "gap":
			lc = newLightClient(fx.lb.ChainID, fx.lb, nextLightBlock(fx.lb2, nil))
		default:
			panic("unknown resc scenario " + sc)
		}
		k, hasNil := resultsKVs(rs)
		v, pmsg := guard(func() string {
			c := newCore(&provider{}, lc, nil)
			_, err := c.VerifVerifyBlockResults(ctx, rs, lbArg)
			return resultsVerdict(err)
		})
		res.Count("mut:resc:" + sc)
		if v == "PANIC" {
			sig := "panic-Core.verifyBlockResults"
			if hasNil {
				sig = "panic-results-null-entry"
			}
			r.fail("panic", sig, "Core.verifyBlockResults panicked on "+mut+": "+pmsg, caseLn)
			return
		}
		res.Count("verdict:resc:" + sc + ":" + v)
		if hasNil && v == "ok" {
			r.fail("spec", "accepted-bound:res.null-entry", "results with a null transaction result were accepted", caseLn)
			return
		}
		last := "none"
		if h, err := lc.LastTrustedHeight(); err == nil {
			last = i64(h)
		}
		next := "none"
		if nlb, err := lc.VerifyLightBlockAt(ctx, lbArg.Height+1); err == nil {
			next = hx(nlb.LastResultsHash)
		}
		k.set("lb.h", i64(lbArg.Height))
		isRef := mut == "orig" && sc == "verified"
		r.add(item{kind: "resc", mut: sc + " " + mut, caseLn: caseLn, line: resLine("vresc", v, isRef, k, "last="+last, "next="+next)})
		skipBranch := sc == "skip" || sc == "skipnext"
		if mut == "orig" {
			want := map[string]string{"skip": "ok", "verified": "ok", "skipnext": "ok", "empty": "no-trusted", "gap": "fetch"}[sc]
			if v != want {
				r.fail("spec", "honest-unexpected:resc."+sc, fmt.Sprintf("honest results in scenario %s: got %s, expected %s", sc, v, want), caseLn)
			}
			return
		}
		r.distinct("resc", fx.id, sc, mut, digest(rs.Meta), k.m["r.h"])
		if v == "ok" && sc != "skipnext" {
			r.accepted("resc", sc+" "+mut, k.diff(orig["res"], "lb."), caseLn, skipBranch)
		} else if v == "ok" {
			res.Count("accepted:resc:documented:latest-height-results-unverified")
		}
	}

	doVals := func(mut string, op string) {
		vs, lb := fx.vals, fx.lb
		switch mut {
		case "orig":
		case "wronglb":
			lb = fx.lb2
		default:
			vs = applyValsMut(fx, mut)
		}
		caseLn := []string{fixLn, op}
		v, pmsg := implVals(vs, lb)
		res.Count("mut:vals")
		if v == "PANIC" {
			r.fail("panic", "panic-verifyNextValidators", "verifyNextValidators panicked on "+mut+": "+pmsg, caseLn)
			return
		}
		res.Count("verdict:vals:" + v)
		k := valsKVs(vs, lb)
		r.add(item{kind: "vals", mut: mut, caseLn: caseLn, line: k.line("vvals", "want="+v, ref(mut == "orig"))})
		if mut == "orig" {
			orig["vals"] = k
			if v != "ok" {
				r.fail("spec", "honest-rejected:vals", "the honest validator set was rejected: "+v, caseLn)
			}
			return
		}
		r.distinct("vals", fx.id, mut, digest(vs.Meta), k.m["v.h"])
		if v == "ok" {
			if mut == "wronglb" {
				r.fail("spec", "accepted-bound:vals.wrong-lightblock", "validators accepted against another light block", caseLn)
				return
			}
			r.accepted("vals", mut, k.diff(orig["vals"], "lb."), caseLn, false)
		}
	}

	doParams := func(mut string, op string) {
		p, lb, st := fx.params, fx.lb, fx.state
		switch mut {
		case "orig":
		case "wronglb":
			lb = fx.lb2
		default:
			p, st = applyParamsMut(fx, mut)
		}
		caseLn := []string{fixLn, op}
		k, missing := paramsKVs(p, lb, st)
		v, pmsg := implParams(p, lb, st)
		res.Count("mut:params")
		if v == "PANIC" {
			sig := "panic-verifyParameters"
			if missing {
				sig = "panic-params-missing-submessage"
			}
			r.fail("panic", sig, "verifyParameters panicked on "+mut+": "+pmsg, caseLn)
			return
		}
		res.Count("verdict:params:" + v)
		if missing && v == "ok" {
			r.fail("spec", "accepted-bound:params.missing-submessage", "parameters with a missing section were accepted", caseLn)
			return
		}
		r.add(item{kind: "params", mut: mut, caseLn: caseLn, line: k.line("vparams", "want="+v, ref(mut == "orig"))})
		if mut == "orig" {
			orig["params"] = k
			if v != "ok" {
				r.fail("spec", "honest-rejected:params", "the honest parameters were rejected: "+v, caseLn)
			}
			return
		}
		r.distinct("params", fx.id, mut, digest(p.Meta), k.m["p.h"], k.m["pp"], k.m["st"])
		if v == "ok" {
			if mut == "wronglb" {
				r.fail("spec", "accepted-bound:params.wrong-lightblock", "parameters accepted against another light block", caseLn)
				return
			}
			r.accepted("params", mut, k.diff(orig["params"], "lb."), caseLn, false)
		}
	}

	doSRoot := func(sc, mut string, op string) {
		caseLn := []string{fixLn, op}
		var lc *light.Client
		prov := &provider{txs: fx.txs}
		if mut != "orig" {
			prov.txs = applyTxsMut(fx, mut)
		}
		switch sc {
		case "next":
			lc = newLightClient(fx.lb.ChainID, fx.lb, fx.lb2)
		case "cur":
			lc = newLightClient(fx.lb.ChainID, fx.lb)
		case "shortapp":
			h2 := *fx.lb2.Header
			h2.AppHash = h2.AppHash[:20]
			sh := *fx.lb2.SignedHeader
			sh.Header = &h2
			lc = newLightClient(fx.lb.ChainID, fx.lb, &cmttypes.LightBlock{SignedHeader: &sh, ValidatorSet: fx.lb2.ValidatorSet})
		case "noprov":
			lc = newLightClient(fx.lb.ChainID, fx.lb)
			prov.txsErr = true
		case "empty":
			lc = newLightClient(fx.lb.ChainID)
		default:
			panic("unknown sroot scenario " + sc)
		}
		v, pmsg := guard(func() string {
			c := newCore(prov, lc, nil)
			h, err := c.VerifFetchStateRoot(ctx, fx.lb.Height)
			if err != nil {
				return "err"
			}
			return hx(h[:])
		})
		res.Count("mut:sroot:" + sc)
		if v == "PANIC" {
			r.fail("panic", "panic-fetchStateRoot", "fetchStateRoot panicked in "+sc+" "+mut+": "+pmsg, caseLn)
			return
		}
		next, cur, ptxs, dm := "none", "none", "none", "none"
		if nlb, err := lc.VerifyLightBlockAt(ctx, fx.lb.Height+1); err == nil {
			next = hx(nlb.AppHash)
		}
		if clb, err := lc.VerifyLightBlockAt(ctx, fx.lb.Height); err == nil {
			cur = hx(clb.DataHash)
		}
		if !prov.txsErr {
			ptxs = hxl(prov.txs)
			if n := len(prov.txs); n > 0 {
				if h, err := stateless.VerifStateRootFromMetaTx(prov.txs[n-1]); err == nil {
					dm = hx(h[:])
				}
			}
		}
		r.add(item{kind: "sroot", mut: sc + " " + mut, caseLn: caseLn,
			line: fmt.Sprintf("sroot want=%s next=%s cur=%s ptxs=%s dm=%s", v, next, cur, ptxs, dm)})
		if v == "err" {
			res.Count("verdict:sroot:" + sc + ":err")
		} else {
			res.Count("verdict:sroot:" + sc + ":ok")
			if v != hx(fx.stateRoot[:]) {
				r.fail("spec", "wrong-state-root", fmt.Sprintf("state root resolution (%s %s) returned %s, the state root bound to the verified headers is %s", sc, mut, v, hx(fx.stateRoot[:])), caseLn)
			}
		}
		if mut == "orig" {
			wantOK := sc == "next" || sc == "cur" || sc == "shortapp"
			if wantOK != (v != "err") {
				r.fail("spec", "honest-unexpected:sroot."+sc, "honest state root resolution in scenario "+sc+": "+v, caseLn)
			}
		} else {
			r.distinct("sroot", fx.id, sc, mut, ptxs)
		}
	}

	doTxProofs := func(op string) {
		caseLn := []string{fixLn, op}
		twp := stateless.VerifTransactionsWithProofs(fx.txs)
		root := fx.lb.DataHash.Bytes()
		for i, raw := range fx.txs {
			var tx transaction.SignedTransaction
			if err := cbor.Unmarshal(raw, &tx); err != nil {
				res.Count("txproofs:not-a-signed-transaction")
				continue
			}
			enc := cbor.Marshal(&tx)
			if !bytes.Equal(enc, raw) {
				res.Count("txproofs:non-canonical-transaction")
			}
			for _, j := range []int{i, (i + 1) % len(fx.txs)} {
				for _, lb := range []*cmttypes.LightBlock{fx.lb, fx.lb2} {
					proof := &transaction.Proof{Height: lb.Height, RawProof: twp.Proofs[j]}
					v, pmsg := guard(func() string {
						return proofVerdict(stateless.VerifVerifyTransactionProof(proof, &tx, lb), true)
					})
					res.Count("mut:txproof")
					if v == "PANIC" {
						r.fail("panic", "panic-verifyTransactionProof", pmsg, caseLn)
						continue
					}
					res.Count("verdict:txproof:" + v)
					line := vproofLine(v, twp.Proofs[j], lb.DataHash, enc, nil)
					r.add(item{kind: "txproof", mut: fmt.Sprintf("tx %d proof %d lb %d", i, j, lb.Height), caseLn: caseLn, line: line})
					honest := j == i && lb == fx.lb && bytes.Equal(enc, raw)
					if honest && v != "ok" {
						r.fail("spec", "honest-rejected:txproof", fmt.Sprintf("honest inclusion proof %d rejected: %s", i, v), caseLn)
					}
					if !honest && v == "ok" && !(bytes.Equal(lb.DataHash, root) && bytes.Equal(fx.txs[j], enc)) {
						r.fail("spec", "accepted-bound:txproof", fmt.Sprintf("inclusion proof %d accepted for transaction %d / light block %d", j, i, lb.Height), caseLn)
					}
				}
			}
		}
	}

	emitted := map[string]bool{}
	ensureOrig := func(kind string) {
		if emitted[kind] {
			return
		}
		emitted[kind] = true
		switch kind {
		case "block":
			doBlock("orig", "block orig")
		case "txs":
			doTxs("orig", "txs orig")
		case "res":
			doRes("orig", "res orig")
		case "vals":
			doVals("orig", "vals orig")
		case "params":
			doParams("orig", "params orig")
		}
	}
	for _, op := range ops {
		w := strings.Fields(op)
		func() {
			defer func() {
				if rec := recover(); rec != nil {
					r.fail("panic", "panic-harness:"+w[0], fmt.Sprintf("harness panic in op %q: %v", op, rec), []string{fixLn, op})
				}
			}()
			switch w[0] {
			case "block":
				ensureOrig("block")
				if w[1] != "orig" {
					doBlock(w[1], op)
				}
			case "txs":
				ensureOrig("txs")
				if w[1] != "orig" {
					doTxs(w[1], op)
				}
			case "res":
				ensureOrig("res")
				if w[1] != "orig" {
					doRes(w[1], op)
				}
			case "resc":
				ensureOrig("res")
				doResc(w[1], w[2], op)
			case "vals":
				ensureOrig("vals")
				if w[1] != "orig" {
					doVals(w[1], op)
				}
			case "params":
				if fx.params == nil {
					return
				}
				ensureOrig("params")
				if w[1] != "orig" {
					doParams(w[1], op)
				}
			case "sroot":
				doSRoot(w[1], w[2], op)
			case "txproofs":
				doTxProofs(op)
			case "api":
				base := map[string]string{"block": "block", "txs": "txs", "res": "res", "reslatest": "res", "txres": "res", "txreslatest": "res",
					"vals": "vals", "valsknown": "vals", "params": "params"}[w[1]]
				if base == "params" && fx.params == nil {
					return
				}
				if base != "" {
					ensureOrig(base)
				}
				r.doAPI(fx, w[1], w[2], op, orig)
			default:
				panic("unknown op")
			}
		}()
	}
}

// ============================================================================ Merkle proofs

func proofVerdict(err error, wrapped bool) string {
	if err == nil {
		return "ok"
	}
	e := err.Error()
	if wrapped {
		e = strings.TrimPrefix(e, "failed to verify proof: ")
	}
	switch {
	case strings.HasPrefix(e, "invalid root hash"):
		return "root"
	case strings.HasPrefix(e, "proof total must be positive"):
		return "total"
	case strings.HasPrefix(e, "proof index cannot be negative"):
		return "index"
	case strings.HasPrefix(e, "invalid leaf hash"):
		return "leaf"
	case strings.HasPrefix(e, "compute root hash"):
		return "compute"
	case strings.HasPrefix(e, "cbor:"), strings.Contains(e, "cbor"), strings.HasPrefix(e, "EOF"), strings.HasPrefix(e, "unexpected EOF"):
		return "decode"
	}
	return "other:" + strings.ReplaceAll(e, " ", "_")
}

// vproofLine builds the model line for a proof verification: the raw proof is decoded with the
// decoder the implementation uses (the oracle for Lib.decProof).
func vproofLine(v string, raw []byte, root []byte, tx []byte, txs [][]byte) string {
	var p cmtmerkle.Proof
	var sb strings.Builder
	fmt.Fprintf(&sb, "vproof want=%s", v)
	if err := cbor.Unmarshal(raw, &p); err != nil {
		sb.WriteString(" dec=0")
	} else {
		fmt.Fprintf(&sb, " dec=1 total=%d index=%d leaf=%s aunts=%s", p.Total, p.Index, hx(p.LeafHash), hxl(p.Aunts))
	}
	if root == nil {
		sb.WriteString(" root=none")
	} else {
		fmt.Fprintf(&sb, " root=%s", hx(root))
	}
	fmt.Fprintf(&sb, " tx=%s", hx(tx))
	if txs != nil && v == "ok" {
		fmt.Fprintf(&sb, " txs=%s", hxl(txs))
	}
	return sb.String()
}

// merkleSweep: one transaction list of size n; roots, all proofs, all indexes, altered proofs.
func (r *runner) merkleSweep(seed uint64, n int) {
	rng := hlib.FromState(seed)
	caseLn := []string{fmt.Sprintf("merkle %d %d", seed, n)}
	res := r.res
	txs := make([][]byte, n)
	for i := range txs {
		txs[i] = rbytes(rng, rng.Intn(48))
		if i > 0 && rng.Chance(1, 25) {
			txs[i] = append([]byte(nil), txs[rng.Intn(i)]...) // duplicate transaction
		}
	}
	root, proofs := merkle.ProofsForTransactions(txs)
	var ctxs cmttypes.Txs
	for _, t := range txs {
		ctxs = append(ctxs, t)
	}
	if !bytes.Equal(root, ctxs.Hash()) || !bytes.Equal(root, merkle.RootHashOfTransactions(txs)) {
		r.fail("divergence", "root-mismatch-go", "ProofsForTransactions root differs from Txs.Hash / RootHashOfTransactions", caseLn)
	}
	r.add(item{kind: "txroot", mut: strconv.Itoa(n), caseLn: caseLn, line: fmt.Sprintf("txroot txs=%s want=%s", hxl(txs), hx(root))})
	r.add(item{kind: "root", mut: strconv.Itoa(n), caseLn: caseLn, line: fmt.Sprintf("root items=%s want=%s", hxl(txs), hx(merkle.RootHash(txs)))})

	verify := func(what string, raw, root, tx []byte, honest bool) {
		v, pmsg := guard(func() string { return proofVerdict(merkle.VerifyTransaction(raw, root, tx), false) })
		res.Count("mut:proof")
		if v == "PANIC" {
			r.fail("panic", "panic-VerifyTransaction", what+": "+pmsg, caseLn)
			return
		}
		res.Count("verdict:proof:" + v)
		r.add(item{kind: "vproof", mut: what, caseLn: caseLn, line: vproofLine(v, raw, root, tx, txs)})
		if honest && v != "ok" {
			r.fail("spec", "honest-rejected:proof", what+": honest proof rejected: "+v, caseLn)
		}
		if !honest {
			r.distinct("proof", strconv.FormatUint(seed, 10), what)
			if v == "ok" {
				// accepted altered proof: the transaction must be in the list (the model checks the
				// index when the total is right).
				in := false
				for _, t := range txs {
					in = in || bytes.Equal(t, tx)
				}
				if !in || !bytes.Equal(root, merkle.RootHashOfTransactions(txs)) {
					r.fail("spec", "accepted-bound:proof", what+": proof accepted for a transaction that is not in the list / another root", caseLn)
				} else {
					res.Count("accepted:proof:member-of-list")
				}
			}
		}
	}
	enc := func(p *cmtmerkle.Proof) []byte { return cbor.Marshal(p) }

	for i := range txs {
		var p cmtmerkle.Proof
		if err := cbor.Unmarshal(proofs[i], &p); err != nil {
			r.fail("divergence", "proof-undecodable", err.Error(), caseLn)
			continue
		}
		r.add(item{kind: "proof", mut: fmt.Sprintf("n=%d i=%d", n, i), caseLn: caseLn,
			line: fmt.Sprintf("proof txs=%s i=%d total=%d index=%d leaf=%s aunts=%s", hxl(txs), i, p.Total, p.Index, hx(p.LeafHash), hxl(p.Aunts))})
		w := fmt.Sprintf("n=%d i=%d ", n, i)
		verify(w+"honest", proofs[i], root, txs[i], true)
		// every other index of the list
		for j := range txs {
			if j != i {
				q := p
				q.Index = int64(j)
				verify(w+fmt.Sprintf("index=%d", j), enc(&q), root, txs[i], bytes.Equal(txs[i], txs[j]) && false)
			}
		}
		// every other transaction with this proof (sampled for big lists)
		for j := range txs {
			if j != i && (n <= 12 || rng.Chance(1, 4)) {
				verify(w+fmt.Sprintf("tx=%d", j), proofs[i], root, txs[j], false)
			}
		}
		alt := func(name string, f func(q *cmtmerkle.Proof)) {
			q := p
			q.Aunts = append([][]byte(nil), p.Aunts...)
			f(&q)
			verify(w+name, enc(&q), root, txs[i], false)
		}
		alt("index=-1", func(q *cmtmerkle.Proof) { q.Index = -1 })
		alt("index=total", func(q *cmtmerkle.Proof) { q.Index = q.Total })
		alt("total+1", func(q *cmtmerkle.Proof) { q.Total++ })
		alt("total-1", func(q *cmtmerkle.Proof) { q.Total-- })
		alt("total=0", func(q *cmtmerkle.Proof) { q.Total = 0 })
		alt("total=-1", func(q *cmtmerkle.Proof) { q.Total = -1 })
		alt("total*2", func(q *cmtmerkle.Proof) { q.Total *= 2 })
		alt("total=max", func(q *cmtmerkle.Proof) { q.Total = 1<<63 - 1 })
		alt("leaf", func(q *cmtmerkle.Proof) { q.LeafHash = flip(q.LeafHash, rng.Intn(32)) })
		alt("leaf=empty", func(q *cmtmerkle.Proof) { q.LeafHash = nil })
		alt("addaunt", func(q *cmtmerkle.Proof) { q.Aunts = append(q.Aunts, rbytes(rng, 32)) })
		alt("addaunt-front", func(q *cmtmerkle.Proof) { q.Aunts = append([][]byte{rbytes(rng, 32)}, q.Aunts...) })
		for a := range p.Aunts {
			a := a
			alt(fmt.Sprintf("aunt%d", a), func(q *cmtmerkle.Proof) { q.Aunts[a] = flip(q.Aunts[a], rng.Intn(32)) })
			alt(fmt.Sprintf("dropaunt%d", a), func(q *cmtmerkle.Proof) { q.Aunts = append(q.Aunts[:a:a], q.Aunts[a+1:]...) })
			alt(fmt.Sprintf("shortaunt%d", a), func(q *cmtmerkle.Proof) { q.Aunts[a] = q.Aunts[a][:31] })
			if a+1 < len(p.Aunts) {
				alt(fmt.Sprintf("swapaunt%d", a), func(q *cmtmerkle.Proof) { q.Aunts[a], q.Aunts[a+1] = q.Aunts[a+1], q.Aunts[a] })
			}
		}
		// altered transaction bytes
		if len(txs[i]) > 0 {
			verify(w+"txflip", proofs[i], root, flip(txs[i], rng.Intn(len(txs[i]))), false)
			verify(w+"txtrunc", proofs[i], root, txs[i][:len(txs[i])-1], false)
		}
		verify(w+"txappend", proofs[i], root, append(append([]byte(nil), txs[i]...), 0), false)
		// the transaction hash instead of the transaction (leaf/inner confusion)
		th := sha256.Sum256(txs[i])
		verify(w+"tx=hash", proofs[i], root, th[:], false)
		// altered / missing root
		verify(w+"rootflip", proofs[i], flip(root, rng.Intn(32)), txs[i], false)
		verify(w+"root=nil", proofs[i], nil, txs[i], false)
		verify(w+"root=empty", proofs[i], []byte{}, txs[i], false)
		// raw byte flips of the encoded proof
		for k := 0; k < 4; k++ {
			raw := append([]byte(nil), proofs[i]...)
			raw[rng.Intn(len(raw))] ^= byte(1 << uint(rng.Intn(8)))
			verify(w+fmt.Sprintf("rawflip%d", k), raw, root, txs[i], false)
		}
		verify(w+"raw=trunc", proofs[i][:len(proofs[i])-1], root, txs[i], false)
	}
	// a proof against the root of the empty / singleton list
	if n == 0 {
		p := cmtmerkle.Proof{Total: 0, Index: 0, LeafHash: nil}
		verify("n=0 empty-proof", enc(&p), root, nil, false)
		p = cmtmerkle.Proof{Total: 1, Index: 0, LeafHash: root}
		verify("n=0 leaf=root", enc(&p), root, nil, false)
	}
}
