package main

import (
	"context"
	"fmt"
	"time"

	cmtdb "github.com/cometbft/cometbft-db"
	cmtlightprovider "github.com/cometbft/cometbft/light/provider"
	cmtlightdb "github.com/cometbft/cometbft/light/store/db"
	cmttypes "github.com/cometbft/cometbft/types"

	consensus "github.com/oasisprotocol/oasis-core/go/consensus/api"
	"github.com/oasisprotocol/oasis-core/go/consensus/api/transaction"
	"github.com/oasisprotocol/oasis-core/go/consensus/cometbft/crypto/merkle"
	"github.com/oasisprotocol/oasis-core/go/consensus/cometbft/light"
	"github.com/oasisprotocol/oasis-core/go/consensus/cometbft/stateless"
)

// deadProvider is a light block provider that has nothing: every height outside the trusted
// store is unavailable.
type deadProvider struct{ chainID string }

func (p *deadProvider) ChainID() string { return p.chainID }
func (p *deadProvider) LightBlock(context.Context, int64) (*cmttypes.LightBlock, error) {
	return nil, cmtlightprovider.ErrLightBlockNotFound
}
func (p *deadProvider) LightBlockWithPeerID(context.Context, int64) (*cmttypes.LightBlock, string, error) {
	return nil, "", cmtlightprovider.ErrLightBlockNotFound
}
func (p *deadProvider) ReportEvidence(context.Context, cmttypes.Evidence) error { return nil }
func (p *deadProvider) MalevolentProvider(string)                               {}

// newLightClient builds the real light client over a trusted store that holds the given
// (light-client verified) light blocks.
// lightClients counts the clients built; every second one gets its headers saved newest first.
var lightClients int

func newLightClient(chainID string, lbs ...*cmttypes.LightBlock) *light.Client {
	// the production wrapper (store.go prunedStore); the headers are saved through it in the order
	// given, which is not always ascending: a node also stores an OLDER header when a past height is
	// verified on demand
	store := light.NewVerifPrunedStore(cmtlightdb.New(cmtdb.NewMemDB(), ""))
	lightClients++
	if lightClients%2 == 0 {
		rev := make([]*cmttypes.LightBlock, 0, len(lbs))
		for i := len(lbs) - 1; i >= 0; i-- {
			rev = append(rev, lbs[i])
		}
		lbs = rev
	}
	for _, lb := range lbs {
		if err := store.SaveLightBlock(lb); err != nil {
			panic(err)
		}
	}
	p := &deadProvider{chainID: chainID}
	lc, err := light.NewVerifClient(chainID, 1000000*time.Hour, p, []cmtlightprovider.Provider{p}, store)
	if err != nil {
		panic(err)
	}
	return lc
}

// provider is the untrusted remote provider of the stateless core.
type provider struct {
	consensus.Backend // nil: any other method panics (and is reported)

	txs     [][]byte
	txsErr  bool
	blk     *consensus.Block
	results *consensus.BlockResults
	vals    *consensus.Validators
	params  *consensus.Parameters
	latest  int64
	proof   *transaction.Proof
}

func (p *provider) GetTransactions(context.Context, int64) ([][]byte, error) {
	if p.txsErr {
		return nil, fmt.Errorf("unavailable")
	}
	return p.txs, nil
}

func (p *provider) GetBlock(context.Context, int64) (*consensus.Block, error) {
	if p.blk == nil {
		return nil, fmt.Errorf("unavailable")
	}
	return p.blk, nil
}

func (p *provider) GetBlockResults(context.Context, int64) (*consensus.BlockResults, error) {
	if p.results == nil {
		return nil, fmt.Errorf("unavailable")
	}
	return p.results, nil
}

func (p *provider) GetValidators(context.Context, int64) (*consensus.Validators, error) {
	if p.vals == nil {
		return nil, fmt.Errorf("unavailable")
	}
	return p.vals, nil
}

func (p *provider) GetParameters(context.Context, int64) (*consensus.Parameters, error) {
	if p.params == nil {
		return nil, fmt.Errorf("unavailable")
	}
	return p.params, nil
}

func newCore(p *provider, lc *light.Client, st *stateQuerier) *stateless.Core {
	c := stateless.NewCore(p, lc, stateless.Config{})
	c.SetQueriers(nil, st, nil)
	return c
}

// nextLightBlock fabricates a further "verified" light block (the store does not check
// signatures; its contents only matter through the fields the stateless core reads).
func nextLightBlock(lb *cmttypes.LightBlock, appHash []byte) *cmttypes.LightBlock {
	h := *lb.Header
	h.Height++
	h.Time = h.Time.Add(6 * time.Second)
	if appHash != nil {
		h.AppHash = appHash
	}
	c := *lb.Commit
	c.Height = h.Height
	c.BlockID = cmttypes.BlockID{Hash: h.Hash(), PartSetHeader: lb.Commit.BlockID.PartSetHeader}
	return &cmttypes.LightBlock{SignedHeader: &cmttypes.SignedHeader{Header: &h, Commit: &c}, ValidatorSet: lb.ValidatorSet}
}

func merkleProofs(txs [][]byte) ([]byte, [][]byte) { return merkle.ProofsForTransactions(txs) }
