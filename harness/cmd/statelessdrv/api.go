package main

import (
	"bytes"
	"context"
	"fmt"
	"reflect"
	"strings"

	cmttypes "github.com/cometbft/cometbft/types"

	"github.com/oasisprotocol/oasis-core/go/common/cbor"
	consensus "github.com/oasisprotocol/oasis-core/go/consensus/api"
	"github.com/oasisprotocol/oasis-core/go/consensus/api/transaction"
	"github.com/oasisprotocol/oasis-core/go/consensus/cometbft/api"
	"github.com/oasisprotocol/oasis-core/go/consensus/cometbft/light"
	mkvsNode "github.com/oasisprotocol/oasis-core/go/storage/mkvs/node"
)

// Public entry points of the stateless core (`consensusAPI.Backend` as implemented by
// stateless.Core) driven with the real light client over a trusted store and a provider that
// returns the (altered) responses: data reaches the caller iff the verification function
// accepts it, and what reaches the caller is the provider's response unchanged.

func (p *provider) GetLatestHeight(context.Context) (int64, error) { return p.latest, nil }

func (p *provider) SubmitTxWithProof(context.Context, *transaction.SignedTransaction) (*transaction.Proof, error) {
	if p.proof == nil {
		return nil, fmt.Errorf("unavailable")
	}
	return p.proof, nil
}

// apiErr maps an error of a public entry point: errors of the light-client step are "lightblock",
// everything else goes through the per-kind classifier.
func apiErr(err error, classify func(error) string) string {
	if err == nil {
		return "ok"
	}
	e := err.Error()
	if strings.HasPrefix(e, "failed to resolve height") || strings.HasPrefix(e, "failed to verify light block") {
		return "lightblock"
	}
	return classify(err)
}

var apiKinds = []string{"block", "txs", "res", "reslatest", "txres", "txreslatest", "vals", "valsknown", "params", "sroot", "submit"}

// doAPI runs one public entry point on a fixture with the named mutation of the provider's
// response. Returns the model line (same ops as the function level) or "".
func (r *runner) doAPI(fx *fixture, kind, mut, op string, orig map[string]*kvs) {
	ctx := context.Background()
	caseLn := []string{"fix " + fx.id, op}
	res := r.res
	h := fx.lb.Height
	res.Count("api:" + kind)
	panicSig := func(pmsg string, special string) {
		sig := "panic-api-" + kind
		if special != "" {
			sig = special
		}
		r.fail("panic", sig, fmt.Sprintf("Core entry point for %s panicked on %s: %s", kind, mut, pmsg), caseLn)
	}

	switch kind {
	case "block":
		b := fx.blk
		if mut != "orig" {
			b = applyBlockMut(fx, mut)
		}
		c := newCore(&provider{blk: b}, newLightClient(fx.lb.ChainID, fx.lb, fx.lb2), nil)
		var got *consensus.Block
		v, pmsg := guard(func() string {
			var err error
			got, err = c.GetBlock(ctx, h)
			return apiErr(err, blockVerdict)
		})
		if v == "PANIC" {
			panicSig(pmsg, "")
			return
		}
		k := blockKVs(b, fx.lb)
		r.add(item{kind: "api-block", mut: mut, caseLn: caseLn, line: k.line("vblock", "want="+v)})
		if v == "ok" {
			if !reflect.DeepEqual(got, b) {
				r.fail("spec", "api-returned-other-data:block", "GetBlock returned something else than the verified response", caseLn)
			}
			if mut != "orig" {
				r.accepted("block", "api "+mut, k.diff(orig["block"], "lb."), caseLn, false)
			}
		} else if mut == "orig" {
			r.fail("spec", "honest-rejected:api-block", "GetBlock rejected the honest block: "+v, caseLn)
		}

	case "txs":
		txs := fx.txs
		if mut != "orig" {
			txs = applyTxsMut(fx, mut)
		}
		c := newCore(&provider{txs: txs}, newLightClient(fx.lb.ChainID, fx.lb, fx.lb2), nil)
		var got [][]byte
		var gotP *consensus.TransactionsWithProofs
		v, pmsg := guard(func() string {
			var err error
			got, err = c.GetTransactions(ctx, h)
			if err != nil {
				return apiErr(err, func(error) string { return "0" })
			}
			gotP, err = c.GetTransactionsWithProofs(ctx, h)
			if err != nil {
				return "proofs-failed"
			}
			return "1"
		})
		if v == "PANIC" {
			panicSig(pmsg, "")
			return
		}
		r.add(item{kind: "api-txs", mut: mut, caseLn: caseLn, line: fmt.Sprintf("vtxs want=%s txs=%s dh=%s", v, hxl(txs), hx(fx.lb.DataHash))})
		if v == "1" {
			if !reflect.DeepEqual(got, txs) || !reflect.DeepEqual(gotP.Transactions, txs) {
				r.fail("spec", "api-returned-other-data:txs", "GetTransactions returned something else than the verified response", caseLn)
			}
			if !reflect.DeepEqual(got, fx.txs) {
				r.fail("spec", "accepted-bound:txs", "GetTransactions returned an altered transaction list: "+mut, caseLn)
			}
			// every proof handed out verifies for its transaction and the verified data hash
			for i := range gotP.Proofs {
				r.add(item{kind: "api-txproofs", mut: mut, caseLn: caseLn, line: vproofLine("ok", gotP.Proofs[i], fx.lb.DataHash, txs[i], txs)})
			}
		} else if mut == "orig" {
			r.fail("spec", "honest-rejected:api-txs", "GetTransactions rejected the honest list: "+v, caseLn)
		}

	case "res", "reslatest", "txres", "txreslatest":
		rs := fx.results
		if mut != "orig" {
			rs = applyResultsMut(fx, mut)
		}
		latest := strings.HasSuffix(kind, "latest")
		lbs := []*cmttypes.LightBlock{fx.lb, fx.lb2}
		if latest {
			lbs = lbs[:1]
		}
		lc := newLightClient(fx.lb.ChainID, lbs...)
		c := newCore(&provider{results: rs, txs: fx.txs}, lc, nil)
		kv, hasNil := resultsKVs(rs)
		nres := -1
		if m, err := api.NewBlockResultsMeta(rs); err == nil {
			nres = len(m.TxsResults)
		}
		var got *consensus.BlockResults
		withTxs := strings.HasPrefix(kind, "txres")
		v, pmsg := guard(func() string {
			var err error
			if withTxs {
				_, err = c.GetTransactionsWithResults(ctx, h)
				if err != nil && !strings.HasPrefix(resultsVerdict(err), "other:") {
					return apiErr(err, resultsVerdict)
				}
				if err != nil {
					return "convert-error"
				}
				return "ok"
			}
			got, err = c.GetBlockResults(ctx, h)
			return apiErr(err, resultsVerdict)
		})
		if v == "PANIC" {
			switch {
			case hasNil:
				panicSig(pmsg, "panic-results-null-entry")
			case withTxs && nres > len(fx.txs):
				panicSig(pmsg, "panic-txresults-more-results-than-txs")
			default:
				panicSig(pmsg, "")
			}
			return
		}
		res.Count("api:" + kind + ":" + v)
		if hasNil && v == "ok" {
			r.fail("spec", "accepted-bound:res.null-entry", "results with a null transaction result were accepted", caseLn)
			return
		}
		if v == "convert-error" {
			// event conversion of (unverified) events failed: a rejection
			return
		}
		last := "none"
		if lh, err := lc.LastTrustedHeight(); err == nil {
			last = i64(lh)
		}
		next := "none"
		if nlb, err := lc.VerifyLightBlockAt(ctx, h+1); err == nil {
			next = hx(nlb.LastResultsHash)
		}
		kv.set("lb.h", i64(h))
		r.add(item{kind: "api-" + kind, mut: mut, caseLn: caseLn, line: kv.line("vresc", "want="+v, "last="+last, "next="+next)})
		if v == "ok" {
			if !withTxs && !reflect.DeepEqual(got, rs) {
				r.fail("spec", "api-returned-other-data:res", "GetBlockResults returned something else than the verified response", caseLn)
			}
			if mut != "orig" {
				r.accepted("resc", "api "+kind+" "+mut, kv.diff(orig["res"], "lb."), caseLn, latest)
			}
		} else if mut == "orig" {
			r.fail("spec", "honest-rejected:api-"+kind, "honest results rejected: "+v, caseLn)
		}

	case "vals":
		// the next height is not available from the light client: provider + verifyNextValidators
		vs := fx.vals
		if mut != "orig" {
			vs = applyValsMut(fx, mut)
		}
		c := newCore(&provider{vals: vs}, newLightClient(fx.lb.ChainID, fx.lb), nil)
		var got *consensus.Validators
		v, pmsg := guard(func() string {
			var err error
			got, err = c.GetValidators(ctx, h+1)
			return apiErr(err, valsVerdict)
		})
		if v == "PANIC" {
			panicSig(pmsg, "")
			return
		}
		k := valsKVs(vs, fx.lb)
		r.add(item{kind: "api-vals", mut: mut, caseLn: caseLn, line: k.line("vvals", "want="+v)})
		if v == "ok" {
			if !reflect.DeepEqual(got, vs) {
				r.fail("spec", "api-returned-other-data:vals", "GetValidators returned something else than the verified response", caseLn)
			}
			if mut != "orig" {
				r.accepted("vals", "api "+mut, k.diff(orig["vals"], "lb."), caseLn, false)
			}
		} else if mut == "orig" {
			r.fail("spec", "honest-rejected:api-vals", "GetValidators rejected the honest set: "+v, caseLn)
		}

	case "valsknown":
		// the height is available from the light client: the provider is not consulted at all
		vs := fx.vals
		if mut != "orig" {
			vs = applyValsMut(fx, mut)
		}
		c := newCore(&provider{vals: vs}, newLightClient(fx.lb.ChainID, fx.lb, fx.lb2), nil)
		var got *consensus.Validators
		v, pmsg := guard(func() string {
			var err error
			got, err = c.GetValidators(ctx, h+1)
			return apiErr(err, valsVerdict)
		})
		if v == "PANIC" {
			panicSig(pmsg, "")
			return
		}
		want, _ := light.EncodeValidators(fx.lb2.ValidatorSet, h+1)
		if v != "ok" || !reflect.DeepEqual(got, want) {
			r.fail("spec", "api-valsknown", "GetValidators for a verified height did not return the light block's validator set: "+v, caseLn)
		}

	case "params":
		if fx.params == nil {
			return
		}
		p, st := fx.params, fx.state
		if mut != "orig" {
			p, st = applyParamsMut(fx, mut)
		}
		c := newCore(&provider{params: p}, newLightClient(fx.lb.ChainID, fx.lb, fx.lb2), &stateQuerier{params: st})
		k, missing := paramsKVs(p, fx.lb, st)
		var got *consensus.Parameters
		v, pmsg := guard(func() string {
			var err error
			got, err = c.GetParameters(ctx, h)
			validateErr := paramsValidateErr(p)
			return apiErr(err, func(e error) string { return paramsVerdict(e, validateErr) })
		})
		if v == "PANIC" {
			if missing {
				panicSig(pmsg, "panic-params-missing-submessage")
			} else {
				panicSig(pmsg, "")
			}
			return
		}
		if missing && v == "ok" {
			r.fail("spec", "accepted-bound:params.missing-submessage", "parameters with a missing section were accepted", caseLn)
			return
		}
		r.add(item{kind: "api-params", mut: mut, caseLn: caseLn, line: k.line("vparams", "want="+v)})
		if v == "ok" {
			if !reflect.DeepEqual(got, p) {
				r.fail("spec", "api-returned-other-data:params", "GetParameters returned something else than the verified response", caseLn)
			}
			if mut != "orig" {
				r.accepted("params", "api "+mut, k.diff(orig["params"], "lb."), caseLn, false)
			}
		} else if mut == "orig" {
			r.fail("spec", "honest-rejected:api-params", "GetParameters rejected the honest parameters: "+v, caseLn)
		}

	case "sroot":
		// StateRoot through the public StateRooter interface, both resolution paths
		for _, withNext := range []bool{true, false} {
			lbs := []*cmttypes.LightBlock{fx.lb}
			if withNext {
				lbs = append(lbs, fx.lb2)
			}
			txs := fx.txs
			if mut != "orig" {
				txs = applyTxsMut(fx, mut)
			}
			c := newCore(&provider{txs: txs}, newLightClient(fx.lb.ChainID, lbs...), nil)
			var got mkvsNode.Root
			v, pmsg := guard(func() string {
				var err error
				got, err = c.StateRoot(ctx, h)
				if err != nil {
					return "err"
				}
				return "ok"
			})
			if v == "PANIC" {
				panicSig(pmsg, "")
				return
			}
			res.Count(fmt.Sprintf("api:sroot:next=%v:%s", withNext, v))
			if v == "ok" {
				want := mkvsNode.Root{Version: uint64(h), Type: mkvsNode.RootTypeState, Hash: fx.stateRoot}
				if got != want {
					r.fail("spec", "wrong-state-root", fmt.Sprintf("StateRoot(%d) = %v, bound root is %v (mutation %s)", h, got, want, mut), caseLn)
				}
			} else if mut == "orig" || withNext {
				r.fail("spec", "honest-rejected:api-sroot", "StateRoot failed although the state root is resolvable", caseLn)
			}
		}

	case "submit":
		// SubmitTxWithProof: the provider returns the proof of inclusion
		if len(fx.txs) == 0 {
			return
		}
		idx := 0
		var tx transaction.SignedTransaction
		if err := cbor.Unmarshal(fx.txs[idx], &tx); err != nil || !bytes.Equal(cbor.Marshal(&tx), fx.txs[idx]) {
			res.Count("api:submit:skipped-noncanonical")
			return
		}
		_, proofs := merkleProofs(fx.txs)
		proof := &transaction.Proof{Height: h, RawProof: proofs[idx]}
		prov := &provider{latest: h}
		switch mut {
		case "orig":
		case "height0":
			proof.Height = 0 // consensus.HeightLatest
		case "heightnext":
			proof.Height = h + 1
		case "otherproof":
			proof.RawProof = proofs[(idx+1)%len(proofs)]
		case "rawflip":
			proof.RawProof = flip(proof.RawProof, len(proof.RawProof)/2)
		default:
			panic("unknown submit mutation " + mut)
		}
		prov.proof = proof
		c := newCore(prov, newLightClient(fx.lb.ChainID, fx.lb, fx.lb2), nil)
		var got *transaction.Proof
		v, pmsg := guard(func() string {
			var err error
			got, err = c.SubmitTxWithProof(ctx, &tx)
			return apiErr(err, func(e error) string {
				if strings.HasPrefix(e.Error(), "mismatched proof height") {
					return "height"
				}
				return proofVerdict(e, true)
			})
		})
		if v == "PANIC" {
			panicSig(pmsg, "")
			return
		}
		res.Count("api:submit:" + mut + ":" + v)
		if v == "ok" {
			// the proof handed to the caller claims a height: it must be the height of the light
			// block whose data hash it was verified against, and the tx must be in that block.
			if got.Height != h {
				r.fail("spec", "accepted-proof-height-mismatch",
					fmt.Sprintf("SubmitTxWithProof returned a proof with Height=%d that was verified against the light block at height %d", got.Height, h), caseLn)
			}
			if len(fx.txs) > 1 && mut == "otherproof" {
				r.fail("spec", "accepted-bound:txproof", "SubmitTxWithProof accepted the proof of another transaction", caseLn)
			}
		} else if mut == "orig" {
			r.fail("spec", "honest-rejected:api-submit", "SubmitTxWithProof rejected the honest proof: "+v, caseLn)
		}
	default:
		panic("unknown api kind " + kind)
	}
}
