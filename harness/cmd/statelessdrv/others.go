package main

import (
	"context"
	"fmt"
	"strconv"
	"strings"
	"time"

	abci "github.com/cometbft/cometbft/abci/types"
	cryptoenc "github.com/cometbft/cometbft/crypto/encoding"
	cmtcrypto "github.com/cometbft/cometbft/proto/tendermint/crypto"
	cmtproto "github.com/cometbft/cometbft/proto/tendermint/types"
	cmttypes "github.com/cometbft/cometbft/types"

	"verifharness/hlib"

	"github.com/oasisprotocol/oasis-core/go/common/cbor"
	consensus "github.com/oasisprotocol/oasis-core/go/consensus/api"
	"github.com/oasisprotocol/oasis-core/go/consensus/api/transaction"
	"github.com/oasisprotocol/oasis-core/go/consensus/cometbft/api"
	cmtconsensus "github.com/oasisprotocol/oasis-core/go/consensus/cometbft/consensus"
	"github.com/oasisprotocol/oasis-core/go/consensus/cometbft/light"
	"github.com/oasisprotocol/oasis-core/go/consensus/cometbft/stateless"
	consensusGenesis "github.com/oasisprotocol/oasis-core/go/consensus/genesis"
)

// ============================================================================ results

func eventsEnc(evs []abci.Event) string {
	var parts []string
	for i := range evs {
		b, _ := evs[i].Marshal()
		parts = append(parts, hx(b))
	}
	return strings.Join(parts, "/")
}

// resultsKVs is the semantic view of a block results response. hasNil reports a nil entry in
// TxsResults (on which the implementation dereferences a nil pointer).
func resultsKVs(r *consensus.BlockResults) (k *kvs, hasNil bool) {
	k = newKVs()
	k.set("r.h", i64(r.Height))
	k.setView("r.meta.raw", hx(r.Meta))
	// a nil entry in TxsResults (CBOR null), detected independently of NewBlockResultsMeta
	var raw api.BlockResultsMeta
	if err := cbor.Unmarshal(r.Meta, &raw); err == nil {
		for _, t := range raw.TxsResults {
			hasNil = hasNil || t == nil
		}
	}
	meta, err := api.NewBlockResultsMeta(r)
	if err != nil {
		k.set("md", "0")
		return k, hasNil
	}
	if hasNil {
		// NewBlockResultsMeta let a nil entry through (the unrepaired code): no semantic view
		return k, true
	}
	k.set("md", "1")
	var txs []string
	for i, t := range meta.TxsResults {
		det := &abci.ResponseDeliverTx{Code: t.Code, Data: t.Data, GasWanted: t.GasWanted, GasUsed: t.GasUsed}
		enc, _ := det.Marshal()
		txs = append(txs, fmt.Sprintf("%d:%s:%d:%d:%s", t.Code, hx(t.Data), t.GasWanted, t.GasUsed, hx(enc)))
		k.setView(fmt.Sprintf("tx%d.log", i), t.Log)
		k.setView(fmt.Sprintf("tx%d.info", i), t.Info)
		k.setView(fmt.Sprintf("tx%d.codespace", i), t.Codespace)
		k.setView(fmt.Sprintf("tx%d.events", i), eventsEnc(t.Events))
	}
	if len(txs) == 0 {
		k.set("txs", "-")
	} else {
		k.set("txs", strings.Join(txs, ","))
	}
	k.setView("begin.events", eventsEnc(meta.BeginBlockEvents))
	k.setView("end.events", eventsEnc(meta.EndBlockEvents))
	return k, false
}

func resultsVerdict(err error) string {
	if err == nil {
		return "ok"
	}
	e := err.Error()
	switch {
	case strings.HasPrefix(e, "mismatched block height"):
		return "height"
	case strings.HasPrefix(e, "malformed block results metadata"):
		return "malformed"
	case strings.HasPrefix(e, "mismatched last results hash"):
		return "hash"
	case strings.HasPrefix(e, "failed to fetch last trusted height"):
		return "no-trusted"
	case strings.HasPrefix(e, "failed to fetch results hash"):
		return "fetch"
	}
	return "other:" + strings.ReplaceAll(e, " ", "_")
}

func implResults(r *consensus.BlockResults, rh []byte, lb *cmttypes.LightBlock) (string, string) {
	return guard(func() string {
		_, err := stateless.VerifVerifyBlockResults(r, rh, lb)
		return resultsVerdict(err)
	})
}

func withResultsMeta(r *consensus.BlockResults, f func(m *api.BlockResultsMeta)) {
	meta, err := api.NewBlockResultsMeta(r)
	if err != nil {
		panic(err)
	}
	f(meta)
	r.Meta = cbor.Marshal(meta)
}

func applyResultsMut(fx *fixture, name string) *consensus.BlockResults {
	r := &consensus.BlockResults{Height: fx.results.Height, Meta: append([]byte(nil), fx.results.Meta...)}
	p := strings.Split(name, ":")
	ev := abci.Event{Type: "forged", Attributes: []abci.EventAttribute{{Key: "k", Value: "v"}}}
	switch p[0] {
	case "height":
		switch p[1] {
		case "+1":
			r.Height++
		case "-1":
			r.Height--
		case "0":
			r.Height = 0
		}
	case "tx":
		withResultsMeta(r, func(m *api.BlockResultsMeta) {
			if len(m.TxsResults) == 0 {
				return
			}
			t := *m.TxsResults[atoi(p[1])%len(m.TxsResults)]
			switch p[2] {
			case "code":
				t.Code++
			case "data":
				t.Data = flip(t.Data, 0)
			case "gw":
				t.GasWanted++
			case "gu":
				t.GasUsed++
			case "log":
				t.Log += "x"
			case "info":
				t.Info += "x"
			case "codespace":
				t.Codespace += "x"
			case "events":
				t.Events = append(append([]abci.Event(nil), t.Events...), ev)
			case "noevents":
				t.Events = nil
			}
			m.TxsResults[atoi(p[1])%len(m.TxsResults)] = &t
		})
	case "droptx":
		withResultsMeta(r, func(m *api.BlockResultsMeta) {
			if len(m.TxsResults) == 0 {
				return
			}
			i := atoi(p[1]) % len(m.TxsResults)
			m.TxsResults = append(append([]*abci.ResponseDeliverTx(nil), m.TxsResults[:i]...), m.TxsResults[i+1:]...)
		})
	case "duptx":
		withResultsMeta(r, func(m *api.BlockResultsMeta) {
			if len(m.TxsResults) == 0 {
				return
			}
			i := atoi(p[1]) % len(m.TxsResults)
			m.TxsResults = append(append(append([]*abci.ResponseDeliverTx(nil), m.TxsResults[:i+1]...), m.TxsResults[i]), m.TxsResults[i+1:]...)
		})
	case "swaptx":
		withResultsMeta(r, func(m *api.BlockResultsMeta) {
			if len(m.TxsResults) < 2 {
				return
			}
			i := atoi(p[1]) % len(m.TxsResults)
			j := (i + 1) % len(m.TxsResults)
			m.TxsResults[i], m.TxsResults[j] = m.TxsResults[j], m.TxsResults[i]
		})
	case "addtx":
		withResultsMeta(r, func(m *api.BlockResultsMeta) {
			m.TxsResults = append(m.TxsResults, &abci.ResponseDeliverTx{})
		})
	case "notxs":
		withResultsMeta(r, func(m *api.BlockResultsMeta) { m.TxsResults = nil })
	case "null":
		withResultsMeta(r, func(m *api.BlockResultsMeta) {
			if len(m.TxsResults) == 0 {
				m.TxsResults = []*abci.ResponseDeliverTx{nil}
				return
			}
			m.TxsResults[atoi(p[1])%len(m.TxsResults)] = nil
		})
	case "begin":
		withResultsMeta(r, func(m *api.BlockResultsMeta) { m.BeginBlockEvents = append(m.BeginBlockEvents, ev) })
	case "end":
		withResultsMeta(r, func(m *api.BlockResultsMeta) { m.EndBlockEvents = append(m.EndBlockEvents, ev) })
	case "meta":
		switch p[1] {
		case "empty":
			r.Meta = nil
		case "trailing":
			r.Meta = append(r.Meta, 0)
		}
	case "byte":
		r.Meta[atoi(p[1])%len(r.Meta)] ^= byte(atoi(p[2]))
	default:
		panic("unknown results mutation " + name)
	}
	return r
}

func resultsMutNames(fx *fixture, r *hlib.Rng, nbyte int) []string {
	names := []string{"height:+1", "height:-1", "height:0", "addtx", "notxs", "begin", "end", "meta:empty", "meta:trailing"}
	meta, _ := api.NewBlockResultsMeta(fx.results)
	n := len(meta.TxsResults)
	idx := []int{0, n - 1}
	for i := 0; i < 4 && n > 2; i++ {
		idx = append(idx, r.Intn(n))
	}
	if n > 0 {
		for _, i := range idx {
			for _, f := range []string{"code", "data", "gw", "gu", "log", "info", "codespace", "events", "noevents"} {
				names = append(names, fmt.Sprintf("tx:%d:%s", i, f))
			}
			names = append(names, fmt.Sprintf("droptx:%d", i), fmt.Sprintf("duptx:%d", i), fmt.Sprintf("swaptx:%d", i), fmt.Sprintf("null:%d", i))
		}
	}
	for i := 0; i < nbyte; i++ {
		mask := 1 << uint(r.Intn(8))
		if r.Chance(1, 4) {
			mask = 1 + r.Intn(255)
		}
		names = append(names, fmt.Sprintf("byte:%d:%d", r.Intn(len(fx.results.Meta)), mask))
	}
	return names
}

// ============================================================================ validators

func valsKVs(v *consensus.Validators, lb *cmttypes.LightBlock) *kvs {
	k := newKVs()
	k.set("v.h", i64(v.Height))
	k.setView("v.meta.raw", hx(v.Meta))
	vs, err := light.DecodeValidators(v)
	if err != nil {
		k.set("md", "0")
	} else {
		k.set("md", "1")
		var parts []string
		for i, val := range vs.Validators {
			pk, _ := cryptoenc.PubKeyToProto(val.PubKey)
			pkb, _ := pk.Marshal()
			parts = append(parts, fmt.Sprintf("%s:%d:%s", hx(pkb), val.VotingPower, hx(val.Bytes())))
			k.setView(fmt.Sprintf("val%d.addr", i), hx(val.Address))
			k.setView(fmt.Sprintf("val%d.prio", i), i64(val.ProposerPriority))
		}
		k.set("vals", strings.Join(parts, ","))
		pp, _ := vs.Proposer.ToProto()
		ppb, _ := pp.Marshal()
		k.setView("proposer", hx(ppb))
	}
	k.set("lb.h", i64(lb.Height))
	k.set("lb.nvh", hx(lb.NextValidatorsHash))
	return k
}

func valsVerdict(err error) string {
	if err == nil {
		return "ok"
	}
	e := err.Error()
	switch {
	case strings.HasPrefix(e, "mismatched block height"):
		return "height"
	case strings.HasPrefix(e, "failed to unmarshal validators"), strings.HasPrefix(e, "failed to convert validators"):
		return "malformed"
	case strings.HasPrefix(e, "mismatched next validator set"):
		return "hash"
	}
	return "other:" + strings.ReplaceAll(e, " ", "_")
}

func implVals(v *consensus.Validators, lb *cmttypes.LightBlock) (string, string) {
	return guard(func() string {
		var c stateless.Core
		return valsVerdict(c.VerifVerifyNextValidators(v, lb))
	})
}

func withValSet(v *consensus.Validators, f func(vs *cmtproto.ValidatorSet)) {
	var pvs cmtproto.ValidatorSet
	if err := pvs.Unmarshal(v.Meta); err != nil {
		panic(err)
	}
	f(&pvs)
	var err error
	if v.Meta, err = pvs.Marshal(); err != nil {
		panic(err)
	}
}

func applyValsMut(fx *fixture, name string) *consensus.Validators {
	v := &consensus.Validators{Height: fx.vals.Height, Meta: append([]byte(nil), fx.vals.Meta...)}
	p := strings.Split(name, ":")
	switch p[0] {
	case "height":
		switch p[1] {
		case "+1":
			v.Height++
		case "-1":
			v.Height--
		case "0":
			v.Height = 0
		}
	case "val":
		withValSet(v, func(vs *cmtproto.ValidatorSet) {
			val := vs.Validators[atoi(p[1])%len(vs.Validators)]
			switch p[2] {
			case "pub":
				val.PubKey = cmtcrypto.PublicKey{Sum: &cmtcrypto.PublicKey_Ed25519{Ed25519: flip(val.PubKey.GetEd25519(), 7)}}
			case "power":
				val.VotingPower++
			case "addr":
				val.Address = flip(val.Address, 2)
			case "prio":
				val.ProposerPriority += 12345
			}
		})
	case "dropval":
		withValSet(v, func(vs *cmtproto.ValidatorSet) {
			i := atoi(p[1]) % len(vs.Validators)
			vs.Validators = append(append([]*cmtproto.Validator(nil), vs.Validators[:i]...), vs.Validators[i+1:]...)
		})
	case "dupval":
		withValSet(v, func(vs *cmtproto.ValidatorSet) {
			i := atoi(p[1]) % len(vs.Validators)
			vs.Validators = append(vs.Validators, vs.Validators[i])
		})
	case "swapval":
		withValSet(v, func(vs *cmtproto.ValidatorSet) {
			if len(vs.Validators) < 2 {
				return
			}
			i := atoi(p[1]) % len(vs.Validators)
			j := (i + 1) % len(vs.Validators)
			vs.Validators[i], vs.Validators[j] = vs.Validators[j], vs.Validators[i]
		})
	case "proposer":
		withValSet(v, func(vs *cmtproto.ValidatorSet) {
			switch p[1] {
			case "unknown":
				c := *vs.Proposer
				c.Address = flip(c.Address, 0)
				vs.Proposer = &c
			case "nil":
				vs.Proposer = nil
			case "prio":
				c := *vs.Proposer
				c.ProposerPriority++
				vs.Proposer = &c
			default:
				vs.Proposer = vs.Validators[atoi(p[1])%len(vs.Validators)]
			}
		})
	case "total":
		withValSet(v, func(vs *cmtproto.ValidatorSet) { vs.TotalVotingPower += 99 })
	case "meta":
		switch p[1] {
		case "empty":
			v.Meta = nil
		case "reenc":
			v.Meta = append(v.Meta, 0x78, 0x01)
		}
	case "byte":
		v.Meta[atoi(p[1])%len(v.Meta)] ^= byte(atoi(p[2]))
	default:
		panic("unknown validators mutation " + name)
	}
	return v
}

func valsMutNames(fx *fixture, r *hlib.Rng, nbyte int) []string {
	names := []string{"height:+1", "height:-1", "height:0", "proposer:unknown", "proposer:nil", "proposer:prio", "total", "meta:empty", "meta:reenc"}
	var pvs cmtproto.ValidatorSet
	_ = pvs.Unmarshal(fx.vals.Meta)
	n := len(pvs.Validators)
	idx := []int{0, n - 1}
	for i := 0; i < 3 && n > 2; i++ {
		idx = append(idx, r.Intn(n))
	}
	for _, i := range idx {
		for _, f := range []string{"pub", "power", "addr", "prio"} {
			names = append(names, fmt.Sprintf("val:%d:%s", i, f))
		}
		names = append(names, fmt.Sprintf("dropval:%d", i), fmt.Sprintf("dupval:%d", i), fmt.Sprintf("swapval:%d", i), fmt.Sprintf("proposer:%d", i))
	}
	for i := 0; i < nbyte; i++ {
		mask := 1 << uint(r.Intn(8))
		if r.Chance(1, 4) {
			mask = 1 + r.Intn(255)
		}
		names = append(names, fmt.Sprintf("byte:%d:%d", r.Intn(len(fx.vals.Meta)), mask))
	}
	return names
}

// ============================================================================ parameters

// stateQuerier is the (state-proof verified) consensus querier of the stateless core, stubbed
// with the honest state's parameters.
type stateQuerier struct {
	params *consensusGenesis.Parameters
}

func (q *stateQuerier) QueryAt(context.Context, int64) (cmtconsensus.Query, error) {
	if q.params == nil {
		return nil, fmt.Errorf("unavailable")
	}
	return q, nil
}

func (q *stateQuerier) ChainContext(context.Context) (string, error) { return "", nil }

func (q *stateQuerier) ConsensusParameters(context.Context) (*consensusGenesis.Parameters, error) {
	return q.params, nil
}

// paramsKVs is the semantic view of a parameters response; missing reports a missing protobuf
// sub-message (on which the implementation dereferences a nil pointer).
func paramsKVs(p *consensus.Parameters, lb *cmttypes.LightBlock, state *consensusGenesis.Parameters) (k *kvs, missing bool) {
	k = newKVs()
	k.set("p.h", i64(p.Height))
	k.setView("p.meta.raw", hx(p.Meta))
	k.set("pp", hx(cbor.Marshal(p.Parameters)))
	var pb cmtproto.ConsensusParams
	if err := pb.Unmarshal(p.Meta); err != nil {
		k.set("md", "0")
	} else if pb.Block == nil || pb.Evidence == nil || pb.Validator == nil || pb.Version == nil {
		// "malformed parameters: missing section" (the unrepaired code dereferenced the nil section)
		k.set("md", "0")
		missing = true
	} else {
		cp := cmttypes.ConsensusParamsFromProto(pb)
		if err := cp.ValidateBasic(); err != nil {
			k.set("md", "0")
		} else {
			k.set("md", "1")
			k.set("mb", i64(cp.Block.MaxBytes))
			k.set("mg", i64(cp.Block.MaxGas))
			hp := cmtproto.HashedParams{BlockMaxBytes: cp.Block.MaxBytes, BlockMaxGas: cp.Block.MaxGas}
			hpb, _ := hp.Marshal()
			k.set("hp", hx(hpb))
			ev, _ := pb.Evidence.Marshal()
			va, _ := pb.Validator.Marshal()
			ve, _ := pb.Version.Marshal()
			k.setView("evidence", hx(ev))
			k.setView("validator", hx(va))
			k.setView("version", hx(ve))
		}
	}
	k.set("lb.h", i64(lb.Height))
	k.set("lb.ch", hx(lb.ConsensusHash))
	if state == nil {
		k.set("st", "none")
	} else {
		k.set("st", hx(cbor.Marshal(state)))
	}
	return k, missing
}

func paramsVerdict(err error, validateErr string) string {
	if err == nil {
		return "ok"
	}
	e := err.Error()
	switch {
	case strings.HasPrefix(e, "mismatched block height"):
		return "height"
	case strings.HasPrefix(e, "malformed parameters"):
		return "malformed"
	case validateErr != "" && e == validateErr:
		return "malformed"
	case strings.HasPrefix(e, "mismatched consensus parameters hash"):
		return "hash"
	case strings.HasPrefix(e, "failed to query consensus"), strings.HasPrefix(e, "failed to fetch consensus parameters"):
		return "query"
	case strings.HasPrefix(e, "mismatched parameters"):
		return "mismatch"
	}
	return "other:" + strings.ReplaceAll(e, " ", "_")
}

// paramsValidateErr is what ValidateBasic says about the parameters (to classify the
// implementation's error), "" when it cannot be reached or passes.
func paramsValidateErr(p *consensus.Parameters) string {
	var pb cmtproto.ConsensusParams
	if err := pb.Unmarshal(p.Meta); err == nil && pb.Block != nil && pb.Evidence != nil && pb.Validator != nil && pb.Version != nil {
		if err := cmttypes.ConsensusParamsFromProto(pb).ValidateBasic(); err != nil {
			return err.Error()
		}
	}
	return ""
}

func implParams(p *consensus.Parameters, lb *cmttypes.LightBlock, state *consensusGenesis.Parameters) (string, string) {
	validateErr := paramsValidateErr(p)
	return guard(func() string {
		c := stateless.NewCore(nil, nil, stateless.Config{})
		c.SetQueriers(nil, &stateQuerier{params: state}, nil)
		return paramsVerdict(c.VerifVerifyParameters(context.Background(), p, lb), validateErr)
	})
}

func withCmtParams(p *consensus.Parameters, f func(pb *cmtproto.ConsensusParams)) {
	var pb cmtproto.ConsensusParams
	if err := pb.Unmarshal(p.Meta); err != nil {
		panic(err)
	}
	f(&pb)
	var err error
	if p.Meta, err = pb.Marshal(); err != nil {
		panic(err)
	}
}

func applyParamsMut(fx *fixture, name string) (*consensus.Parameters, *consensusGenesis.Parameters) {
	p := &consensus.Parameters{Height: fx.params.Height, Parameters: fx.params.Parameters, Meta: append([]byte(nil), fx.params.Meta...)}
	state := fx.state
	parts := strings.Split(name, ":")
	switch parts[0] {
	case "height":
		switch parts[1] {
		case "+1":
			p.Height++
		case "-1":
			p.Height--
		case "0":
			p.Height = 0
		}
	case "meta":
		switch parts[1] {
		case "maxbytes":
			withCmtParams(p, func(pb *cmtproto.ConsensusParams) { pb.Block.MaxBytes++ })
		case "maxgas":
			withCmtParams(p, func(pb *cmtproto.ConsensusParams) { pb.Block.MaxGas++ })
		case "maxbytes0":
			withCmtParams(p, func(pb *cmtproto.ConsensusParams) { pb.Block.MaxBytes = 0 })
		case "evidence.age":
			withCmtParams(p, func(pb *cmtproto.ConsensusParams) { pb.Evidence.MaxAgeNumBlocks++ })
		case "evidence.dur":
			withCmtParams(p, func(pb *cmtproto.ConsensusParams) { pb.Evidence.MaxAgeDuration += time.Hour })
		case "evidence.bytes":
			withCmtParams(p, func(pb *cmtproto.ConsensusParams) { pb.Evidence.MaxBytes++ })
		case "pubkeytypes":
			withCmtParams(p, func(pb *cmtproto.ConsensusParams) {
				pb.Validator.PubKeyTypes = append(append([]string(nil), pb.Validator.PubKeyTypes...), "secp256k1")
			})
		case "nopubkeytypes":
			withCmtParams(p, func(pb *cmtproto.ConsensusParams) { pb.Validator.PubKeyTypes = nil })
		case "version.app":
			withCmtParams(p, func(pb *cmtproto.ConsensusParams) { pb.Version.App++ })
		case "empty":
			p.Meta = nil
		case "noblock":
			withCmtParams(p, func(pb *cmtproto.ConsensusParams) { pb.Block = nil })
		case "noevidence":
			withCmtParams(p, func(pb *cmtproto.ConsensusParams) { pb.Evidence = nil })
		case "novalidator":
			withCmtParams(p, func(pb *cmtproto.ConsensusParams) { pb.Validator = nil })
		case "noversion":
			withCmtParams(p, func(pb *cmtproto.ConsensusParams) { pb.Version = nil })
		case "reenc":
			p.Meta = append(p.Meta, 0x78, 0x01)
		}
	case "params":
		switch parts[1] {
		case "timeout":
			p.Parameters.TimeoutCommit++
		case "skip":
			p.Parameters.SkipTimeoutCommit = !p.Parameters.SkipTimeoutCommit
		case "maxtx":
			p.Parameters.MaxTxSize++
		case "maxblock":
			p.Parameters.MaxBlockSize++
		case "maxgas":
			p.Parameters.MaxBlockGas++
		case "mingas":
			p.Parameters.MinGasPrice++
		case "ckpt":
			p.Parameters.StateCheckpointInterval++
		case "gascosts":
			p.Parameters.GasCosts = transaction.Costs{"tx_byte": 77, "x": 1}
		}
	case "state":
		switch parts[1] {
		case "none":
			state = nil
		case "other":
			s := *fx.state
			s.MaxTxSize += 5
			state = &s
		}
	case "byte":
		p.Meta[atoi(parts[1])%len(p.Meta)] ^= byte(atoi(parts[2]))
	default:
		panic("unknown params mutation " + name)
	}
	return p, state
}

func paramsMutNames(fx *fixture, r *hlib.Rng, nbyte int) []string {
	names := []string{"height:+1", "height:-1", "height:0",
		"meta:maxbytes", "meta:maxgas", "meta:maxbytes0", "meta:evidence.age", "meta:evidence.dur", "meta:evidence.bytes",
		"meta:pubkeytypes", "meta:nopubkeytypes", "meta:version.app", "meta:empty", "meta:noblock", "meta:noevidence",
		"meta:novalidator", "meta:noversion", "meta:reenc",
		"params:timeout", "params:skip", "params:maxtx", "params:maxblock", "params:maxgas", "params:mingas", "params:ckpt", "params:gascosts",
		"state:none", "state:other"}
	for i := 0; i < nbyte; i++ {
		mask := 1 << uint(r.Intn(8))
		if r.Chance(1, 4) {
			mask = 1 + r.Intn(255)
		}
		names = append(names, fmt.Sprintf("byte:%d:%d", r.Intn(len(fx.params.Meta)), mask))
	}
	return names
}

// ============================================================================ transactions

func applyTxsMut(fx *fixture, name string) [][]byte {
	txs := make([][]byte, len(fx.txs))
	for i, t := range fx.txs {
		txs[i] = append([]byte(nil), t...)
	}
	p := strings.Split(name, ":")
	n := len(txs)
	at := func(s string) int {
		if n == 0 {
			return 0
		}
		return atoi(s) % n
	}
	switch p[0] {
	case "flip":
		if n > 0 {
			i := at(p[1])
			txs[i][atoi(p[2])%len(txs[i])] ^= byte(atoi(p[3]))
		}
	case "drop":
		if n > 0 {
			i := at(p[1])
			txs = append(txs[:i], txs[i+1:]...)
		}
	case "dup":
		if n > 0 {
			i := at(p[1])
			txs = append(txs[:i+1], append([][]byte{txs[i]}, txs[i+1:]...)...)
		}
	case "swap":
		if n > 1 {
			i := at(p[1])
			j := (i + 1) % n
			txs[i], txs[j] = txs[j], txs[i]
		}
	case "add":
		txs = append(txs, []byte{1, 2, 3})
	case "addempty":
		txs = append(txs, []byte{})
	case "empty":
		txs = nil
	case "trunc":
		if n > 0 {
			i := at(p[1])
			txs[i] = txs[i][:len(txs[i])-1]
		}
	case "split":
		if n > 0 {
			i := at(p[1])
			h := len(txs[i]) / 2
			a, b := txs[i][:h], txs[i][h:]
			txs = append(txs[:i], append([][]byte{a, b}, txs[i+1:]...)...)
		}
	case "merge":
		if n > 1 {
			i := at(p[1])
			if i == n-1 {
				i--
			}
			m := append(append([]byte(nil), txs[i]...), txs[i+1]...)
			txs = append(txs[:i], append([][]byte{m}, txs[i+2:]...)...)
		}
	case "hashes":
		// second-preimage style: replace two leaves by one "transaction" made of their node content
		if n > 1 {
			txs = txs[1:]
		}
	default:
		panic("unknown txs mutation " + name)
	}
	return txs
}

func txsMutNames(fx *fixture, r *hlib.Rng, nbyte int) []string {
	names := []string{"add", "addempty", "empty", "hashes"}
	n := len(fx.txs)
	if n == 0 {
		return names
	}
	idx := []int{0, n - 1}
	for i := 0; i < 3 && n > 2; i++ {
		idx = append(idx, r.Intn(n))
	}
	for _, i := range idx {
		names = append(names, fmt.Sprintf("drop:%d", i), fmt.Sprintf("dup:%d", i), fmt.Sprintf("swap:%d", i),
			fmt.Sprintf("trunc:%d", i), fmt.Sprintf("split:%d", i), fmt.Sprintf("merge:%d", i))
	}
	for i := 0; i < nbyte; i++ {
		t := r.Intn(n)
		names = append(names, fmt.Sprintf("flip:%d:%d:%d", t, r.Intn(len(fx.txs[t])), 1<<uint(r.Intn(8))))
	}
	return names
}

func implTxs(txs [][]byte, lb *cmttypes.LightBlock) (string, string) {
	return guard(func() string {
		if err := stateless.VerifVerifyTransactions(txs, lb); err != nil {
			return "0"
		}
		return "1"
	})
}

var _ = strconv.Itoa
