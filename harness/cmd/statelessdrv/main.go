// statelessdrv: correspondence between the verification functions of the stateless consensus
// backend (go/consensus/cometbft/stateless, through the verif-tagged exports), the transaction
// Merkle proofs (go/consensus/cometbft/crypto/merkle) and the Lean model `om_stateless`,
// property C19.
//
// For the recorded block/light-block pair of stateless/testdata and for synthetic honest
// situations built in-process, the honest provider responses and every field-level and many
// byte-level alterations of them are given to the real verification functions; the verdicts
// are compared with the model's, the model evaluates its specification predicates on everything
// the implementation accepted, and the driver itself checks that an accepted altered response
// differs from the honest one only in fields the theorems list as unbound.
package main

import (
	"crypto/sha256"
	"flag"
	"fmt"
	"os"
	"strconv"
	"strings"

	"verifharness/hlib"
)

type item struct {
	kind   string
	mut    string
	caseLn []string
	line   string
}

type runner struct {
	res     *hlib.Result
	items   []item
	sigs    map[string]bool
	seen    map[[32]byte]bool
	samples int
}

func (r *runner) fail(kind, sig, detail string, caseLn []string) {
	if r.sigs[sig] {
		r.res.Count("dup-failure:" + sig)
		return
	}
	r.sigs[sig] = true
	r.res.Fail(hlib.Failure{Kind: kind, Detail: detail, Case: caseLn, Sig: sig})
}

func (r *runner) add(it item) {
	r.items = append(r.items, it)
}

// distinct counts a non-trivial case (an input that differs from the honest response).
func (r *runner) distinct(parts ...string) {
	h := sha256.Sum256([]byte(strings.Join(parts, "|")))
	if !r.seen[h] {
		r.seen[h] = true
		r.res.Distinct++
	}
}

// flush sends the pending lines to the model and records divergences.
func (r *runner) flush() {
	if len(r.items) == 0 {
		return
	}
	lines := make([]string, len(r.items))
	for i, it := range r.items {
		lines[i] = it.line
	}
	ans, err := hlib.RunModel("stateless", lines)
	if err != nil {
		r.fail("divergence", "model-error", err.Error(), r.items[0].caseLn)
		r.items = nil
		return
	}
	for i, a := range ans {
		r.res.Ops++
		if a == "ok" {
			continue
		}
		it := r.items[i]
		kind := "divergence"
		sig := "diverge-" + it.kind
		if strings.HasPrefix(a, "DIVERGE spec") {
			kind = "spec"
			sig = "model-spec-" + it.kind
		}
		ln := it.line
		if len(ln) > 600 {
			ln = ln[:600] + "…"
		}
		r.fail(kind, sig, fmt.Sprintf("%s %s: %s   [line: %s]", it.kind, it.mut, a, ln), it.caseLn)
	}
	if r.samples < 3 && len(r.items) > 3 {
		s := r.items[len(r.items)/2].line
		if len(s) > 300 {
			s = s[:300] + "…"
		}
		r.res.AddSample(map[string]string{"case": strings.Join(r.items[len(r.items)/2].caseLn, " ; "), "model_line": s})
		r.samples++
	}
	r.items = nil
}

// classify maps the view fields on which an accepted altered response differs from the honest
// one to classes; fields that are in no class are bound fields.
func classify(kind string, diff []string) (classes []string, bound []string) {
	set := map[string]bool{}
	for _, f := range diff {
		c := ""
		switch kind {
		case "block":
			switch f {
			case "b.size":
				c = "documented:size"
			case "b.meta.raw", "m.lc.raw":
				c = "encoding"
			case "c.r":
				c = "FINDING:lastcommit-round"
			}
		case "res", "resc":
			switch {
			case f == "r.meta.raw":
				c = "encoding"
			case strings.HasSuffix(f, ".events"):
				c = "documented:events"
			case strings.HasSuffix(f, ".log"), strings.HasSuffix(f, ".info"), strings.HasSuffix(f, ".codespace"):
				c = "design:nondeterministic-result-fields"
			}
		case "vals":
			switch {
			case f == "v.meta.raw":
				c = "encoding"
			case strings.HasSuffix(f, ".addr"), strings.HasSuffix(f, ".prio"), f == "proposer":
				c = "design:validator-address-priority-proposer"
			}
		case "params":
			switch f {
			case "p.meta.raw":
				c = "encoding"
			case "evidence", "validator", "version":
				c = "design:unhashed-consensus-params"
			}
		}
		if c == "" {
			bound = append(bound, f)
		} else if !set[c] {
			set[c] = true
			classes = append(classes, c)
		}
	}
	return
}

// accepted records an accepted altered response.
func (r *runner) accepted(kind, mut string, diff []string, caseLn []string, skipBranch bool) {
	classes, bound := classify(kind, diff)
	if len(diff) == 0 {
		r.res.Count("accepted:" + kind + ":identical-view")
	}
	for _, c := range classes {
		r.res.Count("accepted:" + kind + ":" + c)
		if strings.HasPrefix(c, "FINDING:") {
			r.fail("spec", "accepted-"+strings.TrimPrefix(c, "FINDING:"),
				fmt.Sprintf("%s accepted after mutation %s; fields that differ from the honest response: %v", kind, mut, diff), caseLn)
		}
	}
	if len(bound) > 0 {
		if skipBranch {
			r.res.Count("accepted:" + kind + ":documented:latest-height-results-unverified")
			return
		}
		r.fail("spec", "accepted-bound:"+kind+"."+bound[0],
			fmt.Sprintf("%s accepted after mutation %s although bound fields differ from the honest response: %v", kind, mut, bound), caseLn)
	}
}

func main() {
	seed := flag.Uint64("seed", 1, "seed")
	cases := flag.Int("cases", 6, "number of synthetic fixtures")
	nbyte := flag.Int("bytes", 150, "byte-level mutations per response (synthetic fixtures)")
	nbyteRec := flag.Int("bytes-recorded", 300, "byte-level mutations per response (recorded fixture)")
	maxtx := flag.Int("maxtx", 40, "transaction list sizes 0..maxtx for the proof sweep")
	out := flag.String("out", "-", "result file")
	replay := flag.String("replay", "", "replay file (one op per line)")
	corpus := flag.String("corpus", "", "corpus dir, run first")
	flag.Parse()

	res := hlib.NewResult("statelessdrv", *seed)
	res.Rule = "honest provider responses (recorded testdata pair + synthetic chains with 1-6 validators, 1-7 txs) and their alterations: " +
		"every field of block / block meta header / last commit / results / validators / parameters / transaction lists, random byte flips of the " +
		"encoded metas, altered heights, wrong light block; all transaction lists of sizes 0..maxtx with all indexes and altered proofs " +
		"(index, total, leaf hash, aunts, transaction, root, raw bytes); light-client store scenarios for results and state root resolution. " +
		"A case is non-trivial when the input differs from the honest response; distinct by (kind, fixture, mutation, input digest)"
	r := &runner{res: res, sigs: map[string]bool{}, seen: map[[32]byte]bool{}}

	if *replay != "" {
		ops, err := hlib.ReadLines(*replay)
		if err != nil {
			fmt.Fprintln(os.Stderr, err)
			os.Exit(2)
		}
		r.runCase(ops)
		r.flush()
		res.Cases++
		res.Write(*out)
		return
	}
	if *corpus != "" {
		ents, _ := os.ReadDir(*corpus)
		for _, e := range ents {
			if ops, err := hlib.ReadLines(*corpus + "/" + e.Name()); err == nil && len(ops) > 0 {
				r.runCase(ops)
				r.flush()
				res.Count("corpus")
				res.Cases++
			}
		}
	}

	rng := hlib.NewRng(*seed)

	// SHA-256 of the model against Go.
	r.shaLines(rng.Fork(), 40)
	r.flush()

	// Recorded pair.
	r.sweepFixture(recordedFixture(), rng.Fork(), *nbyteRec)
	// Synthetic pairs.
	for i := 0; i < *cases; i++ {
		cr := rng.Fork()
		r.sweepFixture(synthFixture(cr.Seed()), cr, *nbyte)
	}
	// Transaction lists, indexes, proofs.
	for n := 0; n <= *maxtx; n++ {
		cr := rng.Fork()
		r.merkleSweep(cr.Seed(), n)
		r.flush()
		res.Cases++
	}
	res.Write(*out)
}

func (r *runner) shaLines(rng *hlib.Rng, n int) {
	for i := 0; i < n; i++ {
		l := []int{0, 1, 55, 56, 57, 63, 64, 65, 119, 120, 128}[i%11] + 128*(i/11)
		in := rbytes(rng, l)
		h := sha256.Sum256(in)
		r.add(item{kind: "sha", mut: strconv.Itoa(l), caseLn: []string{fmt.Sprintf("sha %s", hx(in))},
			line: fmt.Sprintf("sha in=%s want=%s", hx(in), hx(h[:]))})
	}
}

// sweepFixture runs every mutation of every response kind on one fixture.
func (r *runner) sweepFixture(fx *fixture, rng *hlib.Rng, nbyte int) {
	var ops []string
	for _, m := range blockMutNames(fx, rng, nbyte) {
		ops = append(ops, "block "+m)
	}
	ops = append(ops, "block wronglb")
	for _, m := range txsMutNames(fx, rng, nbyte/2) {
		ops = append(ops, "txs "+m)
	}
	ops = append(ops, "txs wronglb")
	for _, m := range resultsMutNames(fx, rng, nbyte) {
		ops = append(ops, "res "+m)
	}
	ops = append(ops, "res wronglb", "res wronghash")
	for _, sc := range rescScenarios {
		ops = append(ops, "resc "+sc+" orig")
		for _, m := range resultsMutNames(fx, rng, 4) {
			ops = append(ops, "resc "+sc+" "+m)
		}
	}
	for _, m := range valsMutNames(fx, rng, nbyte) {
		ops = append(ops, "vals "+m)
	}
	ops = append(ops, "vals wronglb")
	if fx.params != nil {
		for _, m := range paramsMutNames(fx, rng, nbyte) {
			ops = append(ops, "params "+m)
		}
		ops = append(ops, "params wronglb")
	}
	for _, sc := range srootScenarios {
		ops = append(ops, "sroot "+sc+" orig")
		if sc == "cur" {
			for _, m := range txsMutNames(fx, rng, 6) {
				ops = append(ops, "sroot "+sc+" "+m)
			}
		}
	}
	ops = append(ops, "txproofs")
	// the public entry points, with the field-level alterations
	apiMuts := map[string][]string{
		"block": blockMutNames(fx, rng, 8), "txs": txsMutNames(fx, rng, 4), "res": resultsMutNames(fx, rng, 4),
		"reslatest": resultsMutNames(fx, rng, 2), "txres": resultsMutNames(fx, rng, 2), "txreslatest": resultsMutNames(fx, rng, 2),
		"vals": valsMutNames(fx, rng, 4), "valsknown": {"val:0:pub", "height:+1"}, "sroot": txsMutNames(fx, rng, 2),
		"submit": {"height0", "heightnext", "otherproof", "rawflip"},
	}
	if fx.params != nil {
		apiMuts["params"] = paramsMutNames(fx, rng, 4)
	}
	for _, kind := range apiKinds {
		if _, ok := apiMuts[kind]; !ok {
			continue
		}
		ops = append(ops, "api "+kind+" orig")
		for _, m := range apiMuts[kind] {
			ops = append(ops, "api "+kind+" "+m)
		}
	}
	r.runOps(fx, ops)
	r.flush()
	r.res.Cases++
}

// runCase replays a case: `fix …` selects the fixture, the other lines are ops.
func (r *runner) runCase(lines []string) {
	var fx *fixture
	var ops []string
	for _, l := range lines {
		w := strings.Fields(l)
		switch w[0] {
		case "fix":
			if fx != nil && len(ops) > 0 {
				r.runOps(fx, ops)
				ops = nil
			}
			if w[1] == "recorded" {
				fx = recordedFixture()
			} else {
				s, _ := strconv.ParseUint(w[2], 10, 64)
				fx = synthFixture(s)
			}
		case "merkle":
			s, _ := strconv.ParseUint(w[1], 10, 64)
			r.merkleSweep(s, atoi(w[2]))
		case "sha":
			continue
		default:
			ops = append(ops, l)
		}
	}
	if fx != nil && len(ops) > 0 {
		r.runOps(fx, ops)
	}
}
