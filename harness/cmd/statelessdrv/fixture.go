package main

import (
	"encoding/binary"
	"encoding/json"
	"fmt"
	"os"
	"time"

	abci "github.com/cometbft/cometbft/abci/types"
	"github.com/cometbft/cometbft/crypto/ed25519"
	cmtmerkle "github.com/cometbft/cometbft/crypto/merkle"
	cmtversion "github.com/cometbft/cometbft/proto/tendermint/version"
	cmtcoretypes "github.com/cometbft/cometbft/rpc/core/types"
	cmttypes "github.com/cometbft/cometbft/types"

	"verifharness/hlib"

	"github.com/oasisprotocol/oasis-core/go/common/cbor"
	"github.com/oasisprotocol/oasis-core/go/common/crypto/hash"
	"github.com/oasisprotocol/oasis-core/go/common/crypto/signature"
	consensus "github.com/oasisprotocol/oasis-core/go/consensus/api"
	"github.com/oasisprotocol/oasis-core/go/consensus/api/transaction"
	"github.com/oasisprotocol/oasis-core/go/consensus/cometbft/api"
	"github.com/oasisprotocol/oasis-core/go/consensus/cometbft/light"
	consensusGenesis "github.com/oasisprotocol/oasis-core/go/consensus/genesis"
)

// fixture is one honest provider/light-client situation: verified light blocks at heights h
// and h+1 and the honest provider's responses for height h.
type fixture struct {
	id      string
	lb, lb2 *cmttypes.LightBlock
	blk     *consensus.Block
	txs     [][]byte
	results *consensus.BlockResults
	vals    *consensus.Validators  // validator set for h+1, verified against lb.NextValidatorsHash
	params  *consensus.Parameters  // nil when unknown (recorded fixture)
	state   *consensusGenesis.Parameters
	// stateRoot is the state root after block h (the app hash of h+1, and the meta tx's).
	stateRoot hash.Hash
}

func testdataDir() string {
	repo := os.Getenv("VERIF_REPO")
	if repo == "" {
		repo = "/repo"
	}
	return repo + "/go/consensus/cometbft/stateless/testdata/"
}

func loadJSON(name string, v any) {
	b, err := os.ReadFile(testdataDir() + name)
	if err != nil {
		panic(err)
	}
	if err := json.Unmarshal(b, v); err != nil {
		panic(err)
	}
}

// recordedFixture loads the block/light-block pair recorded in stateless/testdata.
func recordedFixture() *fixture {
	var clb, clb2 consensus.LightBlock
	loadJSON("light_block_25300000.json", &clb)
	loadJSON("light_block_25300001.json", &clb2)
	lb, err := light.DecodeLightBlock(&clb)
	if err != nil {
		panic(err)
	}
	lb2, err := light.DecodeLightBlock(&clb2)
	if err != nil {
		panic(err)
	}
	fx := &fixture{id: "recorded", lb: lb, lb2: lb2}
	fx.blk = new(consensus.Block)
	loadJSON("block_25300000.json", fx.blk)
	fx.results = new(consensus.BlockResults)
	loadJSON("results_25300000.json", fx.results)
	loadJSON("txs_25300000.json", &fx.txs)
	fx.vals, err = light.EncodeValidators(lb2.ValidatorSet, lb2.Height)
	if err != nil {
		panic(err)
	}
	_ = fx.stateRoot.UnmarshalBinary(lb2.AppHash)
	return fx
}

func rbytes(r *hlib.Rng, n int) []byte {
	b := make([]byte, n)
	for i := 0; i < n; i += 8 {
		var w [8]byte
		binary.LittleEndian.PutUint64(w[:], r.Next())
		copy(b[i:], w[:])
	}
	return b
}

func randEvents(r *hlib.Rng) []abci.Event {
	var evs []abci.Event
	for i := r.Intn(3); i > 0; i-- {
		ev := abci.Event{Type: fmt.Sprintf("ev%d", r.Intn(4))}
		for j := r.Intn(3); j > 0; j-- {
			ev.Attributes = append(ev.Attributes, abci.EventAttribute{Key: fmt.Sprintf("k%d", r.Intn(5)), Value: fmt.Sprintf("v%d", r.Intn(100)), Index: r.Bool()})
		}
		evs = append(evs, ev)
	}
	return evs
}

func randValidatorSet(r *hlib.Rng, n int) *cmttypes.ValidatorSet {
	vals := make([]*cmttypes.Validator, n)
	for i := range vals {
		pk := ed25519.GenPrivKeyFromSecret(rbytes(r, 16)).PubKey()
		vals[i] = cmttypes.NewValidator(pk, int64(1+r.Intn(100)))
	}
	return cmttypes.NewValidatorSet(vals)
}

func randBlockID(r *hlib.Rng) cmttypes.BlockID {
	return cmttypes.BlockID{Hash: rbytes(r, 32), PartSetHeader: cmttypes.PartSetHeader{Total: uint32(1 + r.Intn(3)), Hash: rbytes(r, 32)}}
}

func randCommit(r *hlib.Rng, height int64, bid cmttypes.BlockID, vals *cmttypes.ValidatorSet, t time.Time) *cmttypes.Commit {
	c := &cmttypes.Commit{Height: height, Round: int32(r.Intn(3)), BlockID: bid}
	for _, v := range vals.Validators {
		if r.Chance(1, 6) {
			c.Signatures = append(c.Signatures, cmttypes.NewCommitSigAbsent())
			continue
		}
		c.Signatures = append(c.Signatures, cmttypes.CommitSig{
			BlockIDFlag:      cmttypes.BlockIDFlagCommit,
			ValidatorAddress: v.Address,
			Timestamp:        t.Add(time.Duration(r.Intn(1000)) * time.Millisecond),
			Signature:        rbytes(r, 64),
		})
	}
	return c
}

// metaTx builds a block metadata transaction (consensus.Meta) carrying the state root.
func metaTx(r *hlib.Rng, root hash.Hash) []byte {
	tx := transaction.NewTransaction(0, nil, consensus.MethodMeta, consensus.BlockMetadata{StateRoot: root, EventsRoot: rbytes(r, 32)})
	var st transaction.SignedTransaction
	st.Blob = cbor.Marshal(tx)
	copy(st.Signature.PublicKey[:], rbytes(r, signature.PublicKeySize))
	copy(st.Signature.Signature[:], rbytes(r, signature.SignatureSize))
	return cbor.Marshal(&st)
}

// signedTx builds a (not validly signed: signatures are never checked here) signed transaction.
func signedTx(r *hlib.Rng) []byte {
	tx := transaction.NewTransaction(r.Next()%1000, nil, transaction.MethodName("staking.Transfer"), rbytes(r, r.Intn(40)))
	var st transaction.SignedTransaction
	st.Blob = cbor.Marshal(tx)
	copy(st.Signature.PublicKey[:], rbytes(r, signature.PublicKeySize))
	copy(st.Signature.Signature[:], rbytes(r, signature.SignatureSize))
	return cbor.Marshal(&st)
}

// synthFixture builds a synthetic honest situation from the seed.
func synthFixture(seed uint64) *fixture {
	r := hlib.FromState(seed)
	fx := &fixture{id: fmt.Sprintf("synth %d", seed)}
	h := int64(2 + r.Intn(1000000))
	switch r.Intn(8) {
	case 0:
		h = 2
	case 1:
		h = int64(1)<<40 + int64(r.Intn(1000))
	}
	chainID := "verif-chain"
	vals := randValidatorSet(r, 1+r.Intn(6))
	nextVals := vals
	if r.Bool() {
		nextVals = randValidatorSet(r, 1+r.Intn(6))
	}
	vals3 := nextVals
	now := time.Unix(1700000000+int64(r.Intn(100000000)), int64(r.Intn(1000000000))).UTC()
	if r.Chance(1, 5) {
		now = time.Unix(now.Unix(), 0).UTC() // already second-granular
	}

	// Transactions: random signed transactions and the trailing metadata transaction.
	copy(fx.stateRoot[:], rbytes(r, 32))
	for i := r.Intn(7); i > 0; i-- {
		fx.txs = append(fx.txs, signedTx(r))
	}
	fx.txs = append(fx.txs, metaTx(r, fx.stateRoot))
	var txs cmttypes.Txs
	for _, tx := range fx.txs {
		txs = append(txs, tx)
	}

	// Results of the block.
	rbr := &cmtcoretypes.ResultBlockResults{Height: h, BeginBlockEvents: randEvents(r), EndBlockEvents: randEvents(r)}
	for range fx.txs {
		res := &abci.ResponseDeliverTx{Code: uint32(r.Intn(3)), Data: rbytes(r, r.Intn(12)), GasWanted: int64(r.Intn(10000)), GasUsed: int64(r.Intn(10000)), Events: randEvents(r)}
		if res.Code != 0 {
			res.Codespace = "staking"
			res.Log = "failed"
			res.Info = "info"
		}
		rbr.TxsResults = append(rbr.TxsResults, res)
	}

	cp := cmttypes.DefaultConsensusParams()
	cp.Block.MaxBytes = int64(1024 + r.Intn(1<<20))
	cp.Block.MaxGas = int64(r.Intn(1<<20)) - 1
	cp.Evidence.MaxBytes = int64(r.Intn(1000))

	lastBID := randBlockID(r)
	lastCommit := randCommit(r, h-1, lastBID, vals, now.Add(-time.Second))
	blk := &cmttypes.Block{
		Header: cmttypes.Header{
			Version:            cmtversion.Consensus{Block: 11, App: uint64(r.Intn(5))},
			ChainID:            chainID,
			Height:             h,
			Time:               now,
			LastBlockID:        lastBID,
			LastCommitHash:     lastCommit.Hash(),
			DataHash:           txs.Hash(),
			ValidatorsHash:     vals.Hash(),
			NextValidatorsHash: nextVals.Hash(),
			ConsensusHash:      cp.Hash(),
			AppHash:            rbytes(r, 32),
			LastResultsHash:    rbytes(r, 32),
			EvidenceHash:       cmtmerkle.HashFromByteSlices(nil),
			ProposerAddress:    vals.Validators[r.Intn(len(vals.Validators))].Address,
		},
		Data:       cmttypes.Data{Txs: txs},
		LastCommit: lastCommit,
	}
	bid := cmttypes.BlockID{Hash: blk.Header.Hash(), PartSetHeader: cmttypes.PartSetHeader{Total: 1, Hash: rbytes(r, 32)}}
	fx.lb = &cmttypes.LightBlock{
		SignedHeader: &cmttypes.SignedHeader{Header: &blk.Header, Commit: randCommit(r, h, bid, vals, now)},
		ValidatorSet: vals,
	}
	hdr2 := cmttypes.Header{
		Version:            blk.Header.Version,
		ChainID:            chainID,
		Height:             h + 1,
		Time:               now.Add(6 * time.Second),
		LastBlockID:        bid,
		LastCommitHash:     fx.lb.Commit.Hash(),
		DataHash:           cmttypes.Txs{}.Hash(),
		ValidatorsHash:     nextVals.Hash(),
		NextValidatorsHash: vals3.Hash(),
		ConsensusHash:      cp.Hash(),
		AppHash:            fx.stateRoot[:],
		LastResultsHash:    cmttypes.NewResults(rbr.TxsResults).Hash(),
		EvidenceHash:       cmtmerkle.HashFromByteSlices(nil),
		ProposerAddress:    nextVals.Validators[0].Address,
	}
	bid2 := cmttypes.BlockID{Hash: hdr2.Hash(), PartSetHeader: cmttypes.PartSetHeader{Total: 1, Hash: rbytes(r, 32)}}
	fx.lb2 = &cmttypes.LightBlock{
		SignedHeader: &cmttypes.SignedHeader{Header: &hdr2, Commit: randCommit(r, h+1, bid2, nextVals, now.Add(6*time.Second))},
		ValidatorSet: nextVals,
	}

	var err error
	if fx.blk, err = api.NewBlock(blk); err != nil {
		panic(err)
	}
	fx.results = api.NewBlockResults(rbr)
	if fx.vals, err = light.EncodeValidators(nextVals, h+1); err != nil {
		panic(err)
	}
	fx.state = &consensusGenesis.Parameters{
		TimeoutCommit:           time.Duration(1+r.Intn(10)) * time.Second,
		MaxTxSize:               uint64(1000 + r.Intn(1000)),
		MaxBlockSize:            uint64(cp.Block.MaxBytes),
		MaxBlockGas:             transaction.Gas(r.Intn(100000)),
		MaxEvidenceSize:         uint64(cp.Evidence.MaxBytes),
		MinGasPrice:             uint64(r.Intn(10)),
		StateCheckpointInterval: uint64(r.Intn(10000)),
		GasCosts:                transaction.Costs{consensusGenesis.GasOpTxByte: transaction.Gas(r.Intn(5))},
	}
	cpPB := cp.ToProto()
	meta, err := cpPB.Marshal()
	if err != nil {
		panic(err)
	}
	fx.params = &consensus.Parameters{Height: h, Parameters: *fx.state, Meta: meta}
	return fx
}
