package main

import (
	"encoding/hex"
	"fmt"
	"sort"
	"strconv"
	"strings"
	"time"

	cmtproto "github.com/cometbft/cometbft/proto/tendermint/types"
	cmttypes "github.com/cometbft/cometbft/types"

	"verifharness/hlib"

	"github.com/oasisprotocol/oasis-core/go/common/cbor"
	"github.com/oasisprotocol/oasis-core/go/common/crypto/hash"
	consensus "github.com/oasisprotocol/oasis-core/go/consensus/api"
	"github.com/oasisprotocol/oasis-core/go/consensus/cometbft/api"
	"github.com/oasisprotocol/oasis-core/go/consensus/cometbft/stateless"
)

func hx(b []byte) string {
	if len(b) == 0 {
		return "-"
	}
	return hex.EncodeToString(b)
}

func hxl(l [][]byte) string {
	if len(l) == 0 {
		return "-"
	}
	s := make([]string, len(l))
	for i, b := range l {
		if len(b) == 0 {
			s[i] = "."
		} else {
			s[i] = hex.EncodeToString(b)
		}
	}
	return strings.Join(s, ",")
}

// kvs is an ordered key=value list: the model line and the semantic view used for diffing.
type kvs struct {
	keys []string
	m    map[string]string
	// view-only entries (not sent to the model): unbound fields and raw encodings.
	viewOnly map[string]bool
}

func newKVs() *kvs { return &kvs{m: map[string]string{}, viewOnly: map[string]bool{}} }

func (k *kvs) set(key, val string) {
	if _, ok := k.m[key]; !ok {
		k.keys = append(k.keys, key)
	}
	k.m[key] = val
}

func (k *kvs) setView(key, val string) {
	k.set(key, val)
	k.viewOnly[key] = true
}

func (k *kvs) line(op string, extra ...string) string {
	var sb strings.Builder
	sb.WriteString(op)
	for _, e := range extra {
		if e != "" {
			sb.WriteByte(' ')
			sb.WriteString(e)
		}
	}
	for _, key := range k.keys {
		if k.viewOnly[key] {
			continue
		}
		sb.WriteByte(' ')
		sb.WriteString(key)
		sb.WriteByte('=')
		sb.WriteString(k.m[key])
	}
	return sb.String()
}

// diff returns the keys (of the response part, prefix-filtered) on which two views differ.
func (k *kvs) diff(o *kvs, skipPrefix string) []string {
	seen := map[string]bool{}
	var out []string
	for _, set := range []*kvs{k, o} {
		for _, key := range set.keys {
			if seen[key] || strings.HasPrefix(key, skipPrefix) || key == "want" || key == "ref" || key == "rh" {
				continue
			}
			seen[key] = true
			if k.m[key] != o.m[key] {
				out = append(out, key)
			}
		}
	}
	sort.Strings(out)
	return out
}

func i64(x int64) string { return strconv.FormatInt(x, 10) }

// lbKVs adds the light block's header fields (oracle values computed with the real CometBFT code).
func lbKVs(k *kvs, lb *cmttypes.LightBlock) {
	k.set("lb.h", i64(lb.Height))
	hh := hash.LoadFromHexBytes(lb.Header.Hash())
	k.set("lb.hash", hx(hh[:]))
	k.set("lb.ts", i64(lb.Header.Time.Unix()))
	k.set("lb.tn", strconv.Itoa(lb.Header.Time.Nanosecond()))
	k.set("lb.app", hx(lb.Header.AppHash))
	enc, err := lb.Header.ToProto().Marshal()
	if err != nil {
		panic(err)
	}
	k.set("lb.enc", hx(enc))
	k.set("lb.lch", hx(lb.LastCommitHash))
	pb := lb.LastBlockID.ToProto()
	lbid, _ := pb.Marshal()
	k.set("lb.lbid", hx(lbid))
}

// blockKVs computes the semantic view of a block response with the decoders the implementation uses.
func blockKVs(b *consensus.Block, lb *cmttypes.LightBlock) *kvs {
	k := newKVs()
	k.set("b.h", i64(b.Height))
	k.set("b.hash", hx(b.Hash[:]))
	k.set("b.ts", i64(b.Time.Unix()))
	k.set("b.tn", strconv.Itoa(b.Time.Nanosecond()))
	k.set("b.ns", hx(b.StateRoot.Namespace[:]))
	k.set("b.ver", strconv.FormatUint(b.StateRoot.Version, 10))
	k.set("b.typ", strconv.Itoa(int(b.StateRoot.Type)))
	k.set("b.root", hx(b.StateRoot.Hash[:]))
	k.set("b.size", strconv.FormatUint(b.Size, 10))
	k.setView("b.meta.raw", hx(b.Meta))
	var meta api.BlockMeta
	if err := cbor.Unmarshal(b.Meta, &meta); err != nil {
		k.set("md", "0")
	} else {
		k.set("md", "1")
		k.set("m.hdr", hx(meta.Header))
		k.setView("m.lc.raw", hx(meta.LastCommit))
		var pc cmtproto.Commit
		var commit *cmttypes.Commit
		err := pc.Unmarshal(meta.LastCommit)
		if err == nil {
			commit, err = cmttypes.CommitFromProto(&pc)
		}
		if err != nil {
			k.set("cd", "0")
		} else {
			k.set("cd", "1")
			k.set("c.h", i64(commit.Height))
			k.set("c.r", strconv.Itoa(int(commit.Round)))
			pb := commit.BlockID.ToProto()
			bid, _ := pb.Marshal()
			k.set("c.bid", hx(bid))
			sigs := make([][]byte, len(commit.Signatures))
			for i, s := range commit.Signatures {
				sigs[i], _ = s.ToProto().Marshal()
			}
			k.set("c.sigs", hxl(sigs))
		}
	}
	lbKVs(k, lb)
	return k
}

func blockVerdict(err error) string {
	if err == nil {
		return "ok"
	}
	e := err.Error()
	switch {
	case strings.HasPrefix(e, "mismatched block height"):
		return "height"
	case strings.HasPrefix(e, "mismatched block hash"):
		return "hash"
	case strings.HasPrefix(e, "mismatched block time"):
		return "time"
	case strings.HasPrefix(e, "mismatched block state root namespace"):
		return "ns"
	case strings.HasPrefix(e, "mismatched block state root version"):
		return "version"
	case strings.HasPrefix(e, "mismatched block state root type"):
		return "type"
	case strings.HasPrefix(e, "mismatched block state root hash"):
		return "roothash"
	case strings.HasPrefix(e, "mismatched block meta last commit height"):
		return "commit-height"
	case strings.HasPrefix(e, "mismatched block meta last commit block identifier"):
		return "commit-blockid"
	case strings.HasPrefix(e, "malformed block meta last commit"):
		return "commit-malformed"
	case strings.HasPrefix(e, "mismatched block meta last commit"):
		return "commit-hash"
	case strings.HasPrefix(e, "mismatched block meta header"):
		return "meta-header"
	case strings.HasPrefix(e, "malformed block meta header"):
		return "meta-header-marshal"
	case strings.HasPrefix(e, "malformed block meta"):
		return "meta-malformed"
	}
	return "other:" + strings.ReplaceAll(e, " ", "_")
}

// guard runs f and converts a panic into the verdict "PANIC".
func guard(f func() string) (v string, panicked string) {
	defer func() {
		if r := recover(); r != nil {
			v = "PANIC"
			panicked = fmt.Sprint(r)
		}
	}()
	return f(), ""
}

func implBlock(b *consensus.Block, lb *cmttypes.LightBlock) (string, string) {
	return guard(func() string { return blockVerdict(stateless.VerifVerifyBlock(b, lb)) })
}

// ---------------------------------------------------------------------------- mutations

func cloneBlock(b *consensus.Block) *consensus.Block {
	c := *b
	c.Meta = append([]byte(nil), b.Meta...)
	return &c
}

func atoi(s string) int {
	n, err := strconv.Atoi(s)
	if err != nil {
		panic("bad number in mutation: " + s)
	}
	return n
}

// withMeta decodes the block meta, applies f and re-encodes.
func withMeta(b *consensus.Block, f func(m *api.BlockMeta)) {
	var meta api.BlockMeta
	if err := cbor.Unmarshal(b.Meta, &meta); err != nil {
		panic(err)
	}
	f(&meta)
	b.Meta = cbor.Marshal(meta)
}

func withCommit(b *consensus.Block, f func(c *cmtproto.Commit)) {
	withMeta(b, func(m *api.BlockMeta) {
		var pc cmtproto.Commit
		if err := pc.Unmarshal(m.LastCommit); err != nil {
			panic(err)
		}
		f(&pc)
		var err error
		if m.LastCommit, err = pc.Marshal(); err != nil {
			panic(err)
		}
	})
}

func withHeader(b *consensus.Block, f func(h *cmtproto.Header)) {
	withMeta(b, func(m *api.BlockMeta) {
		var ph cmtproto.Header
		if err := ph.Unmarshal(m.Header); err != nil {
			panic(err)
		}
		f(&ph)
		var err error
		if m.Header, err = ph.Marshal(); err != nil {
			panic(err)
		}
	})
}

func flip(b []byte, i int) []byte {
	c := append([]byte(nil), b...)
	if len(c) == 0 {
		return []byte{1}
	}
	c[i%len(c)] ^= 0x01
	return c
}

var headerFields = []string{"version.block", "version.app", "chainid", "height", "time", "lastblockid.hash", "lastblockid.parts",
	"lastcommithash", "datahash", "validatorshash", "nextvalidatorshash", "consensushash", "apphash", "lastresultshash",
	"evidencehash", "proposer"}

func mutHeaderField(h *cmtproto.Header, f string) {
	switch f {
	case "version.block":
		h.Version.Block++
	case "version.app":
		h.Version.App++
	case "chainid":
		h.ChainID += "x"
	case "height":
		h.Height++
	case "time":
		h.Time = h.Time.Add(time.Nanosecond)
	case "lastblockid.hash":
		h.LastBlockId.Hash = flip(h.LastBlockId.Hash, 0)
	case "lastblockid.parts":
		h.LastBlockId.PartSetHeader.Total++
	case "lastcommithash":
		h.LastCommitHash = flip(h.LastCommitHash, 3)
	case "datahash":
		h.DataHash = flip(h.DataHash, 3)
	case "validatorshash":
		h.ValidatorsHash = flip(h.ValidatorsHash, 3)
	case "nextvalidatorshash":
		h.NextValidatorsHash = flip(h.NextValidatorsHash, 3)
	case "consensushash":
		h.ConsensusHash = flip(h.ConsensusHash, 3)
	case "apphash":
		h.AppHash = flip(h.AppHash, 3)
	case "lastresultshash":
		h.LastResultsHash = flip(h.LastResultsHash, 3)
	case "evidencehash":
		h.EvidenceHash = flip(h.EvidenceHash, 3)
	case "proposer":
		h.ProposerAddress = flip(h.ProposerAddress, 3)
	default:
		panic("unknown header field " + f)
	}
}

// applyBlockMut applies the named mutation to a copy of the honest block.
func applyBlockMut(fx *fixture, name string) *consensus.Block {
	b := cloneBlock(fx.blk)
	p := strings.Split(name, ":")
	switch p[0] {
	case "height":
		switch p[1] {
		case "+1":
			b.Height++
		case "-1":
			b.Height--
		case "0":
			b.Height = 0
		case "neg":
			b.Height = -b.Height
		case "next":
			b.Height = fx.lb2.Height
		}
	case "hash":
		if p[1] == "zero" {
			b.Hash = hash.Hash{}
		} else {
			b.Hash[atoi(p[2])] ^= 1 << uint(atoi(p[3]))
		}
	case "time":
		switch p[1] {
		case "+1s":
			b.Time = b.Time.Add(time.Second)
		case "-1s":
			b.Time = b.Time.Add(-time.Second)
		case "+1ns":
			b.Time = b.Time.Add(time.Nanosecond)
		case "+999999999ns":
			b.Time = b.Time.Add(999999999 * time.Nanosecond)
		case "untrunc":
			b.Time = fx.lb.Header.Time
		case "loc":
			b.Time = b.Time.In(time.FixedZone("X", 3600))
		case "now":
			b.Time = time.Now()
		}
	case "ns":
		b.StateRoot.Namespace[atoi(p[2])] ^= 1 << uint(atoi(p[3]))
	case "ver":
		switch p[1] {
		case "+1":
			b.StateRoot.Version++
		case "-1":
			b.StateRoot.Version--
		case "h":
			b.StateRoot.Version = uint64(fx.lb.Height)
		case "0":
			b.StateRoot.Version = 0
		}
	case "typ":
		b.StateRoot.Type = 0
		for i := atoi(p[1]); i > 0; i-- {
			b.StateRoot.Type++
		}
	case "root":
		if p[1] == "next" {
			copy(b.StateRoot.Hash[:], fx.lb2.AppHash)
		} else {
			b.StateRoot.Hash[atoi(p[2])] ^= 1 << uint(atoi(p[3]))
		}
	case "size":
		switch p[1] {
		case "+1":
			b.Size++
		case "0":
			b.Size = 0
		case "max":
			b.Size = ^uint64(0)
		}
	case "meta":
		switch p[1] {
		case "reenc-extra":
			// same content, an additional unknown key
			var meta api.BlockMeta
			cbor.MustUnmarshal(b.Meta, &meta)
			b.Meta = cbor.Marshal(map[string]any{"header": meta.Header, "last_commit": meta.LastCommit, "zzz": 1})
		case "reenc-order":
			// same content, non-canonical key order (hand-assembled CBOR map)
			var meta api.BlockMeta
			cbor.MustUnmarshal(b.Meta, &meta)
			enc := []byte{0xa2}
			enc = append(enc, cbor.Marshal("last_commit")...)
			enc = append(enc, cbor.Marshal(meta.LastCommit)...)
			enc = append(enc, cbor.Marshal("header")...)
			enc = append(enc, cbor.Marshal(meta.Header)...)
			b.Meta = enc
		case "empty":
			b.Meta = nil
		case "nohdr":
			withMeta(b, func(m *api.BlockMeta) { m.Header = nil })
		case "nolc":
			withMeta(b, func(m *api.BlockMeta) { m.LastCommit = nil })
		case "trailing":
			b.Meta = append(b.Meta, 0x00)
		}
	case "hdr":
		if p[1] == "byte" {
			withMeta(b, func(m *api.BlockMeta) { m.Header[atoi(p[2])%len(m.Header)] ^= byte(atoi(p[3])) })
		} else {
			withHeader(b, func(h *cmtproto.Header) { mutHeaderField(h, p[1]) })
		}
	case "lc":
		idx := func(c *cmtproto.Commit) int { return atoi(p[2]) % len(c.Signatures) }
		switch p[1] {
		case "height":
			withCommit(b, func(c *cmtproto.Commit) { c.Height++ })
		case "height0":
			withCommit(b, func(c *cmtproto.Commit) { c.Height = 0 })
		case "round":
			withCommit(b, func(c *cmtproto.Commit) { c.Round++ })
		case "bid.hash":
			withCommit(b, func(c *cmtproto.Commit) { c.BlockID.Hash = flip(c.BlockID.Hash, 0) })
		case "bid.parts":
			withCommit(b, func(c *cmtproto.Commit) { c.BlockID.PartSetHeader.Total++ })
		case "bid.zero":
			withCommit(b, func(c *cmtproto.Commit) { c.BlockID = cmtproto.BlockID{} })
		case "dropsig":
			withCommit(b, func(c *cmtproto.Commit) {
				i := idx(c)
				c.Signatures = append(append([]cmtproto.CommitSig(nil), c.Signatures[:i]...), c.Signatures[i+1:]...)
			})
		case "dupsig":
			withCommit(b, func(c *cmtproto.Commit) {
				i := idx(c)
				c.Signatures = append(append(append([]cmtproto.CommitSig(nil), c.Signatures[:i+1]...), c.Signatures[i]), c.Signatures[i+1:]...)
			})
		case "swapsig":
			withCommit(b, func(c *cmtproto.Commit) {
				i := idx(c)
				j := (i + 1) % len(c.Signatures)
				c.Signatures[i], c.Signatures[j] = c.Signatures[j], c.Signatures[i]
			})
		case "addsig":
			withCommit(b, func(c *cmtproto.Commit) { c.Signatures = append(c.Signatures, c.Signatures[0]) })
		case "nosigs":
			withCommit(b, func(c *cmtproto.Commit) { c.Signatures = nil })
		case "sig.flag":
			withCommit(b, func(c *cmtproto.Commit) {
				s := &c.Signatures[idx(c)]
				if s.BlockIdFlag == cmtproto.BlockIDFlagCommit {
					s.BlockIdFlag = cmtproto.BlockIDFlagNil
				} else {
					s.BlockIdFlag = cmtproto.BlockIDFlagCommit
				}
			})
		case "sig.addr":
			withCommit(b, func(c *cmtproto.Commit) {
				s := &c.Signatures[idx(c)]
				s.ValidatorAddress = flip(s.ValidatorAddress, 1)
			})
		case "sig.time":
			withCommit(b, func(c *cmtproto.Commit) {
				s := &c.Signatures[idx(c)]
				s.Timestamp = s.Timestamp.Add(time.Nanosecond)
			})
		case "sig.sig":
			withCommit(b, func(c *cmtproto.Commit) {
				s := &c.Signatures[idx(c)]
				s.Signature = flip(s.Signature, 5)
			})
		case "reenc":
			// same content plus an unknown protobuf field (tag 15, varint 1)
			withMeta(b, func(m *api.BlockMeta) { m.LastCommit = append(append([]byte(nil), m.LastCommit...), 0x78, 0x01) })
		case "byte":
			withMeta(b, func(m *api.BlockMeta) { m.LastCommit[atoi(p[2])%len(m.LastCommit)] ^= byte(atoi(p[3])) })
		}
	case "byte":
		b.Meta[atoi(p[1])%len(b.Meta)] ^= byte(atoi(p[2]))
	case "wronglb":
		// handled by the caller (the light block changes, not the block)
	default:
		panic("unknown block mutation " + name)
	}
	return b
}

// blockMutNames enumerates the field-level mutations and nbyte byte-level ones.
func blockMutNames(fx *fixture, r *hlib.Rng, nbyte int) []string {
	names := []string{"height:+1", "height:-1", "height:0", "height:neg", "height:next", "hash:zero",
		"time:+1s", "time:-1s", "time:+1ns", "time:+999999999ns", "time:untrunc", "time:loc", "time:now",
		"ver:+1", "ver:-1", "ver:h", "ver:0", "typ:0", "typ:2", "typ:255", "root:next",
		"size:+1", "size:0", "size:max",
		"meta:reenc-extra", "meta:reenc-order", "meta:empty", "meta:nohdr", "meta:nolc", "meta:trailing",
		"lc:height", "lc:height0", "lc:round", "lc:bid.hash", "lc:bid.parts", "lc:bid.zero", "lc:addsig", "lc:nosigs", "lc:reenc"}
	for i := 0; i < 32; i++ {
		bit := r.Intn(8)
		names = append(names, fmt.Sprintf("hash:flip:%d:%d", i, bit), fmt.Sprintf("ns:flip:%d:%d", i, r.Intn(8)), fmt.Sprintf("root:flip:%d:%d", i, r.Intn(8)))
	}
	for _, f := range headerFields {
		names = append(names, "hdr:"+f)
	}
	var meta api.BlockMeta
	cbor.MustUnmarshal(fx.blk.Meta, &meta)
	var pc cmtproto.Commit
	_ = pc.Unmarshal(meta.LastCommit)
	nsig := len(pc.Signatures)
	sigIdx := []int{0, nsig - 1}
	for i := 0; i < 4 && nsig > 2; i++ {
		sigIdx = append(sigIdx, r.Intn(nsig))
	}
	for _, i := range sigIdx {
		for _, k := range []string{"dropsig", "dupsig", "swapsig", "sig.flag", "sig.addr", "sig.time", "sig.sig"} {
			names = append(names, fmt.Sprintf("lc:%s:%d", k, i))
		}
	}
	for i := 0; i < nbyte; i++ {
		mask := 1 << uint(r.Intn(8))
		if r.Chance(1, 4) {
			mask = 1 + r.Intn(255)
		}
		switch r.Intn(4) {
		case 0:
			names = append(names, fmt.Sprintf("hdr:byte:%d:%d", r.Intn(len(meta.Header)), mask))
		case 1:
			names = append(names, fmt.Sprintf("lc:byte:%d:%d", r.Intn(len(meta.LastCommit)), mask))
		default:
			names = append(names, fmt.Sprintf("byte:%d:%d", r.Intn(len(fx.blk.Meta)), mask))
		}
	}
	return names
}
