package main

// Context driver (C03, anchor go/consensus/cometbft/api/context.go:245-280): the REAL api.Context
// — NewTransaction / Commit / Close, NewChild / WithSimulation / WithCallerAddress children, in
// every context mode — is driven with generated sequences and compared, after every operation,
// with the overlay-stack model (`overlay_stack_refines`): a transaction context is an overlay on
// its parent's state, Commit is the overlay's Commit, Close of a transaction context discards it.
//
// Generated ops (the index I selects a context of the open stack, 0 = the top-level context):
//   newctx MODE                     fresh mock application state and top-level context
//   ctxtx | ctxchild | ctxsim | ctxcaller    child of the innermost context
//   ctxcommit | ctxclose            Commit / Close of the innermost context
//   cinsert I K V | cremove I K | cremx I K | cget I K | citer I K N     on contexts[I].State()
// They are translated to the model's line protocol (onew/ocommit/odiscard, ops at level L).

import (
	"fmt"
	"strings"

	"verifharness/hlib"

	abciAPI "github.com/oasisprotocol/oasis-core/go/consensus/cometbft/api"
	staking "github.com/oasisprotocol/oasis-core/go/staking/api"
	"github.com/oasisprotocol/oasis-core/go/storage/mkvs"
)

type ctxEntry struct {
	c     *abciAPI.Context
	level int  // number of transaction contexts from the top-level context down to this one
	tx    bool // created by NewTransaction
}

type ctxImpl struct {
	app  abciAPI.MockApplicationState
	ctxs []*ctxEntry
}

var ctxModes = map[string]abciAPI.ContextMode{
	"initchain":  abciAPI.ContextInitChain,
	"checktx":    abciAPI.ContextCheckTx,
	"delivertx":  abciAPI.ContextDeliverTx,
	"simulatetx": abciAPI.ContextSimulateTx,
	"beginblock": abciAPI.ContextBeginBlock,
	"endblock":   abciAPI.ContextEndBlock,
}

var ctxModeNames = []string{"initchain", "checktx", "delivertx", "simulatetx", "beginblock", "endblock"}

func newCtxImpl(mode string) *ctxImpl {
	app := abciAPI.NewMockApplicationState(&abciAPI.MockApplicationStateConfig{})
	m, ok := ctxModes[mode]
	if !ok {
		panic("unknown context mode " + mode)
	}
	return &ctxImpl{app: app, ctxs: []*ctxEntry{{c: app.NewContext(m)}}}
}

func (ci *ctxImpl) inner() *ctxEntry { return ci.ctxs[len(ci.ctxs)-1] }

func (ci *ctxImpl) state(i int) (mkvs.KeyValueTree, int, bool) {
	if i < 0 || i >= len(ci.ctxs) {
		return nil, 0, false
	}
	return ci.ctxs[i].c.State(), ci.ctxs[i].level, true
}

// exec runs one context op and returns the model line ("" = nothing for the model).
func (ci *ctxImpl) exec(w []string) string {
	e := func(err error) string { return strings.Join(w, " ") + " ERR:" + strings.ReplaceAll(err.Error(), " ", "_") }
	in := ci.inner()
	switch w[0] {
	case "ctxtx":
		ci.ctxs = append(ci.ctxs, &ctxEntry{c: in.c.NewTransaction(), level: in.level + 1, tx: true})
		return "onew"
	case "ctxchild":
		ci.ctxs = append(ci.ctxs, &ctxEntry{c: in.c.NewChild(), level: in.level})
		return ""
	case "ctxsim":
		ci.ctxs = append(ci.ctxs, &ctxEntry{c: in.c.WithSimulation(), level: in.level})
		return ""
	case "ctxcaller":
		var addr staking.Address
		ci.ctxs = append(ci.ctxs, &ctxEntry{c: in.c.WithCallerAddress(addr), level: in.level})
		return ""
	case "ctxcommit":
		if len(ci.ctxs) == 1 {
			return ""
		}
		in.c.Commit()
		if in.tx {
			return "ocommit"
		}
		return ""
	case "ctxclose":
		if len(ci.ctxs) == 1 {
			return ""
		}
		in.c.Close()
		ci.ctxs = ci.ctxs[:len(ci.ctxs)-1]
		if in.tx {
			return "odiscard"
		}
		return ""
	}
	t, lvl, ok := ci.state(atoi(w[1]))
	if !ok {
		return ""
	}
	switch w[0] {
	case "cinsert":
		if err := t.Insert(ctx, unhx(w[2]), unhx(w[3])); err != nil {
			return e(err)
		}
		return fmt.Sprintf("insert %d %s %s", lvl, w[2], w[3])
	case "cremove":
		if err := t.Remove(ctx, unhx(w[2])); err != nil {
			return e(err)
		}
		return fmt.Sprintf("remove %d %s", lvl, w[2])
	case "cremx":
		v, err := t.RemoveExisting(ctx, unhx(w[2]))
		if err != nil {
			return e(err)
		}
		return fmt.Sprintf("remx %d %s %s", lvl, w[2], hxOpt(v))
	case "cget":
		v, err := t.Get(ctx, unhx(w[2]))
		if err != nil {
			return e(err)
		}
		return fmt.Sprintf("get %d %s %s", lvl, w[2], hxOpt(v))
	case "citer":
		items, err := iterate(t, unhx(w[2]), atoi(w[3]))
		if err != nil {
			return e(err)
		}
		return fmt.Sprintf("iter %d %s %s %s", lvl, w[2], w[3], showItems(items))
	}
	panic("unknown context op " + strings.Join(w, " "))
}

var ctxOps = map[string]bool{
	"ctxtx": true, "ctxchild": true, "ctxsim": true, "ctxcaller": true, "ctxcommit": true, "ctxclose": true,
	"cinsert": true, "cremove": true, "cremx": true, "cget": true, "citer": true,
}

func isCtxOp(op string) bool { return ctxOps[op] }

// genCtxCase generates one history on a context stack.
func genCtxCase(r *hlib.Rng, nops int, res *hlib.Result) []string {
	g := &keygen{r: r}
	mode := ctxModeNames[r.Intn(len(ctxModeNames))]
	ops := []string{"newctx " + mode}
	res.Count("ctx-mode:" + mode)
	type ent struct{ tx bool }
	stack := []ent{{}}
	emit := func(kind, s string) {
		ops = append(ops, s)
		res.Count("ctxop:" + kind)
	}
	idx := func() int {
		if len(stack) > 1 && r.Chance(1, 4) {
			return r.Intn(len(stack)) // a context that is not the innermost one
		}
		return len(stack) - 1
	}
	for i := 0; i < nops; i++ {
		switch k := r.Intn(100); {
		case k < 24:
			emit("insert", fmt.Sprintf("cinsert %d %s %s", idx(), hx(g.key()), hx(genValue(r))))
		case k < 32:
			emit("remove", fmt.Sprintf("cremove %d %s", idx(), hx(g.key())))
		case k < 40:
			emit("remx", fmt.Sprintf("cremx %d %s", idx(), hx(g.key())))
		case k < 54:
			emit("get", fmt.Sprintf("cget %d %s", idx(), hx(g.key())))
		case k < 62:
			emit("iter", fmt.Sprintf("citer %d %s %d", idx(), hx(g.key()), 1+r.Intn(8)))
		case k < 76:
			if len(stack) < 6 {
				stack = append(stack, ent{tx: true})
				emit("tx", "ctxtx")
			}
		case k < 82:
			if len(stack) < 6 {
				stack = append(stack, ent{})
				emit("child", []string{"ctxchild", "ctxsim", "ctxcaller"}[r.Intn(3)])
			}
		case k < 91:
			if len(stack) > 1 {
				// commit, possibly keep using the context, close later
				emit("commit", "ctxcommit")
				if r.Chance(2, 3) {
					stack = stack[:len(stack)-1]
					emit("close", "ctxclose")
				}
			}
		default:
			if len(stack) > 1 {
				stack = stack[:len(stack)-1]
				emit("close-without-commit", "ctxclose")
			}
		}
	}
	// Unwind: every open context is committed or dropped, then the root tree is read in full.
	for len(stack) > 1 {
		if r.Chance(2, 3) {
			ops = append(ops, "ctxcommit")
		}
		ops = append(ops, "ctxclose")
		stack = stack[:len(stack)-1]
		ops = append(ops, fmt.Sprintf("citer %d - 1000", len(stack)-1))
	}
	ops = append(ops, "citer 0 - 1000", "cget 0 "+hx(g.key()))
	return ops
}
