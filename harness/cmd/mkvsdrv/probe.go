package main

// Probes for edge inputs outside the line protocol (run with -probe <name>); they print what the
// real tree does and are not part of any check verdict.

import (
	"fmt"

	"github.com/oasisprotocol/oasis-core/go/storage/mkvs"
	"github.com/oasisprotocol/oasis-core/go/storage/mkvs/node"
)

func try(name string, f func() string) {
	defer func() {
		if r := recover(); r != nil {
			fmt.Printf("%-40s PANIC: %v\n", name, r)
		}
	}()
	fmt.Printf("%-40s %s\n", name, f())
}

func probeNilKey() {
	// The empty key passed as a nil slice versus an empty non-nil slice.
	try("insert(nil) get([]byte{}) uncommitted", func() string {
		t := mkvs.New(nil, nil, node.RootTypeState)
		_ = t.Insert(ctx, nil, []byte("v"))
		v, err := t.Get(ctx, []byte{})
		return fmt.Sprintf("%q %v", v, err)
	})
	try("insert(nil) commit get([]byte{})", func() string {
		t := mkvs.New(nil, nil, node.RootTypeState)
		_ = t.Insert(ctx, nil, []byte("v"))
		_, _, _ = t.Commit(ctx, testNs, 0)
		v, err := t.Get(ctx, []byte{})
		return fmt.Sprintf("%q %v", v, err)
	})
	try("insert(nil) commit get(nil)", func() string {
		t := mkvs.New(nil, nil, node.RootTypeState)
		_ = t.Insert(ctx, nil, []byte("v"))
		_, _, _ = t.Commit(ctx, testNs, 0)
		v, err := t.Get(ctx, nil)
		return fmt.Sprintf("%q %v", v, err)
	})
	try("insert(nil) insert([]byte{})", func() string {
		t := mkvs.New(nil, nil, node.RootTypeState)
		_ = t.Insert(ctx, nil, []byte("v"))
		err := t.Insert(ctx, []byte{}, []byte("w"))
		_, h, _ := t.Commit(ctx, testNs, 0)
		items, _ := iterate(t, []byte{}, 10)
		return fmt.Sprintf("err=%v root=%s items=%s", err, h, showItems(items))
	})
	try("insert(nil) iterate", func() string {
		t := mkvs.New(nil, nil, node.RootTypeState)
		_ = t.Insert(ctx, nil, []byte("v"))
		_ = t.Insert(ctx, []byte{1}, []byte("w"))
		items, _ := iterate(t, []byte{}, 10)
		return showItems(items)
	})
	try("insert([]byte{}) iterate", func() string {
		t := mkvs.New(nil, nil, node.RootTypeState)
		_ = t.Insert(ctx, []byte{}, []byte("v"))
		_ = t.Insert(ctx, []byte{1}, []byte("w"))
		items, _ := iterate(t, []byte{}, 10)
		return showItems(items)
	})
	try("overlay insert(k,nil) get", func() string {
		t := mkvs.New(nil, nil, node.RootTypeState)
		o := mkvs.NewOverlay(t)
		_ = o.Insert(ctx, []byte{1}, nil)
		v, _ := o.Get(ctx, []byte{1})
		_, _ = o.Commit(ctx)
		v2, _ := t.Get(ctx, []byte{1})
		return fmt.Sprintf("overlay get: nil=%v ; after commit tree get: nil=%v", v == nil, v2 == nil)
	})
}
