package main

// Specification predicates evaluated directly on the real tree (independent of the Lean model):
//   c02: equal contents reached by independently shuffled/batched histories => equal roots;
//        one key added / removed / one value changed => different root.
//   c03: answers of get / remove-existing / iterate on the outermost handle of an overlay stack
//        equal those of a Go map + sort reference.
//   c13: the write log served for two consecutive roots, applied to a tree at the first root,
//        yields the second root; RootCache.Apply persists only what hashes to the expected root.
// A spec case is replayable from its RNG state: `spec <kind> <state>`.

import (
	"bytes"
	"fmt"
	"sort"
	"strconv"
	"strings"

	"verifharness/hlib"

	"github.com/oasisprotocol/oasis-core/go/common/crypto/hash"
	storageApi "github.com/oasisprotocol/oasis-core/go/storage/api"
	"github.com/oasisprotocol/oasis-core/go/storage/mkvs"
	"github.com/oasisprotocol/oasis-core/go/storage/mkvs/node"
	"github.com/oasisprotocol/oasis-core/go/storage/mkvs/writelog"
)

type contents map[string][]byte

func (c contents) clone() contents {
	d := contents{}
	for k, v := range c {
		d[k] = v
	}
	return d
}

func (c contents) sortedKeys() []string {
	ks := make([]string, 0, len(c))
	for k := range c {
		ks = append(ks, k)
	}
	sort.Strings(ks)
	return ks
}

func (c contents) String() string {
	var s []string
	for _, k := range c.sortedKeys() {
		s = append(s, hx([]byte(k))+":"+hx(c[k]))
	}
	return "{" + strings.Join(s, ",") + "}"
}

func shuffle(r *hlib.Rng, ks []string) {
	for i := len(ks) - 1; i > 0; i-- {
		j := r.Intn(i + 1)
		ks[i], ks[j] = ks[j], ks[i]
	}
}

var specBackends = []string{"mem", "badgermem", "pathbadgermem"}

// buildHistory reaches `target` from the tree's current contents `cur` by a random history:
// noise operations on the pool, then a repair phase in shuffled order; commits interleaved.
func buildHistory(r *hlib.Rng, im *impl, cur, target contents, pool [][]byte, noise int, commits bool, trace *[]string) error {
	do := func(kind string, k, v []byte) error {
		if kind == "commit" {
			if !commits {
				return nil
			}
			*trace = append(*trace, "commit")
			_, _, err := im.commit()
			return err
		}
		*trace = append(*trace, fmt.Sprintf("%s %s %s", kind, hx(k), hx(v)))
		switch kind {
		case "insert":
			cur[string(k)] = v
			return im.tree.Insert(ctx, k, v)
		case "remove":
			delete(cur, string(k))
			if r.Bool() {
				_, err := im.tree.RemoveExisting(ctx, k)
				return err
			}
			return im.tree.Remove(ctx, k)
		}
		return nil
	}
	for i := 0; i < noise; i++ {
		k := pool[r.Intn(len(pool))]
		var err error
		switch x := r.Intn(10); {
		case x < 5:
			err = do("insert", k, genValue(r))
		case x < 8:
			err = do("remove", k, nil)
		default:
			err = do("commit", nil, nil)
		}
		if err != nil {
			return err
		}
	}
	union := map[string]bool{}
	for k := range cur {
		union[k] = true
	}
	for k := range target {
		union[k] = true
	}
	ks := make([]string, 0, len(union))
	for k := range union {
		ks = append(ks, k)
	}
	sort.Strings(ks)
	shuffle(r, ks)
	for _, k := range ks {
		want, in := target[k]
		have, present := cur[k]
		var err error
		switch {
		case in && (!present || !bytes.Equal(have, want)):
			err = do("insert", []byte(k), want)
		case !in && present:
			err = do("remove", []byte(k), nil)
		}
		if err == nil && r.Chance(1, 6) {
			err = do("commit", nil, nil)
		}
		if err != nil {
			return err
		}
	}
	return nil
}

func randomContents(r *hlib.Rng, g *keygen, n int) contents {
	c := contents{}
	for i := 0; i < n; i++ {
		c[string(g.key())] = genValue(r)
	}
	return c
}

func specBackend(r *hlib.Rng) (string, uint64, uint64) {
	b := specBackends[r.Intn(len(specBackends))]
	if b == "mem" {
		return b, 0, 0
	}
	if r.Chance(1, 4) {
		return b, uint64(minCap), uint64(minValCap)
	}
	return b, 0, 0
}

// rootOf builds `target` on a fresh tree by a random history and returns the committed root.
func rootOf(r *hlib.Rng, target contents, pool [][]byte, noise int) (hash.Hash, []string, error) {
	b, nc, vc := specBackend(r)
	im := newImpl(b, nc, vc)
	defer im.close()
	trace := []string{fmt.Sprintf("new %s %d %d", b, nc, vc)}
	if err := buildHistory(r, im, contents{}, target, pool, noise, true, &trace); err != nil {
		return hash.Hash{}, trace, err
	}
	_, h, err := im.commit()
	return h, trace, err
}

func specC02(r *hlib.Rng, res *hlib.Result) (string, []string) {
	g := &keygen{r: r}
	target := randomContents(r, g, r.Intn(12))
	pool := append([][]byte{}, g.pool...)
	for i := 0; i < 4; i++ {
		pool = append(pool, g.fresh())
	}
	h0, tr0, err := rootOf(r, target, pool, 0)
	if err != nil {
		return "spec-c02-error: " + err.Error(), tr0
	}
	for j := 0; j < 3; j++ {
		h, tr, err := rootOf(r, target, pool, r.Intn(25))
		if err != nil {
			return "spec-c02-error: " + err.Error(), tr
		}
		res.Count("spec:c02-histories")
		if !h.Equal(&h0) {
			return fmt.Sprintf("spec-c02-history-dependent-root: contents %v reached by two histories give roots %s and %s", target, h0, h),
				append(append(tr0, "---"), tr...)
		}
	}
	// perturbations
	for j := 0; j < 3; j++ {
		p := target.clone()
		what := ""
		ks := p.sortedKeys()
		switch x := r.Intn(3); {
		case x == 0 || len(ks) == 0:
			var k []byte
			for {
				k = g.fresh()
				if _, ok := p[string(k)]; !ok {
					break
				}
			}
			p[string(k)] = genValue(r)
			what = "key-added"
		case x == 1:
			delete(p, ks[r.Intn(len(ks))])
			what = "key-removed"
		default:
			k := ks[r.Intn(len(ks))]
			v := append([]byte{}, p[k]...)
			if len(v) == 0 || r.Chance(1, 4) {
				v = append(v, 0)
			} else {
				v[r.Intn(len(v))] ^= 1 << uint(r.Intn(8))
			}
			p[k] = v
			what = "value-changed"
		}
		h, tr, err := rootOf(r, p, pool, r.Intn(10))
		if err != nil {
			return "spec-c02-error: " + err.Error(), tr
		}
		res.Count("spec:c02-perturb-" + what)
		if h.Equal(&h0) {
			return fmt.Sprintf("spec-c02-root-collision: contents %v and %v (%s) have the same root %s", target, p, what, h0), tr
		}
	}
	return "", nil
}

// specC03 compares the outermost handle of an overlay stack with a Go map reference.
func specC03(r *hlib.Rng, res *hlib.Result) (string, []string) {
	g := &keygen{r: r}
	b, nc, vc := specBackend(r)
	im := newImpl(b, nc, vc)
	defer im.close()
	trace := []string{fmt.Sprintf("new %s %d %d", b, nc, vc)}
	views := []contents{{}}
	top := func() contents { return views[len(views)-1] }
	n := 10 + r.Intn(60)
	for i := 0; i < n; i++ {
		t := im.top()
		switch x := r.Intn(100); {
		case x < 30:
			k, v := g.key(), genValue(r)
			trace = append(trace, fmt.Sprintf("insert %s %s", hx(k), hx(v)))
			if err := t.Insert(ctx, k, v); err != nil {
				return "spec-c03-error: " + err.Error(), trace
			}
			top()[string(k)] = v
		case x < 40:
			k := g.key()
			trace = append(trace, "remove "+hx(k))
			if err := t.Remove(ctx, k); err != nil {
				return "spec-c03-error: " + err.Error(), trace
			}
			delete(top(), string(k))
		case x < 52:
			k := g.key()
			trace = append(trace, "remx "+hx(k))
			v, err := t.RemoveExisting(ctx, k)
			if err != nil {
				return "spec-c03-error: " + err.Error(), trace
			}
			want, ok := top()[string(k)]
			if ok != (v != nil) || !bytes.Equal(v, want) {
				return fmt.Sprintf("spec-c03-remove-existing: key %s returned %s, map says %s", hx(k), hxOpt(v), hxOpt(want)), trace
			}
			delete(top(), string(k))
			res.Count("spec:c03-remx")
		case x < 70:
			k := g.key()
			trace = append(trace, "get "+hx(k))
			v, err := t.Get(ctx, k)
			if err != nil {
				return "spec-c03-error: " + err.Error(), trace
			}
			want, ok := top()[string(k)]
			if ok != (v != nil) || !bytes.Equal(v, want) {
				return fmt.Sprintf("spec-c03-get: key %s returned %s, map says %s", hx(k), hxOpt(v), hxOpt(want)), trace
			}
			res.Count("spec:c03-get")
		case x < 82:
			seek := g.key()
			if r.Bool() {
				seek = g.fresh()
			}
			lim := 1 + r.Intn(6)
			trace = append(trace, fmt.Sprintf("iter %s %d", hx(seek), lim))
			items, err := iterate(t, seek, lim)
			if err != nil {
				return "spec-c03-error: " + err.Error(), trace
			}
			var want []kv
			for _, k := range top().sortedKeys() {
				if bytes.Compare([]byte(k), seek) >= 0 && len(want) < lim {
					want = append(want, kv{[]byte(k), top()[k]})
				}
			}
			if showItems(items) != showItems(want) {
				return fmt.Sprintf("spec-c03-iterate: seek %s gave %s, sorted map says %s", hx(seek), showItems(items), showItems(want)), trace
			}
			res.Count("spec:c03-iter")
		case x < 90:
			switch {
			case len(im.overlays) < 3 && (len(im.overlays) == 0 || r.Bool()):
				trace = append(trace, "onew")
				im.overlays = append(im.overlays, mkvs.NewOverlay(im.top()))
				views = append(views, top().clone())
			case r.Bool():
				trace = append(trace, "ocommit")
				if _, err := im.overlays[len(im.overlays)-1].Commit(ctx); err != nil {
					return "spec-c03-error: " + err.Error(), trace
				}
				views[len(views)-2] = top().clone()
			default:
				trace = append(trace, "odiscard")
				im.overlays[len(im.overlays)-1].Close()
				im.overlays = im.overlays[:len(im.overlays)-1]
				views = views[:len(views)-1]
			}
		default:
			if len(im.overlays) == 0 {
				trace = append(trace, "commit")
				if _, _, err := im.commit(); err != nil {
					return "spec-c03-error: " + err.Error(), trace
				}
				if im.ndb != nil && r.Bool() {
					trace = append(trace, "reopen")
					im.tree.Close()
					im.tree = mkvs.NewWithRoot(nil, im.ndb, im.last, im.opts...)
				}
			}
		}
	}
	return "", nil
}

func treeContents(t mkvs.KeyValueTree) (contents, error) {
	items, err := iterate(t, []byte{}, 1<<30)
	if err != nil {
		return nil, err
	}
	c := contents{}
	for _, it := range items {
		c[string(it.k)] = it.v
	}
	return c, nil
}

func logToString(wl writelog.WriteLog) string { return showLog(wl, true) }

// sortLog orders a write log by key (Commit returns it in Go map order; the cases must replay).
func sortLog(wl writelog.WriteLog) writelog.WriteLog {
	l := append(writelog.WriteLog(nil), wl...)
	sort.SliceStable(l, func(i, j int) bool { return bytes.Compare(l[i].Key, l[j].Key) < 0 })
	return l
}

// specC13 checks write logs between consecutive roots and the checked Apply.
func specC13(r *hlib.Rng, res *hlib.Result) (string, []string) {
	g := &keygen{r: r}
	backend := []string{"badgermem", "pathbadgermem"}[r.Intn(2)]
	// Unlimited caches here: what eviction does to answers is the business of the C03 correspondence.
	src := newImpl(backend, 0, 0)
	defer src.close()
	io := r.Chance(1, 3)
	trace := []string{"new " + backend}
	if io {
		// IO roots (policy NoChildRoots): the only transition is empty -> r2 inside one version
		src.io = true
		src.tree.Close()
		src.tree = mkvs.New(nil, src.ndb, node.RootTypeIO)
		src.last.Type = node.RootTypeIO
		trace = append(trace, "root-type io")
		res.Count("spec:c13-io-roots")
	}
	a := randomContents(r, g, r.Intn(10))
	if io {
		a = contents{}
	}
	pool := append([][]byte{}, g.pool...)
	for i := 0; i < 4; i++ {
		pool = append(pool, g.fresh())
	}
	if len(pool) == 0 {
		pool = append(pool, []byte{})
	}
	cur := contents{}
	if err := buildHistory(r, src, cur, a, pool, 0, false, &trace); err != nil {
		return "spec-c13-error: " + err.Error(), trace
	}
	var wl0 writelog.WriteLog
	var err error
	if !io {
		wl0, _, err = src.commit()
		wl0 = sortLog(wl0)
		trace = append(trace, "commit")
		if err != nil {
			return "spec-c13-error: " + err.Error(), trace
		}
	}
	r1 := src.last
	// The batch: arbitrary ops incl. remove-then-reinsert, insert-then-remove, equal overwrites.
	// In a third of the cases on a database a Commit is REJECTED by the database in the middle of the
	// batch (a version that does not follow the old root) and the same tree goes on and commits
	// properly: the announced transition is still old root -> final root, with the complete log.
	nops := 1 + r.Intn(14)
	failAt := -1
	if !io && src.ndb != nil && r.Chance(1, 3) {
		failAt = r.Intn(nops)
	}
	for i := 0; i < nops; i++ {
		if i == failAt {
			// either a version that does not follow the old root (refused when the batch is opened) or the
			// version of the old root itself, which is already finalized (refused by batch.Commit, after
			// the dirty nodes were handed to the batch)
			badV := src.version + 3
			if r.Bool() && src.version > 0 {
				badV = src.last.Version
			}
			if _, _, ferr := src.tree.Commit(ctx, testNs, badV); ferr == nil {
				return fmt.Sprintf("spec-c13-error: a commit into version %d (old root at %d, finalized) was accepted", badV, src.last.Version), trace
			}
			trace = append(trace, fmt.Sprintf("commit-at-version %d (rejected by the database)", badV))
			res.Count("spec:c13-rejected-commit-then-retry")
		}
		k := pool[r.Intn(len(pool))]
		switch x := r.Intn(10); {
		case x < 5:
			v := genValue(r)
			if old, ok := cur[string(k)]; ok && r.Chance(1, 4) {
				v = old // overwrite with the equal value
			}
			trace = append(trace, fmt.Sprintf("insert %s %s", hx(k), hx(v)))
			cur[string(k)] = v
			err = src.tree.Insert(ctx, k, v)
		case x < 8:
			trace = append(trace, "remove "+hx(k))
			delete(cur, string(k))
			err = src.tree.Remove(ctx, k)
		default:
			trace = append(trace, "remx "+hx(k))
			delete(cur, string(k))
			_, err = src.tree.RemoveExisting(ctx, k)
		}
		if err != nil {
			return "spec-c13-error: " + err.Error(), trace
		}
	}
	wlCommit, _, err := src.commit()
	wlCommit = sortLog(wlCommit)
	trace = append(trace, "commit")
	if err != nil {
		return "spec-c13-error: " + err.Error(), trace
	}
	r2 := src.last
	bContents := cur
	if src.ndb != nil {
		// the committed root must read back completely from the source database (in particular after a
		// rejected commit was retried on the same tree)
		rt := mkvs.NewWithRoot(nil, src.ndb, r2)
		got, rerr := treeContents(rt)
		rt.Close()
		if rerr != nil {
			return fmt.Sprintf("spec-c13-committed-root-unreadable: reading root %s back from the database it was committed to: %v (rejected commits before: %v)", r2.Hash, rerr, failAt >= 0), trace
		}
		if got.String() != bContents.String() {
			return fmt.Sprintf("spec-c13-committed-root-wrong-contents: root %s reads %v, committed %v (rejected commits before: %v)", r2.Hash, got, bContents, failAt >= 0), trace
		}
	}
	var wlDB writelog.WriteLog
	if !r1.Hash.Equal(&r2.Hash) {
		it, err := src.ndb.GetWriteLog(ctx, r1, r2)
		if err != nil {
			return "spec-c13-getwritelog-error: " + err.Error(), trace
		}
		if wlDB, err = drainLog(it); err != nil {
			return "spec-c13-getwritelog-error: " + err.Error(), trace
		}
		wlDB = sortLog(wlDB)
		// The served log must consist of entries Commit reported (entries for keys whose value
		// did not change may be left out; (a) below checks that it still reaches the second root).
		reported := map[string]bool{}
		for _, e := range wlCommit {
			reported[logToString(writelog.WriteLog{e})] = true
		}
		for _, e := range wlDB {
			if !reported[logToString(writelog.WriteLog{e})] {
				return fmt.Sprintf("spec-c13-db-log-differs: Commit returned %s, GetWriteLog served %s", logToString(wlCommit), logToString(wlDB)), trace
			}
		}
	}
	res.Count("spec:c13-transitions")
	// (a) the served log applied to a tree at the first root gives the second root
	for _, wl := range []writelog.WriteLog{wlDB, wlCommit} {
		if r1.Hash.Equal(&r2.Hash) {
			break
		}
		t := mkvs.NewWithRoot(nil, src.ndb, r1)
		perm := append(writelog.WriteLog{}, wl...)
		for i := len(perm) - 1; i > 0; i-- {
			j := r.Intn(i + 1)
			perm[i], perm[j] = perm[j], perm[i]
		}
		if err := t.ApplyWriteLog(ctx, writelog.NewStaticIterator(perm)); err != nil {
			t.Close()
			return "spec-c13-error: " + err.Error(), trace
		}
		_, h, err := t.Commit(ctx, testNs, r2.Version, mkvs.NoPersist())
		t.Close()
		if err != nil {
			return "spec-c13-error: " + err.Error(), trace
		}
		if !h.Equal(&r2.Hash) {
			return fmt.Sprintf("spec-c13-log-does-not-reach-root: log %s applied at %s gives %s, expected %s", logToString(wl), r1.Hash, h, r2.Hash), trace
		}
	}
	// (b,c) checked Apply on a second database
	dst := newImpl(backend, 0, 0)
	defer dst.close()
	rc, _ := storageApi.NewRootCache(dst.ndb)
	empty := emptyRoot()
	empty.Type = r1.Type
	if !r1.Hash.IsEmpty() {
		if _, err := rc.Apply(ctx, empty, r1, wl0); err != nil {
			return "spec-c13-apply-error: initial apply: " + err.Error(), trace
		}
		if !io {
			if err := dst.ndb.Finalize([]node.Root{r1}); err != nil {
				return "spec-c13-apply-error: finalize: " + err.Error(), trace
			}
		}
	} else if !io {
		// version 0 holds only the empty root; finalize it so that version 1 can follow
		_ = dst.ndb.Finalize([]node.Root{r1})
	}
	checkApplied := func(what string, wl writelog.WriteLog) string {
		rootsBefore, _ := dst.ndb.GetRootsForVersion(r2.Version)
		_, err := rc.Apply(ctx, r1, r2, wl)
		has := dst.ndb.HasRoot(r2)
		if err != nil {
			if has && !r2.Hash.IsEmpty() {
				return fmt.Sprintf("spec-c13-failed-apply-left-root: %s log %s: Apply failed (%v) but root %s is present", what, logToString(wl), err, r2.Hash)
			}
			// nothing at all may have been persisted: the destination version holds exactly the roots
			// it held before (a log that does not hash to the announced root must not leave the root it
			// does hash to behind either)
			rootsAfter, _ := dst.ndb.GetRootsForVersion(r2.Version)
			show := func(rs []node.Root) string {
				var l []string
				for _, x := range rs {
					l = append(l, fmt.Sprintf("%d:%s", x.Type, x.Hash))
				}
				sort.Strings(l)
				return strings.Join(l, ",")
			}
			if show(rootsBefore) != show(rootsAfter) {
				return fmt.Sprintf("spec-c13-failed-apply-persisted-a-root: %s log %s: Apply failed (%v) but version %d now holds roots [%s], before [%s]", what, logToString(wl), err, r2.Version, show(rootsAfter), show(rootsBefore))
			}
			res.Count("spec:c13-failed-apply-persisted-nothing")
			return ""
		}
		if !has {
			return fmt.Sprintf("spec-c13-apply-without-root: %s log %s: Apply succeeded but root is absent", what, logToString(wl))
		}
		t := mkvs.NewWithRoot(nil, dst.ndb, r2)
		defer t.Close()
		c, err := treeContents(t)
		if err != nil {
			return "spec-c13-error: " + err.Error()
		}
		if c.String() != bContents.String() {
			return fmt.Sprintf("spec-c13-wrong-contents-persisted: %s log %s: contents under %s are %v, expected %v", what, logToString(wl), r2.Hash, c, bContents)
		}
		return ""
	}
	if !r1.Hash.Equal(&r2.Hash) {
		for j := 0; j < 4; j++ {
			bad := append(writelog.WriteLog{}, wlCommit...)
			what := ""
			switch x := r.Intn(5); {
			case x == 0 && len(bad) > 0:
				i := r.Intn(len(bad))
				bad = append(bad[:i:i], bad[i+1:]...)
				what = "dropped-entry"
			case x == 1 && len(bad) > 0:
				e := bad[r.Intn(len(bad))]
				bad = append(bad, writelog.LogEntry{Key: e.Key, Value: genValue(r)})
				what = "duplicated-entry"
			case x == 2 && len(bad) > 0:
				i := r.Intn(len(bad))
				v := append([]byte{}, bad[i].Value...)
				if bad[i].Value == nil || len(v) == 0 {
					v = []byte{7}
				} else {
					v[r.Intn(len(v))] ^= 1 << uint(r.Intn(8))
				}
				bad[i] = writelog.LogEntry{Key: bad[i].Key, Value: v}
				what = "altered-value"
			case x == 3 && len(bad) > 0:
				i := r.Intn(len(bad))
				k := append([]byte{}, bad[i].Key...)
				if len(k) == 0 {
					k = []byte{1}
				} else {
					k[r.Intn(len(k))] ^= 1 << uint(r.Intn(8))
				}
				bad[i] = writelog.LogEntry{Key: k, Value: bad[i].Value}
				what = "altered-key"
			default:
				for i := len(bad) - 1; i > 0; i-- {
					k := r.Intn(i + 1)
					bad[i], bad[k] = bad[k], bad[i]
				}
				what = "reordered"
			}
			res.Count("spec:c13-corrupt-" + what)
			if d := checkApplied(what, bad); d != "" {
				return d, trace
			}
			if dst.ndb.HasRoot(r2) {
				res.Count("spec:c13-corrupt-accepted-with-right-contents")
				break
			}
		}
	}
	if d := checkApplied("served", wlCommit); d != "" {
		return d, trace
	}
	if !dst.ndb.HasRoot(r2) {
		return "spec-c13-apply-without-root: served log applied, root absent", trace
	}
	res.Count("spec:c13-applied")
	return "", nil
}

func specSig(d string) string {
	if i := strings.Index(d, ":"); i > 0 {
		return d[:i]
	}
	return "spec-other"
}

func runSpecCase(kind string, state uint64, res *hlib.Result) {
	d, trace := runSpecOnce(kind, state, res)
	res.Cases++
	if d == "" {
		res.Distinct++
		return
	}
	sig := specSig(d)
	// Attribute to eviction if limited caches were in use and the same case passes with unlimited ones.
	// The two listed mechanisms (cache.go) are recognised conservatively from what the case could have
	// built: D2b needs a node capacity below 2*height+1 of the trie over every key the case generated
	// (height is monotone in the key set, and no write dereferences more than 2*height nodes); D1b
	// needs an embedded leaf, i.e. a key that is a proper prefix of another one.
	scratch := hlib.NewResult("scratch", 0)
	limited := limitedCapsUsed
	nodeCap := smallestNodeCapUsed
	universe := keyUniverse
	forceCaps = "all0"
	if d0, _ := runSpecOnce(kind, state, scratch); limited && d0 == "" {
		forceCaps = "node0"
		dn, _ := runSpecOnce(kind, state, scratch)
		forceCaps = "val0"
		dv, _ := runSpecOnce(kind, state, scratch)
		h, _ := trieShape(universe)
		sn, sv := sigNodeSufficient, sigValueOther
		if nodeCap > 0 && nodeCap < uint64(2*h+1) {
			sn = sigNodeBelowNeed
		}
		if hasPrefixKey(universe) {
			sv = sigValueEmbedded
		}
		switch {
		case dn != "" && dv == "":
			sig = sv
		case dn == "" && dv != "":
			sig = sn
		case dn != "" && dv != "":
			sig = sn
			if sn == sigNodeBelowNeed && sv == sigValueOther {
				sig = sv
			}
		default:
			sig = sigNodeSufficient
			if sn == sigNodeBelowNeed {
				sig = sn
			} else if sv == sigValueEmbedded {
				sig = sv
			}
		}
		d = sig + " (the failure disappears with unlimited caches; " + describeEviction(sig) + "): " + d
	}
	forceCaps = ""
	c := []string{fmt.Sprintf("spec %s %d", kind, state)}
	for _, t := range trace {
		c = append(c, "# "+clip(t))
	}
	res.Fail(hlib.Failure{Kind: "spec", Detail: clip(d), Case: c, Seed: state, Sig: sig})
}

func runSpecOnce(kind string, state uint64, res *hlib.Result) (d string, trace []string) {
	limitedCapsUsed = false
	smallestNodeCapUsed = 0
	keyUniverse = nil
	r := hlib.FromState(state)
	func() {
		defer func() {
			if p := recover(); p != nil {
				d = fmt.Sprintf("spec-%s-panic: %v", kind, p)
			}
		}()
		switch kind {
		case "c02":
			d, trace = specC02(r, res)
		case "c03":
			d, trace = specC03(r, res)
		case "c13":
			d, trace = specC13(r, res)
		case "c02fault", "c03fault":
			d, trace = specFault(kind, r, res)
		case "c02faultall", "c03faultall":
			d, trace = specFaultAll(kind, r, state == 0, res)
		case "c13retry":
			d, trace = specRetryFixed(res)
		case "c03retry", "c03commit":
			// the clause C03 shares with C13: a root committed after a rejected commit (and further
			// writes) reads back, through a fresh tree, with exactly the contents written
			if kind == "c03retry" {
				d, trace = specRetryFixed(res)
			} else {
				d, trace = specC13(r, res)
			}
			if strings.HasPrefix(d, "spec-c13-committed-root-") {
				d = "spec-c03-" + strings.TrimPrefix(d, "spec-c13-")
			} else {
				d = "" // the write-log clauses are C13's
			}
		case "c13twohop":
			d, trace = specTwoHop(r, res)
		case "c13forktypes":
			d, trace = specForkTypes(r, res)
		case "c03nilkey":
			d, trace = specNilKey(res)
		case "c03nilval":
			d, trace = specNilValue(res)
		}
	}()
	return
}

// specNilKey: the empty key given as a nil slice must behave like the empty key given as an empty
// non-nil slice (the API takes []byte and accepts both).
func specNilKey(res *hlib.Result) (string, []string) {
	res.Count("spec:c03-nil-key")
	trace := []string{"new mem", "insert <nil> 76", "insert 01 77"}
	t := mkvs.New(nil, nil, node.RootTypeState)
	defer t.Close()
	if err := t.Insert(ctx, nil, []byte("v")); err != nil {
		return "spec-c03-error: " + err.Error(), trace
	}
	if err := t.Insert(ctx, []byte{1}, []byte("w")); err != nil {
		return "spec-c03-error: " + err.Error(), trace
	}
	items, err := iterate(t, []byte{}, 10)
	if err != nil {
		return "spec-c03-error: " + err.Error(), trace
	}
	if showItems(items) != "-:76,01:77" {
		return "spec-c03-nil-key: after Insert(nil,\"v\"), Insert(01,\"w\") iteration yields " + showItems(items) + ", expected -:76,01:77", append(trace, "iter -")
	}
	if _, _, err = t.Commit(ctx, testNs, 0); err != nil {
		return "spec-c03-error: " + err.Error(), trace
	}
	v, err := t.Get(ctx, []byte{})
	if err != nil {
		return "spec-c03-error: " + err.Error(), trace
	}
	if string(v) != "v" {
		return "spec-c03-nil-key: after Insert(nil,\"v\") and Commit, Get([]byte{}) returns " + hxOpt(v) + ", expected 76", append(trace, "commit", "get -")
	}
	if err = t.Insert(ctx, []byte{}, []byte("x")); err != nil {
		return "spec-c03-error: " + err.Error(), trace
	}
	if v, _ = t.Get(ctx, nil); string(v) != "x" {
		return "spec-c03-nil-key: after Insert([]byte{},\"x\") Get(nil) returns " + hxOpt(v), append(trace, "insert - 78", "get <nil>")
	}
	return "", nil
}

// specNilValue: a nil value is the empty value (tree.Insert says so); an overlay must agree.
func specNilValue(res *hlib.Result) (string, []string) {
	res.Count("spec:c03-nil-value")
	trace := []string{"new mem", "onew", "insert 01 <nil>", "get 01"}
	t := mkvs.New(nil, nil, node.RootTypeState)
	defer t.Close()
	o := mkvs.NewOverlay(t)
	if err := o.Insert(ctx, []byte{1}, nil); err != nil {
		return "spec-c03-error: " + err.Error(), trace
	}
	v, _ := o.Get(ctx, []byte{1})
	if _, err := o.Commit(ctx); err != nil {
		return "spec-c03-error: " + err.Error(), trace
	}
	v2, _ := t.Get(ctx, []byte{1})
	if (v == nil) != (v2 == nil) {
		return fmt.Sprintf("spec-c03-overlay-nil-value: overlay Insert(01,nil): overlay Get says present=%v, after overlay Commit the tree says present=%v", v != nil, v2 != nil), append(trace, "ocommit", "get 01")
	}
	return "", nil
}

func runSpec(rng *hlib.Rng, n int, focus string, res *hlib.Result) {
	seen := map[string]bool{}
	for _, f := range res.Failures {
		seen[f.Sig] = true
	}
	if (focus == "c02" || focus == "c03") && n > 0 {
		// every single write x every fault position on a fixed tree with a prefix chain
		runSpecCase(focus+"faultall", 0, res)
	}
	if focus == "c13" && n > 0 {
		runSpecCase("c13retry", 0, res)
	}
	if focus == "c03" && n > 0 {
		runSpecCase("c03retry", 0, res)
		runSpecCase("c03nilkey", 0, res)
		runSpecCase("c03nilval", 0, res)
		for _, f := range res.Failures {
			seen[f.Sig] = true
		}
	}
	for i := 0; i < n && len(res.Failures) < 10; i++ {
		cr := rng.Fork()
		before := len(res.Failures)
		kind := focus
		if focus == "c13" && i%5 == 4 {
			// chains of roots inside one version (hashed backend): the log served for (start, end) over
			// two hops must lead from the start root to the end root
			kind = "c13twohop"
		}
		if focus == "c13" && i%5 == 2 {
			// competing state roots finalized together with an I/O root of the same version
			kind = "c13forktypes"
		}
		if focus == "c03" && i%7 == 5 {
			kind = "c03commit"
		}
		if (focus == "c02" || focus == "c03") && i%3 == 2 {
			// fault histories: a failed operation on a lazily loaded tree has no effect (fault.go)
			kind = focus + "fault"
			if i%12 == 2 {
				kind = focus + "faultall"
			}
		}
		runSpecCase(kind, cr.Seed(), res)
		if len(res.Failures) > before {
			// one witness per signature
			sig := res.Failures[len(res.Failures)-1].Sig
			if seen[sig] {
				res.Failures = res.Failures[:before]
				res.Count("repeat:" + sig)
			}
			seen[sig] = true
		}
	}
}

func replaySpec(ops []string, res *hlib.Result) {
	w := strings.Fields(ops[0])
	if len(w) < 3 {
		return
	}
	st, err := strconv.ParseUint(w[2], 10, 64)
	if err != nil {
		return
	}
	runSpecCase(w[1], st, res)
}


// specRetryFixed: a Commit that the database rejects at batch.Commit — after the dirty nodes were handed
// to the batch (the version is already finalized) — must leave the tree committable: more writes, then a
// proper Commit, and the committed root reads back completely. On the path-keyed backend the rejected
// batch used to leave the positions it had assigned in the tree's pointers (fixed in /repo, see
// known-findings.txt): the retried commit stored nodes under colliding positions or failed with "no new
// root node, but new root hash not equal to old".
func specRetryFixed(res *hlib.Result) (string, []string) {
	for _, backend := range []string{"badgermem", "pathbadgermem"} {
		im := newImpl(backend, 0, 0)
		trace := []string{"new " + backend}
		fail := func(f string, a ...any) (string, []string) {
			im.close()
			return fmt.Sprintf("spec-c13-committed-root-unreadable: %s: %s", backend, fmt.Sprintf(f, a...)), trace
		}
		want := contents{}
		put := func(k, v []byte) error {
			want[string(k)] = v
			trace = append(trace, "insert "+hx(k)+" "+hx(v))
			return im.tree.Insert(ctx, k, v)
		}
		// (the history is a minimised generated one: an empty first version, a batch with one insert,
		// the rejected commit, then a batch that adds three keys)
		if _, _, err := im.commit(); err != nil {
			return fail("first commit: %v", err)
		}
		trace = append(trace, "commit")
		if err := put([]byte{0xbe, 0xee, 0xe9}, []byte{0x00}); err != nil {
			return fail("%v", err)
		}
		if _, _, err := im.tree.Commit(ctx, testNs, im.last.Version); err == nil {
			return fail("a commit into the finalized version %d was accepted", im.last.Version)
		}
		trace = append(trace, fmt.Sprintf("commit-at-version %d (rejected by the database)", im.last.Version))
		for _, kv := range [][2][]byte{{{0xff}, {0x03}}, {{}, {0x02}}, {{0x01, 0x01}, {0xc0, 0x14, 0x99, 0xa7}}} {
			if err := put(kv[0], kv[1]); err != nil {
				return fail("%v", err)
			}
		}
		if _, _, err := im.commit(); err != nil {
			return fail("commit after a rejected commit on the same tree: %v", err)
		}
		trace = append(trace, "commit")
		rt := mkvs.NewWithRoot(nil, im.ndb, im.last)
		got, err := treeContents(rt)
		rt.Close()
		if err != nil {
			return fail("reading the committed root back: %v", err)
		}
		if got.String() != want.String() {
			return fail("the committed root reads %v, committed %v", got, want)
		}
		im.close()
		res.Count("spec:c13-retry-fixed-scenario:" + backend)
	}
	return "", nil
}


// specTwoHop: the hashed (badger) backend serves write logs for a CHAIN of roots inside one version
// (empty -> i -> io, as a runtime's I/O tree is built): the log served for (start, end) over two hops —
// and for each single hop — applied to a tree at the start root must give exactly the end root; the second
// hop overwrites and removes keys the first hop wrote.
func specTwoHop(r *hlib.Rng, res *hlib.Result) (string, []string) {
	g := &keygen{r: r}
	src := newImpl("badgermem", 0, 0)
	defer src.close()
	src.tree.Close()
	src.tree = mkvs.New(nil, src.ndb, node.RootTypeIO)
	const version = 1
	trace := []string{"new badgermem", "root-type io"}
	rootOf := func(h hash.Hash) node.Root {
		return node.Root{Namespace: testNs, Version: version, Type: node.RootTypeIO, Hash: h}
	}
	var empty hash.Hash
	empty.Empty()
	roots := []node.Root{rootOf(empty)}
	conts := []contents{{}}
	cur := contents{}
	var pool [][]byte
	for i := 0; i < 3+r.Intn(5); i++ {
		pool = append(pool, g.key())
	}
	for hop := 0; hop < 2+r.Intn(2); hop++ {
		for i := 0; i < 1+r.Intn(6); i++ {
			k := pool[r.Intn(len(pool))]
			var err error
			if _, ok := cur[string(k)]; ok && r.Chance(1, 3) {
				trace = append(trace, "remove "+hx(k))
				delete(cur, string(k))
				err = src.tree.Remove(ctx, k)
			} else {
				v := genValue(r)
				trace = append(trace, fmt.Sprintf("insert %s %s", hx(k), hx(v)))
				cur[string(k)] = v
				err = src.tree.Insert(ctx, k, v)
			}
			if err != nil {
				return "spec-c13-error: " + err.Error(), trace
			}
		}
		_, h, err := src.tree.Commit(ctx, testNs, version)
		if err != nil {
			return "spec-c13-error: commit of hop: " + err.Error(), trace
		}
		trace = append(trace, "commit (same version)")
		if h.Equal(&roots[len(roots)-1].Hash) {
			continue
		}
		repeat := false
		for _, x := range roots {
			repeat = repeat || h.Equal(&x.Hash)
		}
		if repeat {
			break // the chain came back to an earlier root: (start, end) is no longer a path
		}
		roots = append(roots, rootOf(h))
		conts = append(conts, cur.clone())
	}
	for i := 0; i < len(roots); i++ {
		// (the backend searches at most two hops back: `maxAllowedHops = 2` in badger GetWriteLog)
		for j := i + 1; j < len(roots) && j <= i+2; j++ {
			it, err := src.ndb.GetWriteLog(ctx, roots[i], roots[j])
			if err != nil {
				return fmt.Sprintf("spec-c13-getwritelog-error: chain of %d hops (%d -> %d): %v", j-i, i, j, err), trace
			}
			wl, err := drainLog(it)
			if err != nil {
				return fmt.Sprintf("spec-c13-getwritelog-error: chain of %d hops: %v", j-i, err), trace
			}
			// replay in the served order on the start contents
			got := conts[i].clone()
			for _, e := range wl {
				if e.Value == nil {
					delete(got, string(e.Key))
				} else {
					got[string(e.Key)] = e.Value
				}
			}
			if got.String() != conts[j].String() {
				return fmt.Sprintf("spec-c13-log-does-not-reach-root: the log served for a chain of %d hops inside one version (%s) applied to %v gives %v, the end root holds %v", j-i, logToString(wl), conts[i], got, conts[j]), trace
			}
			res.Count(fmt.Sprintf("spec:c13-chain-log-%d-hops", j-i))
		}
	}
	return "", nil
}

// specForkTypes (kind c13forktypes): one version with TWO root types. A state and an I/O root of
// the previous version are finalized; at the next version two competing state roots are committed
// from the same parent (so they get different batch sequence numbers on the path-keyed backend) and
// one I/O root; the state candidate chosen by the seed and the I/O root are finalized together.
// GetWriteLog(previous root, finalized root) must be served for both types and, applied to the
// previous contents, give exactly the finalized contents — never a discarded candidate's.
func specForkTypes(r *hlib.Rng, res *hlib.Result) (string, []string) {
	g := &keygen{r: r}
	// the path-keyed backend only: on the hashed backend competing candidates of one version run into
	// the known findings D3/D7 (covered, with their signatures, by the fork histories)
	backend := "pathbadgermem"
	im := newImpl(backend, 0, 0)
	defer im.close()
	trace := []string{"new " + backend}
	res.Count("forktypes:" + backend)
	var pool [][]byte
	for i := 0; i < 4+r.Intn(5); i++ {
		pool = append(pool, g.key())
	}
	write := func(t mkvs.Tree, cur contents, tag string) error {
		for i := 0; i < 1+r.Intn(5); i++ {
			k := pool[r.Intn(len(pool))]
			if _, ok := cur[string(k)]; ok && r.Chance(1, 4) {
				trace = append(trace, tag+" remove "+hx(k))
				delete(cur, string(k))
				if err := t.Remove(ctx, k); err != nil {
					return err
				}
				continue
			}
			v := genValue(r)
			trace = append(trace, fmt.Sprintf("%s insert %s %s", tag, hx(k), hx(v)))
			cur[string(k)] = v
			if err := t.Insert(ctx, k, v); err != nil {
				return err
			}
		}
		return nil
	}
	commit := func(parent *node.Root, typ node.RootType, version uint64, base contents, tag string) (node.Root, contents, error) {
		var t mkvs.Tree
		if parent == nil {
			t = mkvs.New(nil, im.ndb, typ)
		} else {
			t = mkvs.NewWithRoot(nil, im.ndb, *parent)
		}
		defer t.Close()
		cur := base.clone()
		if err := write(t, cur, tag); err != nil {
			return node.Root{}, nil, err
		}
		_, h, err := t.Commit(ctx, testNs, version)
		if err != nil {
			return node.Root{}, nil, err
		}
		trace = append(trace, fmt.Sprintf("%s commit v%d", tag, version))
		return node.Root{Namespace: testNs, Version: version, Type: typ, Hash: h}, cur, nil
	}
	fail := func(sig, f string, a ...any) (string, []string) {
		return sig + ": " + backend + ": " + fmt.Sprintf(f, a...), trace
	}
	s0, cs0, err := commit(nil, node.RootTypeState, 1, contents{}, "state")
	if err != nil {
		return fail("spec-c13-error", "%v", err)
	}
	i0, ci0, err := commit(nil, node.RootTypeIO, 1, contents{}, "io")
	if err != nil {
		return fail("spec-c13-error", "%v", err)
	}
	if err = im.ndb.Finalize([]node.Root{s0, i0}); err != nil {
		return fail("spec-c13-error", "finalize 1: %v", err)
	}
	// order of the three commits of version 2 is seed-chosen
	type cand struct {
		root node.Root
		cont contents
	}
	var states []cand
	var io cand
	order := [][]string{{"a", "b", "io"}, {"a", "io", "b"}, {"io", "a", "b"}}[r.Intn(3)]
	for _, o := range order {
		if o == "io" {
			// I/O roots are built from scratch in every version (they cannot have child roots)
			rt, c, err := commit(nil, node.RootTypeIO, 2, contents{}, "io")
			if err != nil {
				return fail("spec-c13-error", "%v", err)
			}
			io = cand{rt, c}
			continue
		}
		rt, c, err := commit(&s0, node.RootTypeState, 2, cs0, "state-"+o)
		if err != nil {
			return fail("spec-c13-error", "%v", err)
		}
		states = append(states, cand{rt, c})
	}
	if states[0].root.Hash.Equal(&states[1].root.Hash) || states[0].root.Hash.Equal(&s0.Hash) || states[1].root.Hash.Equal(&s0.Hash) || io.root.Hash.IsEmpty() {
		res.Count("forktypes:degenerate")
		return "", trace
	}
	pick := r.Intn(2)
	trace = append(trace, fmt.Sprintf("finalize v2 state candidate %d + io", pick))
	if err = im.ndb.Finalize([]node.Root{states[pick].root, io.root}); err != nil {
		return fail("spec-c13-error", "finalize 2: %v", err)
	}
	check := func(from, to node.Root, base, want contents, what string) (string, []string) {
		it, err := im.ndb.GetWriteLog(ctx, from, to)
		if err != nil {
			return fail("spec-c13-finalized-write-log-not-served", "%s: %v", what, err)
		}
		wl, err := drainLog(it)
		if err != nil {
			return fail("spec-c13-finalized-write-log-not-served", "%s: %v", what, err)
		}
		got := base.clone()
		for _, e := range wl {
			if e.Value == nil {
				delete(got, string(e.Key))
			} else {
				got[string(e.Key)] = e.Value
			}
		}
		if got.String() != want.String() {
			return fail("spec-c13-write-log-of-finalized-root-leads-elsewhere", "%s: the served log applied to the previous contents gives %s, the finalized root holds %s", what, got.String(), want.String())
		}
		// and the finalized root itself reads back
		t := mkvs.NewWithRoot(nil, im.ndb, to)
		defer t.Close()
		for k, v := range want {
			gv, err := t.Get(ctx, []byte(k))
			if err != nil || !bytes.Equal(gv, v) {
				return fail("spec-c13-committed-root-unreadable", "%s: key %s reads %s (%v)", what, hx([]byte(k)), hx(gv), err)
			}
		}
		return "", nil
	}
	if d, tr := check(s0, states[pick].root, cs0, states[pick].cont, "state root"); d != "" {
		return d, tr
	}
	var emptyHash hash.Hash
	emptyHash.Empty()
	emptyIO := node.Root{Namespace: testNs, Version: 2, Type: node.RootTypeIO, Hash: emptyHash}
	if d, tr := check(emptyIO, io.root, contents{}, io.cont, "io root"); d != "" {
		return d, tr
	}
	_ = ci0
	res.Count("forktypes:checked")
	return "", trace
}
