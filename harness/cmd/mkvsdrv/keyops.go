package main

// Byte-level key operations (go/storage/mkvs/node/key.go: Split, Merge, CommonPrefixLen,
// AppendBit, GetBit) compared with the Lean transcription on bytes and with the bit-list
// operations the trie and iterator models use (C02: labels are split and merged with these).

import (
	"fmt"
	"strings"

	"verifharness/hlib"

	"github.com/oasisprotocol/oasis-core/go/storage/mkvs/node"
)

func b01(b bool) string {
	if b {
		return "1"
	}
	return "0"
}

var keyOps = map[string]bool{"ksplit": true, "kmerge": true, "kcpl": true, "kappend": true, "kgetbit": true}

// execKeyOp runs one generated key op on the real node.Key and returns the annotated line.
func execKeyOp(w []string) string {
	switch w[0] {
	case "ksplit":
		k := node.Key(unhx(w[1]))
		pre, suf := k.Split(node.Depth(atoi(w[2])), node.Depth(atoi(w[3])))
		return fmt.Sprintf("ksplit %s %s %s %s %s", w[1], w[2], w[3], hx(pre), hx(suf))
	case "kmerge":
		k, k2 := node.Key(unhx(w[1])), node.Key(unhx(w[3]))
		res := k.Merge(node.Depth(atoi(w[2])), k2, node.Depth(atoi(w[4])))
		return fmt.Sprintf("kmerge %s %s %s %s %s", w[1], w[2], w[3], w[4], hx(res))
	case "kcpl":
		k, k2 := node.Key(unhx(w[1])), node.Key(unhx(w[3]))
		n := k.CommonPrefixLen(node.Depth(atoi(w[2])), k2, node.Depth(atoi(w[4])))
		return fmt.Sprintf("kcpl %s %s %s %s %d", w[1], w[2], w[3], w[4], n)
	case "kappend":
		k := node.Key(unhx(w[1]))
		res := k.AppendBit(node.Depth(atoi(w[2])), w[3] == "1")
		return fmt.Sprintf("kappend %s %s %s %s", w[1], w[2], w[3], hx(res))
	case "kgetbit":
		k := node.Key(unhx(w[1]))
		return fmt.Sprintf("kgetbit %s %s %s", w[1], w[2], b01(k.GetBit(node.Depth(atoi(w[2])))))
	}
	panic("unknown key op " + strings.Join(w, " "))
}

// bitKey returns a well-formed key of `bits` bits: ToBytes(bits) bytes, unused low bits zero.
func bitKey(r *hlib.Rng, bits int) []byte {
	n := (bits + 7) / 8
	b := make([]byte, n)
	for i := range b {
		switch r.Intn(4) {
		case 0:
			b[i] = alphabet[r.Intn(len(alphabet))]
		case 1:
			b[i] = 0xff
		default:
			b[i] = byte(r.Intn(256))
		}
	}
	if bits%8 != 0 {
		b[n-1] &= 0xff << uint(8-bits%8)
	}
	return b
}

func genKeyCase(r *hlib.Rng, nops int, res *hlib.Result) []string {
	ops := []string{"new"}
	bitsOf := func() int {
		switch r.Intn(5) {
		case 0:
			return r.Intn(4) * 8
		case 1:
			return r.Intn(20)
		default:
			return r.Intn(70)
		}
	}
	for i := 0; i < nops; i++ {
		switch r.Intn(5) {
		case 0:
			kl := bitsOf()
			sp := r.Intn(kl + 1)
			ops = append(ops, fmt.Sprintf("ksplit %s %d %d", hx(bitKey(r, kl)), sp, kl))
			res.Count("keyop:split")
		case 1:
			kl, k2l := bitsOf(), bitsOf()
			ops = append(ops, fmt.Sprintf("kmerge %s %d %s %d", hx(bitKey(r, kl)), kl, hx(bitKey(r, k2l)), k2l))
			res.Count("keyop:merge")
		case 2:
			kl, k2l := bitsOf(), bitsOf()
			k := bitKey(r, kl)
			k2 := bitKey(r, k2l)
			if r.Chance(2, 3) {
				// share a prefix
				m := kl
				if k2l < m {
					m = k2l
				}
				c := r.Intn(m + 1)
				for j := 0; j < c; j++ {
					mask := byte(0x80 >> uint(j%8))
					k2[j/8] = k2[j/8]&^mask | k[j/8]&mask
				}
			}
			ops = append(ops, fmt.Sprintf("kcpl %s %d %s %d", hx(k), kl, hx(k2), k2l))
			res.Count("keyop:cpl")
		case 3:
			kl := bitsOf()
			// the key handed to AppendBit has ToBytes(keyLen) bytes or fewer (iterator: a shorter seek key)
			have := kl
			if r.Chance(1, 3) {
				have = r.Intn(kl/8+1) * 8
			}
			ops = append(ops, fmt.Sprintf("kappend %s %d %s", hx(bitKey(r, have)), kl, b01(r.Bool())))
			res.Count("keyop:appendbit")
		default:
			kl := 1 + bitsOf()
			ops = append(ops, fmt.Sprintf("kgetbit %s %d", hx(bitKey(r, kl)), r.Intn(((kl+7)/8)*8)))
			res.Count("keyop:getbit")
		}
	}
	return ops
}
