package main

// Fault histories (spec kinds c02fault / c03fault): a lazily loaded tree (NewWithRoot over a
// ReadSyncer that serves a committed source tree) is driven while the syncer fails on demand.
// Specification: an operation that returns an error has no effect on the contents — every later
// answer (get, remove-existing, iteration) and the root committed afterwards are those of the
// reference map to which only the SUCCESSFUL writes were applied ("lazy loading from the node
// database never changes any answer", C03; "the root is a function of the contents", C02).
// The fault is the k-th fetch after arming, so it hits below the root once the upper levels of the
// path are resident; the failed call is then retried without fault, or other writes follow.

import (
	"bytes"
	"context"
	"errors"
	"fmt"
	"strings"

	"verifharness/hlib"

	"github.com/oasisprotocol/oasis-core/go/common/crypto/hash"
	"github.com/oasisprotocol/oasis-core/go/storage/mkvs"
	db "github.com/oasisprotocol/oasis-core/go/storage/mkvs/db/api"
	"github.com/oasisprotocol/oasis-core/go/storage/mkvs/node"
	"github.com/oasisprotocol/oasis-core/go/storage/mkvs/syncer"
)

var errInjected = errors.New("verif: injected read fault")

type faultySyncer struct {
	inner syncer.ReadSyncer
	// countdown > 0: the countdown-th call from now fails; 0: disarmed.
	countdown int
	fired     int
	calls     int
}

func (f *faultySyncer) tick() error {
	f.calls++
	if f.countdown > 0 {
		f.countdown--
		if f.countdown == 0 {
			f.fired++
			return errInjected
		}
	}
	return nil
}

func (f *faultySyncer) SyncGet(c context.Context, rq *syncer.GetRequest) (*syncer.ProofResponse, error) {
	if err := f.tick(); err != nil {
		return nil, err
	}
	return f.inner.SyncGet(c, rq)
}

func (f *faultySyncer) SyncGetPrefixes(c context.Context, rq *syncer.GetPrefixesRequest) (*syncer.ProofResponse, error) {
	if err := f.tick(); err != nil {
		return nil, err
	}
	return f.inner.SyncGetPrefixes(c, rq)
}

func (f *faultySyncer) SyncIterate(c context.Context, rq *syncer.IterateRequest) (*syncer.ProofResponse, error) {
	if err := f.tick(); err != nil {
		return nil, err
	}
	return f.inner.SyncIterate(c, rq)
}

// expectedErr: the injected fault, or the documented limitation of the remote client (a fetch cannot be
// merged below locally modified nodes: "merging into non-clean subtree not yet supported").
func expectedErr(fs *faultySyncer, firedBefore int, err error) bool {
	return fs.fired != firedBefore || strings.Contains(err.Error(), "merging into non-clean subtree not yet supported")
}

type faultyDB struct {
	db.NodeDB
	fs *faultySyncer
}

func (f *faultyDB) GetNode(root node.Root, ptr *node.Pointer) (node.Node, error) {
	if err := f.fs.tick(); err != nil {
		return nil, err
	}
	return f.NodeDB.GetNode(root, ptr)
}

// specFault runs one fault history. kind "c03fault" reports answer divergences, "c02fault" the root.
func specFault(kind string, r *hlib.Rng, res *hlib.Result) (string, []string) {
	g := &keygen{r: r}
	// source tree with the initial contents
	// mode: lazily loaded through a ReadSyncer (remote client) or through a NodeDB whose GetNode fails
	backend := []string{"mem", "badgermem", "pathbadgermem"}[r.Intn(3)]
	src := newImpl(backend, 0, 0)
	defer src.close()
	ref := randomContents(r, g, 6+r.Intn(40))
	trace := []string{fmt.Sprintf("# source contents %v", ref)}
	for _, k := range ref.sortedKeys() {
		if err := src.tree.Insert(ctx, []byte(k), ref[k]); err != nil {
			return "spec-" + kind + "-error: " + err.Error(), trace
		}
	}
	if _, _, err := src.commit(); err != nil {
		return "spec-" + kind + "-error: " + err.Error(), trace
	}
	fs := &faultySyncer{}
	var t mkvs.Tree
	// unlimited caches: eviction (D1b/D2b) is a different subject
	if src.ndb == nil {
		fs.inner = src.tree
		t = mkvs.NewWithRoot(fs, nil, src.last, mkvs.Capacity(0, 0))
		trace = append(trace, "open remote tree (ReadSyncer) at the source root")
		res.Count("fault:mode-remote-syncer")
	} else {
		t = mkvs.NewWithRoot(nil, &faultyDB{NodeDB: src.ndb, fs: fs}, src.last, mkvs.Capacity(0, 0))
		trace = append(trace, "open tree over "+backend+" (GetNode may fail) at the source root")
		res.Count("fault:mode-nodedb-" + backend)
	}
	defer t.Close()
	failedOps := 0
	n := 8 + r.Intn(40)
	for i := 0; i < n; i++ {
		arm := 0
		if r.Chance(1, 2) {
			arm = 1 + r.Intn(3)
		}
		fs.countdown = arm
		firedBefore := fs.fired
		switch x := r.Intn(100); {
		case x < 35:
			k, v := g.key(), genValue(r)
			trace = append(trace, fmt.Sprintf("arm %d; insert %s %s", arm, hx(k), hx(v)))
			err := t.Insert(ctx, k, v)
			fs.countdown = 0
			if err != nil {
				if !expectedErr(fs, firedBefore, err) {
					return "spec-" + kind + "-error: insert failed without an injected fault: " + err.Error(), trace
				}
				failedOps++
				res.Count("fault:insert-failed")
				trace = append(trace, "  -> error (no effect expected)")
				if fs.fired != firedBefore && r.Chance(2, 3) {
					trace = append(trace, fmt.Sprintf("retry insert %s %s", hx(k), hx(v)))
					if err = t.Insert(ctx, k, v); err != nil {
						if expectedErr(fs, -1, err) && fs.inner != nil {
							break
						}
						return "spec-" + kind + "-error: retried insert failed: " + err.Error(), trace
					}
					ref[string(k)] = v
				}
				break
			}
			ref[string(k)] = v
		case x < 65:
			k := g.key()
			trace = append(trace, fmt.Sprintf("arm %d; remx %s", arm, hx(k)))
			v, err := t.RemoveExisting(ctx, k)
			fs.countdown = 0
			if err != nil {
				if !expectedErr(fs, firedBefore, err) {
					return "spec-" + kind + "-error: remove failed without an injected fault: " + err.Error(), trace
				}
				failedOps++
				res.Count("fault:remove-failed")
				trace = append(trace, "  -> error (no effect expected)")
				if fs.fired == firedBefore || !r.Chance(2, 3) {
					break
				}
				trace = append(trace, "retry remx "+hx(k))
				if v, err = t.RemoveExisting(ctx, k); err != nil {
					if expectedErr(fs, -1, err) && fs.inner != nil {
						break
					}
					return "spec-" + kind + "-error: retried remove failed: " + err.Error(), trace
				}
			}
			want, ok := ref[string(k)]
			if kind == "c03fault" && (ok != (v != nil) || !bytes.Equal(v, want)) {
				return fmt.Sprintf("spec-c03fault-remove-existing: key %s returned %s, map says %s (%d failed operations before)", hx(k), hxOpt(v), hxOpt(want), failedOps), trace
			}
			delete(ref, string(k))
		case x < 85:
			k := g.key()
			trace = append(trace, fmt.Sprintf("arm %d; get %s", arm, hx(k)))
			v, err := t.Get(ctx, k)
			fs.countdown = 0
			if err != nil {
				if !expectedErr(fs, firedBefore, err) {
					return "spec-" + kind + "-error: get failed without an injected fault: " + err.Error(), trace
				}
				res.Count("fault:get-failed")
				break
			}
			want, ok := ref[string(k)]
			if kind == "c03fault" && (ok != (v != nil) || !bytes.Equal(v, want)) {
				return fmt.Sprintf("spec-c03fault-get: key %s returned %s, map says %s (%d failed operations before)", hx(k), hxOpt(v), hxOpt(want), failedOps), trace
			}
		default:
			seek := g.key()
			lim := 1 + r.Intn(6)
			trace = append(trace, fmt.Sprintf("arm %d; iter %s %d", arm, hx(seek), lim))
			items, err := iterate(t, seek, lim)
			fs.countdown = 0
			if err != nil {
				if !expectedErr(fs, firedBefore, err) {
					return "spec-" + kind + "-error: iteration failed without an injected fault: " + err.Error(), trace
				}
				res.Count("fault:iterate-failed")
				break
			}
			var want []kv
			for _, k := range ref.sortedKeys() {
				if bytes.Compare([]byte(k), seek) >= 0 && len(want) < lim {
					want = append(want, kv{[]byte(k), ref[k]})
				}
			}
			if kind == "c03fault" && showItems(items) != showItems(want) {
				return fmt.Sprintf("spec-c03fault-iterate: seek %s gave %s, sorted map says %s (%d failed operations before)", hx(seek), showItems(items), showItems(want), failedOps), trace
			}
		}
	}
	fs.countdown = 0
	if failedOps == 0 {
		res.Count("fault:case-without-failed-write")
	} else {
		res.Count("fault:case-with-failed-write")
	}
	// final read-back and root
	// (by point lookups over every key the case generated: iteration below dirty nodes of a remote
	// tree is not supported by the client)
	seen := map[string]bool{}
	for _, k := range append(append([][]byte{}, keyUniverse...), g.pool...) {
		if seen[string(k)] {
			continue
		}
		seen[string(k)] = true
		v, err := t.Get(ctx, k)
		if err != nil && fs.inner != nil && expectedErr(fs, fs.fired, err) {
			res.Count("fault:readback-unsupported-below-dirty-nodes")
			continue
		}
		if err != nil {
			return fmt.Sprintf("spec-%s-final-readback: get %s: %v (%d failed operations before)", kind, hx(k), err, failedOps), trace
		}
		want, ok := ref[string(k)]
		if kind == "c03fault" && (ok != (v != nil) || !bytes.Equal(v, want)) {
			return fmt.Sprintf("spec-c03fault-contents: key %s reads %s, successful writes give %s (%d failed operations before)", hx(k), hxOpt(v), hxOpt(want), failedOps), trace
		}
	}
	for k := range ref {
		if !seen[k] {
			return "spec-" + kind + "-error: reference key outside the generated universe: " + hx([]byte(k)), trace
		}
	}
	_, h, err := t.Commit(ctx, src.last.Namespace, src.last.Version+1)
	if err != nil {
		return fmt.Sprintf("spec-%s-commit: %v", kind, err), trace
	}
	want, err := plainRoot(ref)
	if err != nil {
		return "spec-" + kind + "-error: " + err.Error(), trace
	}
	if !h.Equal(&want) {
		return fmt.Sprintf("spec-%s-root: after %d failed operations the committed root is %s, the root of the contents %v is %s", kind, failedOps, h, ref, want), trace
	}
	res.Count("spec:" + kind + "-histories")
	return "", nil
}

// plainRoot: the root of the given contents on a fresh in-memory tree with unlimited caches.
func plainRoot(c contents) (h hash.Hash, err error) {
	t := mkvs.New(nil, nil, node.RootTypeState, mkvs.Capacity(0, 0))
	defer t.Close()
	for _, k := range c.sortedKeys() {
		if err = t.Insert(ctx, []byte(k), c[k]); err != nil {
			return
		}
	}
	_, h, err = t.Commit(ctx, testNs, 1)
	return
}

// specFaultAll: for one tree, EVERY single write (remove of each stored key, insert of each stored key
// with a new value and of a few new keys) is run on a freshly opened lazy tree with the fault at every
// fetch position 1, 2, ... until the operation completes without the fault firing. After a failed
// operation every key must read as before and the committed root must be the source root; after a
// completed one the contents are those of the reference map. state 0 is a fixed tree (prefix chain
// 01 / 0180 / 018001, siblings, the empty key), other states draw the contents from the generator.
func specFaultAll(kind string, r *hlib.Rng, fixed bool, res *hlib.Result) (string, []string) {
	g := &keygen{r: r}
	var ref contents
	if fixed {
		ref = contents{"": {9}, "\x01": {1}, "\x01\x80": {2}, "\x01\x80\x01": {3}, "\x01\xff": {4}, "\xff": {5}, "\xff\x80": {6}}
	} else {
		ref = randomContents(r, g, 3+r.Intn(14))
	}
	backends := []string{"badgermem", "pathbadgermem"}
	backend := backends[r.Intn(2)]
	src := newImpl(backend, 0, 0)
	defer src.close()
	for _, k := range ref.sortedKeys() {
		if err := src.tree.Insert(ctx, []byte(k), ref[k]); err != nil {
			return "spec-" + kind + "-error: " + err.Error(), nil
		}
	}
	if _, _, err := src.commit(); err != nil {
		return "spec-" + kind + "-error: " + err.Error(), nil
	}
	type wr struct {
		rm bool
		k  []byte
		v  []byte
	}
	var writes []wr
	for _, k := range ref.sortedKeys() {
		writes = append(writes, wr{true, []byte(k), nil}, wr{false, []byte(k), append([]byte{0xee}, ref[k]...)})
	}
	for i := 0; i < 4; i++ {
		k := g.fresh()
		if fixed {
			k = [][]byte{{0x01, 0x80, 0x01, 0x00}, {0x01, 0x81}, {0xfe}, {0x01, 0x80, 0x00}}[i]
		}
		writes = append(writes, wr{false, k, []byte{0xaa}}, wr{true, k, nil})
	}
	for _, w := range writes {
		for pos := 1; pos < 64; pos++ {
			fs := &faultySyncer{countdown: pos}
			t := mkvs.NewWithRoot(nil, &faultyDB{NodeDB: src.ndb, fs: fs}, src.last, mkvs.Capacity(0, 0))
			var err error
			desc := fmt.Sprintf("contents %v on %s; fault at fetch %d; ", ref, backend, pos)
			if w.rm {
				desc += "remx " + hx(w.k)
				_, err = t.RemoveExisting(ctx, w.k)
			} else {
				desc += "insert " + hx(w.k) + " " + hx(w.v)
				err = t.Insert(ctx, w.k, w.v)
			}
			fired := fs.fired > 0
			fs.countdown = 0
			want := ref
			if err == nil {
				want = ref.clone()
				if w.rm {
					delete(want, string(w.k))
				} else {
					want[string(w.k)] = w.v
				}
			} else if !fired {
				t.Close()
				return "spec-" + kind + "-error: " + desc + ": failed without an injected fault: " + err.Error(), []string{desc}
			} else {
				res.Count("faultall:failed-write")
			}
			keys := append([][]byte{w.k}, nil...)
			for _, k := range ref.sortedKeys() {
				keys = append(keys, []byte(k))
			}
			for _, k := range keys {
				v, gerr := t.Get(ctx, k)
				wv, ok := want[string(k)]
				if gerr != nil || ok != (v != nil) || !bytes.Equal(v, wv) {
					t.Close()
					return fmt.Sprintf("spec-%s-contents: %s -> err=%v; afterwards key %s reads %s (err %v), expected %s", kind, desc, err, hx(k), hxOpt(v), gerr, hxOpt(wv)), []string{desc}
				}
			}
			_, h, cerr := t.Commit(ctx, src.last.Namespace, src.last.Version+1, mkvs.NoPersist())
			t.Close()
			if cerr != nil {
				return fmt.Sprintf("spec-%s-commit: %s -> err=%v; commit: %v", kind, desc, err, cerr), []string{desc}
			}
			wh, herr := plainRoot(want)
			if herr != nil {
				return "spec-" + kind + "-error: " + herr.Error(), nil
			}
			if !h.Equal(&wh) {
				return fmt.Sprintf("spec-%s-root: %s -> err=%v; committed root %s, root of the expected contents %s", kind, desc, err, h, wh), []string{desc}
			}
			res.Count("faultall:positions")
			if !fired {
				break
			}
		}
	}
	res.Count("spec:" + kind + "-trees")
	return "", nil
}
