// mkvsdrv: correspondence between the real MKVS tree (go/storage/mkvs: tree, overlays, commit,
// write logs, NodeDB backends) and the Lean trie model (`om_mkvs`), plus specification checks
// evaluated directly on the real tree. Properties C02, C03, C13 (selected with -focus).
package main

import (
	"bytes"
	"context"
	"encoding/hex"
	"flag"
	"fmt"
	"os"
	"runtime/debug"
	"sort"
	"strconv"
	"strings"
	"time"

	"verifharness/hlib"

	"github.com/oasisprotocol/oasis-core/go/common"
	"github.com/oasisprotocol/oasis-core/go/common/crypto/hash"
	storageApi "github.com/oasisprotocol/oasis-core/go/storage/api"
	"github.com/oasisprotocol/oasis-core/go/storage/mkvs"
	db "github.com/oasisprotocol/oasis-core/go/storage/mkvs/db/api"
	badgerDb "github.com/oasisprotocol/oasis-core/go/storage/mkvs/db/badger"
	pathBadgerDb "github.com/oasisprotocol/oasis-core/go/storage/mkvs/db/pathbadger"
	"github.com/oasisprotocol/oasis-core/go/storage/mkvs/node"
	"github.com/oasisprotocol/oasis-core/go/storage/mkvs/writelog"
)

var ctx = context.Background()

// ---------------------------------------------------------------- encoding of the line protocol

func hx(b []byte) string {
	if len(b) == 0 {
		return "-"
	}
	return hex.EncodeToString(b)
}

// hxOpt renders a value the tree returned: nil slice = absent.
func hxOpt(b []byte) string {
	if b == nil {
		return "nil"
	}
	return hx(b)
}

func unhx(s string) []byte {
	if s == "-" {
		return []byte{}
	}
	b, err := hex.DecodeString(s)
	if err != nil {
		panic("bad hex in op: " + s)
	}
	return b
}

func atoi(s string) int {
	n, err := strconv.Atoi(s)
	if err != nil {
		panic("bad number in op: " + s)
	}
	return n
}

type kv struct{ k, v []byte }

func showItems(items []kv) string {
	if len(items) == 0 {
		return "."
	}
	s := make([]string, len(items))
	for i, it := range items {
		s[i] = hx(it.k) + ":" + hx(it.v)
	}
	return strings.Join(s, ",")
}

func showLog(wl writelog.WriteLog, sorted bool) string {
	if len(wl) == 0 {
		return "."
	}
	l := append(writelog.WriteLog(nil), wl...)
	if sorted {
		sort.SliceStable(l, func(i, j int) bool { return bytes.Compare(l[i].Key, l[j].Key) < 0 })
	}
	s := make([]string, len(l))
	for i, e := range l {
		if e.Value == nil {
			s[i] = hx(e.Key) + ":~"
		} else {
			s[i] = hx(e.Key) + ":" + hx(e.Value)
		}
	}
	return strings.Join(s, ",")
}

func parseLog(s string) writelog.WriteLog {
	if s == "." {
		return nil
	}
	var wl writelog.WriteLog
	for _, e := range strings.Split(s, ",") {
		p := strings.Split(e, ":")
		if p[1] == "~" {
			wl = append(wl, writelog.LogEntry{Key: unhx(p[0]), Value: nil})
		} else {
			wl = append(wl, writelog.LogEntry{Key: unhx(p[0]), Value: unhx(p[1])})
		}
	}
	return wl
}

// ---------------------------------------------------------------- the implementation under test

var scratchSeq int

func scratchDir() string {
	base := os.Getenv("VERIF_SCRATCH")
	if base == "" {
		base = os.TempDir()
	}
	scratchSeq++
	d, err := os.MkdirTemp(base, fmt.Sprintf("mkvsdrv-%d-", scratchSeq))
	if err != nil {
		panic(err)
	}
	return d
}

var testNs = func() common.Namespace {
	var ns common.Namespace
	// the first 8 bytes are namespace flags (reserved bits must be zero)
	copy(ns[8:], []byte("verif-mkvs-namespace-012"))
	return ns
}()

type impl struct {
	backend  string
	dir      string
	ndb      db.NodeDB
	tree     mkvs.Tree
	overlays []mkvs.OverlayTree
	spare    mkvs.OverlayTree // ocopy: Copy(nil) of the outermost overlay, kept aside
	// forks: candidate roots of the current version committed from `last` and not finalized
	forks      []node.Root
	forksFinal bool
	forkBase   node.Root
	version  uint64
	last     node.Root // root the tree is based on
	prev     node.Root // root before the last commit
	havePrev bool
	opts     []mkvs.Option
	// io: the tree holds an IO root (node.RootTypeIO, policy NoChildRoots): all commits stay in
	// one version and nothing is finalized in between.
	io bool
}

func (im *impl) rootType() node.RootType {
	if im.io {
		return node.RootTypeIO
	}
	return node.RootTypeState
}

func (im *impl) openDB() {
	cfg := &db.Config{DB: im.dir, NoFsync: true, Namespace: testNs, MaxCacheSize: 16 * 1024 * 1024}
	var err error
	switch im.backend {
	case "badger":
		im.ndb, err = badgerDb.New(cfg)
	case "badgermem":
		cfg.MemoryOnly = true
		im.ndb, err = badgerDb.New(cfg)
	case "pathbadger":
		im.ndb, err = pathBadgerDb.New(cfg)
	case "pathbadgermem":
		cfg.MemoryOnly = true
		im.ndb, err = pathBadgerDb.New(cfg)
	default:
		im.ndb = nil
	}
	if err != nil {
		panic(fmt.Sprintf("open %s: %v", im.backend, err))
	}
}

func emptyRoot() node.Root {
	r := node.Root{Namespace: testNs, Version: 0, Type: node.RootTypeState}
	r.Hash.Empty()
	return r
}

// forceCaps overrides all cache capacities ("all0": both unlimited, "node0": node cache unlimited);
// used to attribute a failing specification case to eviction.
var forceCaps string

// limitedCapsUsed records whether the current specification case created a tree with a limited cache;
// smallestNodeCapUsed the smallest limited node capacity it used; keyUniverse every key it generated.
var (
	limitedCapsUsed     bool
	smallestNodeCapUsed uint64
	keyUniverse         [][]byte
)

func newImpl(backend string, nodeCap, valCap uint64) *impl {
	switch forceCaps {
	case "all0":
		nodeCap, valCap = 0, 0
	case "node0":
		nodeCap = 0
	case "val0":
		valCap = 0
	}
	if nodeCap != 0 || valCap != 0 {
		limitedCapsUsed = true
	}
	if nodeCap != 0 && (smallestNodeCapUsed == 0 || nodeCap < smallestNodeCapUsed) {
		smallestNodeCapUsed = nodeCap
	}
	im := &impl{backend: backend}
	if backend == "badger" || backend == "pathbadger" {
		im.dir = scratchDir()
	}
	im.openDB()
	if im.ndb != nil || nodeCap != 5000 {
		// `mem 5000 16777216` stands for the defaults of mkvs.New
		im.opts = []mkvs.Option{mkvs.Capacity(nodeCap, valCap)}
	}
	im.tree = mkvs.New(nil, im.ndb, node.RootTypeState, im.opts...)
	im.last = emptyRoot()
	return im
}

func (im *impl) close() {
	if im == nil {
		return
	}
	func() {
		defer func() { _ = recover() }()
		for i := len(im.overlays) - 1; i >= 0; i-- {
			im.overlays[i].Close()
		}
		if im.tree != nil {
			im.tree.Close()
		}
		if im.ndb != nil {
			im.ndb.Close()
		}
	}()
	if im.dir != "" {
		os.RemoveAll(im.dir)
	}
}

func (im *impl) handle(level int) mkvs.KeyValueTree {
	if level == 0 {
		return im.tree
	}
	return im.overlays[level-1]
}

func (im *impl) top() mkvs.KeyValueTree { return im.handle(len(im.overlays)) }

func (im *impl) dropSpare() {
	if im.spare != nil {
		im.spare.Close()
		im.spare = nil
	}
}

func iterate(t mkvs.KeyValueTree, seek []byte, n int) ([]kv, error) {
	it := t.NewIterator(ctx)
	defer it.Close()
	var out []kv
	for it.Seek(seek); it.Valid() && len(out) < n; it.Next() {
		out = append(out, kv{append([]byte{}, it.Key()...), append([]byte{}, it.Value()...)})
	}
	return out, it.Err()
}

func drainLog(it writelog.Iterator) (writelog.WriteLog, error) {
	var wl writelog.WriteLog
	for {
		more, err := it.Next()
		if err != nil {
			return nil, err
		}
		if !more {
			return wl, nil
		}
		e, err := it.Value()
		if err != nil {
			return nil, err
		}
		wl = append(wl, e)
	}
}

// commit commits the tree at the next version (and finalizes it when a database is attached).
func (im *impl) commit() (writelog.WriteLog, hash.Hash, error) {
	wl, h, err := im.tree.Commit(ctx, testNs, im.version)
	if err != nil {
		return nil, h, err
	}
	root := node.Root{Namespace: testNs, Version: im.version, Type: im.rootType(), Hash: h}
	if im.io {
		im.prev, im.havePrev = im.last, true
		im.last = root
		return wl, h, nil
	}
	if im.ndb != nil {
		if err = im.ndb.Finalize([]node.Root{root}); err != nil {
			return nil, h, fmt.Errorf("finalize: %w", err)
		}
	}
	im.prev, im.havePrev = im.last, true
	im.last = root
	im.version++
	return wl, h, nil
}

// exec runs one generated op and returns the annotated line for the model.
func (im *impl) exec(w []string) string {
	op := strings.Join(w, " ")
	e := func(err error) string { return op + " ERR:" + strings.ReplaceAll(err.Error(), " ", "_") }
	if forkOps[w[0]] {
		return im.execFork(w)
	}
	// Ops that make no sense in the current state (possible after shrinking) are skipped.
	switch w[0] {
	case "insert", "remove", "remx", "get", "iter":
		if atoi(w[1]) > len(im.overlays) {
			return ""
		}
	case "ocommit", "odiscard", "ocopy", "oswap":
		if len(im.overlays) == 0 {
			return ""
		}
	case "commit", "applywl":
	}
	switch w[0] {
	case "insert":
		if err := im.handle(atoi(w[1])).Insert(ctx, unhx(w[2]), unhx(w[3])); err != nil {
			return e(err)
		}
		return op
	case "remove":
		if err := im.handle(atoi(w[1])).Remove(ctx, unhx(w[2])); err != nil {
			return e(err)
		}
		return op
	case "remx":
		v, err := im.handle(atoi(w[1])).RemoveExisting(ctx, unhx(w[2]))
		if err != nil {
			return e(err)
		}
		return op + " " + hxOpt(v)
	case "get":
		v, err := im.handle(atoi(w[1])).Get(ctx, unhx(w[2]))
		if err != nil {
			return e(err)
		}
		return op + " " + hxOpt(v)
	case "iter":
		items, err := iterate(im.handle(atoi(w[1])), unhx(w[2]), atoi(w[3]))
		if err != nil {
			return e(err)
		}
		return op + " " + showItems(items)
	case "onew":
		im.dropSpare()
		im.overlays = append(im.overlays, mkvs.NewOverlay(im.top()))
		return op
	case "ocopy":
		im.dropSpare()
		im.spare = im.overlays[len(im.overlays)-1].Copy(nil)
		return op
	case "oswap":
		if im.spare == nil {
			return ""
		}
		im.overlays[len(im.overlays)-1], im.spare = im.spare, im.overlays[len(im.overlays)-1]
		return op
	case "ocommit":
		if _, err := im.overlays[len(im.overlays)-1].Commit(ctx); err != nil {
			return e(err)
		}
		return op
	case "odiscard":
		im.dropSpare()
		im.overlays[len(im.overlays)-1].Close()
		im.overlays = im.overlays[:len(im.overlays)-1]
		return op
	case "commit":
		wl, h, err := im.commit()
		if err != nil {
			return e(err)
		}
		return fmt.Sprintf("commit %s %s", hx(h[:]), showLog(wl, true))
	case "reopen":
		// reopen [nodeCap valCap] [db]: close the tree (and optionally the database) and open
		// a new tree at the last committed root.
		im.dropSpare()
		for i := len(im.overlays) - 1; i >= 0; i-- {
			im.overlays[i].Close()
		}
		im.overlays = nil
		im.tree.Close()
		if len(w) >= 3 && im.ndb != nil {
			im.opts = []mkvs.Option{mkvs.Capacity(uint64(atoi(w[1])), uint64(atoi(w[2])))}
		}
		if len(w) >= 4 && w[3] == "db" && im.dir != "" {
			im.ndb.Close()
			im.openDB()
		}
		if im.ndb == nil {
			// Without a database nothing survives Close: a reopened tree is the empty tree.
			im.tree = mkvs.New(nil, nil, node.RootTypeState)
			im.last = emptyRoot()
			im.version = 0
			im.havePrev = false
			return "new"
		}
		im.tree = mkvs.NewWithRoot(nil, im.ndb, im.last, im.opts...)
		return "reopen " + hx(im.last.Hash[:])
	case "applywl":
		if err := im.tree.ApplyWriteLog(ctx, writelog.NewStaticIterator(parseLog(w[1]))); err != nil {
			return e(err)
		}
		return op
	case "getwl":
		if im.ndb == nil || !im.havePrev {
			return ""
		}
		it, err := im.ndb.GetWriteLog(ctx, im.prev, im.last)
		if err != nil {
			if im.prev.Hash.Equal(&im.last.Hash) {
				return "" // empty transition: no log is stored for it
			}
			return e(err)
		}
		wl, err := drainLog(it)
		if err != nil {
			return e(err)
		}
		return fmt.Sprintf("getwl %s %s %s", hx(im.prev.Hash[:]), hx(im.last.Hash[:]), showLog(wl, true))
	case "wf":
		return op
	}
	panic("unknown op " + op)
}

// caseRun is what executing a case on the real tree produced: the annotated lines for the model,
// for every line the index of the op it came from, and (when probing) what the cache looked like
// around every op that reached the tree.
type caseRun struct {
	lines    []string
	idx      []int
	probes   map[int]*opProbe
	panicked string
}

// runImpl executes a case (first op `new <backend> <nodeCap> <valCap>`) on the real tree.
func runImpl(ops []string) (lines []string, panicked string) {
	r := execCase(ops, false)
	return r.lines, r.panicked
}

func execCase(ops []string, probe bool) (run caseRun) {
	var im *impl
	var cx *ctxImpl
	defer func() { im.close() }()
	if probe {
		run.probes = map[int]*opProbe{}
	}
	for opIdx, op := range ops {
		w := strings.Fields(op)
		if len(w) == 0 {
			continue
		}
		var line string
		func() {
			defer func() {
				if r := recover(); r != nil {
					if os.Getenv("VERIF_MKVS_TRACE") != "" {
						fmt.Fprintf(os.Stderr, "panic in `%s`: %v\n%s\n", op, r, debug.Stack())
					}
					run.panicked = fmt.Sprintf("%s: %v", op, r)
					line = op + " PANIC:" + strings.ReplaceAll(clip(fmt.Sprint(r)), " ", "_")
				}
			}()
			if w[0] == "newctx" {
				im.close()
				im = nil
				if cx != nil && len(cx.ctxs) > 0 {
					func() {
						defer func() { _ = recover() }()
						for i := len(cx.ctxs) - 1; i >= 0; i-- {
							cx.ctxs[i].c.Close()
						}
					}()
				}
				cx = newCtxImpl(w[1])
				line = "new"
				return
			}
			if keyOps[w[0]] {
				line = execKeyOp(w)
				return
			}
			if isCtxOp(w[0]) {
				if cx == nil {
					cx = newCtxImpl("delivertx")
				}
				line = cx.exec(w)
				return
			}
			if w[0] == "new" {
				im.close()
				backend, nc, vc := "mem", 0, 0
				if len(w) >= 4 {
					backend, nc, vc = w[1], atoi(w[2]), atoi(w[3])
				}
				im = newImpl(backend, uint64(nc), uint64(vc))
				line = "new"
				return
			}
			if im == nil {
				im = newImpl("mem", 0, 0)
			}
			if probe {
				pr := probeBefore(im, w)
				run.probes[opIdx] = pr
				defer func() { probeAfter(im, pr) }()
			}
			line = im.exec(w)
		}()
		if line != "" {
			run.lines = append(run.lines, line)
			run.idx = append(run.idx, opIdx)
		}
		if run.panicked != "" {
			break
		}
	}
	return
}

// judge asks the model about the lines; returns "" or the divergence and the index (into the
// case's ops) of the first op the model did not accept.
func judge(run caseRun) (string, int) {
	ans, err := hlib.RunModel("mkvs", run.lines)
	if err != nil {
		return "model-error: " + err.Error(), -1
	}
	if i := hlib.FirstBad(ans, "ok"); i >= 0 {
		return fmt.Sprintf("at op %d `%s`: %s", i, clip(run.lines[i]), clip(ans[i])), run.idx[i]
	}
	return "", -1
}

// check runs implementation and model on the ops; returns "" or the divergence.
func check(ops []string) (string, []string) {
	run := execCase(ops, false)
	d, _ := judge(run)
	return d, run.lines
}

func clipLines(l []string) []string {
	out := make([]string, 0, len(l))
	for i, s := range l {
		if i >= 60 {
			out = append(out, fmt.Sprintf("... (%d more lines)", len(l)-i))
			break
		}
		if len(s) > 120 {
			s = s[:120] + "..."
		}
		out = append(out, s)
	}
	return out
}

func clip(s string) string {
	if len(s) > 400 {
		return s[:400] + "..."
	}
	return s
}

// ---------------------------------------------------------------- generators

var alphabet = []byte{0x00, 0x01, 0x80, 0xff}

type keygen struct {
	r    *hlib.Rng
	pool [][]byte
}

func (g *keygen) fresh() []byte {
	k := g.fresh1()
	if len(keyUniverse) < 1<<16 {
		keyUniverse = append(keyUniverse, k)
	}
	return k
}

func (g *keygen) fresh1() []byte {
	r := g.r
	switch k := r.Intn(100); {
	case k < 6:
		return []byte{}
	case k < 50:
		n := r.Intn(4)
		b := make([]byte, n)
		for i := range b {
			b[i] = alphabet[r.Intn(len(alphabet))]
		}
		return b
	case k < 75 && len(g.pool) > 0:
		// extend an existing key (it becomes a proper prefix) or cut one (prefix of an existing key)
		base := g.pool[r.Intn(len(g.pool))]
		if r.Bool() || len(base) == 0 {
			ext := append([]byte{}, base...)
			for i := 0; i <= r.Intn(2); i++ {
				ext = append(ext, alphabet[r.Intn(len(alphabet))])
			}
			return ext
		}
		return append([]byte{}, base[:r.Intn(len(base))]...)
	case k < 90 && len(g.pool) > 0:
		// share all but the last few bits with an existing key
		base := append([]byte{}, g.pool[r.Intn(len(g.pool))]...)
		if len(base) == 0 {
			return []byte{byte(r.Intn(256))}
		}
		base[len(base)-1] ^= 1 << uint(r.Intn(8))
		return base
	case k < 97:
		n := 1 + r.Intn(6)
		b := make([]byte, n)
		for i := range b {
			b[i] = byte(r.Intn(256))
		}
		return b
	default:
		// long key: label bit lengths above 255 and above 2047
		n := 33 + r.Intn(300)
		b := make([]byte, n)
		for i := range b {
			b[i] = alphabet[r.Intn(2)]
		}
		return b
	}
}

func (g *keygen) key() []byte {
	if len(g.pool) > 0 && g.r.Chance(3, 5) {
		return g.pool[g.r.Intn(len(g.pool))]
	}
	k := g.fresh()
	g.pool = append(g.pool, k)
	return k
}

func genValue(r *hlib.Rng) []byte {
	switch k := r.Intn(100); {
	case k < 15:
		return []byte{}
	case k < 70:
		return []byte{byte(r.Intn(4))}
	case k < 97:
		b := make([]byte, 1+r.Intn(5))
		for i := range b {
			b[i] = byte(r.Intn(256))
		}
		return b
	default:
		b := make([]byte, 256+r.Intn(600))
		for i := range b {
			b[i] = byte(i)
		}
		return b
	}
}

// smallest node / value cache capacities the generators use (flags -mincap, -minvalcap)
var minCap, minValCap = 1, 1

var backends = []string{"mem", "mem", "mem", "badgermem", "badgermem", "pathbadgermem", "badger", "pathbadger"}

// genCase generates one op history. focus: "c02" (commit-heavy), "c03" (overlays, iteration),
// "c13" (database backends, write logs).
func genCase(r *hlib.Rng, nops int, focus string, res *hlib.Result) []string {
	g := &keygen{r: r}
	keyUniverse = nil
	backend := backends[r.Intn(len(backends))]
	if focus == "c13" && backend == "mem" {
		backend = "badgermem"
	}
	if os.Getenv("VERIF_TIER") != "thorough" && (backend == "badger" || backend == "pathbadger") && !r.Chance(1, 4) {
		backend += "mem" // on-disk databases are slow to open: fewer of them in the quick tier
	}
	caps := func() (int, int) {
		if focus == "c13" {
			// C13 does not quantify over cache capacities; eviction is exercised by C02/C03.
			return 0, 0
		}
		if backend == "mem" {
			// Without a database nothing evicted can come back: unlimited, or the defaults of New.
			if r.Bool() {
				return 0, 0
			}
			return 5000, 16 * 1024 * 1024
		}
		switch r.Intn(4) {
		case 0:
			return minCap, minValCap
		case 1:
			return minCap + r.Intn(4), minValCap + r.Intn(16)
		case 2:
			return 0, 0
		}
		return 5000, 1 << 20
	}
	nc, vc := caps()
	ops := []string{fmt.Sprintf("new %s %d %d", backend, nc, vc)}
	res.Count("backend:" + backend)
	if nc > 0 && nc < 16 {
		res.Count("cache-capacity-tiny")
	}
	levels := 0
	lowerWrites := r.Chance(1, 5) // this case also writes to handles below open overlays
	lvl := func() int {
		if levels > 0 && lowerWrites && r.Chance(1, 4) {
			return r.Intn(levels + 1)
		}
		return levels
	}
	emit := func(kind, s string) {
		ops = append(ops, s)
		res.Count("op:" + kind)
	}
	wOverlay, wCommit := 8, 8
	switch focus {
	case "c02":
		wOverlay, wCommit = 2, 14
	case "c13":
		wOverlay, wCommit = 2, 14
	}
	for i := 0; i < nops; i++ {
		k := r.Intn(100)
		switch {
		case k < 30:
			emit("insert", fmt.Sprintf("insert %d %s %s", lvl(), hx(g.key()), hx(genValue(r))))
		case k < 42:
			emit("remove", fmt.Sprintf("remove %d %s", lvl(), hx(g.key())))
		case k < 52:
			emit("remx", fmt.Sprintf("remx %d %s", lvl(), hx(g.key())))
		case k < 67:
			emit("get", fmt.Sprintf("get %d %s", lvl(), hx(g.key())))
		case k < 77:
			seek := g.key()
			if r.Chance(1, 3) {
				seek = g.fresh() // a seek key that is usually not in the tree
			}
			emit("iter", fmt.Sprintf("iter %d %s %d", lvl(), hx(seek), 1+r.Intn(8)))
		case k < 77+wOverlay:
			switch {
			case levels < 3 && (levels == 0 || r.Chance(1, 2)):
				levels++
				emit("onew", "onew")
			case r.Chance(1, 4):
				emit("ocopy", "ocopy")
				if r.Chance(1, 2) {
					// isolation of the copy: the FIRST write after the copy is a remove-returning-previous
					// (or a plain remove / insert) on one of the two overlays, then the other one is read
					k := g.key()
					switch r.Intn(4) {
					case 0:
						emit("remove", fmt.Sprintf("remove %d %s", levels, hx(k)))
					case 1:
						emit("insert", fmt.Sprintf("insert %d %s %s", levels, hx(k), hx(genValue(r))))
					default:
						emit("remx", fmt.Sprintf("remx %d %s", levels, hx(k)))
					}
					emit("oswap", "oswap")
					emit("get", fmt.Sprintf("get %d %s", levels, hx(k)))
					emit("iter", fmt.Sprintf("iter %d %s %d", levels, hx(k), 1+r.Intn(4)))
					if r.Bool() {
						emit("oswap", "oswap")
						emit("get", fmt.Sprintf("get %d %s", levels, hx(k)))
					}
					res.Count("gen:copy-isolation-burst")
				}
			case r.Chance(1, 3):
				emit("oswap", "oswap")
			case r.Chance(2, 3):
				emit("ocommit", "ocommit")
			default:
				levels--
				emit("odiscard", "odiscard")
			}
		case k < 77+wOverlay+wCommit:
			emit("commit", "commit")
			if focus == "c13" && r.Chance(2, 3) {
				emit("getwl", "getwl")
			}
		case k < 97:
			if levels == 0 || r.Chance(1, 3) {
				if backend == "mem" {
					continue
				}
				a, b := caps()
				s := fmt.Sprintf("reopen %d %d", a, b)
				if r.Chance(1, 3) {
					s += " db"
				}
				levels = 0
				emit("reopen", s)
			}
		default:
			if levels == 0 {
				var wl writelog.WriteLog
				seen := map[string]bool{}
				for j := 0; j < 1+r.Intn(5); j++ {
					key := g.key()
					if seen[string(key)] {
						continue
					}
					seen[string(key)] = true
					if r.Chance(1, 3) {
						wl = append(wl, writelog.LogEntry{Key: key})
					} else {
						wl = append(wl, writelog.LogEntry{Key: key, Value: genValue(r)})
					}
				}
				emit("applywl", "applywl "+showLog(wl, false))
			}
		}
	}
	// Every case ends with: overlays committed down, a full iteration, a commit, the stored write
	// log, a reopen at the committed root and a second full iteration.
	for ; levels > 0; levels-- {
		ops = append(ops, "ocommit", "odiscard")
	}
	ops = append(ops, "iter 0 - 1000", "wf", "commit")
	if focus == "c13" {
		ops = append(ops, "getwl")
	}
	if backend != "mem" {
		a, b := caps()
		ops = append(ops, fmt.Sprintf("reopen %d %d", a, b), "iter 0 - 1000", "get 0 "+hx(g.key()))
	}
	return ops
}

func signature(detail string) string {
	if strings.Contains(detail, "`getwl") && strings.Contains(detail, "ERR:") {
		return "mkvs-getwritelog-error"
	}
	for _, s := range []string{"PANIC", "ERR:", "root-hash", "db-write-log", "write-log", "remove-existing", "get model", "iterate", "reopen", "canonical", "model-error"} {
		if strings.Contains(detail, s) {
			return "mkvs-" + strings.Trim(strings.ReplaceAll(strings.ToLower(s), " ", "-"), ":")
		}
	}
	return "mkvs-other"
}

// withCaps rewrites the cache capacities of a case: mode "all0" makes both caches unlimited,
// "node0" only the node cache, "val0" only the value cache.
func withCaps(ops []string, mode string) []string {
	out := make([]string, len(ops))
	for i, op := range ops {
		w := strings.Fields(op)
		if len(w) >= 4 && w[0] == "new" {
			if mode != "val0" {
				w[2] = "0"
			}
			if mode != "node0" {
				w[3] = "0"
			}
		} else if len(w) >= 3 && w[0] == "reopen" {
			if mode != "val0" {
				w[1] = "0"
			}
			if mode != "node0" {
				w[2] = "0"
			}
		}
		out[i] = strings.Join(w, " ")
	}
	return out
}

// refine gives the stable signature of a divergence. A divergence that disappears when the
// caches are made unlimited is an instance of "eviction changes an answer" (C03) and is
// attributed to the value cache if it persists with an unlimited node cache. Each of the two is
// then split (cache.go) into the one mechanism that is a listed known finding (D2b: a write under
// a node capacity below its need; D1b: the evictable embedded leaf of a dirty / removed-through
// node) and everything else, which gets a signature of its own and is a violation.
func refine(ops []string, d string) string {
	if strings.Contains(d, "`getwlf") && strings.Contains(d, "node_not_found") {
		for _, op := range ops {
			if strings.HasPrefix(op, "forkfinalize") {
				// the write log of the finalized candidate cannot be read because a node it refers to
				// was deleted with the discarded competitors: D7 seen through GetWriteLog
				return "fork-finalize-loses-node:getwritelog"
			}
		}
	}
	if strings.Contains(d, "fork-write-log") || strings.Contains(d, "`getwlf") {
		return "fork-write-log-divergence"
	}
	if strings.Contains(d, "node_not_found") {
		for _, op := range ops {
			if strings.HasPrefix(op, "forkfinalize") {
				// a read under the finalized candidate fails after its competitors were discarded
				return "fork-finalize-loses-node"
			}
		}
	}
	if strings.Contains(d, "key-") || strings.Contains(d, "`k") {
		return "key-op-divergence"
	}
	if len(ops) > 0 && strings.HasPrefix(ops[0], "newctx") {
		if strings.Contains(d, "PANIC") {
			return "ctx-panic"
		}
		return "ctx-overlay-stack-divergence"
	}
	base := signature(d)
	if strings.Contains(d, "model-error") {
		return base
	}
	all0 := execCase(withCaps(ops, "all0"), false)
	if dd, _ := judge(all0); dd != "" {
		return base
	}
	// Which cache is it? node0: node cache unlimited, value cache as given; val0: the reverse.
	node0, val0 := withCaps(ops, "node0"), withCaps(ops, "val0")
	dn, _ := check(node0)
	dv, _ := check(val0)
	switch {
	case dn != "" && dv == "":
		return classifyValueEviction(node0)
	case dn == "" && dv != "":
		return classifyNodeEviction(val0, all0)
	case dn != "" && dv != "":
		// Two independent causes; a cause that is not a listed finding must not hide behind one that is.
		sn, sv := classifyNodeEviction(val0, all0), classifyValueEviction(node0)
		if sn == sigNodeSufficient || sv != sigValueOther {
			return sn
		}
		return sv
	}
	// Only both limits together make it fail (e.g. the re-fetch of a clean node whose embedded leaf
	// was evicted): known only if one of the two listed mechanisms was at work.
	if classifyNodeEviction(ops, all0) == sigNodeBelowNeed {
		return sigNodeBelowNeed
	}
	if classifyValueEviction(ops) == sigValueEmbedded {
		return sigValueEmbedded
	}
	return sigNodeSufficient
}

func main() {
	seed := flag.Uint64("seed", 1, "seed")
	cases := flag.Int("cases", 300, "number of generated cases")
	nops := flag.Int("ops", 40, "ops per case")
	specCases := flag.Int("spec", 100, "number of specification-on-implementation cases")
	focus := flag.String("focus", "c03", "c02 | c03 | c13")
	ctxCases := flag.Int("ctx", 0, "number of generated api.Context histories (C03)")
	keyCases := flag.Int("keys", 0, "number of generated node.Key operation batches (C02)")
	forkCases := flag.Int("forks", 0, "number of generated fork histories: competing non-finalized roots (C13)")
	cacheCases := flag.Int("cache", 0, "number of generated full-but-sufficient node cache histories (C02/C03), see cache.go")
	shrinkBudget := flag.Int("shrinkbudget", 120, "seconds ddmin may spend on one failure")
	flag.IntVar(&minCap, "mincap", 1, "smallest node cache capacity generated")
	flag.IntVar(&minValCap, "minvalcap", 1, "smallest value cache capacity (bytes) generated")
	out := flag.String("out", "-", "result file")
	replay := flag.String("replay", "", "replay file (one op per line)")
	corpus := flag.String("corpus", "", "corpus dir, run first")
	probe := flag.String("probe", "", "run a named probe and exit (nilkey)")
	flag.Parse()
	if *probe == "nilkey" {
		probeNilKey()
		return
	}

	res := hlib.NewResult("mkvsdrv", *seed)
	res.Rule = "random op histories (insert/remove/remove-existing/get/iterate+seek/overlay new,commit,discard up to 3 deep/commit/reopen/ApplyWriteLog/GetWriteLog) over key pools drawn from {00,01,80,ff}* incl. the empty key, proper-prefix chains, single-bit differences and long keys; values incl. empty and >255 bytes; backends none/badger/pathbadger (memory and disk), node/value cache capacities from 1; a case is non-trivial when at least one commit produced a non-empty root; distinct by op list. Cache cases (counters cachecase:*): trees of 30-500 keys committed, re-opened at the root with a node capacity from the measured need of the case's writes up to the number of internal nodes (cache full, larger than any path), rounds of read / run of reads or scan elsewhere / writes under the long-resident ancestors / reads, commits and reopens, both database backends. Spec cases: see counters spec:*"

	sigSeen := map[string]int{}
	runOne := func(ops []string, caseSeed uint64, minimize bool) {
		d, lines := check(ops)
		res.Cases++
		res.Ops += len(lines)
		if d == "" {
			return
		}
		min := ops
		sig := refine(ops, d)
		sigSeen[sig]++
		if sigSeen[sig] > 1 && minimize {
			// one minimized witness per signature; further hits are only counted
			res.Count("repeat:" + sig)
			return
		}
		if minimize && os.Getenv("VERIF_MKVS_NOSHRINK") == "" {
			// Nothing after the op at which the model first disagrees is needed.
			if _, bad := judge(execCase(ops, false)); bad >= 1 && bad+1 < len(ops) {
				if cut := ops[:bad+1]; func() bool { dd, _ := check(cut); return dd != "" && refine(cut, dd) == sig }() {
					min = cut
				}
			}
			deadline := time.Now().Add(time.Duration(*shrinkBudget) * time.Second)
			head, tail := min[:1], min[1:]
			tail = hlib.Shrink(tail, func(c []string) bool {
				if time.Now().After(deadline) {
					return false
				}
				cc := append(append([]string{}, head...), c...)
				dd, _ := check(cc)
				return dd != "" && refine(cc, dd) == sig
			})
			min = append(append([]string{}, head...), tail...)
			d, _ = check(min)
		}
		kind := "divergence"
		if strings.Contains(d, "PANIC") {
			kind = "panic"
		}
		if strings.HasPrefix(sig, "mkvs-evict") {
			d = sig + " (the divergence disappears with unlimited caches; " + describeEviction(sig) + "): " + d
		}
		res.Fail(hlib.Failure{Kind: kind, Detail: d, Case: min, Seed: caseSeed, Sig: sig})
	}

	if *replay != "" {
		ops, err := hlib.ReadLines(*replay)
		if err != nil {
			fmt.Fprintln(os.Stderr, err)
			os.Exit(2)
		}
		if len(ops) > 0 && strings.HasPrefix(ops[0], "spec ") {
			replaySpec(ops, res)
		} else {
			runOne(ops, 0, false)
		}
		res.Write(*out)
		return
	}
	if *corpus != "" {
		ents, _ := os.ReadDir(*corpus)
		for _, e := range ents {
			if ops, err := hlib.ReadLines(*corpus + "/" + e.Name()); err == nil && len(ops) > 0 {
				before := len(res.Failures)
				if strings.HasPrefix(ops[0], "spec ") {
					replaySpec(ops, res)
				} else {
					runOne(ops, 0, false)
				}
				res.Count("corpus")
				// A corpus file is a regression test of a repaired defect and must pass, unless its
				// name says that the defect is still open (`*.open.txt`). A failing regression gets
				// its own signature so that it cannot hide behind a finding that is still listed.
				if len(res.Failures) > before && !strings.Contains(e.Name(), ".open.") {
					f := &res.Failures[len(res.Failures)-1]
					f.Detail = "corpus regression " + e.Name() + " fails again: " + f.Detail
					f.Sig = "corpus-regression-" + strings.TrimSuffix(e.Name(), ".txt")
				}
			}
		}
	}
	rng := hlib.NewRng(*seed)
	seen := map[string]bool{}
	emptyHex := func() string { var h hash.Hash; h.Empty(); return hx(h[:]) }()
	for i := 0; i < *cases; i++ {
		cr := rng.Fork()
		cs := cr.Seed()
		ops := genCase(cr, 5+cr.Intn(*nops), *focus, res)
		key := strings.Join(ops, ";")
		d, lines := check(ops)
		nontrivial := false
		for _, l := range lines {
			if strings.HasPrefix(l, "commit ") {
				res.Count("commits")
				if !strings.HasPrefix(l, "commit "+emptyHex) {
					nontrivial = true
				}
			}
			if strings.HasPrefix(l, "getwl ") {
				res.Count("db-write-logs-compared")
			}
			if strings.HasPrefix(l, "reopen ") {
				res.Count("reopened-at-root")
			}
			if strings.HasPrefix(l, "remx ") && !strings.HasSuffix(l, " nil") {
				res.Count("remx-returned-previous")
			}
		}
		if nontrivial && !seen[key] {
			seen[key] = true
			res.Distinct++
		}
		if i < 2 {
			res.AddSample(lines)
		}
		if d != "" {
			runOne(ops, cs, true)
		} else {
			res.Cases++
			res.Ops += len(lines)
		}
		if len(res.Failures) >= 6 {
			break
		}
	}
	for i := 0; i < *cacheCases && len(res.Failures) < 8; i++ {
		cr := rng.Fork()
		cs := cr.Seed()
		ops := genCacheCase(cr, res)
		res.Count("cachecase")
		run := execCase(ops, true)
		d, _ := judge(run)
		if i < 1 {
			res.AddSample(clipLines(run.lines))
		}
		if d != "" {
			runOne(ops, cs, true)
			continue
		}
		if needs, err := measureNeeds(run); err == nil {
			countCacheRun(run, ops, needs, res)
		}
		res.Cases++
		res.Ops += len(run.lines)
		res.Distinct++
	}
	for i := 0; i < *ctxCases && len(res.Failures) < 8; i++ {
		cr := rng.Fork()
		cs := cr.Seed()
		ops := genCtxCase(cr, 5+cr.Intn(*nops), res)
		key := strings.Join(ops, ";")
		d, lines := check(ops)
		if i < 1 {
			res.AddSample(lines)
		}
		if d != "" {
			runOne(ops, cs, true)
			continue
		}
		res.Cases++
		res.Ops += len(lines)
		if !seen[key] {
			seen[key] = true
			res.Distinct++
		}
	}
	for i := 0; i < *forkCases && len(res.Failures) < 8; i++ {
		cr := rng.Fork()
		cs := cr.Seed()
		ops := genForkCase(cr, res)
		d, lines := check(ops)
		for _, l := range lines {
			if strings.HasPrefix(l, "getwlf ") {
				if strings.HasSuffix(l, " NOTSERVED") {
					res.Count("fork-getwl-notserved")
				} else {
					res.Count("fork-getwl-served")
				}
			}
		}
		if i < 1 {
			res.AddSample(lines)
		}
		if d != "" {
			runOne(ops, cs, true)
			continue
		}
		res.Cases++
		res.Ops += len(lines)
		res.Distinct++
	}
	for i := 0; i < *keyCases && len(res.Failures) < 8; i++ {
		cr := rng.Fork()
		cs := cr.Seed()
		ops := genKeyCase(cr, 20+cr.Intn(40), res)
		d, lines := check(ops)
		if i < 1 {
			res.AddSample(lines)
		}
		if d != "" {
			runOne(ops, cs, true)
			continue
		}
		res.Cases++
		res.Ops += len(lines)
		res.Distinct++
	}
	runSpec(rng, *specCases, *focus, res)
	res.Write(*out)
}

// keep the storage API import used (RootCache.Apply lives there); see spec.go
var _ = storageApi.NewRootCache
