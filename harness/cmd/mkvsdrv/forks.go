package main

// Forks (C13): several candidate roots of one version committed from the same start root and not
// yet finalized; GetWriteLog is asked for each candidate before and after one of them is finalized.
// A served log, applied to the start root, must reach exactly the root it was asked for (never
// another fork's); otherwise the call must fail with the backend's "write log not found" /
// "not finalized" / "root not found" error, and for the finalized candidate it must be served.
//
// Generated ops (translated to the model's protocol):
//   forkopen          NewWithRoot at the start root                  -> reopen H0
//   forkcommit        Tree.Commit at the next version, no Finalize   -> commit H LOG
//   getwlf I must|may GetWriteLog(start, candidate I)                -> getwlf H0 HI mode RES
//   forkfinalize I    Finalize candidate I and continue on it        -> reopen HI

import (
	"errors"
	"fmt"
	"strings"

	"verifharness/hlib"

	"github.com/oasisprotocol/oasis-core/go/storage/mkvs"
	db "github.com/oasisprotocol/oasis-core/go/storage/mkvs/db/api"
	"github.com/oasisprotocol/oasis-core/go/storage/mkvs/node"
	"github.com/oasisprotocol/oasis-core/go/storage/mkvs/writelog"
)

var forkOps = map[string]bool{"forkopen": true, "forkcommit": true, "getwlf": true, "forkfinalize": true}

func notServed(err error) bool {
	return errors.Is(err, db.ErrWriteLogNotFound) || errors.Is(err, db.ErrNotFinalized) || errors.Is(err, db.ErrRootNotFound)
}

func (im *impl) execFork(w []string) string {
	op := strings.Join(w, " ")
	e := func(err error) string { return op + " ERR:" + strings.ReplaceAll(err.Error(), " ", "_") }
	if im.ndb == nil {
		return ""
	}
	switch w[0] {
	case "forkopen":
		im.dropSpare()
		for i := len(im.overlays) - 1; i >= 0; i-- {
			im.overlays[i].Close()
		}
		im.overlays = nil
		im.tree.Close()
		im.tree = mkvs.NewWithRoot(nil, im.ndb, im.last, im.opts...)
		return "reopen " + hx(im.last.Hash[:])
	case "forkcommit":
		wl, h, err := im.tree.Commit(ctx, testNs, im.version)
		if err != nil {
			return e(err)
		}
		im.forks = append(im.forks, node.Root{Namespace: testNs, Version: im.version, Type: im.rootType(), Hash: h})
		return fmt.Sprintf("commit %s %s", hx(h[:]), showLog(wl, true))
	case "getwlf":
		i := atoi(w[1])
		if i >= len(im.forks) {
			return ""
		}
		cand := im.forks[i]
		start := im.forkStart(i)
		if start.Hash.Equal(&cand.Hash) {
			return "" // empty transition: no log is stored for it
		}
		head := fmt.Sprintf("getwlf %s %s %s ", hx(start.Hash[:]), hx(cand.Hash[:]), w[2])
		it, err := im.ndb.GetWriteLog(ctx, start, cand)
		if err != nil {
			if notServed(err) {
				return head + "NOTSERVED"
			}
			return e(err)
		}
		wl, err := drainLog(it)
		if err != nil {
			if notServed(err) {
				return head + "NOTSERVED"
			}
			return e(err)
		}
		// Specification on the implementation: the served log applied at the start root reaches
		// exactly the candidate it was asked for.
		t := mkvs.NewWithRoot(nil, im.ndb, start)
		defer t.Close()
		if err = t.ApplyWriteLog(ctx, writelog.NewStaticIterator(wl)); err != nil {
			return e(err)
		}
		_, h, err := t.Commit(ctx, testNs, cand.Version, mkvs.NoPersist())
		if err != nil {
			return e(err)
		}
		if !h.Equal(&cand.Hash) {
			return op + " ERR:fork-write-log_reaches_" + h.String() + "_instead_of_" + cand.Hash.String() + "_log=" + showLog(wl, true)
		}
		return head + showLog(wl, true)
	case "forkfinalize":
		i := atoi(w[1])
		if i >= len(im.forks) || im.forksFinal {
			return ""
		}
		cand := im.forks[i]
		if err := im.ndb.Finalize([]node.Root{cand}); err != nil {
			return e(err)
		}
		im.forksFinal = true
		im.forkBase = im.last
		im.prev, im.havePrev = im.last, true
		im.last = cand
		im.version++
		im.tree.Close()
		im.tree = mkvs.NewWithRoot(nil, im.ndb, im.last, im.opts...)
		return "reopen " + hx(im.last.Hash[:])
	}
	panic("unknown fork op " + op)
}

// forkStart is the root the candidates were committed from.
func (im *impl) forkStart(int) node.Root {
	if im.forksFinal {
		return im.forkBase
	}
	return im.last
}

func genForkCase(r *hlib.Rng, res *hlib.Result) []string {
	g := &keygen{r: r}
	backend := []string{"badgermem", "pathbadgermem", "pathbadgermem", "badger", "pathbadger"}[r.Intn(5)]
	if (backend == "badger" || backend == "pathbadger") && !r.Chance(1, 4) {
		backend += "mem"
	}
	ops := []string{fmt.Sprintf("new %s 0 0", backend)}
	res.Count("fork-backend:" + backend)
	write := func(n int) {
		for i := 0; i < n; i++ {
			switch r.Intn(4) {
			case 0:
				ops = append(ops, fmt.Sprintf("remove 0 %s", hx(g.key())))
			default:
				ops = append(ops, fmt.Sprintf("insert 0 %s %s", hx(g.key()), hx(genValue(r))))
			}
		}
	}
	// the start root: empty, or some finalized contents
	if r.Chance(3, 4) {
		write(1 + r.Intn(6))
		ops = append(ops, "commit")
	}
	m := 2 + r.Intn(3)
	for i := 0; i < m; i++ {
		ops = append(ops, "forkopen")
		write(1 + r.Intn(5))
		ops = append(ops, "forkcommit")
		res.Count("fork-candidates")
	}
	for i := 0; i < m; i++ {
		ops = append(ops, fmt.Sprintf("getwlf %d may", i))
	}
	f := r.Intn(m)
	ops = append(ops, fmt.Sprintf("forkfinalize %d", f))
	for i := 0; i < m; i++ {
		mode := "may"
		if i == f {
			mode = "must"
		}
		ops = append(ops, fmt.Sprintf("getwlf %d %s", i, mode))
	}
	// continue on the finalized fork
	ops = append(ops, "iter 0 - 1000")
	write(1 + r.Intn(4))
	ops = append(ops, "commit", "getwl", "iter 0 - 1000")
	return ops
}
