package main

// Node/value cache transparency (C03 "eviction never changes an answer", C02 "the root does not
// depend on the cache capacity"): classification of eviction failures and the generator of the
// histories in which the node cache is FULL yet comfortably larger than what one operation needs.
//
// Two genuine defects of the unchanged tree are listed as known findings and keep being reported:
//
//   D2b  a WRITE (Insert/Remove/RemoveExisting, also through ApplyWriteLog / overlay Commit) under a
//        node capacity smaller than the number of internal nodes it must hold: an ancestor is
//        evicted in mid-operation, the pointer is marked dirty without a node, the subtree is lost.
//        How much a write must hold is worked out in lean/OasisModel/Mkvs/Cache.lean (`CacheNeed`):
//        need = (distinct internal nodes it dereferences: the path, for removals also every internal
//        sibling) + 1 (the element remembered by markPosition). With capacity >= need the victim of
//        every eviction is a node the operation has not touched, at any fill level.
//        Signature: mkvs-evict-node-cache-below-write-need — only if some write that ran before the
//        divergence had 0 < capacity < need (capacity read from the real cache, need from the model
//        trie that write finds).
//
//   D1b  the clean leaf EMBEDDED in an internal node stays individually evictable (it sits on the
//        value LRU list after a Commit) and is consumed without being dereferenced: Commit marshals
//        the leaf of a dirty node, doRemove reads n.LeafNode.Node after its recursive call. This is
//        not a matter of capacity (any leaf load can evict it once the value cache is full).
//        Signature: mkvs-evict-value-cache-embedded-leaf — only if, before the divergence, the real
//        tree held a DIRTY internal node whose embedded clean leaf was evictable or evicted, or a
//        removal went through an internal node with such a leaf (read-only probes, export_verif.go).
//
// Every other failure that disappears with unlimited caches gets
// mkvs-evict-node-cache-capacity-sufficient / mkvs-evict-value-cache-other, which are listed
// nowhere: a violation.

import (
	"bytes"
	"fmt"
	"os"
	"sort"
	"strconv"
	"strings"

	"verifharness/hlib"

	"github.com/oasisprotocol/oasis-core/go/storage/mkvs"
)

const (
	sigNodeBelowNeed  = "mkvs-evict-node-cache-below-write-need"
	sigNodeSufficient = "mkvs-evict-node-cache-capacity-sufficient"
	sigValueEmbedded  = "mkvs-evict-value-cache-embedded-leaf"
	sigValueOther     = "mkvs-evict-value-cache-other"
)

// opProbe: what the real cache looked like around one op on the tree.
type opProbe struct {
	nodeCap, nodeCount uint64 // before the op (0 capacity = unlimited)
	valCap             uint64
	// leafWindow: a removal is about to go through an in-memory internal node whose embedded clean
	// leaf is evictable or evicted (for batches: any in-memory internal node has such a leaf);
	// or, after the op, a DIRTY internal node has such a leaf.
	leafWindow bool
	deadDirty  int // dirty pointers without a node after the op
}

func (p *opProbe) full() bool { return p.nodeCap > 0 && p.nodeCount >= p.nodeCap }

func probeBefore(im *impl, w []string) *opProbe {
	pr := &opProbe{}
	defer func() { _ = recover() }()
	if im.tree == nil {
		return pr
	}
	info := mkvs.VerifCacheProbe(im.tree)
	pr.nodeCap, pr.nodeCount, pr.valCap = info.NodeCapacity, info.NodeCount, info.ValueCapacity
	switch w[0] {
	case "remove", "remx":
		if len(w) >= 3 && w[1] == "0" {
			pr.leafWindow = mkvs.VerifRemovePathProbe(im.tree, unhx(w[2]))
		}
	case "applywl":
		pr.leafWindow = info.EvictableLeaf > 0 && strings.Contains(w[1], ":~")
	case "ocommit":
		pr.leafWindow = info.EvictableLeaf > 0 && len(im.overlays) == 1
	}
	if info.DirtyEvictableLeaf > 0 {
		pr.leafWindow = true
	}
	return pr
}

func probeAfter(im *impl, pr *opProbe) {
	defer func() { _ = recover() }()
	if im == nil || im.tree == nil {
		return
	}
	info := mkvs.VerifCacheProbe(im.tree)
	if info.DirtyEvictableLeaf > 0 {
		pr.leafWindow = true
	}
	pr.deadDirty = info.DeadDirty
}

// measureNeeds returns, for every op of the case that writes to the tree, the node capacity that
// suffices for it. `run` must be a run the model accepts (unlimited caches).
func measureNeeds(run caseRun) (map[int]int, error) {
	ans, err := hlib.RunModel("mkvs", append([]string{"needs"}, run.lines...))
	if err != nil {
		return nil, err
	}
	needs := map[int]int{}
	for j, a := range ans[1:] {
		if i := strings.Index(a, "need="); i >= 0 && j < len(run.idx) {
			if n, err := strconv.Atoi(strings.TrimSpace(a[i+5:])); err == nil {
				needs[run.idx[j]] = n
			}
		}
	}
	return needs, nil
}

// classifyNodeEviction: the divergence of `ops` disappears with an unlimited node cache.
func classifyNodeEviction(ops []string, all0 caseRun) string {
	needs, err := measureNeeds(all0)
	if err != nil {
		return sigNodeSufficient
	}
	run := execCase(ops, true)
	_, bad := judge(run)
	traceProbes(ops, run, bad, needs)
	for i, pr := range run.probes {
		if bad >= 0 && i > bad {
			continue
		}
		if n, ok := needs[i]; ok && pr.nodeCap > 0 && pr.nodeCap < uint64(n) {
			return sigNodeBelowNeed
		}
	}
	return sigNodeSufficient
}

// classifyValueEviction: the divergence of `ops` persists with an unlimited node cache and
// disappears with an unlimited value cache.
func classifyValueEviction(ops []string) string {
	run := execCase(ops, true)
	_, bad := judge(run)
	traceProbes(ops, run, bad, nil)
	for i, pr := range run.probes {
		if bad >= 0 && i > bad {
			continue
		}
		if pr.leafWindow {
			return sigValueEmbedded
		}
	}
	return sigValueOther
}

// describeEviction explains the classification in the failure detail.
func describeEviction(sig string) string {
	switch sig {
	case sigNodeBelowNeed:
		return "a write ran under a node-cache capacity below its need (path + internal siblings + 1)"
	case sigNodeSufficient:
		return "every write had a node-cache capacity of at least its need (path + internal siblings + 1), so no node it holds may be evicted"
	case sigValueEmbedded:
		return "the evictable embedded leaf of a dirty or removed-through internal node"
	case sigValueOther:
		return "no dirty or removed-through internal node had an evictable embedded leaf before the divergence"
	}
	return ""
}

// ---------------------------------------------------------------- shape of the tree of a key set

func keyBit(k []byte, i int) bool { return k[i/8]&(1<<(7-uint(i%8))) != 0 }

// trieShape returns the number of internal nodes on the longest root-to-leaf path and the number
// of internal nodes of the compressed binary trie that holds exactly the given keys (an internal
// node exists at a bit prefix iff at least two of {a key equal to it, keys continuing with 0, keys
// continuing with 1} exist; insert.go/remove.go maintain exactly this form, `WF` in the model).
func trieShape(keys [][]byte) (height, internal int) {
	ks := append([][]byte{}, keys...)
	sort.Slice(ks, func(i, j int) bool { return bytes.Compare(ks[i], ks[j]) < 0 })
	var uniq [][]byte
	for i, k := range ks {
		if i == 0 || !bytes.Equal(k, ks[i-1]) {
			uniq = append(uniq, k)
		}
	}
	var rec func(ks [][]byte) (int, int)
	rec = func(ks [][]byte) (int, int) {
		if len(ks) <= 1 {
			return 0, 0
		}
		first, last := ks[0], ks[len(ks)-1]
		cp := 0
		for cp < 8*len(first) && cp < 8*len(last) && keyBit(first, cp) == keyBit(last, cp) {
			cp++
		}
		rest := ks
		if cp == 8*len(first) {
			rest = ks[1:] // the first key ends here: the node's embedded leaf
		}
		split := sort.Search(len(rest), func(i int) bool { return keyBit(rest[i], cp) })
		hl, il := rec(rest[:split])
		hr, ir := rec(rest[split:])
		if hr > hl {
			hl = hr
		}
		return 1 + hl, 1 + il + ir
	}
	return rec(uniq)
}

// hasPrefixKey reports whether a key is a proper prefix of another one (the tree then has an
// internal node with an embedded leaf).
func hasPrefixKey(keys [][]byte) bool {
	ks := append([][]byte{}, keys...)
	sort.Slice(ks, func(i, j int) bool { return bytes.Compare(ks[i], ks[j]) < 0 })
	for i := 0; i+1 < len(ks); i++ {
		if len(ks[i]) < len(ks[i+1]) && bytes.HasPrefix(ks[i+1], ks[i]) {
			return true
		}
	}
	return false
}

// ---------------------------------------------------------------- generator

// genCacheCase: a tree of some hundred keys is built and committed with unlimited caches, then
// re-opened at the committed root (NewWithRoot on the node database) with a node capacity between
// what one write needs and the number of internal nodes, so that the cache fills up and evicts
// while being larger than any path. Then rounds of: a read in one region; a run of reads and scans
// elsewhere (its length spread around the capacity, so that the ancestors loaded by the first read
// travel to the tail of the LRU list); a write under those long-resident clean ancestors; reads
// that check the region and, from time to time, the whole tree, a commit, another reopen.
//
// Capacity classes (counter cachecase:cap:*):
//   tight       the largest need of any write of the case, measured by the model (two passes):
//               the boundary of the transparency argument in Cache.lean
//   tight+      tight plus a few
//   mid         between tight and the number of internal nodes
//   near-full   a few below the number of internal nodes
//   below       smaller than the need of some write: the known finding D2b must show (and only it)
func genCacheCase(r *hlib.Rng, res *hlib.Result) []string {
	backend := []string{"badgermem", "pathbadgermem"}[r.Intn(2)]
	if r.Chance(1, 10) {
		backend = strings.TrimSuffix(backend, "mem") // on disk
	}
	res.Count("cachecase:backend:" + backend)

	// Key set: groups with a common prefix and numbered members (the shape of consensus state:
	// module prefix + id), random short keys, and some keys that are prefixes of others.
	var keys [][]byte
	seen := map[string]bool{}
	add := func(k []byte) {
		if !seen[string(k)] {
			seen[string(k)] = true
			keys = append(keys, k)
		}
	}
	style := r.Intn(3)
	ngroups := 2 + r.Intn(4)
	for g := 0; g < ngroups; g++ {
		var prefix []byte
		switch style {
		case 0:
			prefix = []byte(fmt.Sprintf("%c/", 'a'+g))
		case 1:
			prefix = []byte{alphabet[g%4], byte(r.Intn(256))}
		default:
			prefix = []byte{byte(0x10 * (g + 1))}
		}
		n := 10 + r.Intn(90)
		for i := 0; i < n; i++ {
			switch style {
			case 0:
				add(append(append([]byte{}, prefix...), []byte(fmt.Sprintf("%03d", i))...))
			case 1:
				add(append(append([]byte{}, prefix...), byte(i), byte(r.Intn(4))))
			default:
				k := append([]byte{}, prefix...)
				for j := 0; j <= r.Intn(3); j++ {
					k = append(k, byte(r.Intn(256)))
				}
				add(k)
			}
		}
		if r.Chance(1, 3) {
			add(prefix) // a prefix key: an internal node with an embedded leaf
		}
	}
	prefixKeys := hasPrefixKey(keys)
	sort.Slice(keys, func(i, j int) bool { return bytes.Compare(keys[i], keys[j]) < 0 })
	h, internal := trieShape(keys)

	val := func() []byte {
		b := make([]byte, 1+r.Intn(6))
		for i := range b {
			b[i] = byte(r.Intn(256))
		}
		return b
	}
	ops := []string{fmt.Sprintf("new %s 0 0", backend)}
	order := make([]int, len(keys))
	for i := range order {
		order[i] = i
	}
	for i := len(order) - 1; i > 0; i-- {
		j := r.Intn(i + 1)
		order[i], order[j] = order[j], order[i]
	}
	for n, i := range order {
		ops = append(ops, fmt.Sprintf("insert 0 %s %s", hx(keys[i]), hx(val())))
		if n == len(order)/2 && r.Bool() {
			ops = append(ops, "commit")
		}
	}
	ops = append(ops, "commit")

	// Capacity class. CAP is substituted once the class's value is known.
	class := []string{"tight", "tight", "tight+", "mid", "mid", "near-full", "below"}[r.Intn(7)]
	valCap := []int{0, 1 << 20, 1 << 20, 4096}[r.Intn(4)]
	if !prefixKeys && r.Chance(1, 4) {
		valCap = 64 + r.Intn(512) // leaves evicted too; without embedded leaves D1b cannot occur
	}
	reopen := func() string {
		s := fmt.Sprintf("reopen CAP %d", valCap)
		if r.Chance(1, 4) {
			s += " db"
		}
		return s
	}
	ops = append(ops, reopen())
	res.Count("cachecase:reopened-at-root")

	near := func(i, spread int) int {
		j := i + r.Intn(2*spread+1) - spread
		if j < 0 {
			j = 0
		}
		if j >= len(keys) {
			j = len(keys) - 1
		}
		return j
	}
	capGuess := 2*h + 1
	rounds := 3 + r.Intn(6)
	for round := 0; round < rounds; round++ {
		// (1) a read in region X
		x := r.Intn(len(keys))
		ops = append(ops, "get 0 "+hx(keys[x]))
		// (2) a run of reads elsewhere: sequential neighbours far from x, or a scan
		run := r.Intn(3*capGuess + 4)
		if r.Chance(1, 6) {
			run = 0
		}
		switch {
		case run == 0:
			res.Count("cachecase:reads-between:0")
		case run <= 8:
			res.Count("cachecase:reads-between:1-8")
		case run <= 32:
			res.Count("cachecase:reads-between:9-32")
		default:
			res.Count("cachecase:reads-between:33+")
		}
		y := (x + len(keys)/2 + r.Intn(len(keys)/4+1)) % len(keys)
		if r.Chance(1, 4) && run > 0 {
			ops = append(ops, fmt.Sprintf("iter 0 %s %d", hx(keys[y]), run))
			res.Count("cachecase:scan-run")
		} else {
			for i := 0; i < run; i++ {
				ops = append(ops, "get 0 "+hx(keys[(y+i)%len(keys)]))
			}
		}
		// (3) writes under the long-resident ancestors of x
		nw := 1 + r.Intn(3)
		for i := 0; i < nw; i++ {
			t := keys[near(x, 6)]
			switch k := r.Intn(10); {
			case k < 3:
				ops = append(ops, fmt.Sprintf("insert 0 %s %s", hx(t), hx(val())))
				res.Count("cachecase:write:overwrite")
			case k < 5:
				nk := append(append([]byte{}, t...), byte(r.Intn(4)))
				if r.Bool() && len(t) > 0 {
					nk = append([]byte{}, t...)
					nk[len(nk)-1] ^= 1 << uint(r.Intn(8))
				}
				ops = append(ops, fmt.Sprintf("insert 0 %s %s", hx(nk), hx(val())))
				res.Count("cachecase:write:insert-new")
			case k < 7:
				ops = append(ops, "remove 0 "+hx(t))
				res.Count("cachecase:write:remove")
			case k < 9:
				ops = append(ops, "remx 0 "+hx(t))
				res.Count("cachecase:write:remx")
			default:
				ops = append(ops, fmt.Sprintf("applywl %s:%s,%s:~", hx(t), hx(val()), hx(keys[near(x, 6)])))
				res.Count("cachecase:write:applywl")
			}
		}
		// (4) look at the region, sometimes at everything; commit; reopen
		ops = append(ops, "get 0 "+hx(keys[x]), fmt.Sprintf("iter 0 %s %d", hx(keys[near(x, 8)]), 4+r.Intn(12)))
		if r.Chance(1, 3) {
			ops = append(ops, "iter 0 - 1000")
		}
		if r.Chance(1, 2) {
			ops = append(ops, "commit")
			if r.Chance(1, 3) {
				ops = append(ops, reopen())
				res.Count("cachecase:reopened-at-root")
			}
		}
	}
	ops = append(ops, "iter 0 - 1000", "wf", "commit", "reopen 0 0", "iter 0 - 1000")

	// Second pass: the needs of the writes as the model measures them decide the capacity.
	firstReopen := 0
	for i, op := range ops {
		if strings.HasPrefix(op, "reopen CAP") {
			firstReopen = i
			break
		}
	}
	maxNeed := 0
	if needs, err := measureNeeds(execCase(withCaps(substCap(ops, 0), "all0"), false)); err == nil {
		for i, n := range needs {
			if i > firstReopen && n > maxNeed {
				maxNeed = n
			}
		}
	}
	if maxNeed == 0 {
		maxNeed = capGuess
	}
	if internal <= maxNeed+1 && class != "below" && class != "tight" {
		class = "tight+"
	}
	c := maxNeed
	switch class {
	case "tight+":
		c = maxNeed + 1 + r.Intn(4)
	case "mid":
		c = maxNeed + 1 + r.Intn(internal-maxNeed)
	case "near-full":
		c = internal - 1 - r.Intn(4)
		if c < maxNeed {
			c = maxNeed
		}
	case "below":
		c = 1 + r.Intn(maxNeed)
		if c >= maxNeed {
			c = maxNeed - 1
		}
		if c < 1 {
			c, class = maxNeed, "tight"
		}
	}
	res.Count("cachecase:cap:" + class)
	if c < internal {
		res.Count("cachecase:cap-smaller-than-tree")
	}
	res.CountN("cachecase:keys", len(keys))
	return substCap(ops, c)
}

func substCap(ops []string, c int) []string {
	out := make([]string, len(ops))
	for i, op := range ops {
		out[i] = strings.Replace(op, "reopen CAP ", fmt.Sprintf("reopen %d ", c), 1)
	}
	return out
}

// countCacheRun adds what the probes of one cache case saw to the counters: how often a write
// found the node LRU list full, and how that capacity related to the write's need.
func countCacheRun(run caseRun, ops []string, needs map[int]int, res *hlib.Result) {
	for i, pr := range run.probes {
		n, isWrite := needs[i]
		if !isWrite || pr.nodeCap == 0 {
			continue
		}
		res.Count("cachecase:writes-under-limited-node-cache")
		if pr.full() {
			res.Count("cachecase:writes-with-full-node-cache")
			if pr.nodeCap >= uint64(n) {
				res.Count("cachecase:writes-with-full-node-cache-and-capacity>=need")
			}
			if pr.nodeCap == uint64(n) {
				res.Count("cachecase:writes-with-full-node-cache-and-capacity==need")
			}
		}
		if pr.nodeCap < uint64(n) {
			res.Count("cachecase:writes-below-need")
		}
	}
}

// traceProbes prints what the classification saw (VERIF_MKVS_TRACE=1).
func traceProbes(ops []string, run caseRun, bad int, needs map[int]int) {
	if os.Getenv("VERIF_MKVS_TRACE") == "" {
		return
	}
	for i, op := range ops {
		if pr, ok := run.probes[i]; ok {
			fmt.Fprintf(os.Stderr, "probe op %d `%s`: nodeCap=%d count=%d valCap=%d leafWindow=%v deadDirtyAfter=%d need=%d bad=%v\n",
				i, clip(op), pr.nodeCap, pr.nodeCount, pr.valCap, pr.leafWindow, pr.deadDirty, needs[i], i == bad)
		}
	}
}
