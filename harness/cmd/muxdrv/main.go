// muxdrv: property C01 — replicas compute identical state and results for identical blocks.
//
// Drives REAL ABCI multiplexers (abci.NewApplicationServer with the real beacon, governance,
// keymanager, registry, roothash, scheduler, staking and vault applications, registered as
// full/common.go does) through generated ABCI call sequences:
//
//	oracle O   executes every candidate block step by step on a fresh overlay (no cache involved)
//	           and the decided block by plain replay; its outputs are the executor `exec` the
//	           Lean model (om_mux) is instantiated with;
//	replicas   one per validator identity, each with its own data directory, each given a
//	           different mixture of PrepareProposal (when it is the proposer), ProcessProposal of
//	           some of the candidate blocks, abandoned proposals, restarts from disk, aborted
//	           deliveries, CheckTx / EstimateGas / state queries (optionally from a concurrent
//	           goroutine) and a background pruner, and finally the delivery of the decided block.
//
// Checked for every history:
//  1. correspondence: every response of every replica is the one the Lean model of the proposal
//     cache predicts (`ok` / `DIVERGE`);
//  2. spec on the implementation (twin replicas): AppHash per height, per-transaction result
//     digest, BeginBlock/EndBlock digests (validator updates as a set) agree between all
//     replicas and the oracle; PrepareProposal returns exactly the block the harness builds from
//     the oracle's roots; ProcessProposal accepts exactly the blocks the oracle executes;
//  3. the same history is executed `-reps` times on fresh nodes (Go randomizes map iteration per
//     range statement) and must produce the same AppHash chain.
package main

import (
	"bytes"
	"context"
	"encoding/hex"
	"flag"
	"fmt"
	"os"
	"strings"
	"sync"
	"time"

	"github.com/cometbft/cometbft/abci/types"
	"github.com/cometbft/cometbft/crypto/ed25519"

	"verifharness/hlib"

	"github.com/oasisprotocol/oasis-core/go/common/cbor"
	"github.com/oasisprotocol/oasis-core/go/common/crypto/hash"
	"github.com/oasisprotocol/oasis-core/go/common/quantity"
	"github.com/oasisprotocol/oasis-core/go/common/version"
	consensus "github.com/oasisprotocol/oasis-core/go/consensus/api"
	"github.com/oasisprotocol/oasis-core/go/consensus/api/transaction"
	"github.com/oasisprotocol/oasis-core/go/consensus/cometbft/abci"
	cmtapi "github.com/oasisprotocol/oasis-core/go/consensus/cometbft/api"
	governanceState "github.com/oasisprotocol/oasis-core/go/consensus/cometbft/apps/governance/state"
	schedulerState "github.com/oasisprotocol/oasis-core/go/consensus/cometbft/apps/scheduler/state"
	stakingState "github.com/oasisprotocol/oasis-core/go/consensus/cometbft/apps/staking/state"
	governance "github.com/oasisprotocol/oasis-core/go/governance/api"
	staking "github.com/oasisprotocol/oasis-core/go/staking/api"
	"github.com/oasisprotocol/oasis-core/go/storage/mkvs"
	upgrade "github.com/oasisprotocol/oasis-core/go/upgrade/api"
)

// ---- oracle ----------------------------------------------------------------------------------

// obs is one observation of the executor: a candidate's ordinary transactions executed on the
// committed state with root `s`.
type obs struct {
	s, hdr, lc, ev string
	txs            []string
	rb             string // "PANIC" when BeginBlock panicked
	rds            []string
	re             string // "PANIC" when EndBlock panicked, "" when not reached
	root, evroot   string
	rootB, evrootB []byte
	ok             bool
	panicMsg       string
	orderedDigests []string
}

func (o *obs) line() string {
	re := o.re
	if re == "" {
		re = "PANIC"
	}
	root, evroot := o.root, o.evroot
	if root == "" {
		root, evroot = "none", "none"
	}
	return fmt.Sprintf("obs %s %s %s %s %s %s %s %s %s %s", o.s, o.hdr, o.lc, o.ev, joinOrDash(o.txs), o.rb, joinOrDash(o.rds), re, root, evroot)
}

// observe executes the ordinary transactions of b on the oracle's committed state in proposing
// mode (empty hash: no metadata validation) and reads the working roots.
func observe(w *world, o *replica, s string, b *block, user [][]byte) *obs {
	ob := &obs{s: s, hdr: b.hdrToken(), lc: b.lcToken(), ev: b.evToken()}
	for _, t := range tokens(w, user) {
		ob.txs = append(ob.txs, strings.TrimPrefix(t, "u:"))
	}
	o.srv.VerifResetProposal()
	var rb types.ResponseBeginBlock
	if p := guard(func() {
		rb = o.mux.BeginBlock(types.RequestBeginBlock{Hash: nil, Header: b.header(w), LastCommitInfo: b.lc, ByzantineValidators: b.ev})
	}); p != "" {
		ob.rb, ob.panicMsg = "PANIC", p
		o.srv.VerifResetProposal()
		return ob
	}
	d, od := digBegin(rb)
	ob.rb = d
	ob.orderedDigests = append(ob.orderedDigests, od)
	for _, tx := range user {
		var rd types.ResponseDeliverTx
		if p := guard(func() { rd = o.mux.DeliverTx(types.RequestDeliverTx{Tx: tx}) }); p != "" {
			ob.panicMsg = "deliver: " + p
			o.srv.VerifResetProposal()
			return ob
		}
		d, od := digDeliver(rd)
		ob.rds = append(ob.rds, d)
		ob.orderedDigests = append(ob.orderedDigests, od)
	}
	var re types.ResponseEndBlock
	if p := guard(func() { re = o.mux.EndBlock(types.RequestEndBlock{Height: b.height}) }); p != "" {
		ob.re, ob.panicMsg = "PANIC", p
		o.srv.VerifResetProposal()
		return ob
	}
	d, od = digEnd(re)
	ob.re = d
	ob.orderedDigests = append(ob.orderedDigests, od)
	sr, er, err := o.srv.VerifWorkingRoots()
	if err != nil {
		ob.re, ob.panicMsg = "PANIC", "roots: "+err.Error()
		o.srv.VerifResetProposal()
		return ob
	}
	ob.rootB, ob.evrootB = sr, er
	ob.root, ob.evroot = hex.EncodeToString(sr), hex.EncodeToString(er)
	ob.ok = true
	o.srv.VerifResetProposal()
	return ob
}

// metaTx builds the block metadata transaction signed by validator `signer`.
func (w *world) metaTx(signer int, stateRoot, eventsRoot []byte, nonce uint64) []byte {
	var sr hash.Hash
	copy(sr[:], stateRoot)
	tx := consensus.NewBlockMetadataTx(&consensus.BlockMetadata{StateRoot: sr, EventsRoot: eventsRoot})
	tx.Nonce = nonce
	sig, err := transaction.Sign(w.vals[signer-1].id.ConsensusSigner, tx)
	if err != nil {
		panic(err)
	}
	return cbor.Marshal(sig)
}

// ---- transactions ----------------------------------------------------------------------------

type txgen struct {
	w      *world
	r      *hlib.Rng
	nonces map[int]uint64
	// governance script: 0 wait for the first election, 1 submit upgrade, 2 vote, 3 wait until it
	// closed, 4 submit cancel, 5 vote, 6 done
	govPhase int
}

func (g *txgen) addrOf(i int) staking.Address { return staking.NewAddress(g.w.accts[i].Public()) }

func (g *txgen) entityAddrRaw(i int) staking.Address { return staking.NewAddress(g.w.vals[i].ent.ID) }

func (g *txgen) entityAddr(i int) staking.Address {
	if g.w.tie && i < 2 {
		i += 2 // keep the escrow of the tied entities 1 and 2 untouched
	}
	return staking.NewAddress(g.w.vals[i].ent.ID)
}

// fee picks a fee: nil, below / at / above the consensus minimum gas price.
func (g *txgen) fee(res *hlib.Result) *transaction.Fee {
	r := g.r
	var fee *transaction.Fee
	if g.w.tie {
		// zero-amount fees: gas is available, nothing is credited to escrow (keeps the engineered tie)
		fee = &transaction.Fee{Gas: transaction.Gas(2000 + r.Intn(3000))}
	} else { // fees are partly credited to escrow and would break the engineered tie
		gas := uint64(2000 + r.Intn(3000))
		min := g.w.minGas
		switch k := r.Intn(10); {
		case k == 0:
			res.Count("fee:nil")
		case k == 1:
			fee = &transaction.Fee{Amount: q(gas*min - 1), Gas: transaction.Gas(gas)}
			res.Count("fee:below-consensus-minimum")
		case k < 5:
			fee = &transaction.Fee{Amount: q(gas * min), Gas: transaction.Gas(gas)}
			res.Count("fee:at-consensus-minimum")
		default:
			fee = &transaction.Fee{Amount: q(gas*min*uint64(2+r.Intn(3)) + uint64(r.Intn(50))), Gas: transaction.Gas(gas)}
			res.Count("fee:above-minimum")
		}
	}
	return fee
}

// okFee is a fee that satisfies the consensus minimum gas price.
func (g *txgen) okFee() *transaction.Fee {
	if g.w.tie {
		return &transaction.Fee{Gas: 5000} // zero amount: nothing is credited to anybody's escrow
	}
	return &transaction.Fee{Amount: q(5000 * g.w.minGas), Gas: 5000}
}

func (g *txgen) signed(from int, tx *transaction.Transaction) []byte {
	sig, err := transaction.Sign(g.w.signers[from], tx)
	if err != nil {
		panic(err)
	}
	return cbor.Marshal(sig)
}

// advanceGov moves the governance script on, looking at the oracle's committed state.
func (g *txgen) advanceGov(o *replica) {
	tree := openTree(o)
	if tree == nil {
		return
	}
	defer tree.Close()
	ctx := context.Background()
	switch g.govPhase {
	case 0:
		if vals, err := schedulerState.NewImmutableState(tree).CurrentValidators(ctx); err == nil && len(vals) > 0 {
			g.govPhase = 1
		}
	case 3:
		if p, err := governanceState.NewImmutableState(tree).Proposal(ctx, 1); err == nil && p.State != governance.StateActive {
			g.govPhase = 6
			if p.State == governance.StatePassed {
				g.govPhase = 4
			}
		}
	}
}

// governanceTxs are included in every candidate block of the given (relative) height: an upgrade
// proposal that all validator entities vote for (it passes at the next epoch transition and is
// handed to every node's LOCAL upgrade manager), later a proposal cancelling it, also voted in.
func (g *txgen) governanceTxs(o *replica, res *hlib.Result) [][]byte {
	g.advanceGov(o)
	ent := func(i int) int { return numAccounts + numValidators + i } // signer index of entity i
	var out [][]byte
	votes := func(id uint64) {
		for i := 0; i < numValidators; i++ {
			out = append(out, g.signed(ent(i), governance.NewCastVoteTx(g.nonces[ent(i)], g.okFee(), &governance.ProposalVote{ID: id, Vote: governance.VoteYes})))
			res.Count("tx:gov-cast-vote")
		}
	}
	switch g.govPhase {
	case 1:
		desc := upgrade.Descriptor{Versioned: cbor.NewVersioned(upgrade.LatestDescriptorVersion), Handler: "verif-c01-upgrade",
			Target: version.Versions, Epoch: g.w.doc.Beacon.Base + 40}
		out = append(out, g.signed(ent(3), governance.NewSubmitProposalTx(g.nonces[ent(3)], g.okFee(),
			&governance.ProposalContent{Upgrade: &governance.UpgradeProposal{Descriptor: desc}})))
		res.Count("tx:gov-submit-upgrade")
		g.govPhase = 2
	case 2:
		votes(1)
		g.govPhase = 3
	case 4:
		out = append(out, g.signed(ent(2), governance.NewSubmitProposalTx(g.nonces[ent(2)], g.okFee(),
			&governance.ProposalContent{CancelUpgrade: &governance.CancelUpgradeProposal{ProposalID: 1}})))
		res.Count("tx:gov-submit-cancel-upgrade")
		g.govPhase = 5
	case 5:
		votes(2)
		g.govPhase = 6
	}
	return out
}

// gen produces a signed staking transaction from account `from` with the given nonce.
func (g *txgen) gen(from int, nonce uint64, res *hlib.Result) []byte {
	r := g.r
	fee := g.fee(res)
	amt := func() quantity.Quantity {
		switch r.Intn(6) {
		case 0:
			return q(uint64(r.Intn(10))) // below minimum
		case 1:
			return q(9_000_000_000) // more than the balance
		default:
			return q(uint64(10 + r.Intn(5000)))
		}
	}
	var tx *transaction.Transaction
	k := r.Intn(100)
	switch {
	case k < 35:
		to := g.addrOf(r.Intn(numAccounts))
		if r.Chance(1, 4) {
			to = g.entityAddr(r.Intn(numValidators))
		}
		tx = staking.NewTransferTx(nonce, fee, &staking.Transfer{To: to, Amount: amt()})
		res.Count("tx:transfer")
	case k < 45:
		tx = staking.NewBurnTx(nonce, fee, &staking.Burn{Amount: amt()})
		res.Count("tx:burn")
	case k < 70:
		tx = staking.NewAddEscrowTx(nonce, fee, &staking.Escrow{Account: g.entityAddr(r.Intn(numValidators)), Amount: amt()})
		res.Count("tx:add-escrow")
	case k < 82:
		tx = staking.NewReclaimEscrowTx(nonce, fee, &staking.ReclaimEscrow{Account: g.entityAddr(r.Intn(numValidators)), Shares: amt()})
		res.Count("tx:reclaim-escrow")
	case k < 90:
		var neg bool
		if r.Chance(1, 3) {
			neg = true
		}
		tx = staking.NewAllowTx(nonce, fee, &staking.Allow{Beneficiary: g.addrOf(r.Intn(numAccounts)), Negative: neg, AmountChange: amt()})
		res.Count("tx:allow")
	default:
		tx = staking.NewWithdrawTx(nonce, fee, &staking.Withdraw{From: g.addrOf(r.Intn(numAccounts)), Amount: amt()})
		res.Count("tx:withdraw")
	}
	sig, err := transaction.Sign(g.w.signers[from], tx)
	if err != nil {
		panic(err)
	}
	return cbor.Marshal(sig)
}

// mempool builds the transactions available at one height: mostly valid next-nonce transactions,
// some with a stale or future nonce, some garbage.
func (g *txgen) mempool(n int, res *hlib.Result) [][]byte {
	var out [][]byte
	next := map[int]uint64{}
	for k, v := range g.nonces {
		next[k] = v
	}
	for i := 0; i < n; i++ {
		from := g.r.Intn(numAccounts)
		if g.r.Chance(1, 4) {
			// signed by a validator node's own key: that node's OwnTxSigner
			from = numAccounts + g.r.Intn(numValidators)
			res.Count("tx:signed-by-a-node-own-key")
		}
		switch g.r.Intn(12) {
		case 0:
			b := make([]byte, 5+g.r.Intn(40))
			for j := range b {
				b[j] = byte(g.r.Next())
			}
			out = append(out, b)
			res.Count("tx:garbage")
		case 1:
			out = append(out, g.gen(from, next[from]+uint64(1+g.r.Intn(3)), res))
			res.Count("tx:future-nonce")
		case 2:
			if next[from] > 0 {
				out = append(out, g.gen(from, next[from]-1, res))
				res.Count("tx:stale-nonce")
			}
		default:
			out = append(out, g.gen(from, next[from], res))
			next[from]++
		}
	}
	return out
}

// refreshNonces reads the account nonces from the oracle's committed state.
func (g *txgen) refreshNonces(o *replica) {
	ctx := context.Background()
	tree := openTree(o)
	if tree == nil {
		return
	}
	defer tree.Close()
	ss := stakingState.NewImmutableState(tree)
	for i := range g.w.signers {
		if a, err := ss.Account(ctx, staking.NewAddress(g.w.signers[i].Public())); err == nil {
			g.nonces[i] = a.General.Nonce
		}
	}
}

// openTree opens a read-only tree at the node's last committed version (what a query does).
func openTree(r *replica) mkvs.Tree {
	st := r.srv.State()
	h := st.LastHeight()
	if h == 0 {
		return nil
	}
	ndb := st.Storage().NodeDB()
	roots, err := ndb.GetRootsForVersion(uint64(h))
	if err != nil || len(roots) != 1 {
		return nil
	}
	return mkvs.NewWithRoot(nil, ndb, roots[0], mkvs.WithoutWriteLog())
}

// ---- scripts ---------------------------------------------------------------------------------

type op struct {
	kind string // prepare process begin deliver end commit restart checktx simulate query
	blk  *block // prepare: the proposal input (no metadata); process/begin: the complete block
	tx   []byte
}

type session struct {
	r            *replica
	lines        []string
	appHash      map[int64]string
	results      map[int64][]string // per height: responses to begin/deliver*/end of the decided block
	ordered      map[int64][]string // the same with events and validator updates in emission order
	dead         bool               // crashed during final delivery (stays down)
	failMsg      []string
	panics       []string
	lastPrepared *block // input of the PrepareProposal that was the previous cache-changing call
}

type driver struct {
	w            *world
	res          *hlib.Result
	rng          *hlib.Rng
	base         string
	nextBlk      int
	hashNos      map[string]int
	gapMode      bool
	gapAsFailure bool
	conc         bool
	verbose      bool
}

func (d *driver) hashNo(h []byte) int {
	if len(h) == 0 {
		return 0
	}
	k := hex.EncodeToString(h)
	if n, ok := d.hashNos[k]; ok {
		return n
	}
	n := len(d.hashNos) + 1
	d.hashNos[k] = n
	return n
}

func (d *driver) blkLine(b *block) string {
	return fmt.Sprintf("blk %d %s %s %s %s", b.id, b.hdrToken(), b.lcToken(), b.evToken(), joinOrDash(tokens(d.w, b.txs)))
}

func (d *driver) newBlock(h int64, t time.Time, prop int, lc types.CommitInfo, ev []types.Misbehavior, txs [][]byte) *block {
	d.nextBlk++
	b := &block{id: d.nextBlk, height: h, time: t, propIdx: prop, lc: lc, ev: ev, txs: txs, nvh: []byte{byte(h), 1, 2, 3}}
	b.computeHash()
	b.hashNo = d.hashNo(b.hash)
	return b
}

// exec runs one op on the replica and returns the model line.
func (s *session) exec(d *driver, o op, height int64) {
	r := s.r
	w := d.w
	switch o.kind {
	case "prepare":
		b := o.blk
		ext := types.ExtendedCommitInfo{Round: b.lc.Round}
		for _, v := range b.lc.Votes {
			ext.Votes = append(ext.Votes, types.ExtendedVoteInfo{Validator: v.Validator, SignedLastBlock: v.SignedLastBlock})
		}
		var resp types.ResponsePrepareProposal
		p := guard(func() {
			resp = r.mux.PrepareProposal(types.RequestPrepareProposal{MaxTxBytes: 4 * 1024 * 1024, Txs: b.txs, LocalLastCommit: ext,
				Misbehavior: b.ev, Height: b.height, Time: b.time, NextValidatorsHash: b.nvh, ProposerAddress: w.proposerAddr(b.propIdx)})
		})
		ans := joinOrDash(tokens(w, resp.Txs))
		if p != "" {
			ans = "PANIC"
			s.panics = append(s.panics, o.kind+": "+p)
		}
		s.lines = append(s.lines, fmt.Sprintf("prepare %d %s", b.id, ans))
		o.blk.prepared = resp.Txs
		s.probe(d)
		s.lastPrepared = nil
		if len(resp.Txs) > 0 {
			s.lastPrepared = o.blk
		}
	case "process":
		b := o.blk
		var resp types.ResponseProcessProposal
		p := guard(func() {
			resp = r.mux.ProcessProposal(types.RequestProcessProposal{Txs: b.txs, ProposedLastCommit: b.lc, Misbehavior: b.ev, Hash: b.hash,
				Height: b.height, Time: b.time, NextValidatorsHash: b.nvh, ProposerAddress: w.proposerAddr(b.propIdx)})
		})
		ans := "REJECT"
		if resp.Status == types.ResponseProcessProposal_ACCEPT {
			ans = "ACCEPT"
		}
		if p != "" {
			ans = "PANIC"
			s.panics = append(s.panics, o.kind+": "+p)
		}
		s.lines = append(s.lines, fmt.Sprintf("process %d %d %s", b.hashNo, b.id, ans))
		if b.verdicts == nil {
			b.verdicts = map[string]string{}
		}
		b.verdicts[r.name] = ans
		_, _, recorded := s.probe(d)
		if lp := s.lastPrepared; lp != nil && lp.propIdx == b.propIdx && lp.lcToken() == b.lcToken() && lp.evToken() == b.evToken() &&
			lp.hdrToken() == b.hdrToken() && equalTxs(lp.prepared, b.txs) {
			// the proposer's own block coming straight back with the same commit info
			k := "honest-path:own-block-back:cache-hit"
			if !recorded {
				k = "honest-path:own-block-back:CACHE-MISS"
			}
			d.res.Count(k)
			if b.height == d.w.doc.Height {
				d.res.Count(k + ":first-height-empty-commit")
			}
		}
		s.lastPrepared = nil
		switch {
		case recorded && b.propIdx == r.self:
			d.res.Count("process:own-block-served-from-cache")
		case recorded:
			d.res.Count("process:foreign-block-served-from-cache")
		case b.propIdx == r.self:
			d.res.Count("process:own-block-executed")
		default:
			d.res.Count("process:foreign-block-executed")
		}
	case "begin":
		s.lastPrepared = nil
		b := o.blk
		var resp types.ResponseBeginBlock
		p := guard(func() {
			resp = r.mux.BeginBlock(types.RequestBeginBlock{Hash: b.hash, Header: b.header(w), LastCommitInfo: b.lc, ByzantineValidators: b.ev})
		})
		ans, od := digBegin(resp)
		s.ordered[height] = append(s.ordered[height], od)
		if p != "" {
			ans = "PANIC"
			s.panics = append(s.panics, o.kind+": "+p)
			s.dead = true
		}
		s.lines = append(s.lines, fmt.Sprintf("begin %d %d %s", b.hashNo, b.id, ans))
		s.results[height] = append(s.results[height], ans)
	case "deliver":
		var resp types.ResponseDeliverTx
		p := guard(func() { resp = r.mux.DeliverTx(types.RequestDeliverTx{Tx: o.tx}) })
		ans, od := digDeliver(resp)
		s.ordered[height] = append(s.ordered[height], od)
		if r.self == 0 && p == "" {
			if resp.Code == 0 {
				d.res.Count("decided-tx:ok")
			} else {
				k := fmt.Sprintf("decided-tx:error:%s/%d", resp.Codespace, resp.Code)
				if resp.Codespace == "unknown" {
					l := resp.Log
					if i := strings.IndexAny(l, " :("); i > 0 {
						l = l[:i]
					}
					k += ":" + strings.ReplaceAll(l, " ", "_")
				}
				d.res.Count(k)
			}
		}
		if p != "" {
			ans = "PANIC"
			s.panics = append(s.panics, o.kind+": "+p)
			s.dead = true
		}
		s.lines = append(s.lines, fmt.Sprintf("deliver %s %s", w.rawToken(o.tx), ans))
		s.results[height] = append(s.results[height], ans)
	case "end":
		var resp types.ResponseEndBlock
		p := guard(func() { resp = r.mux.EndBlock(types.RequestEndBlock{Height: height}) })
		ans, od := digEnd(resp)
		s.ordered[height] = append(s.ordered[height], od)
		if p != "" {
			ans = "PANIC"
			s.panics = append(s.panics, o.kind+": "+p)
			s.dead = true
		}
		s.lines = append(s.lines, "end "+ans)
		s.results[height] = append(s.results[height], ans)
	case "commit":
		var resp types.ResponseCommit
		p := guard(func() { resp = r.mux.Commit() })
		ans := hex.EncodeToString(resp.Data)
		if p != "" {
			ans = "PANIC"
			s.panics = append(s.panics, o.kind+": "+p)
			s.dead = true
		}
		s.lines = append(s.lines, "commit "+ans)
		s.appHash[height] = ans
	case "restart":
		s.lastPrepared = nil
		if err := r.restart(); err != nil {
			s.failMsg = append(s.failMsg, "restart failed: "+err.Error())
			s.dead = true
			return
		}
		if r.srv.State().LastHeight() == 0 {
			// nothing committed yet: CometBFT's handshake calls InitChain again
			if _, p := d.initChain(r); p != "" {
				s.failMsg = append(s.failMsg, "InitChain after restart panicked: "+p)
				s.dead = true
				return
			}
		}
		s.lines = append(s.lines, "restart")
	case "checktx":
		_ = guard(func() { r.mux.CheckTx(types.RequestCheckTx{Tx: o.tx, Type: types.CheckTxType_New}) })
		s.lines = append(s.lines, "checktx "+w.rawToken(o.tx))
	case "simulate":
		_ = guard(func() {
			tx := staking.NewTransferTx(0, nil, &staking.Transfer{To: staking.NewAddress(w.accts[1].Public()), Amount: q(77)})
			_, _ = r.srv.EstimateGas(w.accts[0].Public(), tx)
		})
		s.lines = append(s.lines, "simulate x")
	case "query":
		_ = guard(func() {
			ctx := context.Background()
			if tree := openTree(r); tree != nil {
				ss := stakingState.NewImmutableState(tree)
				_, _ = ss.TotalSupply(ctx)
				_, _ = ss.Addresses(ctx)
				tree.Close()
			}
		})
		s.lines = append(s.lines, "query")
	}
}

// probe reads the real proposal cache through the verif hook and adds a line for the model.
func (s *session) probe(d *driver) (exists, executed, recorded bool) {
	var h []byte
	exists, executed, recorded, h = s.r.srv.VerifProposalState()
	b := func(x bool) int {
		if x {
			return 1
		}
		return 0
	}
	s.lines = append(s.lines, fmt.Sprintf("probe %d %d %d %d", b(exists), b(executed), b(recorded), d.hashNo(h)))
	return
}

// ---- one history -----------------------------------------------------------------------------

type histOut struct {
	appHashes []string
	failures  []hlib.Failure
	lines     map[string][]string
}

func (d *driver) fail(out *histOut, kind, sig, detail string, c []string) {
	out.failures = append(out.failures, hlib.Failure{Kind: kind, Sig: sig, Detail: detail, Case: c})
}

// initChain brings a fresh node to the state after InitChain.
func (d *driver) initChain(r *replica) (string, string) {
	var ic types.ResponseInitChain
	p := guard(func() {
		ic = r.mux.InitChain(types.RequestInitChain{Time: d.w.genesisT, ChainId: d.w.doc.ChainID, AppStateBytes: d.w.docJSON, InitialHeight: d.w.doc.Height})
	})
	return hex.EncodeToString(ic.AppHash), p
}

func (d *driver) genesisValset() (valset, error) {
	gd, err := cmtapi.GetCometBFTGenesisDocument(d.w.doc)
	if err != nil {
		return nil, err
	}
	vs := valset{}
	for _, v := range gd.Validators {
		pk := v.PubKey.(ed25519.PubKey)
		u := types.Ed25519ValidatorUpdate(pk, v.Power)
		vs[hex.EncodeToString(pk)] = u
	}
	return vs, nil
}

func (d *driver) commitInfo(r *hlib.Rng, vs valset, allSign bool) types.CommitInfo {
	ci := types.CommitInfo{Round: int32(r.Intn(3))}
	for _, k := range vs.sortedKeys() {
		u := vs[k]
		pk := ed25519.PubKey(u.PubKey.GetEd25519())
		signed := allSign || r.Chance(4, 5)
		ci.Votes = append(ci.Votes, types.VoteInfo{Validator: types.Validator{Address: pk.Address(), Power: u.Power}, SignedLastBlock: signed})
	}
	return ci
}

// runHistory generates and executes one history from the given seed.
func (d *driver) runHistory(seed uint64, heights int, rep int) *histOut {
	out := &histOut{lines: map[string][]string{}}
	rng := hlib.FromState(seed)
	d.rng = rng
	d.hashNos = map[string]int{}
	d.nextBlk = 0
	w := d.w
	res := d.res
	dir := subdir(d.base, fmt.Sprintf("h%x-%d", seed, rep))
	defer os.RemoveAll(dir)

	noPrune := abci.PruneConfig{Strategy: abci.PruneNone, PruneInterval: time.Second}
	keepN := abci.PruneConfig{Strategy: abci.PruneKeepN, NumKept: 3, PruneInterval: 20 * time.Millisecond}
	oracle, err := w.openReplica("O", 0, subdir(dir, "O"), noPrune)
	if err != nil {
		d.fail(out, "harness", "harness-open", err.Error(), nil)
		return out
	}
	defer oracle.close()
	root0, p := d.initChain(oracle)
	if p != "" {
		d.fail(out, "panic", "initchain-panic", p, nil)
		return out
	}
	nrep := 2 + rng.Intn(numValidators-1)
	var sess []*session
	for i := 1; i <= nrep; i++ {
		pc := noPrune
		if i == nrep && rng.Bool() {
			pc = keepN
			res.Count("replica:pruner-keep3")
		}
		r, err := w.openReplica(fmt.Sprintf("R%d", i), i, subdir(dir, fmt.Sprintf("R%d", i)), pc)
		if err != nil {
			d.fail(out, "harness", "harness-open", err.Error(), nil)
			return out
		}
		defer r.close()
		rr, p := d.initChain(r)
		if p != "" || rr != root0 {
			d.fail(out, "spec", "initchain-differs", fmt.Sprintf("replica %s InitChain app hash %s (panic %q), oracle %s", r.name, rr, p, root0), nil)
			return out
		}
		s := &session{r: r, appHash: map[int64]string{}, results: map[int64][]string{}, ordered: map[int64][]string{}}
		s.lines = append(s.lines, fmt.Sprintf("new %d %s", i, root0))
		sess = append(sess, s)
	}
	vs, err := d.genesisValset()
	if err != nil {
		d.fail(out, "harness", "harness-valset", err.Error(), nil)
		return out
	}
	pendingVs := vs.clone()
	var header []string // okres / obs / blk lines shared by all sessions
	okD, _ := digDeliver(types.ResponseDeliverTx{Code: types.CodeTypeOK, Data: cbor.Marshal(nil)})
	header = append(header, "okres "+okD)
	g := &txgen{w: w, r: rng, nonces: map[int]uint64{}}
	sroot := root0
	evidenceUsed := false
	blockTime := w.genesisT

	for rel := int64(1); rel <= int64(heights); rel++ {
		h := w.doc.Height + rel - 1 // absolute block height (the genesis may start above 1)
		g.refreshNonces(oracle)
		forced := g.governanceTxs(oracle, res)
		pool := g.mempool(2+rng.Intn(8), res)
		blockTime = blockTime.Add(time.Duration(1+rng.Intn(5)) * time.Second)
		var lcBase types.CommitInfo
		if rel > 1 {
			lcBase = d.commitInfo(rng, vs, rng.Chance(1, 3) || w.tie)
		}
		ncand := 1 + rng.Intn(3)
		type cand struct {
			input    *block // what PrepareProposal is given
			full     *block // the complete block
			valid    bool
			ob       *obs
			mutation string
			gapOf    int
		}
		var cands []*cand
		seenObs := map[string]bool{}
		for c := 0; c < ncand; c++ {
			prop := 1 + rng.Intn(numValidators)
			// transactions: a random sub-sequence of the pool
			txs := append([][]byte{}, forced...)
			for _, t := range pool {
				if rng.Chance(3, 4) {
					txs = append(txs, t)
				}
			}
			lc := lcBase
			if rel > 1 && rng.Chance(1, 3) {
				lc = d.commitInfo(rng, vs, w.tie)
				lc.Round += 7 // differs from lcBase at least in the round
			}
			var ev []types.Misbehavior
			if rel > 2 && !evidenceUsed && !w.tie && rng.Chance(1, 12) {
				ks := vs.sortedKeys()
				u := vs[ks[len(ks)-1]]
				pk := ed25519.PubKey(u.PubKey.GetEd25519())
				var tot int64
				for _, x := range vs {
					tot += x.Power
				}
				ev = []types.Misbehavior{{Type: types.MisbehaviorType_DUPLICATE_VOTE, Validator: types.Validator{Address: pk.Address(), Power: u.Power},
					Height: h - 1, Time: blockTime.Add(-time.Second), TotalVotingPower: tot}}
				res.Count("block:evidence")
			}
			in := d.newBlock(h, blockTime, prop, lc, ev, txs)
			ob := observe(w, oracle, sroot, in, txs)
			key := ob.line()
			if !seenObs[key] {
				seenObs[key] = true
				header = append(header, key)
			}
			cd := &cand{input: in, ob: ob}
			if !ob.ok {
				// the executor panics on these inputs: proposing yields an empty proposal
				res.Count("cand:executor-panic")
				cd.full = d.newBlock(h, blockTime, prop, lc, ev, txs)
				cd.valid = false
			} else {
				full := append(append([][]byte{}, txs...), w.metaTx(prop, ob.rootB, ob.evrootB, 0))
				cd.valid = true
				if c > 0 && rng.Chance(1, 4) {
					cd.valid = false
					bad := append([]byte{}, ob.rootB...)
					bad[0] ^= 0x40
					switch rng.Intn(6) {
					case 0:
						full = append(append([][]byte{}, txs...), w.metaTx(prop, bad, ob.evrootB, 0))
						cd.mutation = "wrong-state-root"
					case 1:
						be := append([]byte{}, ob.evrootB...)
						be[3] ^= 1
						full = append(append([][]byte{}, txs...), w.metaTx(prop, ob.rootB, be, 0))
						cd.mutation = "wrong-events-root"
					case 2:
						full = append([][]byte{}, txs...)
						cd.mutation = "missing-meta"
					case 3:
						m := w.metaTx(prop, ob.rootB, ob.evrootB, 0)
						full = append(append([][]byte{}, txs...), m, m)
						cd.mutation = "duplicate-meta"
					case 4:
						other := 1 + (prop % numValidators)
						full = append(append([][]byte{}, txs...), w.metaTx(other, ob.rootB, ob.evrootB, 0))
						cd.mutation = "meta-not-by-proposer"
					case 5:
						full = append(append([][]byte{}, txs...), w.metaTx(prop, ob.rootB, ob.evrootB, 1))
						cd.mutation = "meta-nonzero-nonce"
					}
					res.Count("cand:invalid:" + cd.mutation)
				}
				cd.full = d.newBlock(h, blockTime, prop, lc, ev, full)
			}
			header = append(header, d.blkLine(cd.input), d.blkLine(cd.full))
			cands = append(cands, cd)
			res.Count("cand")
		}
		// the commit-info gap: a block equal to a valid candidate in header, txs and evidence but
		// carrying different last-commit info (and therefore, in general, another state root).
		var gap *cand
		if d.gapMode && rel > 1 {
			for _, c := range cands {
				if c.valid && rng.Chance(1, 2) {
					lc2 := d.commitInfo(rng, vs, w.tie)
					lc2.Round += 11
					gb := d.newBlock(h, blockTime, c.full.propIdx, lc2, c.full.ev, c.full.txs)
					if gb.lcToken() == c.full.lcToken() {
						break
					}
					user := c.input.txs
					ob := observe(w, oracle, sroot, gb, user)
					if k := ob.line(); !seenObs[k] {
						seenObs[k] = true
						header = append(header, k)
					}
					gap = &cand{input: c.input, full: gb, ob: ob, valid: ob.ok && ob.root == c.ob.root && ob.evroot == c.ob.evroot, mutation: "commit-info-gap"}
					gap.gapOf = c.full.propIdx
					header = append(header, d.blkLine(gb))
					res.Count("cand:commit-info-gap")
					break
				}
			}
		}
		// decided block: a valid candidate if there is one
		var valid []*cand
		for _, c := range cands {
			if c.valid {
				valid = append(valid, c)
			}
		}
		var decided *cand
		crashHeight := false
		if len(valid) > 0 {
			decided = valid[rng.Intn(len(valid))]
		} else {
			// nothing valid was proposed at this height: decide an invalid block, every node must stop
			decided = cands[rng.Intn(len(cands))]
			crashHeight = true
			res.Count("height:decided-invalid")
		}
		if !crashHeight && rel == int64(heights) && rng.Chance(1, 10) {
			for _, c := range cands {
				if !c.valid {
					decided, crashHeight = c, true
					res.Count("height:decided-invalid")
					break
				}
			}
		}

		// per-replica scripts
		for _, s := range sess {
			if s.dead {
				continue
			}
			var ops []op
			noise := func() {
				for rng.Chance(1, 3) {
					switch rng.Intn(3) {
					case 0:
						if len(pool) > 0 {
							ops = append(ops, op{kind: "checktx", tx: pool[rng.Intn(len(pool))]})
						}
					case 1:
						ops = append(ops, op{kind: "simulate"})
					default:
						ops = append(ops, op{kind: "query"})
					}
				}
				if rng.Chance(1, 12) {
					ops = append(ops, op{kind: "restart"})
				}
			}
			path := "replay"
			for _, c := range cands {
				noise()
				if c.full.propIdx == s.r.self && rng.Chance(9, 10) {
					ops = append(ops, op{kind: "prepare", blk: c.input})
					if c == decided {
						path = "proposer"
					}
					noise()
					if gap != nil && gap.gapOf == s.r.self && gap.input == c.input {
						ops = append(ops, op{kind: "process", blk: gap.full})
					}
					if rng.Chance(9, 10) {
						ops = append(ops, op{kind: "process", blk: c.full})
					}
				} else if rng.Chance(2, 3) {
					ops = append(ops, op{kind: "process", blk: c.full})
					if c == decided && path == "replay" {
						path = "processed"
					}
				}
			}
			noise()
			deliver := func(full bool) {
				ops = append(ops, op{kind: "begin", blk: decided.full})
				n := len(decided.full.txs)
				if !full {
					n = rng.Intn(n + 1)
				}
				for i := 0; i < n; i++ {
					ops = append(ops, op{kind: "deliver", tx: decided.full.txs[i]})
					if rng.Chance(1, 10) {
						ops = append(ops, op{kind: "checktx", tx: decided.full.txs[i]})
					}
				}
				if full {
					ops = append(ops, op{kind: "end"}, op{kind: "commit"})
				}
			}
			if rng.Chance(1, 10) && !crashHeight {
				deliver(false)
				ops = append(ops, op{kind: "restart"})
				path += "+aborted"
			}
			deliver(true)
			res.Count("path:" + path)
			s.results[h] = nil
			// optional concurrent mempool traffic while the block is processed (never during Commit)
			var wg sync.WaitGroup
			stop := make(chan struct{})
			if d.conc && len(pool) > 0 && rng.Chance(1, 2) {
				res.Count("height:concurrent-checktx")
				wg.Add(1)
				go func(r *replica, txs [][]byte) {
					defer wg.Done()
					for i := 0; ; i++ {
						select {
						case <-stop:
							return
						default:
						}
						_ = guard(func() { r.mux.CheckTx(types.RequestCheckTx{Tx: txs[i%len(txs)]}) })
					}
				}(s.r, pool)
			}
			running := true
			stopNoise := func() {
				if running {
					close(stop)
					wg.Wait()
					running = false
				}
			}
			for _, o := range ops {
				if s.dead {
					break
				}
				if o.kind == "commit" || o.kind == "restart" {
					stopNoise()
				}
				if o.kind == "begin" {
					s.results[h] = nil
					s.ordered[h] = nil
				}
				s.exec(d, o, h)
				res.Ops++
				res.Count("op:" + o.kind)
			}
			stopNoise()
		}

		// ---- spec on the implementation for this height
		hcase := func() []string {
			return []string{fmt.Sprintf("history seed=%d heights=%d backend=%s%s", seed, rel, w.backend, w.variantSuffix())}
		}
		for _, c := range append(append([]*cand{}, cands...), gap) {
			if c == nil {
				continue
			}
			// PrepareProposal must return exactly the block built from the oracle's roots
			if c.input.prepared != nil && c.ob.ok && c.mutation != "commit-info-gap" {
				want := append(append([][]byte{}, c.input.txs...), w.metaTx(c.input.propIdx, c.ob.rootB, c.ob.evrootB, 0))
				if !equalTxs(want, c.input.prepared) {
					d.fail(out, "spec", "prepare-differs", fmt.Sprintf("height %d: PrepareProposal returned %s, the executor's block is %s",
						h, joinOrDash(tokens(w, c.input.prepared)), joinOrDash(tokens(w, want))), hcase())
				}
				res.Count("spec:prepare-checked")
			}
			for name, v := range c.full.verdicts {
				want := "REJECT"
				if c.valid {
					want = "ACCEPT"
				}
				if v != want {
					if c.mutation == "commit-info-gap" && v == "ACCEPT" {
						res.Count("finding:commit-info-gap-accepted-stale")
						if len(res.Samples) < 3 {
							res.AddSample(map[string]any{"finding": "isEqual ignores last-commit info", "height": h, "replica": name,
								"detail": "PrepareProposal(b) then ProcessProposal(b') with b' equal to the prepared block in header, txs, evidence but different commit info: ACCEPT from the cache, while executing b' fails metadata validation (the gap repaired by /repo 47a524f is back)"})
						}
						if d.gapAsFailure {
							d.fail(out, "spec", "process-accepts-stale-commit-info", fmt.Sprintf("height %d replica %s: ProcessProposal answered %s for a block the executor rejects (%s)", h, name, v, c.mutation), hcase())
						}
						continue
					}
					d.fail(out, "spec", "process-verdict", fmt.Sprintf("height %d replica %s: ProcessProposal answered %s, executor says %s (%s)", h, name, v, want, c.mutation), hcase())
				}
				res.Count("spec:process-checked")
			}
		}

		// oracle: plain replay of the decided block
		orc := &session{r: oracle, appHash: map[int64]string{}, results: map[int64][]string{}, ordered: map[int64][]string{}}
		orc.exec(d, op{kind: "begin", blk: decided.full}, h)
		for _, t := range decided.full.txs {
			if orc.dead {
				break
			}
			orc.exec(d, op{kind: "deliver", tx: t}, h)
		}
		var endResp types.ResponseEndBlock
		if !orc.dead {
			if p := guard(func() { endResp = oracle.mux.EndBlock(types.RequestEndBlock{Height: h}) }); p != "" {
				orc.dead = true
				orc.results[h] = append(orc.results[h], "PANIC")
			} else {
				e, od := digEnd(endResp)
				orc.ordered[h] = append(orc.ordered[h], od)
				orc.results[h] = append(orc.results[h], e)
			}
		}
		if !orc.dead {
			orc.exec(d, op{kind: "commit"}, h)
		}
		if orc.dead != crashHeight {
			d.fail(out, "spec", "oracle-validity", fmt.Sprintf("height %d: plain replay of the decided block crashed=%v, expected %v (%s)", h, orc.dead, crashHeight, decided.mutation), hcase())
		}
		for _, s := range sess {
			if len(s.failMsg) > 0 {
				d.fail(out, "harness", "harness-restart", strings.Join(s.failMsg, "; "), hcase())
				s.failMsg = nil
			}
			if s.dead != orc.dead {
				d.fail(out, "spec", "crash-differs", fmt.Sprintf("height %d: replica %s crashed=%v, plain replay crashed=%v; panics: %v", h, s.r.name, s.dead, orc.dead, s.panics), hcase())
				continue
			}
			if !equalStrs(s.results[h], orc.results[h]) {
				sig := "twin-block-result-differs"
				for i := range s.results[h] {
					if i < len(orc.results[h]) && s.results[h][i] != orc.results[h][i] {
						if i > 0 && i < len(s.results[h])-1 {
							sig = "twin-deliver-result-differs"
						}
						break
					}
				}
				d.fail(out, "spec", sig, fmt.Sprintf("height %d: replica %s returned %v for the decided block, plain replay %v", h, s.r.name, s.results[h], orc.results[h]), hcase())
			}
			if s.appHash[h] != orc.appHash[h] {
				d.fail(out, "spec", "twin-apphash-differs", fmt.Sprintf("height %d: replica %s AppHash %s, plain replay %s", h, s.r.name, s.appHash[h], orc.appHash[h]), hcase())
			}
			if equalStrs(s.ordered[h], orc.ordered[h]) {
				res.Count("info:emission-order-same")
			} else {
				res.Count("info:emission-order-differs")
				for i := range s.ordered[h] {
					if i < len(orc.ordered[h]) && s.ordered[h][i] != orc.ordered[h][i] {
						switch {
						case i == 0:
							res.Count("info:emission-order-differs:begin-block-events")
						case i == len(s.ordered[h])-1 && strings.Contains(s.ordered[h][i], "|"):
							a, b := strings.SplitN(s.ordered[h][i], "|", 2), strings.SplitN(orc.ordered[h][i], "|", 2)
							if a[0] != b[0] {
								res.Count("info:emission-order-differs:end-block-events")
							}
							if a[1] != b[1] {
								res.Count("info:emission-order-differs:validator-updates")
							}
						default:
							res.Count("info:emission-order-differs:deliver-tx-events")
						}
					}
				}
			}
			res.Count("spec:height-compared")
		}
		if orc.dead {
			out.appHashes = append(out.appHashes, "CRASH")
			break
		}
		out.appHashes = append(out.appHashes, orc.appHash[h])
		sroot = orc.appHash[h]
		res.Count("heights-completed")
		// validator set changes take effect with one block delay
		vs = pendingVs.clone()
		pendingVs.apply(endResp.ValidatorUpdates)
		if len(endResp.ValidatorUpdates) > 0 {
			res.Count("height:validator-updates")
		}
		if os.Getenv("VERIF_DEBUG") != "" {
			if tree := openTree(oracle); tree != nil {
				ss := stakingState.NewImmutableState(tree)
				var bal []string
				for i := range w.vals {
					a, _ := ss.Account(context.Background(), g.entityAddrRaw(i))
					bal = append(bal, a.Escrow.Active.Balance.String())
				}
				tree.Close()
				fmt.Fprintf(os.Stderr, "DEBUG h=%d escrow=%v valupdates=%v govPhase=%d\n", h, bal, valUpdatesSet(endResp.ValidatorUpdates), g.govPhase)
				if t2 := openTree(oracle); t2 != nil {
					if p, err := governanceState.NewImmutableState(t2).Proposal(context.Background(), 1); err == nil {
						fmt.Fprintf(os.Stderr, "DEBUG   proposal1 state=%s closesAt=%d results=%v\n", p.State, p.ClosesAt, p.Results)
					}
					t2.Close()
				}
			}
		}
		for _, ev := range decided.full.ev {
			_ = ev
			evidenceUsed = true
		}
		if len(out.failures) > 0 {
			break
		}
	}

	if tree := openTree(oracle); tree != nil {
		gs := governanceState.NewImmutableState(tree)
		for id := uint64(1); id <= 2; id++ {
			if p, err := gs.Proposal(context.Background(), id); err == nil {
				res.Count(fmt.Sprintf("gov:proposal-%d:%s", id, p.State))
			}
		}
		tree.Close()
	}
	for _, r := range append([]*replica{oracle}, func() (l []*replica) {
		for _, s := range sess {
			l = append(l, s.r)
		}
		return
	}()...) {
		if r.upgrader != nil {
			if pu, err := r.upgrader.PendingUpgrades(); err == nil {
				res.Count(fmt.Sprintf("local-upgrade-store:pending=%d", len(pu)))
			}
		}
	}

	// ---- correspondence with the Lean model, one session per replica
	for _, s := range sess {
		lines := append(append([]string{}, header...), s.lines...)
		out.lines[s.r.name] = lines
		ans, err := hlib.RunModel("mux", lines)
		if err != nil {
			d.fail(out, "divergence", "model-error", err.Error(), lines)
			continue
		}
		if i := hlib.FirstBad(ans, "ok"); i >= 0 {
			sig := "model-divergence"
			if strings.Contains(ans[i], "UNKNOWN") {
				sig = "harness-missing-observation"
			}
			d.fail(out, "divergence", sig, fmt.Sprintf("replica %s at line %d `%s`: %s", s.r.name, i, lines[i], ans[i]), lines[:i+1])
		}
		res.Count("model:sessions")
		res.CountN("model:lines", len(lines))
	}
	return out
}

func equalTxs(a, b [][]byte) bool {
	if len(a) != len(b) {
		return false
	}
	for i := range a {
		if !bytes.Equal(a[i], b[i]) {
			return false
		}
	}
	return true
}

func equalStrs(a, b []string) bool {
	if len(a) != len(b) {
		return false
	}
	for i := range a {
		if a[i] != b[i] {
			return false
		}
	}
	return true
}

func main() {
	seed := flag.Uint64("seed", 1, "seed")
	cases := flag.Int("cases", 6, "number of generated histories")
	heights := flag.Int("heights", 12, "blocks per history")
	reps := flag.Int("reps", 2, "executions of every history on fresh nodes")
	out := flag.String("out", "-", "result file")
	replay := flag.String("replay", "", "replay file: model lines of one replica session")
	replaySeed := flag.Uint64("replay-seed", 0, "re-run the history with this case seed")
	corpus := flag.String("corpus", "", "corpus dir (model sessions), run first")
	gap := flag.Bool("gap", true, "also generate the commit-info gap scenario (reported as a finding counter)")
	gapFail := flag.Bool("gap-as-failure", true, "a ProcessProposal that accepts a block differing from the cached one only in commit info although the executor rejects it is a failure (signature process-accepts-stale-commit-info)")
	tie := flag.Bool("tie", false, "genesis variant with a durable stake tie at the validator election cut-off")
	genesisHeight := flag.Int64("genesis-height", 1, "height of the first block (a dump-restore genesis starts above 1)")
	conc := flag.Bool("concurrent", true, "CheckTx from a concurrent goroutine during block processing")
	backends := flag.String("backends", "badger,pathbadger", "node database backends to alternate")
	dump := flag.String("dump", "", "directory to write the model sessions of the first history to")
	flag.Parse()

	res := hlib.NewResult("muxdrv", *seed)
	res.Rule = "histories of consecutive heights on a real multiplexer with 8 real applications and 4 validators: per height 1-3 candidate blocks (random proposer, sub-sequence of a mempool of valid/stale/future-nonce/garbage staking transactions, varying last-commit votes, rare evidence; every candidate after the first is given a wrong/missing/duplicate/foreign-signed/non-zero-nonce metadata transaction with probability 1/4; with -gap a twin of a valid candidate that differs only in last-commit info), 2-4 replicas each with a random mixture of prepare/process/restart/aborted delivery/CheckTx/EstimateGas/query, epoch transition every 5 blocks; a history is non-trivial when at least one replica served the decided block from its cache and one executed it; distinct by case seed"
	modelOnly := func(lines []string) {
		ans, err := hlib.RunModel("mux", lines)
		res.Cases++
		if err != nil {
			res.Fail(hlib.Failure{Kind: "divergence", Sig: "model-error", Detail: err.Error(), Case: lines})
			return
		}
		if i := hlib.FirstBad(ans, "ok"); i >= 0 {
			res.Fail(hlib.Failure{Kind: "divergence", Sig: "model-divergence", Detail: fmt.Sprintf("line %d `%s`: %s", i, lines[i], ans[i]), Case: lines})
		}
	}
	if *replay != "" {
		lines, err := hlib.ReadLines(*replay)
		if err != nil {
			fmt.Fprintln(os.Stderr, err)
			os.Exit(2)
		}
		if len(lines) == 1 && strings.HasPrefix(lines[0], "history seed=") {
			var s uint64
			var h int
			var b string
			fmt.Sscanf(lines[0], "history seed=%d heights=%d backend=%s", &s, &h, &b)
			if strings.Contains(lines[0], " tie") {
				*tie = true
			}
			if i := strings.Index(lines[0], "genesis-height="); i >= 0 {
				fmt.Sscanf(lines[0][i:], "genesis-height=%d", genesisHeight)
			}
			*replaySeed = s
			if h > 0 {
				*heights = h
			}
			if b != "" {
				*backends = b
			}
		} else {
			modelOnly(lines)
			res.Write(*out)
			return
		}
	}
	if *corpus != "" {
		ents, _ := os.ReadDir(*corpus)
		for _, e := range ents {
			if lines, err := hlib.ReadLines(*corpus + "/" + e.Name()); err == nil && len(lines) > 0 {
				modelOnly(lines)
				res.Count("corpus")
			}
		}
	}
	bk := strings.Split(*backends, ",")
	base := scratchDir()
	defer os.RemoveAll(base)
	worlds := map[string]*world{}
	for _, b := range bk {
		w, err := newWorld(b, epochInterval, *tie, *genesisHeight)
		if err != nil {
			fmt.Fprintln(os.Stderr, "world:", err)
			os.Exit(2)
		}
		worlds[b] = w
	}
	rng := hlib.NewRng(*seed)
	runCase := func(cs uint64, i int) {
		b := bk[i%len(bk)]
		d := &driver{w: worlds[b], res: res, base: base, gapMode: *gap, gapAsFailure: *gapFail, conc: *conc}
		var first []string
		cachedBefore, execBefore := res.Counters["path:proposer"]+res.Counters["path:processed"], res.Counters["path:replay"]
		for rep := 0; rep < *reps; rep++ {
			ho := d.runHistory(cs, *heights, rep)
			res.Cases++
			res.Count("backend:" + b)
			for _, f := range ho.failures {
				f.Seed = cs
				res.Fail(f)
			}
			if rep == 0 {
				first = ho.appHashes
				if *dump != "" && i == 0 {
					_ = os.MkdirAll(*dump, 0o755)
					for name, l := range ho.lines {
						_ = os.WriteFile(fmt.Sprintf("%s/session-%s.txt", *dump, name), []byte(strings.Join(l, "\n")+"\n"), 0o644)
					}
				}
				if i < 2 {
					for _, l := range ho.lines {
						if len(l) > 60 {
							l = l[len(l)-60:]
						}
						res.AddSample(l)
						break
					}
				}
			} else if !equalStrs(first, ho.appHashes) {
				res.Fail(hlib.Failure{Kind: "spec", Sig: "apphash-chain-differs-between-runs", Seed: cs,
					Detail: fmt.Sprintf("the same history gave AppHash chain %v on the first run and %v on run %d", first, ho.appHashes, rep),
					Case:   []string{fmt.Sprintf("history seed=%d heights=%d backend=%s%s", cs, *heights, b, worlds[b].variantSuffix())}})
			}
			if len(ho.failures) > 0 {
				break
			}
		}
		if res.Counters["path:proposer"]+res.Counters["path:processed"] > cachedBefore && res.Counters["path:replay"] > execBefore {
			res.Distinct++
		}
	}
	if *replaySeed != 0 {
		for i := range bk {
			runCase(*replaySeed, i)
		}
		res.Write(*out)
		return
	}
	for i := 0; i < *cases; i++ {
		runCase(rng.Fork().Seed(), i)
		if len(res.Failures) >= 5 {
			break
		}
	}
	res.Explanation = "process:* counters: how often ProcessProposal was answered from the proposer's cache (own block, same commit info) or by execution; cand:commit-info-gap twins must be executed (a cached ACCEPT the executor contradicts is the failure process-accepts-stale-commit-info)"
	res.Write(*out)
}
