// chain.go: a real ABCI multiplexer with the real consensus applications, assembled in-process
// the way go/consensus/cometbft/full/common.go does, on a genesis document with several
// validators; plus thin wrappers that issue ABCI calls and catch panics.
package main

import (
	"context"
	"crypto/sha256"
	"encoding/hex"
	"encoding/json"
	"fmt"
	"math"
	"net"
	"os"
	"path/filepath"
	"runtime/debug"
	"sort"
	"strings"
	"time"

	"github.com/cometbft/cometbft/abci/types"
	cmtproto "github.com/cometbft/cometbft/proto/tendermint/types"

	beacon "github.com/oasisprotocol/oasis-core/go/beacon/api"
	"github.com/oasisprotocol/oasis-core/go/common/cbor"
	"github.com/oasisprotocol/oasis-core/go/common/crypto/signature"
	memorySigner "github.com/oasisprotocol/oasis-core/go/common/crypto/signature/signers/memory"
	"github.com/oasisprotocol/oasis-core/go/common/entity"
	"github.com/oasisprotocol/oasis-core/go/common/identity"
	"github.com/oasisprotocol/oasis-core/go/common/node"
	"github.com/oasisprotocol/oasis-core/go/common/persistent"
	"github.com/oasisprotocol/oasis-core/go/common/quantity"
	consensus "github.com/oasisprotocol/oasis-core/go/consensus/api"
	"github.com/oasisprotocol/oasis-core/go/consensus/api/transaction"
	"github.com/oasisprotocol/oasis-core/go/consensus/cometbft/abci"
	cmtapi "github.com/oasisprotocol/oasis-core/go/consensus/cometbft/api"
	beaconApp "github.com/oasisprotocol/oasis-core/go/consensus/cometbft/apps/beacon"
	governanceApp "github.com/oasisprotocol/oasis-core/go/consensus/cometbft/apps/governance"
	keymanagerApp "github.com/oasisprotocol/oasis-core/go/consensus/cometbft/apps/keymanager"
	registryApp "github.com/oasisprotocol/oasis-core/go/consensus/cometbft/apps/registry"
	roothashApp "github.com/oasisprotocol/oasis-core/go/consensus/cometbft/apps/roothash"
	schedulerApp "github.com/oasisprotocol/oasis-core/go/consensus/cometbft/apps/scheduler"
	stakingApp "github.com/oasisprotocol/oasis-core/go/consensus/cometbft/apps/staking"
	vaultApp "github.com/oasisprotocol/oasis-core/go/consensus/cometbft/apps/vault"
	tmbeacon "github.com/oasisprotocol/oasis-core/go/consensus/cometbft/beacon"
	cmtcrypto "github.com/oasisprotocol/oasis-core/go/consensus/cometbft/crypto"
	consensusGenesis "github.com/oasisprotocol/oasis-core/go/consensus/genesis"
	genesis "github.com/oasisprotocol/oasis-core/go/genesis/api"
	governance "github.com/oasisprotocol/oasis-core/go/governance/api"
	registry "github.com/oasisprotocol/oasis-core/go/registry/api"
	roothash "github.com/oasisprotocol/oasis-core/go/roothash/api"
	"github.com/oasisprotocol/oasis-core/go/roothash/api/commitment"
	scheduler "github.com/oasisprotocol/oasis-core/go/scheduler/api"
	staking "github.com/oasisprotocol/oasis-core/go/staking/api"
	upgradeMgr "github.com/oasisprotocol/oasis-core/go/upgrade"
	upgradeAPI "github.com/oasisprotocol/oasis-core/go/upgrade/api"
	vault "github.com/oasisprotocol/oasis-core/go/vault/api"

	"github.com/oasisprotocol/oasis-core/go/common"
)

const (
	numValidators = 4
	numAccounts   = 6
	epochInterval = 3
)

// validator is one validator node with its entity.
type validator struct {
	idx       int // 1-based
	id        *identity.Identity
	entSigner signature.Signer
	ent       *entity.Entity
	consAddr  []byte // CometBFT address of the consensus key
	consPub   []byte
}

// world is everything the replicas of one run share: keys and the genesis document.
type world struct {
	vals          []*validator
	accts         []signature.Signer // staking accounts that submit transactions
	signers       []signature.Signer // accts, then the node keys of the validators (each node's OWN transaction signer)
	oracleID      *identity.Identity // identity of the oracle node: nobody's validator, signs no transactions
	minGas        uint64             // consensus parameter MinGasPrice
	doc           *genesis.Document
	docJSON       []byte
	chainCtx      string
	genesisT      time.Time
	addrIndex     map[string]int // hex CometBFT address -> validator index
	backend       string
	interval      int64
	bypass        bool
	genesisHeight int64 // height of the first block (a dump-restore genesis starts above 1)
	tie           bool  // durable stake tie between validator entities 1 and 2 at the election cut-off
	fixedTimeS    int64
}

type nopNotifier struct{}

func (nopNotifier) DeliverExecutorCommitment(common.Namespace, *commitment.ExecutorCommitment) {}

func testSigner(name string) signature.Signer { return memorySigner.NewTestSigner(name) }

func newWorld(backend string, interval int64, tie bool, genesisHeight int64) (*world, error) {
	w := &world{addrIndex: map[string]int{}, backend: backend, interval: interval, fixedTimeS: 1700000000, tie: tie, genesisHeight: genesisHeight}
	w.genesisT = time.Unix(w.fixedTimeS, 0).UTC()
	for i := 1; i <= numValidators; i++ {
		v := &validator{idx: i}
		v.id = &identity.Identity{
			NodeSigner:      testSigner(fmt.Sprintf("verif c01 node %d", i)),
			P2PSigner:       testSigner(fmt.Sprintf("verif c01 p2p %d", i)),
			ConsensusSigner: testSigner(fmt.Sprintf("verif c01 consensus %d", i)),
			VRFSigner:       testSigner(fmt.Sprintf("verif c01 vrf %d", i)),
			TLSSigner:       testSigner(fmt.Sprintf("verif c01 tls %d", i)),
		}
		v.entSigner = testSigner(fmt.Sprintf("verif c01 entity %d", i))
		v.ent = &entity.Entity{
			Versioned: cbor.NewVersioned(entity.LatestDescriptorVersion),
			ID:        v.entSigner.Public(),
			Nodes:     []signature.PublicKey{v.id.NodeSigner.Public()},
		}
		pk := v.id.ConsensusSigner.Public()
		cpk := cmtcrypto.PublicKeyToCometBFT(&pk)
		v.consAddr = []byte(cpk.Address())
		v.consPub = cpk.Bytes()
		w.addrIndex[hex.EncodeToString(v.consAddr)] = i
		w.vals = append(w.vals, v)
	}
	for i := 1; i <= numAccounts; i++ {
		w.accts = append(w.accts, testSigner(fmt.Sprintf("verif c01 account %d", i)))
	}
	w.signers = append(w.signers, w.accts...)
	for _, v := range w.vals {
		w.signers = append(w.signers, v.id.NodeSigner)
	}
	for _, v := range w.vals {
		w.signers = append(w.signers, v.entSigner) // entities submit and vote on governance proposals
	}
	w.oracleID = &identity.Identity{
		NodeSigner:      testSigner("verif c01 oracle node"),
		P2PSigner:       testSigner("verif c01 oracle p2p"),
		ConsensusSigner: testSigner("verif c01 oracle consensus"),
		VRFSigner:       testSigner("verif c01 oracle vrf"),
		TLSSigner:       testSigner("verif c01 oracle tls"),
	}
	if !tie {
		w.minGas = 1
	}
	doc, err := w.makeGenesis()
	if err != nil {
		return nil, err
	}
	w.doc = doc
	w.docJSON, err = json.Marshal(doc)
	if err != nil {
		return nil, err
	}
	w.chainCtx = doc.ChainContext()
	signature.SetChainContext(w.chainCtx)
	return w, nil
}

func q(n uint64) quantity.Quantity { return *quantity.NewFromUint64(n) }

// baseEpoch: the insecure beacon schedules epoch e at height e*interval, so a genesis at height H
// starts in epoch H/interval.
func (w *world) baseEpoch() beacon.EpochTime {
	if e := w.genesisHeight / w.interval; e > 1 {
		return beacon.EpochTime(e)
	}
	return 1
}

func (w *world) variantSuffix() string {
	s := ""
	if w.tie {
		s += " tie"
	}
	if w.doc.Height > 1 {
		s += fmt.Sprintf(" genesis-height=%d", w.doc.Height)
	}
	return s
}

// tieZero: rewards that would break the engineered stake tie are switched off in tie mode.
func (w *world) tieZero(n uint64) uint64 {
	if w.tie {
		return 0
	}
	return n
}

func (w *world) makeGenesis() (*genesis.Document, error) {
	ledger := map[staking.Address]*staking.Account{}
	delegs := map[staking.Address]map[staking.Address]*staking.Delegation{}
	var total uint64
	add := func(addr staking.Address, general, escrow uint64) {
		a := &staking.Account{}
		a.General.Balance = q(general)
		total += general
		if escrow > 0 {
			a.Escrow.Active.Balance = q(escrow)
			a.Escrow.Active.TotalShares = q(escrow)
			delegs[addr] = map[staking.Address]*staking.Delegation{addr: {Shares: q(escrow)}}
			total += escrow
		}
		ledger[addr] = a
	}
	for i, v := range w.vals {
		// validators 1 and 2 are tied at the bottom; with MaxValidators = 3 the election has to break the tie
		stake := uint64(100_000 * (i + 1))
		if i < 2 {
			stake = 100_000
		}
		add(staking.NewAddress(v.ent.ID), 1_000_000, stake)
	}
	for i, s := range w.accts {
		add(staking.NewAddress(s.Public()), 5_000_000+uint64(i)*1000, 0)
	}
	// the validators' node keys are transaction signers too (a node's own transactions)
	for _, v := range w.vals {
		add(staking.NewAddress(v.id.NodeSigner.Public()), 1_000_000, 0)
	}
	// account 1 also delegates to validator entity 1 and 2
	a1 := staking.NewAddress(w.accts[0].Public())
	for _, vi := range []int{0, 1} {
		ea := staking.NewAddress(w.vals[vi].ent.ID)
		acct := ledger[ea]
		_ = acct.Escrow.Active.Balance.Add(quantity.NewFromUint64(7000))
		_ = acct.Escrow.Active.TotalShares.Add(quantity.NewFromUint64(7000))
		delegs[ea][a1] = &staking.Delegation{Shares: q(7000)}
		total += 7000
	}
	commonPool := uint64(10_000_000)
	total += commonPool

	doc := &genesis.Document{
		Height:  w.genesisHeight,
		ChainID: "verif-c01",
		Time:    w.genesisT,
		Beacon: beacon.Genesis{
			Base: w.baseEpoch(),
			Parameters: beacon.ConsensusParameters{
				Backend:            beacon.BackendInsecure,
				InsecureParameters: &beacon.InsecureParameters{Interval: w.interval},
			},
		},
		Registry: registry.Genesis{
			Parameters: registry.ConsensusParameters{
				DebugAllowUnroutableAddresses: true,
				DebugAllowTestRuntimes:        true,
				DebugDeployImmediately:        true,
				MaxNodeExpiration:             1000,
				EnableRuntimeGovernanceModels: map[registry.RuntimeGovernanceModel]bool{
					registry.GovernanceEntity:  true,
					registry.GovernanceRuntime: true,
				},
				TEEFeatures: &node.TEEFeatures{SGX: node.TEEFeaturesSGX{PCS: true}, FreshnessProofs: true},
			},
		},
		Scheduler: scheduler.Genesis{
			Parameters: scheduler.ConsensusParameters{
				MinValidators:                1,
				MaxValidators:                3,
				MaxValidatorsPerEntity:       100,
				DebugBypassStake:             w.bypass,
				RewardFactorEpochElectionAny: q(w.tieZero(1)),
			},
		},
		Governance: governance.Genesis{
			Parameters: governance.ConsensusParameters{
				StakeThreshold:                 67,
				UpgradeCancelMinEpochDiff:      20,
				UpgradeMinEpochDiff:            20,
				VotingPeriod:                   1,
				MinProposalDeposit:             q(100),
				EnableChangeParametersProposal: true,
			},
		},
		RootHash: roothash.Genesis{
			Parameters: roothash.ConsensusParameters{
				DebugDoNotSuspendRuntimes: true,
				MaxRuntimeMessages:        32,
				MaxInRuntimeMessages:      32,
			},
		},
		Consensus: consensusGenesis.Genesis{
			Backend: cmtapi.BackendName,
			Parameters: consensusGenesis.Parameters{
				TimeoutCommit:     1 * time.Millisecond,
				SkipTimeoutCommit: true,
				MaxBlockSize:      21 * 1024 * 1024,
				MaxEvidenceSize:   1024 * 1024,
				MaxTxSize:         32 * 1024,
				MinGasPrice:       w.minGas,
				GasCosts:          transaction.Costs{consensusGenesis.GasOpTxByte: 1},
			},
		},
		Staking: staking.Genesis{
			Parameters: staking.ConsensusParameters{
				DebondingInterval: 2,
				Thresholds: map[staking.ThresholdKind]quantity.Quantity{
					staking.KindEntity:            q(1),
					staking.KindNodeValidator:     q(2),
					staking.KindNodeCompute:       q(3),
					staking.KindNodeObserver:      q(4),
					staking.KindNodeKeyManager:    q(5),
					staking.KindRuntimeCompute:    q(6),
					staking.KindRuntimeKeyManager: q(7),
					staking.KindKeyManagerChurp:   q(8),
				},
				Slashing: map[staking.SlashReason]staking.Slash{
					staking.SlashConsensusEquivocation: {Amount: q(1000), FreezeInterval: 1},
				},
				MinDelegationAmount:               q(10),
				MinTransferAmount:                 q(10),
				MaxAllowances:                     32,
				FeeSplitWeightVote:                q(2),
				FeeSplitWeightNextPropose:         q(1),
				FeeSplitWeightPropose:             q(1),
				RewardFactorEpochSigned:           q(1),
				RewardFactorBlockProposed:         q(w.tieZero(1)),
				SigningRewardThresholdNumerator:   1,
				SigningRewardThresholdDenominator: 2,
				RewardSchedule:                    []staking.RewardStep{{Until: 1000, Scale: q(1000)}},
				CommissionScheduleRules: staking.CommissionScheduleRules{
					RateChangeInterval: 1, RateBoundLead: 1, MaxRateSteps: 4, MaxBoundSteps: 4,
				},
			},
			TokenSymbol: "VERIF",
			CommonPool:  q(commonPool),
			Ledger:      ledger,
			Delegations: delegs,
		},
		Vault: &vault.Genesis{Parameters: vault.DefaultConsensusParameters},
	}
	doc.Staking.TotalSupply = q(total)
	_ = math.MaxInt64

	for _, v := range w.vals {
		signedEnt, err := entity.SignEntity(v.entSigner, registry.RegisterGenesisEntitySignatureContext, v.ent)
		if err != nil {
			return nil, err
		}
		doc.Registry.Entities = append(doc.Registry.Entities, signedEnt)
		var consensusAddr, p2pAddr node.Address
		if err = consensusAddr.FromIP(net.ParseIP("127.0.0.1"), uint16(9000+v.idx)); err != nil {
			return nil, err
		}
		if err = p2pAddr.FromIP(net.ParseIP("127.0.0.1"), uint16(9100+v.idx)); err != nil {
			return nil, err
		}
		n := &node.Node{
			Versioned:  cbor.NewVersioned(node.LatestNodeDescriptorVersion),
			ID:         v.id.NodeSigner.Public(),
			EntityID:   v.ent.ID,
			Expiration: w.baseEpoch() + 900,
			TLS:        node.TLSInfo{PubKey: v.id.TLSSigner.Public()},
			P2P:        node.P2PInfo{ID: v.id.P2PSigner.Public(), Addresses: []node.Address{p2pAddr}},
			Consensus: node.ConsensusInfo{
				ID:        v.id.ConsensusSigner.Public(),
				Addresses: []node.ConsensusAddress{{ID: v.id.ConsensusSigner.Public(), Address: consensusAddr}},
			},
			VRF:   node.VRFInfo{ID: v.id.VRFSigner.Public()},
			Roles: node.RoleValidator,
		}
		signers := []signature.Signer{v.id.NodeSigner, v.id.P2PSigner, v.id.ConsensusSigner, v.id.VRFSigner, v.id.TLSSigner}
		signed, err := node.MultiSignNode(signers, registry.RegisterGenesisNodeSignatureContext, n)
		if err != nil {
			return nil, err
		}
		doc.Registry.Nodes = append(doc.Registry.Nodes, signed)
	}
	return doc, nil
}

// replica is one node: a real multiplexer over its own on-disk state.
type replica struct {
	w        *world
	name     string
	self     int // validator index whose identity this node runs with
	dir      string
	srv      *abci.ApplicationServer
	mux      types.Application
	cancel   context.CancelFunc
	prune    abci.PruneConfig
	store    *persistent.CommonStore
	upgrader upgradeAPI.Backend
	// localMinGas is the node-local minimum gas price (configuration, CheckTx only)
	localMinGas uint64
}

// identity: replica i runs with validator i's identity; self = 0 is the oracle's neutral identity.
func (r *replica) identity() *identity.Identity {
	if r.self == 0 {
		return r.w.oracleID
	}
	return r.w.vals[r.self-1].id
}

func (w *world) openReplica(name string, self int, dir string, prune abci.PruneConfig) (*replica, error) {
	r := &replica{w: w, name: name, self: self, dir: dir, prune: prune}
	if self > 0 {
		r.localMinGas = uint64(self-1) * 2 // every node its own local configuration
	}
	if err := r.open(); err != nil {
		return nil, err
	}
	return r, nil
}

func (r *replica) open() error {
	ctx, cancel := context.WithCancel(context.Background())
	cfg := &abci.ApplicationConfig{
		DataDir:             r.dir,
		StorageBackend:      r.w.backend,
		Pruning:             r.prune,
		Identity:            r.identity(),
		MinGasPrice:         r.localMinGas,
		DisableCheckpointer: true,
		InitialHeight:       r.w.doc.Height,
		ChainContext:        r.w.chainCtx,
	}
	// a real node-local upgrade manager over this node's own persistent store
	store, err := persistent.NewCommonStore(r.dir)
	if err != nil {
		cancel()
		return err
	}
	upgrader, err := upgradeMgr.New(store, r.dir, false)
	if err != nil {
		store.Close()
		cancel()
		return err
	}
	r.store, r.upgrader = store, upgrader
	srv, err := abci.NewApplicationServer(ctx, upgrader, cfg)
	if err != nil {
		store.Close()
		cancel()
		return err
	}
	state := srv.State()
	md := srv.MessageDispatcher()
	timeSource := tmbeacon.New(r.w.doc.Beacon.Base, r.w.doc.Height, nil, tmbeacon.NewStateQueryFactory(state))
	stk := stakingApp.New(state, md)
	apps := []cmtapi.Application{
		beaconApp.New(),
		governanceApp.New(state, md),
		keymanagerApp.New(state),
		registryApp.New(state, md),
		roothashApp.New(state, md, nopNotifier{}),
		schedulerApp.New(state, md),
		stk,
		vaultApp.New(state, md),
	}
	for _, app := range apps {
		if err = srv.Register(app); err != nil {
			cancel()
			return err
		}
		app.Subscribe()
	}
	if err = srv.SetEpochtime(timeSource); err != nil {
		cancel()
		return err
	}
	if err = srv.SetTransactionAuthHandler(stk); err != nil {
		cancel()
		return err
	}
	if err = srv.Start(); err != nil {
		cancel()
		return err
	}
	r.srv, r.mux, r.cancel = srv, srv.Mux(), cancel
	return nil
}

func (r *replica) close() {
	if r.srv != nil {
		r.srv.Stop()
		r.cancel()
		r.srv.Cleanup()
		r.srv = nil
		if r.upgrader != nil {
			r.upgrader.Close()
		}
		if r.store != nil {
			r.store.Close()
		}
	}
}

// restart closes the node and opens a new one over the same data directory.
func (r *replica) restart() error {
	r.close()
	return r.open()
}

func (r *replica) destroy() {
	r.close()
	_ = os.RemoveAll(r.dir)
}

// guard runs f and converts a panic into a string.
func guard(f func()) (p string) {
	defer func() {
		if e := recover(); e != nil {
			p = fmt.Sprint(e)
			if p == "" {
				p = "panic"
			}
			if os.Getenv("VERIF_DEBUG") != "" {
				fmt.Fprintf(os.Stderr, "PANIC %s\n%s\n", p, debug.Stack())
			}
		}
	}()
	f()
	return ""
}

// valset is the harness' copy of CometBFT's validator set (address -> pubkey, power).
type valset map[string]types.ValidatorUpdate

func (vs valset) clone() valset {
	c := valset{}
	for k, v := range vs {
		c[k] = v
	}
	return c
}

func (vs valset) apply(ups []types.ValidatorUpdate) {
	for _, u := range ups {
		k := hex.EncodeToString(u.PubKey.GetEd25519())
		if u.Power == 0 {
			delete(vs, k)
		} else {
			vs[k] = u
		}
	}
}

func (vs valset) sortedKeys() []string {
	ks := make([]string, 0, len(vs))
	for k := range vs {
		ks = append(ks, k)
	}
	sort.Strings(ks)
	return ks
}

// block is what CometBFT presents to the application for one candidate block.
type block struct {
	id      int
	height  int64
	time    time.Time
	propIdx int // validator index of the proposer address in the header
	nvh     []byte
	txs     [][]byte
	lc      types.CommitInfo
	ev      []types.Misbehavior
	hash    []byte
	hashNo  int
	// filled while executing
	prepared [][]byte          // what PrepareProposal returned for this input
	verdicts map[string]string // replica name -> ProcessProposal verdict
}

func (w *world) proposerAddr(idx int) []byte { return w.vals[idx-1].consAddr }

func (b *block) header(w *world) cmtproto.Header {
	return cmtproto.Header{Height: b.height, Time: b.time, ProposerAddress: w.proposerAddr(b.propIdx), NextValidatorsHash: b.nvh}
}

func short(b []byte) string {
	h := sha256.Sum256(b)
	return hex.EncodeToString(h[:6])
}

func digestStrings(parts ...string) string {
	h := sha256.Sum256([]byte(strings.Join(parts, "\x00")))
	return hex.EncodeToString(h[:8])
}

func (b *block) lcToken() string {
	parts := []string{fmt.Sprint(b.lc.Round)}
	for _, v := range b.lc.Votes {
		parts = append(parts, fmt.Sprintf("%x/%d/%v", v.Validator.Address, v.Validator.Power, v.SignedLastBlock))
	}
	return "lc" + digestStrings(parts...)
}

func (b *block) evToken() string {
	if len(b.ev) == 0 {
		return "ev0"
	}
	parts := []string{}
	for _, e := range b.ev {
		parts = append(parts, fmt.Sprintf("%d/%x/%d/%d/%d/%d", e.Type, e.Validator.Address, e.Validator.Power, e.Height, e.Time.UnixNano(), e.TotalVotingPower))
	}
	return "ev" + digestStrings(parts...)
}

func (b *block) hdrToken() string {
	return fmt.Sprintf("%d:%d:%d:%s", b.height, b.time.Unix(), b.propIdx, short(b.nvh))
}

func (b *block) computeHash() {
	h := sha256.New()
	fmt.Fprintf(h, "%s|%s|%s|", b.hdrToken(), b.lcToken(), b.evToken())
	for _, t := range b.txs {
		fmt.Fprintf(h, "%d:", len(t))
		h.Write(t)
	}
	b.hash = h.Sum(nil)
}

// rawToken decodes a raw transaction the way decodeTx does and renders the model's view of it.
func (w *world) rawToken(raw []byte) string {
	var sigTx transaction.SignedTransaction
	if err := cbor.Unmarshal(raw, &sigTx); err == nil {
		var tx transaction.Transaction
		if err = sigTx.Open(&tx); err == nil && tx.SanityCheck() == nil {
			if _, isSys := consensus.SystemMethods[tx.Method]; isSys {
				pk := sigTx.Signature.PublicKey
				addr := []byte(cmtcrypto.PublicKeyToCometBFT(&pk).Address())
				signer := w.addrIndex[hex.EncodeToString(addr)]
				if signer == 0 {
					signer = 999
				}
				wf := 0
				if tx.Nonce == 0 && tx.Fee == nil {
					wf = 1
				}
				var meta consensus.BlockMetadata
				if err = cbor.Unmarshal(tx.Body, &meta); err != nil || meta.ValidateBasic() != nil {
					return fmt.Sprintf("m:%d:%d:bad", signer, wf)
				}
				return fmt.Sprintf("m:%d:%d:%x:%x", signer, wf, meta.StateRoot[:], meta.EventsRoot)
			}
		}
	}
	return "u:" + short(raw)
}

func isUserToken(tok string) bool { return strings.HasPrefix(tok, "u:") }

func tokens(w *world, txs [][]byte) []string {
	out := make([]string, len(txs))
	for i, t := range txs {
		out[i] = w.rawToken(t)
	}
	return out
}

func joinOrDash(l []string) string {
	if len(l) == 0 {
		return "-"
	}
	return strings.Join(l, ",")
}

// ---- canonical digests of responses -------------------------------------------------------

func eventsDigest(evs []types.Event) string {
	l := make([]string, 0, len(evs))
	for _, e := range evs {
		as := make([]string, 0, len(e.Attributes))
		for _, a := range e.Attributes {
			as = append(as, a.Key+"="+a.Value)
		}
		l = append(l, e.Type+"{"+strings.Join(as, ";")+"}")
	}
	ordered := digestStrings(l...)
	sort.Strings(l)
	return digestStrings(l...) + "/" + ordered
}

// digBegin: BeginBlock events as a multiset (the ordered digest is kept for the order report).
func digBegin(r types.ResponseBeginBlock) (string, string) {
	d := eventsDigest(r.Events)
	p := strings.Split(d, "/")
	return "B" + p[0], p[1]
}

func digDeliver(r types.ResponseDeliverTx) (string, string) {
	d := eventsDigest(r.Events)
	p := strings.Split(d, "/")
	return "D" + digestStrings(fmt.Sprint(r.Code), r.Codespace, hex.EncodeToString(r.Data), fmt.Sprint(r.GasWanted), fmt.Sprint(r.GasUsed), p[0]), p[1]
}

func valUpdatesSet(ups []types.ValidatorUpdate) []string {
	l := make([]string, 0, len(ups))
	for _, u := range ups {
		l = append(l, fmt.Sprintf("%x=%d", u.PubKey.GetEd25519(), u.Power))
	}
	sort.Strings(l)
	return l
}

func digEnd(r types.ResponseEndBlock) (string, string) {
	d := eventsDigest(r.Events)
	p := strings.Split(d, "/")
	cp := ""
	if r.ConsensusParamUpdates != nil {
		cp = r.ConsensusParamUpdates.String()
	}
	ordered := make([]string, 0, len(r.ValidatorUpdates))
	for _, u := range r.ValidatorUpdates {
		ordered = append(ordered, fmt.Sprintf("%x=%d", u.PubKey.GetEd25519(), u.Power))
	}
	return "E" + digestStrings(append(valUpdatesSet(r.ValidatorUpdates), cp, p[0])...), p[1] + "|" + strings.Join(ordered, ",")
}

func scratchDir() string {
	base := os.Getenv("VERIF_SCRATCH")
	if base == "" {
		base = os.TempDir()
	}
	d, err := os.MkdirTemp(base, "muxdrv-")
	if err != nil {
		panic(err)
	}
	return d
}

func subdir(base, name string) string {
	d := filepath.Join(base, name)
	_ = os.MkdirAll(d, 0o700)
	return d
}
