package main

import (
	"fmt"
	"sort"
	"strings"

	"github.com/oasisprotocol/oasis-core/go/common/crypto/hash"
	"github.com/oasisprotocol/oasis-core/go/storage/mkvs/db/api"
	"github.com/oasisprotocol/oasis-core/go/storage/mkvs/node"
)

var badgerModelEnabled = true

// nodeLog records what the real tree hands to a batch during one Commit: the nodes it
// persists (PutNode, with the hashes of their children) and the nodes it marks removed.
type nodeLog struct {
	added   []addedNode
	removed []hash.Hash
}

type addedNode struct {
	h    hash.Hash
	kids []hash.Hash // left/right: fetched by readers
	leaf []hash.Hash // embedded leaf: serialized inside the parent, but also stored on its own
}

func newNodeLog() *nodeLog { return &nodeLog{} }

func (l *nodeLog) reset() { l.added, l.removed = nil, nil }

func (l *nodeLog) commitLine(ht *hashTable, t, v, sv, sh, h int, res string) string {
	var as []string
	for _, a := range l.added {
		var ks []string
		for _, k := range a.kids {
			ks = append(ks, fmt.Sprint(ht.id(k)))
		}
		var ls []string
		for _, k := range a.leaf {
			ls = append(ls, fmt.Sprint(ht.id(k)))
		}
		as = append(as, fmt.Sprintf("%d:%s:%s", ht.id(a.h), strings.Join(ks, "."), strings.Join(ls, ".")))
	}
	var rs []string
	for _, r := range l.removed {
		rs = append(rs, fmt.Sprint(ht.id(r)))
	}
	al, rl := "-", "-"
	if len(as) > 0 {
		al = strings.Join(as, ",")
	}
	if len(rs) > 0 {
		rl = strings.Join(rs, ",")
	}
	return fmt.Sprintf("commit %d %d %d %d %d %s %s %s", t, v, sv, sh, h, res, al, rl)
}

type logDB struct {
	api.NodeDB
	log *nodeLog
}

func (d *logDB) NewBatch(oldRoot node.Root, version uint64, chunk bool) (api.Batch, error) {
	b, err := d.NodeDB.NewBatch(oldRoot, version, chunk)
	if err != nil {
		return nil, err
	}
	return &logBatch{Batch: b, log: d.log}, nil
}

type logBatch struct {
	api.Batch
	log *nodeLog
}

func (b *logBatch) PutNode(ptr *node.Pointer) error {
	a := addedNode{h: ptr.Node.GetHash()}
	if n, ok := ptr.Node.(*node.InternalNode); ok {
		for _, c := range []*node.Pointer{n.Left, n.Right} {
			if c != nil {
				a.kids = append(a.kids, c.Hash)
			}
		}
		if n.LeafNode != nil {
			a.leaf = append(a.leaf, n.LeafNode.Hash)
		}
	}
	b.log.added = append(b.log.added, a)
	return b.Batch.PutNode(ptr)
}

func (b *logBatch) RemoveNodes(nodes []*node.Pointer) error {
	for _, p := range nodes {
		b.log.removed = append(b.log.removed, p.GetHash())
	}
	return b.Batch.RemoveNodes(nodes)
}

// badgerObsLines turns the observations of the last operation into lines for the badger
// bookkeeping model: the reported roots and, per claimed root, whether it read back completely.
func (b *backendRun) badgerObsLines() []string {
	// the observation lines of the last op are at the tail of out.lines, after its op line
	var tail []string
	for i := len(b.out.lines) - 1; i >= 0; i-- {
		f := strings.Fields(b.out.lines[i])
		if f[0] != "obs" && f[0] != "has" && f[0] != "read" {
			break
		}
		tail = append(tail, b.out.lines[i])
	}
	sort.SliceStable(tail, func(i, j int) bool { return false })
	var out []string
	out = append(out, b.nodeProbeLines(tail)...)
	for i := len(tail) - 1; i >= 0; i-- {
		f := strings.Fields(tail[i])
		switch f[0] {
		case "obs", "has":
			out = append(out, tail[i])
		case "read":
			ok := "1"
			if strings.HasPrefix(f[4], "!") {
				ok = "0"
			}
			out = append(out, fmt.Sprintf("readable %s %s %s %s", f[1], f[2], f[3], ok))
		}
	}
	return out
}

// nodeProbeLines compares the node store itself: for every version that reports a non-empty root,
// every node hash ever seen is fetched with GetNode at that version's timestamp (the reported
// root only serves as the carrier GetNode insists on). The bookkeeping model must agree on the
// exact set of visible nodes per version, so a backend that deletes (or keeps) a node the model's
// rules do not is reported at once, whether or not any later root happens to need that node.
func (b *backendRun) nodeProbeLines(tail []string) []string {
	var obs string
	for _, l := range tail {
		if strings.HasPrefix(l, "obs ") {
			obs = l
		}
	}
	f := strings.Fields(obs)
	if len(f) < 4 || f[3] == "-" {
		return nil
	}
	carrier := map[int][2]int{} // version -> (type, hash id) of a listed non-empty root
	for _, r := range strings.Split(f[3], ",") {
		var v, t, id int
		if n, _ := fmt.Sscanf(r, "%d:%d:%d", &v, &t, &id); n == 3 && id != 0 {
			if _, ok := carrier[v]; !ok {
				carrier[v] = [2]int{t, id}
			}
		}
	}
	var vs []int
	for v := range carrier {
		vs = append(vs, v)
	}
	sort.Ints(vs)
	var out []string
	for _, v := range vs {
		c := carrier[v]
		root := node.Root{Namespace: ns, Version: uint64(v), Type: node.RootType(c[0] + 1), Hash: b.ht.rev[c[1]-1]}
		var vis []string
		for i, h := range b.ht.rev {
			n, err := func() (n node.Node, err error) {
				defer func() {
					if p := recover(); p != nil {
						err = fmt.Errorf("panic")
					}
				}()
				return b.db.GetNode(root, &node.Pointer{Clean: true, Hash: h})
			}()
			if err == nil && n != nil {
				vis = append(vis, fmt.Sprint(i+1))
			}
		}
		vl := "-"
		if len(vis) > 0 {
			vl = strings.Join(vis, ",")
		}
		out = append(out, fmt.Sprintf("nodes %d %d %d %d %s", v, c[0], c[1], len(b.ht.rev), vl))
	}
	return out
}
