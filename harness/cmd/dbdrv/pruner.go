package main

import (
	"fmt"
	"sort"
	"strings"

	"verifharness/hlib"

	"github.com/oasisprotocol/oasis-core/go/consensus/cometbft/abci"
	"github.com/oasisprotocol/oasis-core/go/storage/mkvs/db/api"
)

// scriptedDB is a node database whose answers to the pruner are scripted per call; it records the
// ndb.Prune calls and, inside Sync, what a concurrent reader of the pruner sees.
type scriptedDB struct {
	api.NodeDB // nil: the pruner only uses the methods below

	earliest    uint64
	notEarliest map[uint64]bool
	failing     map[uint64]bool
	syncOK      bool

	asked        []uint64
	pruner       abci.StatePruner
	retainedSync string
}

func (d *scriptedDB) GetEarliestVersion() uint64 { return d.earliest }

func (d *scriptedDB) Prune(v uint64) error {
	d.asked = append(d.asked, v)
	switch {
	case d.failing[v]:
		return fmt.Errorf("scripted failure")
	case d.notEarliest[v]:
		return api.ErrNotEarliest
	}
	return nil
}

func (d *scriptedDB) Sync() error {
	// what GetLastRetainedVersion answers WHILE the database is being synced
	d.retainedSync = fmt.Sprint(d.pruner.GetLastRetainedVersion())
	if !d.syncOK {
		return fmt.Errorf("scripted sync failure")
	}
	return nil
}

type vetoHandler struct{ vetoed map[uint64]bool }

func (h *vetoHandler) CanPruneConsensus(v int64) error {
	if h.vetoed[uint64(v)] {
		return fmt.Errorf("vetoed")
	}
	return nil
}

func setStr(m map[uint64]bool) string {
	var l []int
	for k := range m {
		l = append(l, int(k))
	}
	sort.Ints(l)
	if len(l) == 0 {
		return "-"
	}
	s := make([]string, len(l))
	for i, x := range l {
		s[i] = fmt.Sprint(x)
	}
	return strings.Join(s, ",")
}

// prunerPhase drives the REAL abci keep-N pruner (through the verif export) over scripted
// databases and compares every call with the Lean model of prune.go (mode pruner).
func prunerPhase(r *hlib.Rng, ncases int, res *hlib.Result) {
	for c := 0; c < ncases; c++ {
		keepN := uint64(1 + r.Intn(4))
		db := &scriptedDB{earliest: []uint64{0, 1, 1, 3}[r.Intn(4)]}
		p, err := abci.NewVerifStatePruner(db, keepN)
		if err != nil {
			res.Fail(hlib.Failure{Kind: "panic", Detail: err.Error(), Sig: "pruner:construct"})
			return
		}
		db.pruner = p
		vh := &vetoHandler{}
		p.RegisterHandler(vh)
		lines := []string{"mode pruner", "new"}
		latest := uint64(r.Intn(4))
		for call := 0; call < 3+r.Intn(5); call++ {
			latest += uint64(1 + r.Intn(5))
			db.asked, db.retainedSync = nil, "-"
			db.notEarliest, db.failing, vh.vetoed = map[uint64]bool{}, map[uint64]bool{}, map[uint64]bool{}
			db.syncOK = !r.Chance(1, 4)
			for v := uint64(0); v <= latest; v++ {
				switch k := r.Intn(40); {
				case k == 0:
					vh.vetoed[v] = true
				case k == 1:
					db.notEarliest[v] = true
				case k == 2 && r.Chance(1, 2):
					db.failing[v] = true
				}
			}
			perr := p.Prune(latest)
			e := "0"
			if perr != nil {
				e = "1"
			}
			var as []string
			for _, a := range db.asked {
				as = append(as, fmt.Sprint(a))
			}
			al := "-"
			if len(as) > 0 {
				al = strings.Join(as, ",")
			}
			sy := "0"
			if db.syncOK {
				sy = "1"
			}
			lines = append(lines, fmt.Sprintf("prune %d %d %d %s %s %s %s %s %s %d %s", keepN, latest, db.earliest,
				setStr(vh.vetoed), setStr(db.notEarliest), setStr(db.failing), sy, al, e, p.GetLastRetainedVersion(), db.retainedSync))
			res.Count("pruner:calls")
			if db.retainedSync != "-" && !db.syncOK {
				res.Count("pruner:sync-failed")
			}
			if len(db.asked) > 0 {
				res.Count("pruner:calls-that-pruned")
			}
			// the database's earliest moves with successful prunes (only read while the pruner is fresh)
		}
		ans, err := hlib.RunModel("nodedb", lines)
		if err != nil {
			res.Fail(hlib.Failure{Kind: "divergence", Detail: err.Error(), Sig: "pruner:model-error"})
			return
		}
		if i := hlib.FirstBad(ans, "ok"); i >= 0 {
			f := strings.Fields(ans[i])
			sig := "pruner:other"
			if len(f) >= 2 {
				sig = "pruner:" + f[1]
			}
			kind := "divergence"
			if strings.Contains(sig, "sync-order") || strings.Contains(sig, "last-retained") {
				kind = "spec"
			}
			res.Fail(hlib.Failure{Kind: kind, Detail: fmt.Sprintf("line %d `%s`: %s", i, lines[i], ans[i]), Case: lines[:i+1], Sig: sig})
			return
		}
	}
}
