package main

import (
	"fmt"
	"strings"

	"github.com/oasisprotocol/oasis-core/go/storage/mkvs/db/api"
	"github.com/oasisprotocol/oasis-core/go/storage/mkvs/node"
)

var pathModelEnabled = true

// pathLog records what the real tree hands to a pathbadger batch during one Commit, at the level
// of the backend's own node keys: (creation version, index) of every node put, the key and hash
// of each of its child pointers, the keys marked removed and the root node.
type pathLog struct {
	puts    []string
	removed []string
	root    string
}

func (l *pathLog) reset() { l.puts, l.removed, l.root = nil, nil, "-" }

type dbKey struct {
	ok       bool
	ver, idx uint64
}

const (
	invalidVer = 0xffffffffffffffff
	invalidIdx = 0xffffffff
)

// keyOf reads the backend's private pointer metadata (pathbadger.dbPtr{version,index}).
func keyOf(p *node.Pointer) dbKey {
	if p == nil || p.DBInternal == nil {
		return dbKey{}
	}
	var k dbKey
	if n, _ := fmt.Sscanf(fmt.Sprintf("%+v", p.DBInternal), "&{version:%d index:%d}", &k.ver, &k.idx); n == 2 {
		k.ok = true
	}
	return k
}

func (k dbKey) invalid() bool  { return k.ver == invalidVer && k.idx == invalidIdx }
func (k dbKey) isRoot() bool   { return k.idx == 0 }
func (k dbKey) String() string { return fmt.Sprintf("%d.%d", k.ver, k.idx) }

func (l *pathLog) valOf(ht *hashTable, ptr *node.Pointer) string {
	var kids []string
	if n, ok := ptr.Node.(*node.InternalNode); ok {
		for _, c := range []*node.Pointer{n.Left, n.Right} {
			if c != nil {
				kids = append(kids, fmt.Sprintf("%s~%d", keyOf(c), ht.id(c.Hash)))
			}
		}
	}
	return fmt.Sprintf("%d/%s", ht.id(ptr.Node.GetHash()), strings.Join(kids, ";"))
}

func (l *pathLog) recordPut(ht *hashTable, ptr *node.Pointer) {
	k := keyOf(ptr)
	if !k.ok || k.invalid() {
		return // embedded leaf: not stored on its own
	}
	if k.isRoot() {
		l.root = l.valOf(ht, ptr)
		return
	}
	l.puts = append(l.puts, k.String()+"="+l.valOf(ht, ptr))
}

func (l *pathLog) commitLine(t, v, sv, sh, h int, res string) string {
	pl, rl := "-", "-"
	if len(l.puts) > 0 {
		pl = strings.Join(l.puts, ",")
	}
	if len(l.removed) > 0 {
		rl = strings.Join(l.removed, ",")
	}
	root := l.root
	if root == "" {
		root = "-"
	}
	return fmt.Sprintf("commit %d %d %d %d %d %s %s %s %s", t, v, sv, sh, h, res, root, pl, rl)
}

type plogDB struct {
	api.NodeDB
	log *pathLog
	ht  *hashTable
}

func (d *plogDB) NewBatch(oldRoot node.Root, version uint64, chunk bool) (api.Batch, error) {
	b, err := d.NodeDB.NewBatch(oldRoot, version, chunk)
	if err != nil {
		return nil, err
	}
	return &plogBatch{Batch: b, log: d.log, ht: d.ht}, nil
}

type plogBatch struct {
	api.Batch
	log *pathLog
	ht  *hashTable
}

func (b *plogBatch) PutNode(ptr *node.Pointer) error {
	err := b.Batch.PutNode(ptr)
	if err == nil {
		b.log.recordPut(b.ht, ptr)
	}
	return err
}

func (b *plogBatch) RemoveNodes(nodes []*node.Pointer) error {
	for _, p := range nodes {
		k := keyOf(p)
		if !k.ok || k.isRoot() || k.invalid() {
			// never persisted, a root node (tracked separately), or the "invalid" key of an embedded
			// leaf: the backend records the latter and later deletes a key that never exists
			continue
		}
		b.log.removed = append(b.log.removed, k.String())
	}
	return b.Batch.RemoveNodes(nodes)
}

// VisitCleanNode: the backend may re-put a clean node under a new key (its root status changed, or
// an embedded leaf became a node of its own) and mark the old key removed; it does so by calling
// its own PutNode, which this wrapper does not see, so the decision is replayed here.
func (b *plogBatch) VisitCleanNode(ptr *node.Pointer, parent *node.Pointer) error {
	before := keyOf(ptr)
	err := b.Batch.VisitCleanNode(ptr, parent)
	if err != nil || !before.ok {
		return err
	}
	wasRoot, isRoot := before.isRoot(), parent == nil
	needsPut := false
	if wasRoot != isRoot {
		needsPut = true
		if isRoot && !before.invalid() {
			// (an embedded leaf that became the root carries the "invalid" key: the backend records it
			// as removed and later deletes a key that never exists — as in RemoveNodes above)
			b.log.removed = append(b.log.removed, before.String())
		}
	}
	isInvalid := false
	if parent != nil {
		if in, ok := parent.Node.(*node.InternalNode); ok {
			isInvalid = in.LeafNode == ptr
		}
	}
	if before.invalid() && !isInvalid {
		needsPut = true
	}
	if needsPut {
		b.log.recordPut(b.ht, ptr)
	}
	return nil
}

// pathObsLines: observations of the last operation for the pathbadger model; a read-back is
// classified against the contents the driver committed under that root.
func (b *backendRun) pathObsLines() []string {
	var tail []string
	for i := len(b.out.lines) - 1; i >= 0; i-- {
		f := strings.Fields(b.out.lines[i])
		if f[0] != "obs" && f[0] != "has" && f[0] != "read" {
			break
		}
		tail = append(tail, b.out.lines[i])
	}
	var out []string
	for i := len(tail) - 1; i >= 0; i-- {
		f := strings.Fields(tail[i])
		switch f[0] {
		case "obs", "has":
			out = append(out, tail[i])
		case "read":
			class := "foreign"
			switch {
			case strings.HasPrefix(f[4], "!"):
				class = "notfound"
			case f[3] == "0" && f[4] == "-":
				class = "ok"
			default:
				if want, ok := b.rootCont[strings.Join(f[1:4], " ")]; ok && want == f[4] {
					class = "ok"
				}
			}
			out = append(out, fmt.Sprintf("readclass %s %s %s %s", f[1], f[2], f[3], class))
		}
	}
	return out
}
