// dbdrv: correspondence between the REAL badger and pathbadger node databases
// (go/storage/mkvs/db/{badger,pathbadger}) and the Lean models of property C06:
//
//   - `om_nodedb` mode spec:   the abstract NodeDB contract (OasisModel/NodeDB/Spec.lean) as a
//     checker with witness, fed with what each backend answered after EVERY operation
//     (HasRoot / GetRootsForVersion / GetLatestVersion / GetEarliestVersion and a full read-back
//     of every root the database claims to have);
//   - `om_nodedb` mode badger: the bookkeeping model of the badger backend
//     (OasisModel/NodeDB/Badger.lean), fed with the node-level batch contents (PutNode /
//     RemoveNodes as the real tree issued them) and required to predict exactly which roots are
//     reported and which are readable;
//   - the two backends against each other on histories both accept.
//
// Case language (one op per line, replayable):
//
//	commit <tag> <type 0|1> <version> <srctag|-> <writes k=v,k=,..|->   (k= removes k)
//	finalize <version> <tag,..|->          tags E0/E1 stand for the empty root of that type
//	prune <version>
//	reopen
package main

import (
	"context"
	"errors"
	"flag"
	"fmt"
	"os"
	"sort"
	"strconv"
	"strings"

	"verifharness/hlib"

	"github.com/oasisprotocol/oasis-core/go/common"
	"github.com/oasisprotocol/oasis-core/go/common/crypto/hash"
	"github.com/oasisprotocol/oasis-core/go/storage/mkvs"
	"github.com/oasisprotocol/oasis-core/go/storage/mkvs/db/api"
	"github.com/oasisprotocol/oasis-core/go/storage/mkvs/db/badger"
	"github.com/oasisprotocol/oasis-core/go/storage/mkvs/db/pathbadger"
	"github.com/oasisprotocol/oasis-core/go/storage/mkvs/node"
)

var (
	ns  common.Namespace
	ctx = context.Background()
)

func scratch() string {
	d := os.Getenv("VERIF_SCRATCH")
	if d == "" {
		d = os.TempDir()
	}
	return d
}

func openDB(kind, dir string) (api.NodeDB, error) {
	cfg := &api.Config{DB: dir, NoFsync: true, Namespace: ns, MaxCacheSize: 4 << 20}
	if kind == "badger" {
		return badger.New(cfg)
	}
	return pathbadger.New(cfg)
}

// ---------------------------------------------------------------- hash ids (shared by backends)

type hashTable struct {
	ids map[hash.Hash]int
	rev []hash.Hash // id-1 -> hash
}

func (h *hashTable) id(x hash.Hash) int {
	if x.IsEmpty() {
		return 0
	}
	if i, ok := h.ids[x]; ok {
		return i
	}
	i := len(h.ids) + 1
	h.ids[x] = i
	h.rev = append(h.rev, x)
	return i
}

// ---------------------------------------------------------------- error names

func errName(err error) string {
	switch {
	case err == nil:
		return "ok"
	case errors.Is(err, api.ErrAlreadyFinalized):
		return "already_finalized"
	case errors.Is(err, api.ErrNotFinalized):
		return "not_finalized"
	case errors.Is(err, api.ErrRootNotFound):
		return "root_not_found"
	case errors.Is(err, api.ErrRootMustFollowOld):
		return "must_follow"
	case errors.Is(err, api.ErrPreviousVersionMismatch):
		return "prev_mismatch"
	case errors.Is(err, api.ErrNotEarliest):
		return "not_earliest"
	case errors.Is(err, api.ErrCannotPruneLatestVersion):
		return "cannot_prune_latest"
	case errors.Is(err, api.ErrNodeNotFound):
		return "node_not_found"
	}
	m := err.Error()
	switch {
	case strings.Contains(m, "Key not found"):
		return "node_not_found"
	case strings.Contains(m, "need at least one root"):
		return "no_roots"
	case strings.Contains(m, "don't have matching versions"):
		return "version_mismatch"
	case strings.Contains(m, "only one root of type"),
		strings.Contains(m, "child roots in the same version not supported"),
		strings.Contains(m, "cannot have child roots"):
		return "restricted"
	}
	return "other:" + strings.ReplaceAll(m, " ", "_")
}

// ---------------------------------------------------------------- one backend run

type rootRec struct {
	t, v int
	h    hash.Hash
	id   int
}

func (r rootRec) root() node.Root {
	return node.Root{Namespace: ns, Version: uint64(r.v), Type: node.RootType(r.t + 1), Hash: r.h}
}

func rootType(t int) node.RootType { return node.RootType(t + 1) } // 1 = state, 2 = io

type contents map[string]string

func (c contents) String() string {
	if len(c) == 0 {
		return "-"
	}
	ks := make([]string, 0, len(c))
	for k := range c {
		ks = append(ks, k)
	}
	sort.Strings(ks)
	var sb strings.Builder
	for i, k := range ks {
		if i > 0 {
			sb.WriteByte(';')
		}
		sb.WriteString(k + "=" + c[k])
	}
	return sb.String()
}

type runOut struct {
	lines    []string   // spec-mode model lines
	perOp    [][]string // per op: result + observation lines (for cross-backend comparison)
	blines   []string   // badger-mode model lines (badger backend only)
	plines   []string   // pathbadger-mode model lines (pathbadger backend only)
	restrict bool
	panicked string
	nops     int
	lineOp   []int // spec-mode line index -> index of the executed op it belongs to
	cutOp    int   // first op that builds on a discarded root (-1: none): not comparable across backends
	blineOp  []int // badger-mode line index -> index of the executed op it belongs to
}

type backendRun struct {
	kind  string
	dir   string
	db    api.NodeDB
	ht    *hashTable
	tags  map[string]rootRec
	cont  map[string]contents // driver's own bookkeeping of what was committed under a tag
	known []rootRec
	maxV  int
	last  int             // last finalized version as far as the driver saw finalize succeed (-1: none)
	fin   map[string]bool // roots chosen by a successful Finalize ("v:t:id")
	out   *runOut
	nlog  *nodeLog
	plog  *pathLog
	// contents the driver committed under a root ("v t id"), for classifying read-backs
	rootCont map[string]string
	// live: long-lived trees (as the consensus and runtime state trees are): the tree object that
	// committed tag T is kept and used again for a `commit … live` candidate derived from T, so that
	// pointers resident in memory (with the database positions they were loaded from or stored at)
	// carry over from version to version instead of being re-read from the database.
	live map[string]mkvs.Tree
	// noLive: the current commit is being repeated through a fresh tree; liveStale counts such repeats
	noLive    bool
	liveStale int
}

// liveStaleTotal: commits of a long-lived tree that failed to load a node and were repeated through a
// fresh tree (the database answered correctly; the tree object held stale positions).
var liveStaleTotal int

// liveDroppedExisting: long-lived trees not kept because their commit arrived at an existing root.
var liveDroppedExisting int

func (b *backendRun) dropLive() {
	for k, t := range b.live {
		t.Close()
		delete(b.live, k)
	}
}

func (b *backendRun) addKnown(r rootRec) {
	for _, k := range b.known {
		if k.t == r.t && k.v == r.v && k.h.Equal(&r.h) {
			return
		}
	}
	b.known = append(b.known, r)
	if r.v > b.maxV {
		b.maxV = r.v
	}
}

func readBack(db api.NodeDB, r node.Root) (res string) {
	defer func() {
		if p := recover(); p != nil {
			res = "!panic:" + strings.ReplaceAll(fmt.Sprint(p), " ", "_")
		}
	}()
	tr := mkvs.NewWithRoot(nil, db, r)
	defer tr.Close()
	it := tr.NewIterator(ctx)
	defer it.Close()
	c := contents{}
	for it.Rewind(); it.Valid(); it.Next() {
		c[string(it.Key())] = string(it.Value())
	}
	if err := it.Err(); err != nil {
		return "!" + errName(err)
	}
	return c.String()
}

// observe appends the observation lines after an operation.
func (b *backendRun) observe(op *[]string) {
	// a root is contract-relevant for the cross-backend comparison unless it was discarded
	// (its version is finalized and it was not chosen): what stays of discarded roots is the
	// backend's choice.
	relevant := func(v, t, id int) bool {
		return v > b.last || b.fin[fmt.Sprintf("%d:%d:%d", v, t, id)]
	}
	emit := func(l string) {
		b.out.lines = append(b.out.lines, l)
		f := strings.Fields(l)
		switch f[0] {
		case "obs":
			var keep []string
			if f[3] != "-" {
				for _, r := range strings.Split(f[3], ",") {
					var v, t, id int
					if n, _ := fmt.Sscanf(r, "%d:%d:%d", &v, &t, &id); n == 3 && relevant(v, t, id) {
						keep = append(keep, r)
					}
				}
			}
			*op = append(*op, fmt.Sprintf("obs %s %s %s", f[1], f[2], strings.Join(keep, ",")))
		case "has", "read":
			v, _ := strconv.Atoi(f[1])
			t, _ := strconv.Atoi(f[2])
			id, _ := strconv.Atoi(f[3])
			if relevant(v, t, id) {
				*op = append(*op, l)
			}
		}
	}
	func() {
		defer func() {
			if p := recover(); p != nil {
				b.out.panicked = fmt.Sprintf("observe: %v", p)
				emit("obs PANIC 0 -")
			}
		}()
		latest := "-"
		if l, ok := b.db.GetLatestVersion(); ok {
			latest = strconv.FormatUint(l, 10)
		}
		earliest := b.db.GetEarliestVersion()
		listed := map[string]bool{}
		var rs []string
		for v := 0; v <= b.maxV+1; v++ {
			roots, err := b.db.GetRootsForVersion(uint64(v))
			if err != nil {
				rs = append(rs, fmt.Sprintf("%d:9:%s", v, errName(err)))
				continue
			}
			var one []string
			for _, r := range roots {
				s := fmt.Sprintf("%d:%d:%d", r.Version, int(r.Type)-1, b.ht.id(r.Hash))
				one = append(one, s)
				listed[s] = true
				b.addKnown(rootRec{t: int(r.Type) - 1, v: int(r.Version), h: r.Hash, id: b.ht.id(r.Hash)})
			}
			sort.Strings(one)
			rs = append(rs, one...)
		}
		rl := "-"
		if len(rs) > 0 {
			rl = strings.Join(rs, ",")
		}
		emit(fmt.Sprintf("obs %s %d %s", latest, earliest, rl))
		for _, k := range b.known {
			has := b.db.HasRoot(k.root())
			hb := 0
			if has {
				hb = 1
			}
			emit(fmt.Sprintf("has %d %d %d %d", k.v, k.t, k.id, hb))
			if has || listed[fmt.Sprintf("%d:%d:%d", k.v, k.t, k.id)] {
				emit(fmt.Sprintf("read %d %d %d %s", k.v, k.t, k.id, readBack(b.db, k.root())))
			}
		}
	}()
}

func applyWrites(src contents, writes string) (contents, [][2]string) {
	c := contents{}
	for k, v := range src {
		c[k] = v
	}
	var seq [][2]string
	if writes != "-" {
		for _, w := range strings.Split(writes, ",") {
			kv := strings.SplitN(w, "=", 2)
			if len(kv) != 2 {
				continue
			}
			seq = append(seq, [2]string{kv[0], kv[1]})
			if kv[1] == "" {
				delete(c, kv[0])
			} else {
				c[kv[0]] = kv[1]
			}
		}
	}
	return c, seq
}

func (b *backendRun) doCommit(w []string) (skip bool, opLines []string) {
	tag, srcTag, writes := w[1], w[4], w[5]
	t, _ := strconv.Atoi(w[2])
	v, _ := strconv.Atoi(w[3])
	var src *rootRec
	srcCont := contents{}
	if srcTag != "-" {
		s, ok := b.tags[srcTag]
		if !ok {
			return true, nil
		}
		src = &s
		srcCont = b.cont[srcTag]
		// Outside the property's quantifier (candidates derive from the previous FINALIZED root):
		// building on a root of an earlier version that is still pending. Shrinking must not
		// manufacture such histories.
		if s.v < v && s.v > b.last {
			return true, nil
		}
		// Building on a discarded root: whether it still exists is the backend's choice.
		if s.v <= b.last && !b.fin[fmt.Sprintf("%d:%d:%d", s.v, s.t, s.id)] && b.out.cutOp < 0 {
			b.out.cutOp = b.out.nops
		}
	}
	want, seq := applyWrites(srcCont, writes)
	var (
		res  string
		h    hash.Hash
		hset bool
	)
	if b.nlog != nil {
		b.nlog.reset()
	}
	if b.plog != nil {
		b.plog.reset()
	}
	retryFresh := false
	attempt := func() {
		defer func() {
			if p := recover(); p != nil {
				res = "panic:" + strings.ReplaceAll(fmt.Sprint(p), " ", "_")
				b.out.panicked = fmt.Sprintf("%s: %v", strings.Join(w, " "), p)
			}
		}()
		var ndb api.NodeDB = b.db
		if b.nlog != nil {
			ndb = &logDB{NodeDB: b.db, log: b.nlog}
		}
		if b.plog != nil {
			ndb = &plogDB{NodeDB: b.db, log: b.plog, ht: b.ht}
		}
		var tr mkvs.Tree
		keep := len(w) == 7 && w[6] == "live"
		usedLive := false
		if lt, ok := b.live[srcTag]; ok && keep && src != nil && src.t == t && !b.noLive {
			tr = lt
			usedLive = true
			delete(b.live, srcTag)
		} else if src == nil {
			tr = mkvs.New(nil, ndb, rootType(t))
		} else {
			r := src.root()
			r.Type = rootType(t)
			tr = mkvs.NewWithRoot(nil, ndb, r)
		}
		defer func() {
			if keep && hset {
				// A tree object whose commit arrived at a root that ALREADY existed at this version (equal
				// contents committed first by another tree) is not kept: the backend treats both commits as
				// one root and keeps the first batch's nodes, so this object's positions describe nodes that
				// were never written (see DESIGN.md 9.4, "stale positions"); C06 speaks about what the
				// database answers under a root, every later commit on this root goes through a fresh tree.
				if _, existed := b.rootCont[fmt.Sprintf("%d %d %d", v, t, b.ht.id(h))]; existed {
					liveDroppedExisting++
					tr.Close()
					return
				}
				if old, ok := b.live[tag]; ok {
					old.Close()
				}
				b.live[tag] = tr
				return
			}
			tr.Close()
		}()
		for _, kv := range seq {
			var err error
			if kv[1] == "" {
				err = tr.Remove(ctx, []byte(kv[0]))
			} else {
				err = tr.Insert(ctx, []byte(kv[0]), []byte(kv[1]))
			}
			if err != nil {
				if os.Getenv("VERIF_DEBUG") != "" {
					fmt.Fprintf(os.Stderr, "[dbdrv %s] %s: write %q=%q failed: %v\n", b.kind, strings.Join(w, " "), kv[0], kv[1], err)
				}
				if usedLive {
					// The long-lived tree could not load a node. The property speaks about what the
					// DATABASE answers under a root: the commit is repeated through a fresh tree opened
					// at the source root (see the note on stale positions in DESIGN.md 9.4); only if
					// that fails too the source root is unreadable.
					retryFresh = true
					return
				}
				res = "src_unreadable"
				return
			}
		}
		_, hh, err := tr.Commit(ctx, ns, uint64(v))
		if err != nil {
			res = errName(err)
			if res == "node_not_found" {
				res = "src_unreadable"
			}
			return
		}
		res, h, hset = "ok", hh, true
	}
	attempt()
	if retryFresh {
		b.liveStale++
		liveStaleTotal++
		b.noLive = true
		if b.nlog != nil {
			b.nlog.reset()
		}
		if b.plog != nil {
			b.plog.reset()
		}
		attempt()
		b.noLive = false
	}
	sv, sh := v, 0
	if src != nil {
		sv, sh = src.v, src.id
	}
	hid := 0
	if hset {
		hid = b.ht.id(h)
		rec := rootRec{t: t, v: v, h: h, id: hid}
		b.tags[tag] = rec
		b.cont[tag] = want
		b.addKnown(rec)
		b.rootCont[fmt.Sprintf("%d %d %d", v, t, hid)] = want.String()
	}
	if res == "restricted" {
		b.out.restrict = true
	}
	line := fmt.Sprintf("commit %d %d %d %d %d %s %s", t, v, sv, sh, hid, res, want.String())
	b.out.lines = append(b.out.lines, line)
	opLines = append(opLines, line)
	if b.nlog != nil {
		b.out.blines = append(b.out.blines, b.nlog.commitLine(b.ht, t, v, sv, sh, hid, res))
	}
	if b.plog != nil {
		b.out.plines = append(b.out.plines, b.plog.commitLine(t, v, sv, sh, hid, res))
	}
	return false, opLines
}

// gateDB makes NewBatch report that the batch exists and then wait: two commits can be made to OVERLAP
// (both batches open before either commits), as candidate roots computed concurrently do.
type gateDB struct {
	api.NodeDB
	entered chan struct{}
	release chan struct{}
}

func (g *gateDB) NewBatch(oldRoot node.Root, version uint64, chunk bool) (api.Batch, error) {
	bt, err := g.NodeDB.NewBatch(oldRoot, version, chunk)
	g.entered <- struct{}{}
	<-g.release
	return bt, err
}

// doCommitPair: `commit2 <tagA> <tagB> <type> <version> <src> <writesA> <writesB>` — two candidates of one
// version derived from the same source whose batches overlap: NewBatch(A), NewBatch(B), Commit(A), Commit(B).
func (b *backendRun) doCommitPair(w []string) (skip bool, opLines []string) {
	tags, srcTag := [2]string{w[1], w[2]}, w[5]
	t, _ := strconv.Atoi(w[3])
	v, _ := strconv.Atoi(w[4])
	var src *rootRec
	srcCont := contents{}
	if srcTag != "-" {
		s, ok := b.tags[srcTag]
		if !ok || (s.v < v && s.v > b.last) || (s.v <= b.last && !b.fin[fmt.Sprintf("%d:%d:%d", s.v, s.t, s.id)]) {
			return true, nil
		}
		src = &s
		srcCont = b.cont[srcTag]
	}
	type side struct {
		want  contents
		seq   [][2]string
		nlog  *nodeLog
		plog  *pathLog
		gate  *gateDB
		res   string
		h     hash.Hash
		hset  bool
		done  chan struct{}
		tree  mkvs.Tree
		panic string
	}
	var sides [2]*side
	for i := 0; i < 2; i++ {
		sd := &side{done: make(chan struct{})}
		sd.want, sd.seq = applyWrites(srcCont, w[6+i])
		var ndb api.NodeDB = b.db
		if b.nlog != nil {
			sd.nlog = newNodeLog()
			ndb = &logDB{NodeDB: b.db, log: sd.nlog}
		}
		if b.plog != nil {
			sd.plog = &pathLog{}
			sd.plog.reset()
			ndb = &plogDB{NodeDB: b.db, log: sd.plog, ht: b.ht}
		}
		sd.gate = &gateDB{NodeDB: ndb, entered: make(chan struct{}, 1), release: make(chan struct{}, 1)}
		if src == nil {
			sd.tree = mkvs.New(nil, sd.gate, rootType(t))
		} else {
			r := src.root()
			r.Type = rootType(t)
			sd.tree = mkvs.NewWithRoot(nil, sd.gate, r)
		}
		sides[i] = sd
	}
	run := func(sd *side) {
		defer close(sd.done)
		defer func() {
			if p := recover(); p != nil {
				sd.res = "panic:" + strings.ReplaceAll(fmt.Sprint(p), " ", "_")
				sd.panic = fmt.Sprint(p)
			}
		}()
		for _, kv := range sd.seq {
			var err error
			if kv[1] == "" {
				err = sd.tree.Remove(ctx, []byte(kv[0]))
			} else {
				err = sd.tree.Insert(ctx, []byte(kv[0]), []byte(kv[1]))
			}
			if err != nil {
				sd.res = "src_unreadable"
				return
			}
		}
		_, hh, err := sd.tree.Commit(ctx, ns, uint64(v))
		if err != nil {
			sd.res = errName(err)
			return
		}
		sd.res, sd.h, sd.hset = "ok", hh, true
	}
	// A opens its batch, then B opens its batch, then A commits, then B commits.
	for i := 0; i < 2; i++ {
		go run(sides[i])
		select {
		case <-sides[i].gate.entered:
		case <-sides[i].done: // failed before NewBatch
		}
	}
	for i := 0; i < 2; i++ {
		select {
		case sides[i].gate.release <- struct{}{}:
		default:
		}
		<-sides[i].done
		sides[i].tree.Close()
	}
	sv, sh := v, 0
	if src != nil {
		sv, sh = src.v, src.id
	}
	for i, sd := range sides {
		if sd.panic != "" {
			b.out.panicked = fmt.Sprintf("%s: %s", strings.Join(w, " "), sd.panic)
		}
		hid := 0
		if sd.hset {
			hid = b.ht.id(sd.h)
			rec := rootRec{t: t, v: v, h: sd.h, id: hid}
			b.tags[tags[i]] = rec
			b.cont[tags[i]] = sd.want
			b.addKnown(rec)
			b.rootCont[fmt.Sprintf("%d %d %d", v, t, hid)] = sd.want.String()
		}
		if sd.res == "restricted" {
			b.out.restrict = true
		}
		line := fmt.Sprintf("commit %d %d %d %d %d %s %s", t, v, sv, sh, hid, sd.res, sd.want.String())
		b.out.lines = append(b.out.lines, line)
		opLines = append(opLines, line)
		if sd.nlog != nil {
			b.out.blines = append(b.out.blines, sd.nlog.commitLine(b.ht, t, v, sv, sh, hid, sd.res))
		}
		if sd.plog != nil {
			b.out.plines = append(b.out.plines, sd.plog.commitLine(t, v, sv, sh, hid, sd.res))
		}
	}
	return false, opLines
}

func (b *backendRun) resolveRoots(v int, tags string) ([]node.Root, string, bool) {
	var roots []node.Root
	var ids []string
	if tags == "-" {
		return nil, "-", true
	}
	for _, tg := range strings.Split(tags, ",") {
		var rec rootRec
		switch tg {
		case "E0", "E1":
			var e hash.Hash
			e.Empty()
			rec = rootRec{t: int(tg[1] - '0'), v: v, h: e, id: 0}
		default:
			r, ok := b.tags[tg]
			if !ok {
				return nil, "", false
			}
			rec = r
		}
		roots = append(roots, rec.root())
		ids = append(ids, fmt.Sprintf("%d:%d", rec.t, rec.id))
		if rec.v != v {
			// a root of another version in the list: keep the version visible to the model
			ids[len(ids)-1] = fmt.Sprintf("%d:%d", rec.t, rec.id)
		}
	}
	return roots, strings.Join(ids, ","), true
}

func (b *backendRun) doFinalize(w []string) (bool, []string) {
	v, _ := strconv.Atoi(w[1])
	roots, ids, ok := b.resolveRoots(v, w[2])
	if !ok {
		return true, nil
	}
	// the model line carries chosen roots as t:h at version v; roots of another version are
	// reported through the result only (version_mismatch), so drop such cases from generation.
	for _, r := range roots {
		if int(r.Version) != v {
			return true, nil
		}
	}
	var res string
	func() {
		defer func() {
			if p := recover(); p != nil {
				res = "panic:" + strings.ReplaceAll(fmt.Sprint(p), " ", "_")
				b.out.panicked = fmt.Sprintf("%s: %v", strings.Join(w, " "), p)
			}
		}()
		res = errName(b.db.Finalize(roots))
	}()
	if res == "restricted" {
		b.out.restrict = true
	}
	keep := "-"
	if res == "ok" {
		b.last = v
		for _, r := range roots {
			b.fin[fmt.Sprintf("%d:%d:%d", r.Version, int(r.Type)-1, b.ht.id(r.Hash))] = true
		}
		rs, err := b.db.GetRootsForVersion(uint64(v))
		if err == nil {
			var one []string
			for _, r := range rs {
				one = append(one, fmt.Sprintf("%d:%d", int(r.Type)-1, b.ht.id(r.Hash)))
			}
			sort.Strings(one)
			if len(one) > 0 {
				keep = strings.Join(one, ",")
			}
		}
	}
	line := fmt.Sprintf("finalize %d %s %s %s", v, ids, res, keep)
	b.out.lines = append(b.out.lines, line)
	if b.nlog != nil {
		b.out.blines = append(b.out.blines, fmt.Sprintf("finalize %d %s %s", v, ids, res))
	}
	if b.plog != nil {
		b.out.plines = append(b.out.plines, fmt.Sprintf("finalize %d %s %s", v, ids, res))
	}
	// keep is a witness and legitimately differs between backends: not part of the comparison
	return false, []string{fmt.Sprintf("finalize %d %s %s", v, ids, res)}
}

func (b *backendRun) doPrune(w []string) (bool, []string) {
	v, _ := strconv.Atoi(w[1])
	var res string
	func() {
		defer func() {
			if p := recover(); p != nil {
				res = "panic:" + strings.ReplaceAll(fmt.Sprint(p), " ", "_")
				b.out.panicked = fmt.Sprintf("%s: %v", strings.Join(w, " "), p)
			}
		}()
		res = errName(b.db.Prune(uint64(v)))
	}()
	line := fmt.Sprintf("prune %d %s", v, res)
	b.out.lines = append(b.out.lines, line)
	if b.nlog != nil {
		b.out.blines = append(b.out.blines, line)
	}
	if b.plog != nil {
		b.out.plines = append(b.out.plines, line)
	}
	return false, []string{line}
}

// runBackend executes the case on one real backend.
func runBackend(kind string, ops []string, ht *hashTable, withNodeLog bool) *runOut {
	out := &runOut{lines: []string{"mode spec"}, blines: []string{"mode badger"}, plines: []string{"mode pathbadger"}, cutOp: -1}
	dir, err := os.MkdirTemp(scratch(), "dbdrv-"+kind+"-")
	if err != nil {
		out.panicked = "mkdtemp: " + err.Error()
		return out
	}
	defer os.RemoveAll(dir)
	db, err := openDB(kind, dir)
	if err != nil {
		out.panicked = "open: " + err.Error()
		return out
	}
	b := &backendRun{kind: kind, dir: dir, db: db, ht: ht, tags: map[string]rootRec{}, cont: map[string]contents{}, out: out, last: -1, fin: map[string]bool{}}
	b.rootCont = map[string]string{}
	b.live = map[string]mkvs.Tree{}
	if withNodeLog {
		b.nlog = newNodeLog()
	}
	if kind == "pathbadger" && pathModelEnabled {
		b.plog = &pathLog{}
	}
	defer func() { b.dropLive(); b.db.Close() }()
	for _, op := range ops {
		w := strings.Fields(op)
		if len(w) == 0 {
			continue
		}
		var skip bool
		var opLines []string
		switch {
		case w[0] == "commit" && (len(w) == 6 || (len(w) == 7 && w[6] == "live")):
			skip, opLines = b.doCommit(w)
		case w[0] == "commit2" && len(w) == 8:
			skip, opLines = b.doCommitPair(w)
		case w[0] == "finalize" && len(w) == 3:
			skip, opLines = b.doFinalize(w)
		case w[0] == "prune" && len(w) == 2:
			skip, opLines = b.doPrune(w)
		case w[0] == "compact":
			// compaction of the storage engine on the open database (no reopen: the discard timestamp
			// and everything else the backend keeps in memory stay as the history left them); like
			// reopen it must not change any answer, and the models treat it as the same no-op line
			if cerr := b.db.Compact(); cerr != nil {
				out.panicked = "compact: " + cerr.Error()
				return out
			}
			out.lines = append(out.lines, "reopen")
			opLines = []string{"reopen"}
		case w[0] == "reopen":
			b.dropLive()
			b.db.Close()
			b.db, err = openDB(kind, dir)
			if err != nil {
				out.panicked = "reopen: " + err.Error()
				return out
			}
			out.lines = append(out.lines, "reopen")
			opLines = []string{"reopen"}
		default:
			skip = true
		}
		if skip {
			continue
		}
		b.observe(&opLines)
		for len(out.lineOp) < len(out.lines) {
			out.lineOp = append(out.lineOp, out.nops)
		}
		for len(out.blineOp) < len(out.blines) {
			out.blineOp = append(out.blineOp, out.nops)
		}
		out.nops++
		if b.nlog != nil {
			b.out.blines = append(b.out.blines, b.badgerObsLines()...)
		}
		if b.plog != nil {
			b.out.plines = append(b.out.plines, b.pathObsLines()...)
		}
		out.perOp = append(out.perOp, opLines)
		if out.panicked != "" {
			break
		}
	}
	return out
}

// ---------------------------------------------------------------- checking one case

type verdict struct {
	kind, sig, detail string
}

func sigOf(backend, ans string) string {
	// "DIVERGE <signature> detail..."
	f := strings.Fields(ans)
	s := "other"
	if len(f) >= 2 {
		s = f[1]
	}
	// result-mismatch signatures carry the values: keep op-kind + class only
	if i := strings.Index(s, "-result-mismatch"); i >= 0 {
		s = s[:i] + "-result-mismatch"
	}
	return backend + ":" + s
}

var backends = []string{"badger", "pathbadger"}

// checkFor re-runs only what is needed to reproduce a failure of the given signature.
func checkFor(ops []string, sig string) bool {
	only := ""
	switch {
	case strings.HasPrefix(sig, "badger:"), strings.HasPrefix(sig, "badger-model:"):
		only = "badger"
	case strings.HasPrefix(sig, "pathbadger:"), strings.HasPrefix(sig, "pathbadger-model:"):
		only = "pathbadger"
	}
	for _, x := range checkOnly(ops, nil, false, only) {
		if x.sig == sig {
			return true
		}
	}
	return false
}

func check(ops []string, res *hlib.Result, count bool) []verdict {
	return checkOnly(ops, res, count, "")
}

func checkOnly(ops []string, res *hlib.Result, count bool, only string) []verdict {
	ht := &hashTable{ids: map[hash.Hash]int{}}
	outs := map[string]*runOut{}
	for _, k := range backends {
		if only != "" && only != k {
			outs[k] = &runOut{restrict: true, cutOp: -1}
			continue
		}
		outs[k] = runBackend(k, ops, ht, k == "badger")
	}
	return judge(ops, outs, res, count, only)
}

// judge decides a case from what the backends answered (separate from running them, so that the
// self-test can feed it altered answers).
func judge(ops []string, outs map[string]*runOut, res *hlib.Result, count bool, only string) []verdict {
	var vs []verdict
	// 1. the badger bookkeeping model as an exact oracle of the badger backend; its notes name
	//    the bookkeeping rule behind every unreadable root / failed prune it predicts.
	notes := map[string]string{}
	firstUnsafeOp := -1 // first step of the badger run outside the restriction of badger_readable_inv_partial
	if d := os.Getenv("VERIF_DUMP"); d != "" {
		_ = os.WriteFile(d+".badger", []byte(strings.Join(outs["badger"].blines, "\n")+"\n"), 0o644)
		_ = os.WriteFile(d+".ops", []byte(strings.Join(ops, "\n")+"\n"), 0o644)
		_ = os.WriteFile(d+".pathbadger", []byte(strings.Join(outs["pathbadger"].plines, "\n")+"\n"), 0o644)
	}
	if o := outs["badger"]; len(o.blines) > 1 && badgerModelEnabled {
		ans, err := hlib.RunModel("nodedb", o.blines)
		if err != nil {
			vs = append(vs, verdict{"divergence", "badger-model:model-error", err.Error()})
		} else {
			if i := hlib.FirstBad(ans, "ok"); i >= 0 {
				vs = append(vs, verdict{"divergence", sigOf("badger-model", ans[i]), fmt.Sprintf("badger model at line %d `%s`: %s", i, o.blines[i], ans[i])})
			}
			for i, a := range ans {
				if strings.HasPrefix(a, "ok unsafe=") && i < len(o.blineOp) && (firstUnsafeOp < 0 || o.blineOp[i] < firstUnsafeOp) {
					firstUnsafeOp = o.blineOp[i]
					if count && res != nil {
						res.Count("restriction:first-unsafe:" + strings.TrimPrefix(a, "ok unsafe="))
					}
				}
				if strings.HasPrefix(a, "ok note=") {
					f := strings.Fields(o.blines[i])
					key := strings.Join(f[:len(f)-1], " ") // "readable v t h" / "prune v"
					if _, ok := notes[key]; !ok {
						notes[key] = strings.TrimPrefix(a, "ok note=")
					}
				}
			}
			if count && res != nil {
				res.CountN("badger-model:lines", len(ans))
			}
		}
	}
	// 1b. the pathbadger bookkeeping model as an exact oracle of the pathbadger backend
	if o := outs["pathbadger"]; o != nil && len(o.plines) > 1 && pathModelEnabled && (only == "" || only == "pathbadger") {
		ans, err := hlib.RunModel("nodedb", o.plines)
		if err != nil {
			vs = append(vs, verdict{"divergence", "pathbadger-model:model-error", err.Error()})
		} else {
			if i := hlib.FirstBad(ans, "ok"); i >= 0 {
				vs = append(vs, verdict{"divergence", sigOf("pathbadger-model", ans[i]), fmt.Sprintf("pathbadger model at line %d `%s`: %s", i, o.plines[i], ans[i])})
			}
			if count && res != nil {
				res.CountN("pathbadger-model:lines", len(ans))
			}
		}
	}
	// 2. every backend against the contract (checker with witness + spec predicates on the answers)
	firstBadOp := len(ops) + 1
	for _, k := range backends {
		o := outs[k]
		if only != "" && only != k {
			continue
		}
		if o.panicked != "" {
			vs = append(vs, verdict{"panic", k + ":panic", o.panicked})
		}
		ans, err := hlib.RunModel("nodedb", o.lines)
		if err != nil {
			vs = append(vs, verdict{"divergence", k + ":model-error", err.Error()})
			continue
		}
		seenSig := map[string]bool{}
		for i, a := range ans {
			if strings.HasPrefix(a, "ok") || a == "skip" {
				continue
			}
			kind := "divergence"
			if strings.Contains(a, "unreadable") || strings.Contains(a, "foreign-contents") || strings.Contains(a, "finalized-root-missing") {
				kind = "spec"
			}
			sig := sigOf(k, a)
			if k == "badger" {
				f := strings.Fields(o.lines[i])
				var key string
				switch f[0] {
				case "read":
					key = "readable " + strings.Join(f[1:4], " ")
				case "prune":
					key = "prune " + f[1]
				}
				if n, ok := notes[key]; ok {
					sig += ":" + n
				}
			}
			if i < len(o.lineOp) && o.lineOp[i] < firstBadOp {
				firstBadOp = o.lineOp[i]
			}
			// inside the restriction of badger_readable_inv_partial no reported root may be unreadable:
			// a failure before the first unsafe step is NOT one of the known findings
			if k == "badger" && badgerModelEnabled && (strings.Contains(sig, "unreadable") || strings.Contains(sig, "prune-result-mismatch")) {
				op := -1
				if i < len(o.lineOp) {
					op = o.lineOp[i]
				}
				if firstUnsafeOp < 0 || op < firstUnsafeOp {
					sig = "badger:inside-restriction:" + strings.TrimPrefix(sig, "badger:")
				}
			}
			if seenSig[sig] {
				continue
			}
			seenSig[sig] = true
			vs = append(vs, verdict{kind, sig, fmt.Sprintf("%s at line %d `%s`: %s", k, i, o.lines[i], a)})
		}
		if count && res != nil {
			for _, l := range o.lines {
				f := strings.Fields(l)
				switch f[0] {
				case "commit":
					res.Count(k + ":commit:" + f[6])
				case "finalize":
					res.Count(k + ":finalize:" + f[3])
				case "prune":
					res.Count(k + ":prune:" + f[2])
				case "read":
					if strings.HasPrefix(f[4], "!") {
						res.Count(k + ":read:err")
					} else {
						res.Count(k + ":read:ok")
					}
				case "reopen":
					res.Count(k + ":reopen")
				}
			}
		}
	}
	if count && res != nil && (only == "" || only == "badger") && badgerModelEnabled {
		if firstUnsafeOp < 0 {
			res.Count("restriction:history-inside")
		} else {
			res.Count("restriction:history-outside")
			damaged := false
			for _, v := range vs {
				if strings.HasPrefix(v.sig, "badger:") && (strings.Contains(v.sig, "unreadable") || strings.Contains(v.sig, "prune-result-mismatch")) {
					damaged = true
				}
			}
			if !damaged {
				// an unsafe step whose victim was never observed (e.g. it was pruned or discarded first)
				res.Count("restriction:history-outside-without-observed-damage")
			}
		}
	}
	// 3. the two backends against each other on histories both accept, on everything the
	//    contract determines (results, latest/earliest, pending and finalized roots: presence and
	//    full contents), up to the first operation at which a backend already left the contract.
	a, p := outs["badger"], outs["pathbadger"]
	if !a.restrict && !p.restrict && a.panicked == "" && p.panicked == "" {
		if count && res != nil {
			res.Count("cross:compared")
		}
		n := len(a.perOp)
		if len(p.perOp) < n {
			n = len(p.perOp)
		}
		if firstBadOp < n {
			n = firstBadOp
		}
		for _, o := range []*runOut{a, p} {
			if o.cutOp >= 0 && o.cutOp < n {
				n = o.cutOp
			}
		}
	outer:
		for i := 0; i < n; i++ {
			la, lp := a.perOp[i], p.perOp[i]
			m := len(la)
			if len(lp) < m {
				m = len(lp)
			}
			for j := 0; j < m; j++ {
				if la[j] != lp[j] {
					what := strings.Fields(la[j])[0]
					vs = append(vs, verdict{"divergence", "cross:" + what,
						fmt.Sprintf("backends disagree after op %d: badger `%s` pathbadger `%s`", i, la[j], lp[j])})
					break outer
				}
			}
			if len(la) != len(lp) {
				vs = append(vs, verdict{"divergence", "cross:shape", fmt.Sprintf("backends produce different observations after op %d", i)})
				break
			}
		}
	} else if count && res != nil {
		res.Count("cross:skipped-restricted")
	}
	return vs
}

// ---------------------------------------------------------------- self-test: known findings must not mask

// selfTestMasking takes a history that triggers a KNOWN defect (D3: badger Finalize deletes a node
// the finalized root inherits) and alters the recorded answers of the badger backend so that, in
// addition, an older finalized root (a) returns foreign contents, (b) is unreadable although the
// bookkeeping model says it is readable, (c) is no longer reported. Each alteration must surface
// under a signature different from every signature of the unaltered run: a new kind of wrong
// answer on a history with a known finding is never hidden behind the known finding.
func selfTestMasking() []verdict {
	ops := []string{"commit r1 0 1 - a=1,b=2", "finalize 1 r1", "commit r3 0 2 - a=1", "commit r4 0 2 r1 c=3", "finalize 2 r4"}
	run := func(mut func(o *runOut)) map[string]bool {
		ht := &hashTable{ids: map[hash.Hash]int{}}
		outs := map[string]*runOut{"badger": runBackend("badger", ops, ht, true), "pathbadger": {restrict: true, cutOp: -1}}
		if mut != nil {
			mut(outs["badger"])
		}
		sigs := map[string]bool{}
		for _, v := range judge(ops, outs, nil, false, "badger") {
			sigs[v.sig] = true
		}
		return sigs
	}
	base := run(nil)
	var vs []verdict
	if !base["badger:finalized-root-unreadable:finalize:put-by-a-discarded-root-but-inherited-by-a-kept-root"] {
		// the defect was repaired: nothing to mask any more
		return nil
	}
	// the last observation of the version-1 root r1 (hash id 1: first committed root)
	lastIdx := func(lines []string, prefix string) int {
		for i := len(lines) - 1; i >= 0; i-- {
			if strings.HasPrefix(lines[i], prefix) {
				return i
			}
		}
		return -1
	}
	cases := []struct {
		name string
		want string
		mut  func(o *runOut)
	}{
		{"foreign contents under an older finalized root", "badger:foreign-contents-finalized", func(o *runOut) {
			if i := lastIdx(o.lines, "read 1 0 1 "); i >= 0 {
				o.lines[i] = "read 1 0 1 zz=9"
			}
		}},
		{"older finalized root unreadable against the model", "badger-model:readable-mismatch", func(o *runOut) {
			if i := lastIdx(o.lines, "read 1 0 1 "); i >= 0 {
				o.lines[i] = "read 1 0 1 !node_not_found"
			}
			if i := lastIdx(o.blines, "readable 1 0 1 "); i >= 0 {
				o.blines[i] = "readable 1 0 1 0"
			}
		}},
		{"older finalized root no longer reported", "badger:finalized-root-missing", func(o *runOut) {
			if i := lastIdx(o.lines, "has 1 0 1 "); i >= 0 {
				o.lines[i] = "has 1 0 1 0"
			}
		}},
	}
	for _, c := range cases {
		got := run(c.mut)
		fresh := false
		for s := range got {
			if !base[s] {
				fresh = true
			}
		}
		if !got[c.want] || !fresh {
			var l []string
			for s := range got {
				l = append(l, s)
			}
			sort.Strings(l)
			vs = append(vs, verdict{"divergence", "selftest:known-finding-masks-new-failure",
				fmt.Sprintf("altered answers (%s) must yield the new signature %s; got %v", c.name, c.want, l)})
		}
	}
	return vs
}

// ---------------------------------------------------------------- generator

func genCase(r *hlib.Rng, nver int, res *hlib.Result) []string {
	var ops []string
	keys := []string{"a", "b", "c", "d", "e", "f", "ab", "ac"}
	vals := []string{"1", "2"}
	v := []int{0, 1, 1, 3}[r.Intn(4)]
	lag := 1 + r.Intn(4)
	ntag := 0
	newTag := func() string { ntag++; return fmt.Sprintf("r%d", ntag) }
	prevState := "-"                 // tag of the finalized state root of the previous version
	removedKV := map[string]string{} // previously removed key -> old value (for re-insertion)
	cont := map[string]contents{}
	earliest := -1
	// In a quarter of the cases two sibling roots of the state type are finalized in the same
	// version (badger only; pathbadger refuses): one is continued, the other stays a lone root that
	// inherits nodes of older versions which the continued line still needs when it is pruned.
	twoState := r.Chance(1, 4)
	// In half of the cases the state candidates are committed through long-lived trees.
	compacting := r.Chance(1, 4)
	if compacting {
		res.Count("gen:case-with-compaction")
		// long enough for the storage engine to move tables out of level 0 (five flushes) and for
		// later versions to be compacted into them
		if nver < 13 {
			nver = 13
		}
	}
	liveTrees := r.Chance(1, 2)
	if liveTrees {
		res.Count("gen:case-with-long-lived-trees")
	}
	for i := 0; i < nver; i++ {
		// --- candidates of the state type
		ncand := 1 + r.Intn(3)
		if twoState && ncand < 2 {
			ncand = 2
		}
		var cands []string
		var firstWrites []string
		liveCand := ""
		for c := 0; c < ncand; c++ {
			src := prevState
			k := r.Intn(100)
			switch {
			case k < 8:
				src = "-" // fresh tree (re-creates nodes)
				res.Count("gen:fresh-state-candidate")
			case k < 13 && len(cands) > 0:
				src = cands[r.Intn(len(cands))] // same-version chain
				res.Count("gen:same-version-chain")
			}
			base := contents{}
			if src != "-" {
				base = cont[src]
			}
			var ws []string
			nw := r.Intn(4)
			k2 := r.Intn(100)
			switch {
			case k2 < 8:
				nw = 0 // unchanged root
				res.Count("gen:unchanged-root")
			case k2 < 14:
				// remove everything: empty root
				for kk := range base {
					ws = append(ws, kk+"=")
				}
				sort.Strings(ws)
				nw = 0
				res.Count("gen:empty-root")
			}
			for j := 0; j < nw; j++ {
				key := keys[r.Intn(len(keys))]
				k3 := r.Intn(100)
				if liveTrees && r.Chance(1, 3) {
					// toggle an extension of a stored key: the stored key turns from a standalone leaf
					// into the leaf embedded in a new internal node and back
					ext := []string{"ab", "ac"}[r.Intn(2)]
					if _, ok := base["a"]; ok {
						if _, has := base[ext]; has {
							ws = append(ws, ext+"=")
						} else {
							ws = append(ws, ext+"="+vals[r.Intn(len(vals))])
						}
						res.Count("gen:prefix-extension-toggle")
						continue
					}
					key = "a"
					k3 = 99
				}
				switch {
				case k3 < 25:
					ws = append(ws, key+"=")
					if old, ok := base[key]; ok {
						removedKV[key] = old
					}
				case k3 < 40 && len(removedKV) > 0:
					// re-insert a previously removed key with its old value
					rk := hlib.SortedKeys(removedKV)
					key = rk[r.Intn(len(rk))]
					ws = append(ws, key+"="+removedKV[key])
					res.Count("gen:reinsert-removed")
				case k3 < 50:
					// remove and re-create the same key/value inside one commit
					if old, ok := base[key]; ok {
						ws = append(ws, key+"=", key+"="+old)
						res.Count("gen:remove-recreate")
					} else {
						ws = append(ws, key+"="+vals[r.Intn(len(vals))])
					}
				default:
					ws = append(ws, key+"="+vals[r.Intn(len(vals))])
				}
			}
			if twoState && c > 0 && src == prevState && len(firstWrites) > 0 && r.Chance(1, 2) {
				// a sibling that rewrites the same keys with other values: both siblings replace
				// the same path and inherit everything else from the older root
				ws = nil
				for _, w := range firstWrites {
					k := strings.SplitN(w, "=", 2)[0]
					ws = append(ws, k+"="+"s"+vals[r.Intn(len(vals))])
				}
				res.Count("gen:sibling-same-keys")
			}
			if c == 0 {
				firstWrites = ws
			}
			wl := "-"
			if len(ws) > 0 {
				wl = strings.Join(ws, ",")
			}
			tag := newTag()
			c2, _ := applyWrites(base, wl)
			cont[tag] = c2
			if c+1 < ncand && src == prevState && !twoState && r.Chance(1, 6) {
				// two candidates whose batches overlap (both opened before either commits)
				tagA, tagB := newTag(), newTag()
				var ws2 []string
				for j := 1 + r.Intn(3); j > 0; j-- {
					ws2 = append(ws2, keys[r.Intn(len(keys))]+"="+vals[r.Intn(len(vals))])
				}
				wlA := "-"
				if len(ws) > 0 {
					wlA = strings.Join(ws, ",")
				}
				wlB := strings.Join(ws2, ",")
				cA, _ := applyWrites(base, wlA)
				cB, _ := applyWrites(base, wlB)
				cont[tagA], cont[tagB] = cA, cB
				ops = append(ops, fmt.Sprintf("commit2 %s %s 0 %d %s %s %s", tagA, tagB, v, src, wlA, wlB))
				cands = append(cands, tagA, tagB)
				res.Count("gen:overlapping-candidate-batches")
				c++
				continue
			}
			liveFlag := ""
			if liveTrees && (r.Chance(2, 3) || (liveCand == "" && src == prevState)) {
				// committed by the long-lived tree that holds `src` (if any) and kept for later versions
				liveFlag = " live"
				res.Count("gen:long-lived-tree-commit")
			}
			if liveFlag != "" && liveCand == "" && src == prevState {
				liveCand = tag // this candidate is committed by the tree that has held the finalized line so far
			}
			ops = append(ops, fmt.Sprintf("commit %s 0 %d %s %s%s", tag, v, src, wl, liveFlag))
			cands = append(cands, tag)
		}
		// --- candidates of the io type (always from nothing; may share keys with the state tree)
		nio := r.Intn(3)
		var ios []string
		for c := 0; c < nio; c++ {
			src := "-"
			if len(ios) > 0 && r.Chance(1, 6) {
				src = ios[len(ios)-1] // empty -> i -> io chain inside one version
				res.Count("gen:io-chain")
			}
			base := contents{}
			if src != "-" {
				base = cont[src]
			}
			var ws []string
			nw := 1 + r.Intn(3)
			if r.Chance(1, 8) {
				nw = 0 // empty io root
				res.Count("gen:empty-io-root")
			}
			for j := nw; j > 0; j-- {
				ws = append(ws, keys[r.Intn(len(keys))]+"="+vals[r.Intn(len(vals))])
			}
			wl := "-"
			if len(ws) > 0 {
				wl = strings.Join(ws, ",")
			}
			tag := newTag()
			c2, _ := applyWrites(base, wl)
			cont[tag] = c2
			ops = append(ops, fmt.Sprintf("commit %s 1 %d %s %s", tag, v, src, wl))
			ios = append(ios, tag)
		}
		// --- occasionally an operation that must be refused
		if r.Chance(1, 8) {
			switch r.Intn(5) {
			case 0:
				ops = append(ops, fmt.Sprintf("prune %d", v)) // not finalized
			case 1:
				ops = append(ops, fmt.Sprintf("finalize %d %s", v+2, cands[0])) // wrong version -> skipped or not_finalized
			case 2:
				if prevState != "-" {
					ops = append(ops, fmt.Sprintf("commit %s 0 %d %s z=9", newTag(), v-1, prevState)) // into finalized version
				}
			case 3:
				ops = append(ops, fmt.Sprintf("finalize %d -", v))
			case 4:
				if earliest >= 0 && earliest+1 < v {
					ops = append(ops, fmt.Sprintf("prune %d", earliest+1)) // not earliest
				}
			}
			res.Count("gen:refused-op")
		}
		// --- finalize
		pick := cands[r.Intn(len(cands))]
		if liveCand != "" && r.Chance(3, 4) {
			pick = liveCand // the long-lived tree's line is the one that gets finalized, version after version
			res.Count("gen:finalize-long-lived-line")
		}
		fl := []string{pick}
		if twoState && len(cands) > 1 && r.Chance(2, 3) {
			other := cands[r.Intn(len(cands))]
			if other != pick {
				fl = append(fl, other)
				res.Count("gen:two-state-roots")
			}
		}
		if len(ios) > 0 && r.Chance(4, 5) {
			fl = append(fl, ios[r.Intn(len(ios))])
		} else if r.Chance(1, 4) {
			fl = append(fl, "E1")
		}
		ops = append(ops, fmt.Sprintf("finalize %d %s", v, strings.Join(fl, ",")))
		if earliest < 0 {
			earliest = v
		}
		prevState = pick
		// --- use of a discarded candidate afterwards
		if len(cands) > 1 && r.Chance(1, 10) {
			for _, c := range cands {
				if c != pick {
					ops = append(ops, fmt.Sprintf("commit %s 0 %d %s y=1", newTag(), v+1, c))
					res.Count("gen:commit-from-discarded")
					break
				}
			}
		}
		// --- pruning lagging by `lag`
		for earliest+lag <= v && earliest < v {
			if r.Chance(1, 12) {
				break
			}
			ops = append(ops, fmt.Sprintf("prune %d", earliest))
			earliest++
		}
		if r.Chance(1, 15) {
			ops = append(ops, fmt.Sprintf("prune %d", v)) // latest
		}
		if r.Chance(1, 10) {
			ops = append(ops, "reopen")
		}
		if compacting {
			// most versions reach the tables (reopen flushes the memtable); the storage engine is
			// compacted, on the open database, every few versions
			if r.Chance(1, 3) {
				// compaction right after this version's Finalize/Prune, on the open database
				ops = append(ops, "compact")
				res.Count("gen:compact")
			}
			ops = append(ops, "reopen")
		}
		v++
	}
	return ops
}

// ---------------------------------------------------------------- main

func main() {
	seed := flag.Uint64("seed", 1, "seed")
	cases := flag.Int("cases", 100, "number of generated cases")
	nver := flag.Int("versions", 8, "max versions per case")
	out := flag.String("out", "-", "result file")
	replay := flag.String("replay", "", "replay file (one op per line)")
	corpus := flag.String("corpus", "", "corpus dir, run first")
	nomodel := flag.Bool("no-badger-model", false, "skip the badger bookkeeping model")
	prunerCases := flag.Int("pruner-cases", 200, "scripted histories for the real abci state pruner")
	flag.Parse()
	if *nomodel {
		badgerModelEnabled = false
	}

	res := hlib.NewResult("dbdrv", *seed)
	res.Rule = "version histories on real badger and pathbadger databases: per version 1-3 state candidates derived from the previous finalized root (8% fresh trees, 8% same-version chains, unchanged roots, emptied roots, removal, re-insertion of previously removed key/values, remove+re-create inside one commit), 0-2 io roots from nothing (chains, keys shared with the state tree), arbitrary finalized choice (10% of cases two state roots), refused operations, pruning lagging 1-4 versions, reopen; after EVERY op all observers + full read-back of every claimed root; a case is non-trivial when it finalized >= 2 versions and pruned >= 1; distinct by op list"
	runOne := func(ops []string, caseSeed uint64, minimize bool, count bool) {
		vs := check(ops, res, count)
		res.Cases++
		res.Ops += len(ops)
		seen := map[string]bool{}
		for _, v := range vs {
			if seen[v.sig] {
				continue
			}
			seen[v.sig] = true
			min := ops
			detail := v.detail
			if minimize {
				min = hlib.Shrink(ops, func(c []string) bool {
					for _, x := range check(c, nil, false) {
						if x.sig == v.sig {
							return true
						}
					}
					return false
				})
				for _, x := range check(min, nil, false) {
					if x.sig == v.sig {
						detail = x.detail
					}
				}
			}
			res.Fail(hlib.Failure{Kind: v.kind, Detail: detail, Case: min, Seed: caseSeed, Sig: v.sig})
		}
	}

	if *replay != "" {
		ops, err := hlib.ReadLines(*replay)
		if err != nil {
			fmt.Fprintln(os.Stderr, err)
			os.Exit(2)
		}
		runOne(ops, 0, os.Getenv("VERIF_SHRINK_REPLAY") != "", true)
		res.CountN("live-tree:stale-positions:commit-repeated-through-a-fresh-tree", liveStaleTotal); res.CountN("live-tree:not-kept-after-commit-of-an-existing-root", liveDroppedExisting); res.Write(*out)
		return
	}
	if *corpus != "" {
		ents, _ := os.ReadDir(*corpus)
		for _, e := range ents {
			if !strings.HasPrefix(e.Name(), "dbdrv-") {
				continue
			}
			if ops, err := hlib.ReadLines(*corpus + "/" + e.Name()); err == nil && len(ops) > 0 {
				runOne(ops, 0, false, false)
				res.Count("corpus")
			}
		}
	}
	for _, v := range selfTestMasking() {
		res.Fail(hlib.Failure{Kind: v.kind, Detail: v.detail, Case: []string{"selftest"}, Sig: v.sig})
	}
	res.Count("selftest:masking")
	if *replay == "" {
		prunerPhase(hlib.NewRng(*seed+77), *prunerCases, res)
	}
	rng := hlib.NewRng(*seed)
	seen := map[string]bool{}
	sigs := map[string]int{}
	for i := 0; i < *cases; i++ {
		cr := rng.Fork()
		cs := cr.Seed()
		ops := genCase(cr, 2+cr.Intn(*nver), res)
		nfin, npr := 0, 0
		for _, o := range ops {
			if strings.HasPrefix(o, "finalize") {
				nfin++
			}
			if strings.HasPrefix(o, "prune") {
				npr++
			}
		}
		key := strings.Join(ops, ";")
		if nfin >= 2 && npr >= 1 && !seen[key] {
			seen[key] = true
			res.Distinct++
		}
		if i < 2 {
			res.AddSample(ops)
		}
		before := len(res.Failures)
		// minimise only the first failure of each signature
		vs := check(ops, res, true)
		res.Cases++
		res.Ops += len(ops)
		for _, v := range vs {
			sigs[v.sig]++
			res.Count("fail:" + v.sig)
			if sigs[v.sig] > 1 {
				continue
			}
			min := hlib.Shrink(ops, func(c []string) bool { return checkFor(c, v.sig) })
			detail := v.detail
			for _, x := range check(min, nil, false) {
				if x.sig == v.sig {
					detail = x.detail
				}
			}
			res.Fail(hlib.Failure{Kind: v.kind, Detail: detail, Case: min, Seed: cs, Sig: v.sig})
		}
		_ = before
		_ = runOne
	}
	res.CountN("live-tree:stale-positions:commit-repeated-through-a-fresh-tree", liveStaleTotal); res.CountN("live-tree:not-kept-after-commit-of-an-existing-root", liveDroppedExisting); res.Write(*out)
}
