// codecxdrv: EXPLORATION (not proof) of the untrusted decode boundaries of property C16 that
// are implemented by third-party or reflection-driven code (fxamacker/cbor, encoding/json,
// x509/PEM, snappy): consensus transactions, executor commitments and proposals, node /
// entity / runtime descriptors, attestation quotes and collateral, Merkle proofs and write
// logs on the wire, checkpoint chunks, runtime-host protocol frames.
//
// Valid encodings (built in-process with the real types, read from the repository's testdata,
// or harvested from base64 literals in its test files) are mutated by the generator shared
// with codecdrv and fed to the real entry points together with the processing step the node
// performs next. A Go panic, a fatal runtime error (stack overflow, out of memory: the cases
// run in a supervised child process), a per-input timeout or an allocation blow-up is
// reported as a violation with the exact bytes. Nothing here is a proof: it is a search for
// a failing input.
package main

import (
	"bytes"
	"encoding/hex"
	"flag"
	"fmt"
	"hash/fnv"
	"os"
	"os/exec"
	"sort"
	"strings"
	"time"

	"verifharness/codeclib"
	"verifharness/hlib"

	"github.com/oasisprotocol/oasis-core/go/common/cbor"
)

const (
	slowLimit  = 3 * time.Second
	hangLimit  = 30 * time.Second
	heapLimit  = 3 << 30
	allocBase  = 48 << 20 // bytes one input may allocate regardless of its size ...
	allocPerIn = 2048     // ... plus this many bytes per input byte
)

// fnv64 hashes a case line (the distinct-case set keeps hashes, not the lines).
func fnv64(s string) uint64 {
	h := fnv.New64a()
	_, _ = h.Write([]byte(s))
	return h.Sum64()
}

func hx(b []byte) string {
	if len(b) == 0 {
		return "-"
	}
	return hex.EncodeToString(b)
}

// payload decodes the second word of a case line: hex bytes, `-` for none, or `:`-prefixed
// ASCII text (structured case descriptions).
func payload(s string) []byte {
	if strings.HasPrefix(s, ":") {
		return []byte(s[1:])
	}
	return unhx(s)
}

func (t *target) render(data []byte) string {
	if t.text {
		return ":" + string(data)
	}
	return hx(data)
}

func unhx(s string) []byte {
	if s == "-" {
		return nil
	}
	b, err := hex.DecodeString(s)
	if err != nil {
		panic("bad hex in case")
	}
	return b
}

type runner struct {
	targets map[string]*target
	order   []*target
	res     *hlib.Result
	wd      *codeclib.Watchdog
	current *os.File
	seen    map[uint64]bool
	maxA    map[string]uint64
}

func (rn *runner) publish(line string) {
	if rn.current != nil {
		_, _ = rn.current.WriteAt([]byte(line+"\n"), 0)
		_ = rn.current.Truncate(int64(len(line) + 1))
	}
	rn.wd.Begin(line)
}

// execCase runs one case line `<target> <hex>`; returns the failure (Sig != "") if any.
func (rn *runner) execCase(line string, record bool) (f hlib.Failure, class string) {
	w := strings.Fields(line)
	if len(w) != 2 {
		return hlib.Failure{Kind: "spec", Sig: "bad-case", Detail: "unparsable case line", Case: []string{line}}, ""
	}
	if w[0] == "probe" {
		return rn.probe(w[1])
	}
	t := rn.targets[w[0]]
	if t == nil {
		return hlib.Failure{Kind: "spec", Sig: "bad-case", Detail: "unknown target " + w[0], Case: []string{line}}, ""
	}
	inner := payload(w[1])
	data := inner
	if t.reframe != nil {
		data = t.reframe(inner)
	}
	rn.publish(line)
	defer rn.wd.End()
	rearm = func() { rn.wd.Begin(line) }
	var sf *specFailure
	measure := func(exact bool) codeclib.Guard {
		return codeclib.Run(exact, func() {
			specFail = nil
			class = t.run(data)
			sf = specFail
		})
	}
	g := measure(false)
	limit := uint64(allocBase + allocPerIn*len(data))
	for retry := 0; retry < 2 && g.Panic == "" && sf == nil && (g.Alloc > limit || g.Elapsed > slowLimit); retry++ {
		g = measure(true)
	}
	if record {
		if g.Alloc > rn.maxA[t.name] {
			rn.maxA[t.name] = g.Alloc
		}
	}
	where := fmt.Sprintf("boundary: %s; call path: %s; input (%d bytes, hex, before re-framing=%v): %s", t.boundary, t.path, len(inner), t.reframe != nil, hx(inner))
	if t.text {
		where = fmt.Sprintf("boundary: %s; call path: %s; case: %s", t.boundary, t.path, inner)
	}
	switch {
	case g.Panic != "":
		st := g.Stack
		if i := strings.Index(st, "panic("); i >= 0 {
			st = st[i:]
		}
		if len(st) > 1500 {
			st = st[:1500]
		}
		return hlib.Failure{Kind: "panic", Sig: "panic-" + t.name, Case: []string{line},
			Detail: fmt.Sprintf("Go panic: %s; %s; stack: %s", g.Panic, where, strings.ReplaceAll(st, "\n", " | "))}, "panic"
	case sf != nil:
		return hlib.Failure{Kind: "spec", Sig: sf.sig, Case: []string{line}, Detail: sf.detail + "; " + where}, class
	case g.Elapsed > slowLimit:
		return hlib.Failure{Kind: "spec", Sig: "slow-" + t.name, Case: []string{line},
			Detail: fmt.Sprintf("took %v; %s", g.Elapsed, where)}, class
	case g.Alloc > limit:
		return hlib.Failure{Kind: "spec", Sig: "alloc-" + t.name, Case: []string{line},
			Detail: fmt.Sprintf("allocated %d bytes for %d input bytes; %s", g.Alloc, len(data), where)}, class
	}
	return hlib.Failure{}, class
}

// probe checks at run time that the pinned strict CBOR options take effect.
func (rn *runner) probe(name string) (hlib.Failure, string) {
	line := "probe " + name
	rn.publish(line)
	defer rn.wd.End()
	fail := func(d string) (hlib.Failure, string) {
		return hlib.Failure{Kind: "spec", Sig: "probe-" + name, Detail: d, Case: []string{line}}, "failed"
	}
	nest := func(depth int) []byte {
		return append(bytes.Repeat([]byte{0x81}, depth), 0x00)
	}
	var bad string
	g := codeclib.Run(true, func() {
		var v any
		switch name {
		case "nesting":
			// The library default of 32 nested levels is in force (options leave MaxNestedLevels unset).
			if err := cbor.Unmarshal(nest(32), &v); err != nil {
				bad = "32 nested arrays rejected: " + err.Error()
			}
			for _, d := range []int{33, 64, 1000, 100000, 4000000} {
				if err := cbor.Unmarshal(nest(d), &v); err == nil {
					bad = fmt.Sprintf("%d nested arrays accepted", d)
				}
			}
		case "indefinite":
			for _, b := range [][]byte{{0x9f, 0x01, 0xff}, {0xbf, 0x01, 0x02, 0xff}, {0x5f, 0x41, 0x00, 0xff}, {0x7f, 0x61, 0x61, 0xff}} {
				if err := cbor.Unmarshal(b, &v); err == nil {
					bad = "indefinite-length item accepted: " + hx(b)
				}
			}
		case "tags":
			for _, b := range [][]byte{{0xc0, 0x60}, {0xc2, 0x41, 0x01}, {0xd8, 0x18, 0x41, 0x00}, {0xd9, 0xd9, 0xf7, 0x00}} {
				if err := cbor.Unmarshal(b, &v); err == nil {
					bad = "tagged item accepted: " + hx(b)
				}
			}
		case "dupkeys":
			var m map[string]int
			if err := cbor.Unmarshal([]byte{0xa2, 0x61, 0x61, 0x01, 0x61, 0x61, 0x02}, &m); err == nil {
				bad = "duplicate map key accepted (map)"
			}
			var s struct {
				A int `json:"a"`
			}
			if err := cbor.Unmarshal([]byte{0xa2, 0x61, 0x61, 0x01, 0x61, 0x61, 0x02}, &s); err == nil {
				bad = "duplicate map key accepted (struct)"
			}
			if err := cbor.Unmarshal([]byte{0xa2, 0x61, 0x61, 0x01, 0x61, 0x62, 0x02}, &s); err == nil {
				bad = "unknown field accepted (struct)"
			}
		case "huge":
			// Declared sizes far beyond the input must be rejected without allocating them.
			for _, b := range [][]byte{
				{0x9b, 0xff, 0xff, 0xff, 0xff, 0xff, 0xff, 0xff, 0xff},
				{0x9a, 0x00, 0x98, 0x96, 0x81}, // 10_000_001 elements
				{0xbb, 0x00, 0x00, 0x00, 0x00, 0x7f, 0xff, 0xff, 0xff},
				{0x5b, 0x00, 0x00, 0x00, 0x10, 0x00, 0x00, 0x00, 0x00},
				{0x7a, 0xff, 0xff, 0xff, 0xff},
				append([]byte{0x9a, 0x00, 0x98, 0x96, 0x80}, bytes.Repeat([]byte{0x00}, 1000)...), // 10^7 declared, 1000 present
			} {
				var bs []byte
				var arr []uint64
				if cbor.Unmarshal(b, &v) == nil || cbor.Unmarshal(b, &bs) == nil || cbor.Unmarshal(b, &arr) == nil {
					bad = "huge declared size accepted: " + hx(b[:9])
				}
			}
		}
	})
	switch {
	case g.Panic != "":
		return fail("panic: " + g.Panic)
	case bad != "":
		return fail(bad)
	case g.Alloc > 64<<20:
		return fail(fmt.Sprintf("probe allocated %d bytes", g.Alloc))
	case g.Elapsed > slowLimit:
		return fail(fmt.Sprintf("probe took %v", g.Elapsed))
	}
	return hlib.Failure{}, "ok"
}

func (rn *runner) shrink(f hlib.Failure) hlib.Failure {
	w := strings.Fields(f.Case[0])
	if len(w) != 2 || w[0] == "probe" || w[1] == "-" || strings.HasPrefix(w[1], ":") {
		return f
	}
	if t := rn.targets[w[0]]; t == nil || t.live {
		return f
	}
	// Budgeted delta debugging: at most 2000 evaluations / 5 s.
	evals, t0 := 0, time.Now()
	still := func(c []byte) bool {
		evals++
		if evals > 2000 || time.Since(t0) > 5*time.Second {
			return false
		}
		g, _ := rn.execCase(w[0]+" "+hx(c), false)
		return g.Sig == f.Sig
	}
	min := hlib.Shrink(unhx(w[1]), still)
	if g, _ := rn.execCase(w[0]+" "+hx(min), false); g.Sig == f.Sig {
		g.Seed = f.Seed
		return g
	}
	return f
}

func child(seed uint64, cases, wordBudget int, out, replay, corpus, currentPath string) {
	res := hlib.NewResult("codecxdrv", seed)
	res.Rule = "EXPLORATION. One case = one byte string fed to one boundary entry point (target) together with the node's next processing step; inputs are valid encodings (built in-process, repository testdata, base64 literals harvested from the repository's tests) with 1-3 stacked mutations (generic: bit flips, interesting bytes, 16/32/64-bit length windows, truncation, extension, deletion, insertion, duplication, splice; CBOR-aware: declared count/length changes incl. huge, indefinite lengths, tags, nesting 1..5000, duplicated map pairs, major-type swaps), a few unmutated seeds and random strings; for *-resigned, chunk, rhp-body and quote-in-bundle targets the mutant is re-signed / re-compressed / re-framed so that it gets past the integrity check; DETERMINISTIC SWEEPS on every run: every length/type field of the PCS quote format at every nesting level (and every frame length prefix of the host-protocol streams) set to each boundary value (0, 1, 2, around the remaining and the total length, 2^7, 2^8, 2^15, 2^16, 2^31-k, 2^32-k for k = 1..16 and every 16 up to 0x400, 2^32-1-remaining), with resized and truncated tails, plus (budget -words per target, rotating with the seed) every 2-byte-aligned 16/32-bit word in both byte orders set to 0 / 2^15 / 2^31 / 2^32-1024 / 2^32-16 / max; LIVE targets: rhp-live-host / rhp-live-guest feed the stream to a real protocol.Connection over net.Pipe (oracle: follow-up request answered, one response per request, Close() and the outstanding call return within 20 s, no goroutine of the package left; a failing attempt is repeated once on a fresh connection), mux-tx / mux-raw / mux-resigned feed CheckTx, re-CheckTx and DeliverTx of a real ABCI multiplexer with 8 applications (mux-tx: correctly signed transactions with boundary-valued signer / nonce / fee amount x gas / method / body kind, a deterministic core of all amount x gas pairs and all methods x body kinds plus random draws from the product; a canary transfer must still pass CheckTx after every case); non-trivial = the entry point decoded the bytes (outcome other than a decode/envelope rejection); distinct by (target, bytes)"
	res.Explanation = "EXPLORATION ONLY (search for a failing input; no theorem covers these decoders): panic / fatal error / timeout / allocation blow-up detection on third-party and reflection-driven decode boundaries, hang / goroutine-leak / lost-response detection on a live host-protocol connection, panic and canary detection on CheckTx/DeliverTx of a live multiplexer, plus run-time probes that the pinned strict CBOR options are in force. Counters per target: case:, accepts:, rejects:, outcome:, lenfield: (structure-aware boundary-length mutations applied), lenword: (generic word-level ones), sweep: (structured deterministic cases), structsweep: (every single key/value pair of every CBOR seed dropped, every single item replaced by null)"
	rn := &runner{targets: map[string]*target{}, res: res, seen: map[uint64]bool{}, maxA: map[string]uint64{}}
	if currentPath != "" {
		rn.current, _ = os.OpenFile(currentPath, os.O_CREATE|os.O_RDWR, 0o644)
	}
	rn.wd = codeclib.StartWatchdog(hangLimit, heapLimit, func(c, reason string) {
		t := strings.Fields(c)[0]
		if len(c) > 20000 {
			c = c[:20000]
		}
		res.Fail(hlib.Failure{Kind: "spec", Sig: map[string]string{"timeout": "hang-", "memory": "memory-"}[reason] + t,
			Detail: "watchdog: " + reason + " limit exceeded while processing the case", Case: []string{c}})
		res.Write(out)
	})
	for _, t := range buildTargets() {
		rn.targets[t.name] = t
		rn.order = append(rn.order, t)
		res.Counters["seeds:"+t.name] = len(t.seeds)
	}
	defer func() {
		for _, d := range cleanupDirs {
			_ = os.RemoveAll(d)
		}
	}()
	finish := func() {
		for k, v := range rn.maxA {
			res.Counters["max-alloc-bytes:"+k] = int(v)
		}
		res.Counters["live-retries"] = liveRetries
		for _, d := range cleanupDirs {
			_ = os.RemoveAll(d)
		}
		res.Write(out)
	}
	failedTargets := map[string]bool{}
	one := func(line string, cs uint64, minimize bool) {
		if w := strings.Fields(line); len(w) > 0 && failedTargets[w[0]] {
			res.Count("skipped-after-failure:" + w[0])
			return
		}
		f, class := rn.execCase(line, true)
		res.Cases++
		res.Ops++
		t := strings.Fields(line)[0]
		res.Count("case:" + t)
		res.Count("outcome:" + t + ":" + class)
		switch {
		case strings.HasPrefix(class, "rejected") || class == "refused" || class == "malformed" || class == "truncated":
			res.Count("rejects:" + t)
		case class != "panic" && class != "failed" && class != "":
			res.Count("accepts:" + t)
		}
		if !strings.HasPrefix(class, "rejected:decode") && !strings.HasPrefix(class, "rejected:envelope") && class != "rejected" && !rn.seen[fnv64(line)] {
			rn.seen[fnv64(line)] = true
			res.Distinct++
		}
		if f.Sig != "" {
			f.Seed = cs
			if failedTargets[t] {
				return // one report per target; the target is skipped from now on
			}
			failedTargets[t] = true
			if minimize && f.Kind == "panic" {
				f = rn.shrink(f)
			}
			res.Fail(f)
		}
	}
	if replay != "" {
		lines, err := hlib.ReadLines(replay)
		if err != nil {
			fmt.Fprintln(os.Stderr, err)
			os.Exit(2)
		}
		for _, l := range lines {
			one(l, 0, false)
		}
		finish()
		return
	}
	for _, p := range []string{"nesting", "indefinite", "tags", "dupkeys", "huge"} {
		one("probe "+p, 0, false)
	}
	if corpus != "" {
		ents, _ := os.ReadDir(corpus)
		for _, e := range ents {
			if !strings.HasPrefix(e.Name(), "codecx-") {
				continue
			}
			if lines, err := hlib.ReadLines(corpus + "/" + e.Name()); err == nil {
				for _, l := range lines {
					one(l, 0, false)
				}
				res.Count("corpus")
			}
		}
	}
	// Every seed as it is (live targets three times: their oracles depend on goroutine interleavings).
	for _, t := range rn.order {
		if t.gen != nil {
			continue
		}
		reps := 1
		if t.live {
			reps = 2
		}
		for _, sd := range t.seeds {
			for r := 0; r < reps; r++ {
				if os.Getenv("VERIF_CX_ECHO") == t.name {
					fmt.Fprintln(os.Stderr, "SEED "+t.name+" "+t.render(sd))
				}
				one(t.name+" "+t.render(sd), 0, false)
				res.Count("seedpass:" + t.name)
			}
		}
	}
	// Deterministic sweeps (every run): structured boundary cases; every length / type field of
	// every seed at every nesting level set to every boundary value, resized and truncated tails;
	// and, within a budget, every 2-byte-aligned 16/32-bit word treated as a length field.
	for _, t := range rn.order {
		if t.sweep != nil {
			for _, d := range t.sweep() {
				one(t.name+" "+t.render(d), 0, false)
				res.Count("sweep:" + t.name)
			}
		}
		if t.cbor && !t.live && t.gen == nil {
			// every single missing field and every single null item of every seed
			for _, sd := range t.seeds {
				for _, m := range codeclib.StructSweep(sd, 1200) {
					one(t.name+" "+t.render(m.Data), 0, true)
					res.Count("structsweep:" + t.name)
					res.Count("structsweep-kind:" + m.What)
				}
			}
		}
		if t.fields != nil {
			for _, sd := range t.seeds {
				for _, m := range codeclib.FieldSweep(sd, t.fields(sd)) {
					one(t.name+" "+t.render(m.Data), 0, !t.live)
					res.Count("lenfield:" + t.name)
					res.Count("lenfield-field:" + m.What)
				}
			}
		}
		if t.words && wordBudget > 0 {
			for si, sd := range t.seeds {
				for _, m := range codeclib.WordSweep(sd, int(seed%1_000_003)*7919+si*131, wordBudget/len(t.seeds)) {
					one(t.name+" "+t.render(m.Data), 0, !t.live)
					res.Count("lenword:" + t.name)
				}
			}
		}
	}
	rng := hlib.NewRng(seed)
	for i := 0; i < cases && len(res.Failures) < 5; i++ {
		cr := rng.Fork()
		cs := cr.Seed()
		t := rn.order[cr.Intn(len(rn.order))]
		if failedTargets[t.name] {
			res.Count("skipped-after-failure:" + t.name)
			continue
		}
		seedBytes := t.seeds[cr.Intn(len(t.seeds))]
		data := seedBytes
		switch k := cr.Intn(100); {
		case t.gen != nil:
			var mk string
			data, mk = t.gen(cr)
			res.Count("gen:structured")
			res.Count("mut:" + mk)
		case k < 3:
			res.Count("gen:valid-seed")
		case k < 6:
			data = codeclib.RandBytes(cr, cr.Intn(200))
			res.Count("gen:random")
		default:
			n := 1
			if cr.Chance(1, 5) {
				n = 2 + cr.Intn(2)
			}
			for j := 0; j < n; j++ {
				var mk string
				if t.fields != nil && cr.Chance(1, 3) {
					// structure-aware: one of the format's own length / type fields to a boundary value
					data, mk = codeclib.MutateField(cr, data, t.fields(data))
					res.Count("lenfield:" + t.name)
					mk = "lenfield"
				} else {
					data, mk = codeclib.Mutate(cr, data, t.seeds[cr.Intn(len(t.seeds))], t.cbor || cr.Chance(1, 4))
					if mk == "lenword" {
						res.Count("lenword:" + t.name)
					}
				}
				res.Count("mut:" + mk)
			}
			res.Count("gen:mutant")
		}
		if len(data) > 1<<20 {
			data = data[:1<<20]
		}
		line := t.name + " " + t.render(data)
		if i < 2 {
			res.AddSample(map[string]string{"target": t.name, "boundary": t.boundary, "bytes": fmt.Sprintf("%.120s", hx(data))})
		}
		one(line, cs, true)
	}
	finish()
}

func main() {
	seed := flag.Uint64("seed", 1, "seed")
	cases := flag.Int("cases", 2000, "number of generated cases")
	out := flag.String("out", "-", "result file")
	replay := flag.String("replay", "", "replay file (one case per line)")
	corpus := flag.String("corpus", "", "corpus dir, run first")
	words := flag.Int("words", 6000, "budget (cases per target) of the generic 16/32-bit word sweep over binary encodings")
	isChild := flag.Bool("child", false, "internal: run the cases (the parent supervises)")
	selftest := flag.Bool("selftest", false, "run every seed unmutated and print the outcome")
	current := flag.String("current", "", "internal: file receiving the case in progress")
	flag.Parse()

	if *selftest {
		for _, t := range buildTargets() {
			for i, sd := range t.seeds {
				data := sd
				if t.reframe != nil {
					data = t.reframe(sd)
				}
				lastErr, specFail = nil, nil
				fmt.Printf("%-16s seed %d (%d bytes): %s  %v %v\n", t.name, i, len(sd), t.run(data), lastErr, specFail)
			}
		}
		for _, d := range cleanupDirs {
			_ = os.RemoveAll(d)
		}
		return
	}
	if *isChild {
		child(*seed, *cases, *words, *out, *replay, *corpus, *current)
		return
	}
	// Supervisor: run the cases in a child so that fatal runtime errors (stack overflow, out of
	// memory, concurrent map access) are attributed to the input that caused them.
	scratch := os.Getenv("VERIF_SCRATCH")
	if scratch == "" {
		scratch = os.TempDir()
	}
	cur, err := os.CreateTemp(scratch, "codecx-current-")
	if err != nil {
		fmt.Fprintln(os.Stderr, err)
		os.Exit(2)
	}
	cur.Close()
	defer os.Remove(cur.Name())
	tmpOut := cur.Name() + ".json"
	defer os.Remove(tmpOut)
	args := []string{"-child", "-seed", fmt.Sprint(*seed), "-cases", fmt.Sprint(*cases), "-words", fmt.Sprint(*words), "-out", tmpOut, "-current", cur.Name()}
	if *replay != "" {
		args = append(args, "-replay", *replay)
	}
	if *corpus != "" {
		args = append(args, "-corpus", *corpus)
	}
	cmd := exec.Command(os.Args[0], args...)
	var stderr bytes.Buffer
	cmd.Stdout = os.Stderr
	cmd.Stderr = &stderr
	cmd.Env = append(os.Environ(), "GOTRACEBACK=single")
	runErr := cmd.Run()
	if b, err := os.ReadFile(tmpOut); err == nil && len(b) > 0 {
		if *out == "-" || *out == "" {
			fmt.Println(string(b))
		} else if err = os.WriteFile(*out, b, 0o644); err != nil {
			fmt.Fprintln(os.Stderr, err)
			os.Exit(2)
		}
		return
	}
	// The child died without a result: fatal runtime error.
	res := hlib.NewResult("codecxdrv", *seed)
	res.Explanation = "EXPLORATION ONLY; the worker process died with a fatal runtime error"
	last, _ := os.ReadFile(cur.Name())
	c := strings.TrimSpace(string(last))
	t := "unknown"
	if w := strings.Fields(c); len(w) > 0 {
		t = w[0]
	}
	tail := stderr.String()
	var first []string
	for _, l := range strings.Split(tail, "\n") {
		if strings.HasPrefix(l, "fatal error") || strings.HasPrefix(l, "runtime:") || strings.HasPrefix(l, "panic") {
			first = append(first, l)
		}
	}
	sort.Strings(first)
	if len(tail) > 1500 {
		tail = tail[:1500]
	}
	res.Fail(hlib.Failure{Kind: "panic", Sig: "fatal-" + t, Case: []string{c},
		Detail: fmt.Sprintf("worker died (%v): %s :: %s", runErr, strings.Join(first, "; "), strings.ReplaceAll(tail, "\n", " | "))})
	res.Write(*out)
}
