package main

import (
	"bytes"
	"context"
	"crypto/x509"
	"encoding/base64"
	"encoding/hex"
	"encoding/json"
	"encoding/pem"
	"fmt"
	"io"
	"math/big"
	"net"
	"net/url"
	"os"
	"path/filepath"
	"reflect"
	"regexp"
	"strings"
	"time"

	"github.com/golang/snappy"

	"verifharness/codeclib"
	"verifharness/hlib"

	"github.com/oasisprotocol/oasis-core/go/common"
	"github.com/oasisprotocol/oasis-core/go/common/cbor"
	"github.com/oasisprotocol/oasis-core/go/common/crypto/hash"
	"github.com/oasisprotocol/oasis-core/go/common/crypto/signature"
	memorySigner "github.com/oasisprotocol/oasis-core/go/common/crypto/signature/signers/memory"
	"github.com/oasisprotocol/oasis-core/go/common/entity"
	"github.com/oasisprotocol/oasis-core/go/common/logging"
	"github.com/oasisprotocol/oasis-core/go/common/node"
	"github.com/oasisprotocol/oasis-core/go/common/quantity"
	"github.com/oasisprotocol/oasis-core/go/common/sgx/ias"
	"github.com/oasisprotocol/oasis-core/go/common/sgx/pcs"
	"github.com/oasisprotocol/oasis-core/go/common/version"
	"github.com/oasisprotocol/oasis-core/go/consensus/api/transaction"
	governance "github.com/oasisprotocol/oasis-core/go/governance/api"
	registry "github.com/oasisprotocol/oasis-core/go/registry/api"
	roothash "github.com/oasisprotocol/oasis-core/go/roothash/api"
	"github.com/oasisprotocol/oasis-core/go/roothash/api/commitment"
	"github.com/oasisprotocol/oasis-core/go/runtime/host"
	"github.com/oasisprotocol/oasis-core/go/runtime/host/protocol"
	"github.com/oasisprotocol/oasis-core/go/runtime/txpool"
	staking "github.com/oasisprotocol/oasis-core/go/staking/api"
	"github.com/oasisprotocol/oasis-core/go/storage/mkvs"
	"github.com/oasisprotocol/oasis-core/go/storage/mkvs/checkpoint"
	dbApi "github.com/oasisprotocol/oasis-core/go/storage/mkvs/db/api"
	"github.com/oasisprotocol/oasis-core/go/storage/mkvs/db/badger"
	mkvsNode "github.com/oasisprotocol/oasis-core/go/storage/mkvs/node"
	"github.com/oasisprotocol/oasis-core/go/storage/mkvs/syncer"
	"github.com/oasisprotocol/oasis-core/go/storage/mkvs/writelog"
)

// target is one untrusted decode boundary: seeds (valid encodings) and the function that
// feeds bytes to the real entry point and whatever the node does next with the decoded value.
// run returns a short outcome class ("rejected", "decoded", "verified", ...).
type target struct {
	name     string
	boundary string // the boundary of the property text this target stands for
	path     string // call path, for reports
	cbor     bool   // use the CBOR-aware mutation operators
	seeds    [][]byte
	run      func(data []byte) string
	// reframe, when set, turns mutated inner bytes into the bytes handed to run
	// (re-signing, re-compressing), so that mutations reach the code behind an integrity check.
	reframe func(inner []byte) []byte
	// fields, when set, locates the length / type fields of a (seed) encoding at every nesting
	// level: they are swept over the boundary values deterministically (every run) and used by the
	// random "lenfield" operator.
	fields func(b []byte) []codeclib.LenField
	// words: also sweep every 2-byte-aligned 16/32-bit word as a potential length field (budgeted).
	words bool
	// text: the case payload is ASCII text (a structured case description, `:`-prefixed on the
	// case line) produced by gen / sweep instead of mutated bytes.
	text  bool
	gen   func(r *hlib.Rng) ([]byte, string)
	sweep func() [][]byte
	// live targets run goroutines of the code under test; failures are not byte-shrunk.
	live bool
}

var (
	ctxBg   = context.Background()
	logger  = logging.NewNopLogger()
	repoDir = func() string {
		if d := os.Getenv("VERIF_REPO"); d != "" {
			return d
		}
		return "/repo"
	}()
)

func mustRead(rel string) []byte {
	b, err := os.ReadFile(filepath.Join(repoDir, "go", rel))
	if err != nil {
		panic(fmt.Sprintf("seed file %s: %v", rel, err))
	}
	return b
}

var b64Re = regexp.MustCompile(`"([A-Za-z0-9+/]{40,}={0,2})"`)

// harvest collects base64 string literals from a Go test file that decode into a value of
// the given type with the strict decoder: valid encodings found in the repository.
func harvest(rel string, proto any) [][]byte {
	src, err := os.ReadFile(filepath.Join(repoDir, "go", rel))
	if err != nil {
		return nil
	}
	var out [][]byte
	seen := map[string]bool{}
	for _, m := range b64Re.FindAllSubmatch(src, -1) {
		raw, err := base64.StdEncoding.DecodeString(string(m[1]))
		if err != nil || seen[string(raw)] {
			continue
		}
		v := reflect.New(reflect.TypeOf(proto)).Interface()
		if cbor.Unmarshal(raw, v) == nil {
			seen[string(raw)] = true
			out = append(out, raw)
		}
	}
	return out
}

func ns(b byte) common.Namespace {
	return common.NewTestNamespaceFromSeed([]byte{'v', 'e', 'r', 'i', 'f', b}, 0)
}

func addr(ip string, port int64) node.Address {
	var a node.Address
	if err := a.FromIP(net.ParseIP(ip), uint16(port)); err != nil {
		panic(err)
	}
	return a
}

// world holds the signers and descriptors the seeds are built from.
type world struct {
	entSigner, nodeSigner, p2pSigner, consSigner, vrfSigner, tlsSigner signature.Signer
	ent                                                                *entity.Entity
	rtID                                                               common.Namespace
	rt                                                                 *registry.Runtime
	nodeSigners                                                        []signature.Signer
}

func newWorld() *world {
	w := &world{
		entSigner:  memorySigner.NewTestSigner("verif c16 entity"),
		nodeSigner: memorySigner.NewTestSigner("verif c16 node"),
		p2pSigner:  memorySigner.NewTestSigner("verif c16 p2p"),
		consSigner: memorySigner.NewTestSigner("verif c16 consensus"),
		vrfSigner:  memorySigner.NewTestSigner("verif c16 vrf"),
		tlsSigner:  memorySigner.NewTestSigner("verif c16 tls"),
		rtID:       ns(0x11),
	}
	w.nodeSigners = []signature.Signer{w.nodeSigner, w.p2pSigner, w.consSigner, w.vrfSigner, w.tlsSigner}
	w.ent = &entity.Entity{
		Versioned: cbor.NewVersioned(entity.LatestDescriptorVersion),
		ID:        w.entSigner.Public(),
		Nodes:     []signature.PublicKey{w.nodeSigner.Public()},
	}
	var h hash.Hash
	h.Empty()
	w.rt = &registry.Runtime{
		Versioned: cbor.NewVersioned(registry.LatestRuntimeDescriptorVersion),
		ID:        w.rtID,
		EntityID:  w.entSigner.Public(),
		Genesis:   registry.RuntimeGenesis{Round: 0, StateRoot: h},
		Kind:      registry.KindCompute,
		Deployments: []*registry.VersionInfo{
			{Version: version.Version{Major: 1, Minor: 2, Patch: 3}, ValidFrom: 0, BundleChecksum: bytes.Repeat([]byte{1}, 32)},
		},
		Executor: registry.ExecutorParameters{
			GroupSize: 2, GroupBackupSize: 1, AllowedStragglers: 0, RoundTimeout: 20, MaxMessages: 32,
		},
		TxnScheduler: registry.TxnSchedulerParameters{
			BatchFlushTimeout: time.Second, MaxBatchSize: 100, MaxBatchSizeBytes: 1 << 20, MaxInMessages: 32, ProposerTimeout: 2 * time.Second,
		},
		Storage: registry.StorageParameters{CheckpointInterval: 10, CheckpointNumKept: 2, CheckpointChunkSize: 1 << 20},
		AdmissionPolicy: registry.RuntimeAdmissionPolicy{
			EntityWhitelist: &registry.EntityWhitelistRuntimeAdmissionPolicy{
				Entities: map[signature.PublicKey]registry.EntityWhitelistConfig{
					w.entSigner.Public(): {MaxNodes: map[node.RolesMask]uint16{node.RoleComputeWorker: 3}},
				},
			},
		},
		GovernanceModel: registry.GovernanceEntity,
		Staking: registry.RuntimeStakingParameters{
			MinInMessageFee: *quantity.NewFromUint64(1),
		},
	}
	return w
}

func (w *world) nodeDesc(roles node.RolesMask, withRuntime bool) *node.Node {
	n := &node.Node{
		Versioned:  cbor.NewVersioned(node.LatestNodeDescriptorVersion),
		ID:         w.nodeSigner.Public(),
		EntityID:   w.entSigner.Public(),
		Expiration: 7,
		TLS:        node.TLSInfo{PubKey: w.tlsSigner.Public()},
		P2P:        node.P2PInfo{ID: w.p2pSigner.Public(), Addresses: []node.Address{addr("8.8.8.8", 9000)}},
		Consensus: node.ConsensusInfo{
			ID:        w.consSigner.Public(),
			Addresses: []node.ConsensusAddress{{ID: w.consSigner.Public(), Address: addr("8.8.4.4", 26656)}},
		},
		VRF:   node.VRFInfo{ID: w.vrfSigner.Public()},
		Roles: roles,
	}
	if withRuntime {
		n.Runtimes = []*node.Runtime{{ID: w.rtID, Version: version.Version{Major: 1, Minor: 2, Patch: 3}, ExtraInfo: []byte("extra")}}
	}
	return n
}

// rtLookup / nodeLookup are the registry state stand-ins for VerifyRegisterNodeArgs.
type rtLookup struct{ w *world }

func (l rtLookup) Runtime(_ context.Context, id common.Namespace) (*registry.Runtime, error) {
	if id.Equal(&l.w.rtID) {
		return l.w.rt, nil
	}
	return nil, registry.ErrNoSuchRuntime
}

func (l rtLookup) SuspendedRuntime(context.Context, common.Namespace) (*registry.Runtime, error) {
	return nil, registry.ErrNoSuchRuntime
}

func (l rtLookup) AnyRuntime(ctx context.Context, id common.Namespace) (*registry.Runtime, error) {
	return l.Runtime(ctx, id)
}

func (l rtLookup) AllRuntimes(context.Context) ([]*registry.Runtime, error) {
	return []*registry.Runtime{l.w.rt}, nil
}

func (l rtLookup) Runtimes(context.Context) ([]*registry.Runtime, error) {
	return []*registry.Runtime{l.w.rt}, nil
}

type nodeLookup struct{}

func (nodeLookup) NodeBySubKey(context.Context, signature.PublicKey) (*node.Node, error) {
	return nil, registry.ErrNoSuchNode
}
func (nodeLookup) Nodes(context.Context) ([]*node.Node, error) { return nil, nil }
func (nodeLookup) GetEntityNodes(context.Context, signature.PublicKey) ([]*node.Node, error) {
	return nil, nil
}

func multiSign(signers []signature.Signer, sigCtx signature.Context, blob []byte) []byte {
	ms := signature.MultiSigned{Blob: blob}
	for _, s := range signers {
		sig, err := signature.Sign(s, sigCtx, blob)
		if err != nil {
			panic(err)
		}
		ms.Signatures = append(ms.Signatures, *sig)
	}
	return cbor.Marshal(ms)
}

func singleSign(s signature.Signer, sigCtx signature.Context, blob []byte) []byte {
	sig, err := signature.Sign(s, sigCtx, blob)
	if err != nil {
		panic(err)
	}
	return cbor.Marshal(signature.Signed{Blob: blob, Signature: *sig})
}

// remarshal re-encodes a decoded value the way the node does when it stores, hashes or forwards
// it (cbor.Marshal panics on failure).
func remarshal(v any) {
	_ = cbor.Marshal(v)
}

func buildTargets() []*target {
	// (The chain context is the live multiplexer's genesis document hash: set by newLiveMux below,
	// before anything is signed.)
	lmEarly := newLiveMux()
	// The repository's attestation test vectors come from debug enclaves (as in its own tests).
	// (IAS only, switched on per target; the PCS vectors are production enclaves.)
	w := newWorld()
	var ts []*target
	add := func(t *target) { ts = append(ts, t) }

	// ---------------------------------------------------------------- consensus transactions
	fee := &transaction.Fee{Amount: *quantity.NewFromUint64(10), Gas: 1000}
	var emptyRoot hash.Hash
	emptyRoot.Empty()
	ec := commitment.ExecutorCommitment{
		NodeID: w.nodeSigner.Public(),
		Header: commitment.ExecutorCommitmentHeader{
			SchedulerID: w.nodeSigner.Public(),
			Header: commitment.ComputeResultsHeader{
				Round: 42, PreviousHash: emptyRoot, IORoot: &emptyRoot, StateRoot: &emptyRoot,
				MessagesHash: &emptyRoot, InMessagesHash: &emptyRoot, InMessagesCount: 1,
			},
			RAKSignature: &signature.RawSignature{},
		},
	}
	if err := ec.Sign(w.nodeSigner, w.rtID); err != nil {
		panic(err)
	}
	var otherRoot hash.Hash
	otherRoot.FromBytes([]byte("verif: another io root"))
	ecB := commitment.ExecutorCommitment{
		NodeID: w.nodeSigner.Public(),
		Header: commitment.ExecutorCommitmentHeader{
			SchedulerID: w.nodeSigner.Public(),
			Header: commitment.ComputeResultsHeader{
				Round: 42, PreviousHash: emptyRoot, IORoot: &otherRoot, StateRoot: &emptyRoot,
				MessagesHash: &emptyRoot, InMessagesHash: &emptyRoot, InMessagesCount: 1,
			},
			RAKSignature: &signature.RawSignature{},
		},
	}
	if err := ecB.Sign(w.nodeSigner, w.rtID); err != nil {
		panic(err)
	}
	ecFail := commitment.ExecutorCommitment{NodeID: w.nodeSigner.Public(), Header: commitment.ExecutorCommitmentHeader{
		SchedulerID: w.nodeSigner.Public(), Header: commitment.ComputeResultsHeader{Round: 43, PreviousHash: emptyRoot}}}
	ecFail.Header.SetFailure(commitment.FailureUnknown)
	_ = ecFail.Sign(w.nodeSigner, w.rtID)

	sigEnt, err := entity.SignEntity(w.entSigner, registry.RegisterEntitySignatureContext, w.ent)
	if err != nil {
		panic(err)
	}
	validatorNode := w.nodeDesc(node.RoleValidator, false)
	computeNode := w.nodeDesc(node.RoleComputeWorker, true)
	sigNode, err := node.MultiSignNode(w.nodeSigners, registry.RegisterNodeSignatureContext, validatorNode)
	if err != nil {
		panic(err)
	}
	var dst staking.Address = staking.NewAddress(w.nodeSigner.Public())
	txs := []*transaction.Transaction{
		staking.NewTransferTx(1, fee, &staking.Transfer{To: dst, Amount: *quantity.NewFromUint64(1000)}),
		staking.NewAddEscrowTx(2, fee, &staking.Escrow{Account: dst, Amount: *quantity.NewFromUint64(5)}),
		staking.NewReclaimEscrowTx(3, nil, &staking.ReclaimEscrow{Account: dst, Shares: *quantity.NewFromUint64(5)}),
		registry.NewRegisterEntityTx(4, fee, sigEnt),
		registry.NewRegisterNodeTx(5, fee, sigNode),
		registry.NewRegisterRuntimeTx(6, fee, w.rt),
		roothash.NewExecutorCommitTx(7, fee, w.rtID, []commitment.ExecutorCommitment{ec, ecFail}),
		// equivocation evidence: two signed commitments of one node for the same round that differ
		// in the IO root (the handler runs Evidence.ValidateBasic on the untrusted body first)
		roothash.NewEvidenceTx(8, fee, &roothash.Evidence{ID: w.rtID, EquivocationExecutor: &roothash.EquivocationExecutorEvidence{CommitA: ec, CommitB: ecB}}),
		roothash.NewSubmitMsgTx(9, fee, &roothash.SubmitMsg{ID: w.rtID, Tag: 7, Fee: *quantity.NewFromUint64(1), Tokens: *quantity.NewFromUint64(2), Data: []byte("verif")}),
		governance.NewCastVoteTx(10, fee, &governance.ProposalVote{ID: 1, Vote: governance.VoteYes}),
		governance.NewSubmitProposalTx(11, fee, &governance.ProposalContent{CancelUpgrade: &governance.CancelUpgradeProposal{ProposalID: 1}}),
	}
	var txSeeds, txInner [][]byte
	for _, tx := range txs {
		st, err := transaction.Sign(w.entSigner, tx)
		if err != nil {
			panic(err)
		}
		txSeeds = append(txSeeds, cbor.Marshal(st))
		txInner = append(txInner, cbor.Marshal(tx))
	}
	// What abci decodeTx does after the size check, then the body decode every handler starts with.
	runTx := func(data []byte) string {
		var sigTx transaction.SignedTransaction
		if err := cbor.Unmarshal(data, &sigTx); err != nil {
			return rej(err, "rejected:envelope")
		}
		var tx transaction.Transaction
		if err := sigTx.Open(&tx); err != nil {
			return rej(err, "rejected:open")
		}
		if err := tx.SanityCheck(); err != nil {
			return rej(err, "rejected:sanity")
		}
		_ = sigTx.Hash()
		bt := tx.Method.BodyType()
		if bt == nil {
			return "decoded:unknown-method"
		}
		v := reflect.New(reflect.TypeOf(bt)).Interface()
		if err := cbor.Unmarshal(tx.Body, v); err != nil {
			return rej(err, "rejected:body")
		}
		remarshal(v)
		// the stateless validation every handler runs on the decoded body before anything else
		// (roothash Evidence.ValidateBasic, governance ProposalContent.ValidateBasic, ...)
		if x, ok := v.(interface{ ValidateBasic() error }); ok {
			if err := x.ValidateBasic(); err != nil {
				return rej(err, "rejected:validate")
			}
			return "decoded:body-validated"
		}
		return "decoded:body"
	}
	add(&target{name: "tx", boundary: "consensus transaction bytes (mempool check / delivery)", cbor: true,
		path:  "cbor.Unmarshal(SignedTransaction) -> SignedTransaction.Open -> Transaction.SanityCheck -> cbor.Unmarshal(body by Method.BodyType)",
		seeds: txSeeds, run: runTx})
	add(&target{name: "tx-resigned", boundary: "consensus transaction bytes signed by the attacker", cbor: true,
		path:  "mutated Transaction CBOR, signed -> same path as tx (reaches SanityCheck and the body decoders)",
		seeds: txInner, run: runTx,
		reframe: func(inner []byte) []byte { return singleSign(w.entSigner, transactionSigCtx(), inner) }})

	// ---------------------------------------------------------------- executor commitments, proposals
	prop := commitment.Proposal{NodeID: w.nodeSigner.Public(), Header: commitment.ProposalHeader{Round: 42, PreviousHash: emptyRoot, BatchHash: emptyRoot}}
	if err := prop.Sign(w.nodeSigner, w.rtID); err != nil {
		panic(err)
	}
	add(&target{name: "commit", boundary: "executor commitments", cbor: true,
		path:  "cbor.Unmarshal(ExecutorCommitment) -> ValidateBasic -> Verify -> ToVote/ToDDResult/MostlyEqual -> cbor.Marshal",
		seeds: append([][]byte{cbor.Marshal(ec), cbor.Marshal(ecFail)}, harvest("roothash/api/commitment/executor_test.go", commitment.ExecutorCommitment{})...),
		run: func(data []byte) string {
			var c commitment.ExecutorCommitment
			if err := cbor.Unmarshal(data, &c); err != nil {
				return rej(err, "rejected:decode")
			}
			remarshal(&c)
			_ = c.ToVote()
			_ = c.ToDDResult()
			_ = c.MostlyEqual(&c)
			_ = c.IsIndicatingFailure()
			if err := c.ValidateBasic(); err != nil {
				return rej(err, "rejected:validate")
			}
			if err := c.Verify(w.rtID); err != nil {
				return rej(err, "rejected:signature")
			}
			return "verified"
		}})
	add(&target{name: "proposal", boundary: "executor proposals", cbor: true,
		path:  "cbor.Unmarshal(Proposal) -> Verify -> cbor.Marshal",
		seeds: [][]byte{cbor.Marshal(prop)},
		run: func(data []byte) string {
			var p commitment.Proposal
			if err := cbor.Unmarshal(data, &p); err != nil {
				return rej(err, "rejected:decode")
			}
			remarshal(&p)
			if err := p.Verify(w.rtID); err != nil {
				return rej(err, "rejected:signature")
			}
			return "verified"
		}})

	// ---------------------------------------------------------------- node descriptors
	params := &registry.ConsensusParameters{
		MaxNodeExpiration:      10,
		DebugAllowTestRuntimes: true,
		TEEFeatures:       &node.TEEFeatures{SGX: node.TEEFeaturesSGX{PCS: true}, FreshnessProofs: true},
		MaxRuntimeDeployments: 5,
		EnableRuntimeGovernanceModels: map[registry.RuntimeGovernanceModel]bool{
			registry.GovernanceEntity: true, registry.GovernanceRuntime: true,
		},
	}
	runNode := func(data []byte) string {
		var sn node.MultiSignedNode
		if err := cbor.Unmarshal(data, &sn); err != nil {
			return rej(err, "rejected:envelope")
		}
		remarshal(&sn)
		n, _, err := registry.VerifyRegisterNodeArgs(ctxBg, params, logger, &sn, w.ent, time.Unix(1700000000, 0), 100,
			false, false, 1, rtLookup{w}, nodeLookup{}, true)
		if err != nil {
			// The invariant checker path (sanity check mode) accepts older descriptor versions.
			_, _, _ = registry.VerifyRegisterNodeArgs(ctxBg, params, logger, &sn, w.ent, time.Unix(1700000000, 0), 100,
				false, true, 1, rtLookup{w}, nodeLookup{}, false)
			return rej(err, "rejected:verify")
		}
		remarshal(n)
		_ = n.String()
		return "verified"
	}
	nodeInner := [][]byte{cbor.Marshal(validatorNode), cbor.Marshal(computeNode)}
	nodeInner = append(nodeInner, harvest("common/node/node_test.go", node.Node{})...)
	add(&target{name: "node", boundary: "node descriptors (signed envelope)", cbor: true,
		path:  "cbor.Unmarshal(MultiSignedNode) -> registry.VerifyRegisterNodeArgs (Open, ValidateBasic, ...)",
		seeds: [][]byte{cbor.Marshal(sigNode)}, run: runNode})
	add(&target{name: "node-resigned", boundary: "node descriptors signed by the attacker", cbor: true,
		path:  "mutated Node CBOR, multi-signed -> cbor.Unmarshal(MultiSignedNode) -> registry.VerifyRegisterNodeArgs (Node.UnmarshalCBOR v2/v3, ValidateBasic, runtimes, TEE capability, addresses)",
		seeds: nodeInner, run: runNode,
		reframe: func(inner []byte) []byte { return multiSign(w.nodeSigners, registry.RegisterNodeSignatureContext, inner) }})
	add(&target{name: "node-plain", boundary: "node descriptors (as stored / gossiped)", cbor: true,
		path:  "cbor.Unmarshal(Node) [Node.UnmarshalCBOR] -> ValidateBasic -> accessors -> cbor.Marshal",
		seeds: nodeInner,
		run: func(data []byte) string {
			var n node.Node
			if err := cbor.Unmarshal(data, &n); err != nil {
				return rej(err, "rejected:decode")
			}
			remarshal(&n)
			_ = n.String()
			_ = n.IsExpired(3)
			if err := n.ValidateBasic(false); err != nil {
				return rej(err, "rejected:validate")
			}
			// (Accessors that walk n.Runtimes are only reached behind VerifyRegisterNodeArgs,
			// which rejects nil runtime entries first: see the node / node-resigned targets.)
			return "decoded"
		}})

	// ---------------------------------------------------------------- entity descriptors
	runEntity := func(data []byte) string {
		var se entity.SignedEntity
		if err := cbor.Unmarshal(data, &se); err != nil {
			return rej(err, "rejected:envelope")
		}
		remarshal(&se)
		e, err := registry.VerifyRegisterEntityArgs(logger, &se, false, false)
		if err != nil {
			_, _ = registry.VerifyRegisterEntityArgs(logger, &se, true, true)
			return rej(err, "rejected:verify")
		}
		remarshal(e)
		_ = e.String()
		return "verified"
	}
	add(&target{name: "entity", boundary: "entity descriptors (signed envelope)", cbor: true,
		path:  "cbor.Unmarshal(SignedEntity) -> registry.VerifyRegisterEntityArgs",
		seeds: [][]byte{cbor.Marshal(sigEnt)}, run: runEntity})
	add(&target{name: "entity-resigned", boundary: "entity descriptors signed by the attacker", cbor: true,
		path:  "mutated Entity CBOR, signed -> cbor.Unmarshal(SignedEntity) -> registry.VerifyRegisterEntityArgs (Entity.UnmarshalCBOR, ValidateBasic)",
		seeds: append([][]byte{cbor.Marshal(w.ent)}, harvest("common/entity/entity_test.go", entity.Entity{})...), run: runEntity,
		reframe: func(inner []byte) []byte { return singleSign(w.entSigner, registry.RegisterEntitySignatureContext, inner) }})

	// ---------------------------------------------------------------- runtime descriptors
	rtSeeds := append([][]byte{cbor.Marshal(w.rt)}, harvest("registry/api/runtime_test.go", registry.Runtime{})...)
	add(&target{name: "runtime", boundary: "runtime descriptors", cbor: true,
		path:  "cbor.Unmarshal(Runtime) -> registry.VerifyRuntime (ValidateBasic, deployments, ...) -> cbor.Marshal",
		seeds: rtSeeds,
		run: func(data []byte) string {
			var rt registry.Runtime
			if err := cbor.Unmarshal(data, &rt); err != nil {
				return rej(err, "rejected:decode")
			}
			remarshal(&rt)
			if err := registry.VerifyRuntime(params, logger, &rt, 1, registry.VerifyRuntimeOptions{IsFeatureVersion261: true}); err != nil {
				_ = registry.VerifyRuntime(params, logger, &rt, 1, registry.VerifyRuntimeOptions{IsGenesis: true, IsSanityCheck: true})
				return rej(err, "rejected:verify")
			}
			// Accessors walking rt.Deployments are only reached behind VerifyRuntime
			// (ValidateDeployments rejects nil entries).
			_ = rt.ActiveDeployment(1)
			_ = rt.NextDeployment(1)
			_, _ = rt.StakingAddress()
			return "verified"
		}})

	// ---------------------------------------------------------------- attestation: PCS quotes, TCB collateral
	var tcbInfo pcs.SignedTCBInfo
	if err := json.Unmarshal(mustRead("common/sgx/pcs/testdata/tcb_info_v3_fmspc_00606A000000.json"), &tcbInfo); err != nil {
		panic(err)
	}
	var qeIdentity pcs.SignedQEIdentity
	if err := json.Unmarshal(mustRead("common/sgx/pcs/testdata/qe_identity_v2.json"), &qeIdentity); err != nil {
		panic(err)
	}
	tcbBundle := pcs.TCBBundle{TCBInfo: tcbInfo, QEIdentity: qeIdentity,
		Certificates: mustRead("common/sgx/pcs/testdata/tcb_info_v3_fmspc_00606A000000_certs.pem")}
	loadBundle := func(tcbFile, qeFile string) pcs.TCBBundle {
		var ti pcs.SignedTCBInfo
		if err := json.Unmarshal(mustRead("common/sgx/pcs/testdata/"+tcbFile), &ti); err != nil {
			panic(err)
		}
		var qi pcs.SignedQEIdentity
		if err := json.Unmarshal(mustRead("common/sgx/pcs/testdata/"+qeFile), &qi); err != nil {
			panic(err)
		}
		return pcs.TCBBundle{TCBInfo: ti, QEIdentity: qi, Certificates: tcbBundle.Certificates}
	}
	tdxBundle := loadBundle("tcb_info_v3_tdx_fmspc_C0806F000000.json", "qe_identity_v2_tdx2.json")
	tdxBundle2 := loadBundle("tcb_info_v3_tdx_fmspc_50806F000000.json", "qe_identity_v2_tdx.json")
	quoteTime := time.Unix(1671497404, 0)
	tdxTime := time.Unix(1725263032, 0)
	tdxTime2 := time.Unix(1687091776, 0)
	quoteSeeds := [][]byte{
		mustRead("common/sgx/pcs/testdata/quote_v3_ecdsa_p256_pck_chain.bin"),
		mustRead("common/sgx/pcs/testdata/quote_v3_ecdsa_p256_eppid.bin"),
		mustRead("common/sgx/pcs/testdata/quote_v4_tdx_ecdsa_p256.bin"),
		mustRead("common/sgx/pcs/testdata/quote_v4_tdx_ecdsa_p256_out_of_date.bin"),
		mustRead("common/sgx/pcs/testdata/quote_v4_tdx_ecdsa_p256_trailing.bin"),
	}
	add(&target{name: "quote", boundary: "attestation quotes (PCS / DCAP, SGX and TDX)",
		path:  "pcs.Quote.UnmarshalBinary / UnmarshalBinaryWithTrailing -> Quote.Verify(policy, ts, TCB bundle)",
		seeds: quoteSeeds, fields: codeclib.QuoteLenFields, words: true,
		run: func(data []byte) string {
			var q pcs.Quote
			if err := q.UnmarshalBinary(data); err != nil {
				var q2 pcs.Quote
				if _, err2 := q2.UnmarshalBinaryWithTrailing(data, true); err2 != nil {
					return rej(err, "rejected:decode")
				}
				q = q2
			}
			pol := &pcs.QuotePolicy{TCBValidityPeriod: 36500, TDX: &pcs.TdxQuotePolicy{}}
			_, err := q.Verify(pol, quoteTime, &tcbBundle)
			if err != nil {
				_, err = q.Verify(pol, tdxTime, &tdxBundle)
			}
			if err != nil {
				_, err = q.Verify(pol, tdxTime2, &tdxBundle2)
			}
			if err != nil {
				return rej(err, "rejected:verify")
			}
			return "verified"
		}})
	qb := pcs.QuoteBundle{Quote: quoteSeeds[0], TCB: tcbBundle}
	add(&target{name: "quote-bundle", boundary: "attestation quotes and collateral (CBOR bundle: quote + TCB info + QE identity + certificates)", cbor: true,
		path:  "cbor.Unmarshal(pcs.QuoteBundle) -> QuoteBundle.Verify (quote parse, JSON TCB info / QE identity, PEM + x509 chain)",
		seeds: [][]byte{cbor.Marshal(qb), cbor.Marshal(pcs.QuoteBundle{Quote: quoteSeeds[2], TCB: tdxBundle})},
		run: func(data []byte) string {
			var b pcs.QuoteBundle
			if err := cbor.Unmarshal(data, &b); err != nil {
				return rej(err, "rejected:decode")
			}
			remarshal(&b)
			pol := &pcs.QuotePolicy{TCBValidityPeriod: 36500, TDX: &pcs.TdxQuotePolicy{}}
			_, err := b.Verify(pol, quoteTime)
			if err != nil {
				_, err = b.Verify(pol, tdxTime)
			}
			if err != nil {
				return rej(err, "rejected:verify")
			}
			return "verified"
		}})
	// The quote as it arrives inside a node registration: wrapped in the CBOR bundle (the mutant
	// quote is re-wrapped with the matching collateral), verified through QuoteBundle.Verify.
	add(&target{name: "quote-in-bundle", boundary: "attestation quotes inside the CBOR quote bundle of a node's TEE capability",
		path:  "mutated quote bytes, wrapped: cbor.Unmarshal(pcs.QuoteBundle) -> QuoteBundle.Verify -> Quote.UnmarshalBinary -> QuoteSignatureECDSA_P256 / CertificationData_QEReport.UnmarshalBinary -> Verify",
		seeds: quoteSeeds, fields: codeclib.QuoteLenFields,
		reframe: func(inner []byte) []byte {
			tcb := tcbBundle
			if len(inner) > 8 && inner[0] == 4 && inner[4] == 0x81 {
				tcb = tdxBundle
			}
			return cbor.Marshal(pcs.QuoteBundle{Quote: inner, TCB: tcb})
		},
		run: func(data []byte) string {
			var b pcs.QuoteBundle
			if err := cbor.Unmarshal(data, &b); err != nil {
				return rej(err, "rejected:decode")
			}
			pol := &pcs.QuotePolicy{TCBValidityPeriod: 36500, TDX: &pcs.TdxQuotePolicy{}}
			_, err := b.Verify(pol, quoteTime)
			if err != nil {
				_, err = b.Verify(pol, tdxTime)
			}
			if err != nil {
				return rej(err, "rejected:verify")
			}
			return "verified"
		}})
	add(&target{name: "tcb-json", boundary: "attestation collateral (TCB info / QE identity JSON, certificate PEM)",
		path:  "json.Unmarshal(SignedTCBInfo / SignedQEIdentity) -> TCBBundle.Verify",
		seeds: [][]byte{
			mustRead("common/sgx/pcs/testdata/tcb_info_v3_fmspc_00606A000000.json"),
			mustRead("common/sgx/pcs/testdata/tcb_info_v3_tdx_fmspc_50806F000000.json"),
			mustRead("common/sgx/pcs/testdata/qe_identity_v2.json"),
			mustRead("common/sgx/pcs/testdata/tcb_info_v3_fmspc_00606A000000_certs.pem"),
		},
		run: func(data []byte) string {
			b := pcs.TCBBundle{TCBInfo: tcbInfo, QEIdentity: qeIdentity, Certificates: tcbBundle.Certificates}
			var ti pcs.SignedTCBInfo
			var qi pcs.SignedQEIdentity
			switch {
			case bytes.Contains(data, []byte("BEGIN")):
				b.Certificates = data
			case json.Unmarshal(data, &ti) == nil && len(ti.TCBInfo) > 0:
				b.TCBInfo = ti
			case json.Unmarshal(data, &qi) == nil && len(qi.EnclaveIdentity) > 0:
				b.QEIdentity = qi
			default:
				return rej(err, "rejected:decode")
			}
			var q pcs.Quote
			if err := q.UnmarshalBinary(quoteSeeds[0]); err != nil {
				panic(err)
			}
			if _, err := q.Verify(&pcs.QuotePolicy{TCBValidityPeriod: 36500}, quoteTime, &b); err != nil {
				return rej(err, "rejected:verify")
			}
			return "verified"
		}})

	// ---------------------------------------------------------------- attestation: IAS AVR
	avrBody := mustRead("common/sgx/ias/testdata/avr_v4_body_sw_hardening_needed.json")
	avrSig := mustRead("common/sgx/ias/testdata/avr_v4_body_sw_hardening_needed.sig")
	avrCerts := mustRead("common/sgx/ias/testdata/avr_certificates_urlencoded.pem")
	add(&target{name: "avr", boundary: "attestation verification reports (IAS, JSON body)",
		path:  "ias.UnsafeDecodeAVR (json + validate) -> AttestationVerificationReport.Quote() -> Quote.Verify",
		seeds: [][]byte{avrBody, mustRead("common/sgx/ias/testdata/avr_v5_body_sw_hardening_needed.json")},
		run: func(data []byte) string {
			ias.SetAllowDebugEnclaves()
			defer ias.UnsetAllowDebugEnclaves()
			a, err := ias.UnsafeDecodeAVR(data)
			if err != nil {
				return rej(err, "rejected:decode")
			}
			q, err := a.Quote()
			if err != nil {
				return rej(err, "rejected:quote")
			}
			if err = q.Verify(); err != nil {
				return rej(err, "rejected:quote-verify")
			}
			return "decoded"
		}})
	iasRoots := x509.NewCertPool()
	if pemStr, err := url.QueryUnescape(string(avrCerts)); err == nil {
		rest := []byte(pemStr)
		for {
			var blk *pem.Block
			if blk, rest = pem.Decode(rest); blk == nil {
				break
			}
			if c, err := x509.ParseCertificate(blk.Bytes); err == nil && c.IsCA && bytes.Equal(c.RawIssuer, c.RawSubject) {
				iasRoots.AddCert(c)
			}
		}
	}
	add(&target{name: "avr-bundle", boundary: "attestation verification reports (IAS bundle: body + signature + certificate chain)", cbor: true,
		path:  "cbor.Unmarshal(ias.AVRBundle) -> AVRBundle.Open (url-unescape, PEM, x509 chain, base64 signature, JSON body)",
		seeds: [][]byte{cbor.Marshal(ias.AVRBundle{Body: avrBody, Signature: avrSig, CertificateChain: avrCerts})},
		run: func(data []byte) string {
			ias.SetAllowDebugEnclaves()
			defer ias.UnsetAllowDebugEnclaves()
			var b ias.AVRBundle
			if err := cbor.Unmarshal(data, &b); err != nil {
				return rej(err, "rejected:decode")
			}
			if _, err := b.Open(&ias.QuotePolicy{}, iasRoots, time.Unix(1600000000, 0)); err != nil {
				return rej(err, "rejected:open")
			}
			return "verified"
		}})

	// ---------------------------------------------------------------- node TEE capability (SGX attestation + constraints)
	teeCfg := &node.TEEFeatures{SGX: node.TEEFeaturesSGX{PCS: true, SignedAttestations: true, DefaultMaxAttestationAge: 1200}, FreshnessProofs: true}
	constraints := mustRead("common/node/testdata/sgx_constraints_v1.bin")
	add(&target{name: "sgx-attestation", boundary: "attestation inside node descriptors (CapabilityTEE)", cbor: true,
		path:  "CapabilityTEE.Verify -> cbor.Unmarshal(SGXAttestation) [UnmarshalCBOR v0/v1] -> ValidateBasic -> Verify",
		seeds: [][]byte{mustRead("common/node/testdata/sgx_attestation_v0.bin"), mustRead("common/node/testdata/sgx_attestation_v1.bin")},
		run: func(data []byte) string {
			c := node.CapabilityTEE{Hardware: node.TEEHardwareIntelSGX, RAK: w.nodeSigner.Public(), Attestation: data}
			if err := c.Verify(teeCfg, time.Unix(1671497404, 0), 100, constraints, w.nodeSigner.Public(), true); err != nil {
				return rej(err, "rejected")
			}
			return "verified"
		}})
	// the constraints blob of a runtime deployment is untrusted too: genuine attestations are verified
	// AGAINST the mutated constraints (policy present / absent / partial, enclave lists, versions)
	attV0, attV1 := mustRead("common/node/testdata/sgx_attestation_v0.bin"), mustRead("common/node/testdata/sgx_attestation_v1.bin")
	add(&target{name: "sgx-constraints-verify", boundary: "runtime descriptors: TEE constraints blob, as consumed by node attestation verification", cbor: true,
		path:  "CapabilityTEE.Verify(genuine attestation, constraints bytes) -> cbor.Unmarshal(SGXConstraints) -> ApplyDefaultConstraints -> quote.Verify(policy)",
		seeds: [][]byte{mustRead("common/node/testdata/sgx_constraints_v0.bin"), constraints, {0xa1, 0x61, 0x76, 0x01}, {0xa1, 0x61, 0x76, 0x00}, {0xa0}},
		run: func(data []byte) string {
			out := ""
			for i, att := range [][]byte{attV0, attV1} {
				c := node.CapabilityTEE{Hardware: node.TEEHardwareIntelSGX, RAK: w.nodeSigner.Public(), Attestation: att}
				if err := c.Verify(teeCfg, time.Unix(1671497404, 0), 100, data, w.nodeSigner.Public(), true); err != nil {
					out += rej(err, fmt.Sprintf("rejected%d;", i))
				} else {
					out += fmt.Sprintf("verified%d;", i)
				}
			}
			return out
		}})
	add(&target{name: "sgx-constraints", boundary: "runtime descriptors: TEE constraints blob", cbor: true,
		path:  "cbor.Unmarshal(SGXConstraints) [UnmarshalCBOR v0/v1] -> ValidateBasic -> cbor.Marshal",
		seeds: [][]byte{mustRead("common/node/testdata/sgx_constraints_v0.bin"), constraints},
		run: func(data []byte) string {
			var sc node.SGXConstraints
			if err := cbor.Unmarshal(data, &sc); err != nil {
				return rej(err, "rejected:decode")
			}
			remarshal(&sc)
			if err := sc.ValidateBasic(teeCfg, true); err != nil {
				return rej(err, "rejected:validate")
			}
			return "decoded"
		}})

	// ---------------------------------------------------------------- Merkle proofs on the wire, write logs
	proofSeeds := harvest("storage/mkvs/syncer/proof_test.go", syncer.Proof{})
	tree := mkvs.New(nil, nil, mkvsNode.RootTypeState)
	for i := 0; i < 40; i++ {
		_ = tree.Insert(ctxBg, []byte(fmt.Sprintf("key %d", i)), bytes.Repeat([]byte{byte(i)}, i))
	}
	wl, root, err := tree.Commit(ctxBg, w.rtID, 1)
	if err != nil {
		panic(err)
	}
	for _, v := range []uint16{0, 1} {
		pb, _ := syncer.NewProofBuilderForVersion(root, root, v)
		it := tree.NewIterator(ctxBg, mkvs.WithProofBuilder(pb))
		it.Seek([]byte("key 2"))
		it.Next()
		p, err := it.GetProof()
		it.Close()
		if err != nil {
			panic(err)
		}
		proofSeeds = append(proofSeeds, cbor.Marshal(p))
	}
	add(&target{name: "proof-cbor", boundary: "Merkle proofs (as received from a storage peer)", cbor: true,
		path:  "cbor.Unmarshal(syncer.Proof) -> ProofVerifier.VerifyProof / VerifyProofToWriteLog (root = UntrustedRoot)",
		seeds: proofSeeds,
		run: func(data []byte) string {
			var p syncer.Proof
			if err := cbor.Unmarshal(data, &p); err != nil {
				return rej(err, "rejected:decode")
			}
			var pv syncer.ProofVerifier
			if _, err := pv.VerifyProof(ctxBg, p.UntrustedRoot, &p); err != nil {
				return rej(err, "rejected:verify")
			}
			if _, err := pv.VerifyProofToWriteLog(ctxBg, p.UntrustedRoot, &p); err != nil {
				panic("VerifyProofToWriteLog rejects what VerifyProof accepted: " + err.Error())
			}
			return "verified"
		}})
	// What the storage worker does with a write log received from a storage-sync peer
	// (worker/storage/committee -> storage/api RootCache.Apply): ApplyWriteLog on a tree over the
	// previous root, and only then the comparison of the resulting root with the expected one.
	runWriteLog := func(data []byte) string {
		var l writelog.WriteLog
		if err := cbor.Unmarshal(data, &l); err != nil {
			return rej(err, "rejected:decode")
		}
		if len(l) > 4096 {
			return "decoded:long"
		}
		t := mkvs.New(nil, nil, mkvsNode.RootTypeState)
		defer t.Close()
		if err := t.ApplyWriteLog(ctxBg, writelog.NewStaticIterator(l)); err != nil {
			return rej(err, "rejected:apply")
		}
		if _, _, err := t.Commit(ctxBg, w.rtID, 2); err != nil {
			return rej(err, "rejected:commit")
		}
		return "applied"
	}
	add(&target{name: "writelog", boundary: "write logs", cbor: true,
		path:  "cbor.Unmarshal(writelog.WriteLog) -> mkvs.Tree.ApplyWriteLog -> Commit (storage/api RootCache.Apply)",
		seeds: [][]byte{cbor.Marshal(wl), cbor.Marshal(wl[:3])}, run: runWriteLog})
	// Huge declared sizes at the structure level: write logs whose keys are as long as the
	// 16-bit bit-depth arithmetic of the tree allows, and longer.
	var longKeyLogs [][]byte
	for _, n := range []int{4096, 8190, 8191, 8192, 8193, 65535, 65536} {
		a := bytes.Repeat([]byte{0xaa}, n)
		b := append(bytes.Repeat([]byte{0xaa}, n-1), 0xab)
		longKeyLogs = append(longKeyLogs, cbor.Marshal(writelog.WriteLog{
			{Key: a, Value: []byte{1}}, {Key: b, Value: []byte{2}}, {Key: []byte("x"), Value: []byte{3}},
		}))
	}
	add(&target{name: "writelog-keys", boundary: "write logs (key lengths around 2^13 and 2^16 bytes)", cbor: true,
		path:  "cbor.Unmarshal(writelog.WriteLog) -> mkvs.Tree.ApplyWriteLog [tree.Insert -> doInsert -> Key.GetBit / Split with uint16 bit depths] -> Commit",
		seeds: longKeyLogs, run: runWriteLog})

	// nil (CBOR null) versus empty (CBOR h'') keys: node.Key.Equal distinguishes them.
	var nilKeyLogs [][]byte
	for _, l := range []writelog.WriteLog{
		{{Key: nil, Value: []byte{1}}, {Key: []byte{0xaa}, Value: []byte{2}}, {Key: []byte{}, Value: []byte{3}}},
		{{Key: []byte{}, Value: []byte{1}}, {Key: []byte{0xaa}, Value: []byte{2}}, {Key: nil, Value: []byte{3}}},
		{{Key: nil, Value: []byte{1}}, {Key: []byte{}, Value: []byte{2}}},
		{{Key: []byte{}, Value: []byte{1}}, {Key: nil, Value: nil}},
		{{Key: nil, Value: []byte{1}}, {Key: []byte{0x00}, Value: []byte{2}}, {Key: []byte{}, Value: nil}},
	} {
		nilKeyLogs = append(nilKeyLogs, cbor.Marshal(l))
	}
	add(&target{name: "writelog-nilkey", boundary: "write logs (nil versus empty keys)", cbor: true,
		path:  "cbor.Unmarshal(writelog.WriteLog) [null -> nil key, h'' -> empty key] -> mkvs.Tree.ApplyWriteLog [Insert/Remove -> doInsert/doRemove -> Key.Equal / GetBit] -> Commit",
		seeds: nilKeyLogs, run: runWriteLog})

	// ---------------------------------------------------------------- read requests with long keys
	// Storage nodes answer SyncGet / SyncGetPrefixes / SyncIterate requests of untrusted peers
	// (and runtimes issue them through the host protocol); the key is attacker-chosen. The tree
	// holds maximal-length (8191-byte) keys and their long-prefix neighbours.
	rtree := mkvs.New(nil, nil, mkvsNode.RootTypeState)
	longA := bytes.Repeat([]byte{0xaa}, 8191)
	for i, k := range [][]byte{
		longA, append(bytes.Repeat([]byte{0xaa}, 8190), 0xab), longA[:8190], longA[:8189], longA[:4096], longA[:1],
		append(bytes.Repeat([]byte{0xaa}, 8190), 0x2a), []byte("x"), {},
	} {
		if err := rtree.Insert(ctxBg, k, []byte{byte(i)}); err != nil {
			panic(err)
		}
	}
	_, rroot, err := rtree.Commit(ctxBg, w.rtID, 1)
	if err != nil {
		panic(err)
	}
	rrootN := mkvsNode.Root{Namespace: w.rtID, Version: 1, Type: mkvsNode.RootTypeState, Hash: rroot}
	var readSeeds [][]byte
	for _, n := range []int{8190, 8191, 8192, 8193, 8200, 16383, 16384, 65535, 65536, 65537} {
		readSeeds = append(readSeeds, bytes.Repeat([]byte{0xaa}, n), append(bytes.Repeat([]byte{0xaa}, n-1), 0xab),
			append(bytes.Repeat([]byte{0xaa}, n-1), 0x00))
	}
	tid := syncer.TreeID{Root: rrootN, Position: rroot}
	checkProof := func(rsp *syncer.ProofResponse) {
		var pvf syncer.ProofVerifier
		if _, err := pvf.VerifyProof(ctxBg, rroot, &rsp.Proof); err != nil {
			panic("the tree returned a proof that does not verify: " + err.Error())
		}
	}
	readOps := []struct {
		name, path string
		op         func(key []byte) string
	}{
		{"tree-get", "mkvs.Tree.Get(key)", func(key []byte) string {
			v, err := rtree.Get(ctxBg, key)
			if err != nil {
				return rej(err, "rejected:get")
			}
			if v != nil {
				return "hit"
			}
			return "miss"
		}},
		{"tree-seek", "mkvs.Tree.NewIterator().Seek(key), Next x3", func(key []byte) string {
			it := rtree.NewIterator(ctxBg)
			defer it.Close()
			it.Seek(key)
			for i := 0; i < 3 && it.Valid(); i++ {
				it.Next()
			}
			if err := it.Err(); err != nil {
				return rej(err, "rejected:iterate")
			}
			return "iterated"
		}},
		{"tree-syncget", "mkvs.Tree.SyncGet (storage pub p2p MethodGet / consensus StateSyncGet / host protocol HostStorageSync)", func(key []byte) string {
			for _, pv := range []uint16{0, 1} {
				rsp, err := rtree.SyncGet(ctxBg, &syncer.GetRequest{Tree: tid, Key: key, IncludeSiblings: pv == 1, ProofVersion: pv})
				if err != nil {
					return rej(err, "rejected:syncget")
				}
				checkProof(rsp)
			}
			return "proved"
		}},
		{"tree-syncgetprefixes", "mkvs.Tree.SyncGetPrefixes (storage pub p2p MethodGetPrefixes / consensus StateSyncGetPrefixes / host protocol)", func(key []byte) string {
			for _, pv := range []uint16{0, 1} {
				rsp, err := rtree.SyncGetPrefixes(ctxBg, &syncer.GetPrefixesRequest{Tree: tid, Prefixes: [][]byte{key, key[:len(key)/2]}, Limit: 4, ProofVersion: pv})
				if err != nil {
					return rej(err, "rejected:syncgetprefixes")
				}
				checkProof(rsp)
			}
			return "proved"
		}},
		{"tree-synciterate", "mkvs.Tree.SyncIterate -> iterator Seek(request.Key) (storage pub p2p MethodIterate: worker/storage/p2p/pub/server.go; consensus gRPC StateSyncIterate; host protocol HostStorageSync)", func(key []byte) string {
			for _, pv := range []uint16{0, 1} {
				rsp, err := rtree.SyncIterate(ctxBg, &syncer.IterateRequest{Tree: tid, Key: key, Prefetch: 3, ProofVersion: pv})
				if err != nil {
					return rej(err, "rejected:synciterate")
				}
				checkProof(rsp)
			}
			return "proved"
		}},
		{"tree-write-keys", "mkvs.Tree.Insert / RemoveExisting(key) next to 8191-byte keys (must refuse or succeed)", func(key []byte) string {
			wt := mkvs.New(nil, nil, mkvsNode.RootTypeState)
			defer wt.Close()
			_ = wt.Insert(ctxBg, longA, []byte{1})
			_ = wt.Insert(ctxBg, longA[:8190], []byte{2})
			errIns := wt.Insert(ctxBg, key, []byte{3})
			_, errRem := wt.RemoveExisting(ctxBg, key)
			if errIns != nil || errRem != nil {
				return "refused"
			}
			return "written"
		}},
	}
	for _, ro := range readOps {
		add(&target{name: ro.name, boundary: "storage requests with attacker-chosen keys (lengths around 2^13 and 2^16 bytes) on a tree holding 8191-byte keys and long-prefix neighbours",
			path: ro.path, seeds: readSeeds, run: ro.op})
	}

	// ---------------------------------------------------------------- checkpoint chunks
	add(chunkTarget(w, tree, root))

	// ---------------------------------------------------------------- runtime host protocol frames
	frame := func(m *protocol.Message) []byte {
		var buf bytes.Buffer
		if err := cbor.NewMessageCodec(&buf, "verif").Write(m); err != nil {
			panic(err)
		}
		return buf.Bytes()
	}
	msgs := []*protocol.Message{
		{ID: 1, MessageType: protocol.MessageRequest, Body: protocol.Body{RuntimeInfoRequest: &protocol.RuntimeInfoRequest{
			RuntimeID: w.rtID, ConsensusBackend: "cometbft", ConsensusChainContext: "ctx",
			LocalConfig: map[string]any{"a": []any{1, "x", map[string]any{"b": 2}}}}}},
		{ID: 2, MessageType: protocol.MessageResponse, Body: protocol.Body{Error: &protocol.Error{Module: "m", Code: 3, Message: "boom"}}},
		{ID: 3, MessageType: protocol.MessageRequest, Body: protocol.Body{RuntimePingRequest: &protocol.Empty{}}},
		{ID: 4, MessageType: protocol.MessageResponse, Body: protocol.Body{Empty: &protocol.Empty{}}},
		{ID: 5, MessageType: protocol.MessageRequest, Body: protocol.Body{HostStorageSyncRequest: &protocol.HostStorageSyncRequest{}}},
	}
	var frames [][]byte
	for _, m := range msgs {
		frames = append(frames, frame(m))
	}
	add(&target{name: "rhp-frame", boundary: "runtime host protocol frames", cbor: false,
		path:  "cbor.MessageCodec.Read (4-byte length, maxMessageSize, decModeRPC) into protocol.Message -> Body.Type() -> %+v",
		seeds: frames, fields: codeclib.FrameLenFields, words: true,
		run: func(data []byte) string {
			codec := cbor.NewMessageCodec(&rw{r: bytes.NewReader(data)}, "verif")
			var m protocol.Message
			if err := codec.Read(&m); err != nil {
				return rej(err, "rejected")
			}
			_ = fmt.Sprintf("%+v", m)
			_ = m.Body.Type()
			remarshal(&m)
			return "decoded"
		}})
	add(&target{name: "rhp-body", boundary: "runtime host protocol frames (payload behind a correct length prefix)", cbor: true,
		path:  "mutated Message CBOR, length-prefixed -> cbor.MessageCodec.Read -> Body.Type() -> %+v",
		seeds: func() [][]byte {
			var out [][]byte
			for _, m := range msgs {
				out = append(out, cbor.Marshal(m))
			}
			return out
		}(),
		reframe: func(inner []byte) []byte {
			out := []byte{byte(len(inner) >> 24), byte(len(inner) >> 16), byte(len(inner) >> 8), byte(len(inner))}
			return append(out, inner...)
		},
		run: func(data []byte) string {
			codec := cbor.NewMessageCodec(&rw{r: bytes.NewReader(data)}, "verif")
			var m protocol.Message
			if err := codec.Read(&m); err != nil {
				return rej(err, "rejected")
			}
			_ = fmt.Sprintf("%+v", m)
			_ = m.Body.Type()
			remarshal(&m)
			return "decoded"
		}})

	// ---------------------------------------------------------------- runtime host protocol: consumers of a response
	// What the node DOES with a decoded response frame of the (untrusted) runtime: the transaction pool's
	// check worker consumes a RuntimeCheckTxBatchResponse (helpers.go richRuntime.CheckTx -> txpool.checkTxBatch).
	okRes := func(i int) protocol.CheckTxResult {
		return protocol.CheckTxResult{Meta: &protocol.CheckTxMetadata{Priority: uint64(10 + i), Sender: []byte(fmt.Sprintf("sender-%d", i)), SenderSeq: uint64(i), SenderStateSeq: 0}}
	}
	checkBodies := []*protocol.Body{
		{RuntimeCheckTxBatchResponse: &protocol.RuntimeCheckTxBatchResponse{Results: []protocol.CheckTxResult{okRes(0), okRes(1), okRes(2)}}},
		{RuntimeCheckTxBatchResponse: &protocol.RuntimeCheckTxBatchResponse{Results: []protocol.CheckTxResult{okRes(0),
			{Error: protocol.Error{Module: "m", Code: 2, Message: "bad tx"}}, okRes(0)}}},
		// a wrong number of results for the three submitted transactions: surplus, deficit, none
		{RuntimeCheckTxBatchResponse: &protocol.RuntimeCheckTxBatchResponse{Results: []protocol.CheckTxResult{okRes(0), okRes(1), okRes(2), okRes(3)}}},
		{RuntimeCheckTxBatchResponse: &protocol.RuntimeCheckTxBatchResponse{Results: []protocol.CheckTxResult{okRes(0), okRes(1), okRes(2), okRes(3), okRes(4), okRes(5), okRes(6)}}},
		{RuntimeCheckTxBatchResponse: &protocol.RuntimeCheckTxBatchResponse{Results: []protocol.CheckTxResult{okRes(0), okRes(1)}}},
		{RuntimeCheckTxBatchResponse: &protocol.RuntimeCheckTxBatchResponse{}},
		{RuntimeExecuteTxBatchResponse: &protocol.RuntimeExecuteTxBatchResponse{}},
	}
	var checkSeeds [][]byte
	for _, b := range checkBodies {
		checkSeeds = append(checkSeeds, cbor.Marshal(b))
	}
	add(&target{name: "rhp-checktx", boundary: "runtime host protocol frames (a check-tx batch response consumed by the transaction pool's check worker)", cbor: true,
		path:  "cbor.Unmarshal(protocol.Body) as the connection codec does -> richRuntime.CheckTx (shape checks) -> txPool.checkTxBatch (verif export NewVerifCheckPool)",
		seeds: checkSeeds,
		run: func(data []byte) string {
			var body protocol.Body
			if err := cbor.Unmarshal(data, &body); err != nil {
				return rej(err, "rejected:decode")
			}
			pool := txpool.NewVerifCheckPool(w.rtID, &stubRuntime{answer: &body})
			for i := 0; i < 3; i++ {
				if err := pool.Submit([]byte(fmt.Sprintf("verif-tx-%d", i))); err != nil {
					panic(err)
				}
			}
			c, cancel := context.WithTimeout(ctxBg, 10*time.Second)
			defer cancel()
			panicked, err := pool.CheckBatch(c)
			if panicked != "" {
				panic("txpool check worker: " + panicked)
			}
			if err != nil {
				return "rejected:response-shape"
			}
			_, queued := pool.Sizes()
			return fmt.Sprintf("consumed:queued-%d", queued)
		}})

	// ---------------------------------------------------------------- runtime host protocol: live connection
	streams := liveSeeds(w)
	add(&target{name: "rhp-live-host", boundary: "runtime host protocol frames (live connection, node side: after InitHost, one host call outstanding)", live: true,
		path:  "net.Pipe -> protocol.Connection (workerIncoming: codec.Read -> handleMessage goroutines; workerOutgoing) -> follow-up request -> Close()",
		seeds: streams, fields: codeclib.FrameLenFields,
		run:   func(data []byte) string { return runLive(true, data) }})
	add(&target{name: "rhp-live-guest", boundary: "runtime host protocol frames (live connection after InitGuest)", live: true,
		path:  "net.Pipe -> protocol.Connection (workerIncoming: codec.Read -> handleMessage goroutines; workerOutgoing) -> follow-up request -> Close()",
		seeds: streams, fields: codeclib.FrameLenFields,
		run:   func(data []byte) string { return runLive(false, data) }})

	// ---------------------------------------------------------------- CheckTx / DeliverTx of a live multiplexer
	lm := lmEarly
	add(&target{name: "mux-tx", boundary: "consensus transaction bytes at mempool check and delivery (live multiplexer, correctly signed, boundary-valued envelope fields)",
		path: "abciMux.CheckTx / BeginBlock+DeliverTx -> executeTx -> decodeTx -> processTx -> staking AuthenticateTx (nonce, balance, fee, gas price) -> gas -> app.ExecuteTx",
		text: true, live: true, seeds: [][]byte{[]byte("s=1,n=0,fee=2000/1000,m=" + hexText(string(staking.MethodTransfer)) + ",b=valid,x=check")},
		gen:  lm.gen, sweep: lm.sweep, run: lm.runStructured})
	// Raw bytes at the same observation point: valid signed transactions (right nonce, funded
	// signer) under the byte- and CBOR-level mutations, and mutated transaction bodies re-signed.
	var muxSigned, muxInner [][]byte
	for i, meth := range []string{string(staking.MethodTransfer), string(staking.MethodAddEscrow), string(staking.MethodBurn), string(registry.MethodRegisterEntity), string(governance.MethodCastVote)} {
		c := &muxCase{signer: i % 3, fee: true, amount: big.NewInt(6000), gas: 2000, method: meth, body: "valid"}
		if meth == string(registry.MethodRegisterEntity) {
			c.signer = muxEntity
		}
		raw := lm.build(c)
		muxSigned = append(muxSigned, raw)
		var st transaction.SignedTransaction
		if err := cbor.Unmarshal(raw, &st); err != nil {
			panic(err)
		}
		muxInner = append(muxInner, st.Blob)
	}
	muxRaw := func(data []byte) string {
		mode := "check"
		if len(data)%3 == 0 {
			mode = "deliver"
		}
		class := lm.exec(data, mode)
		// Bounded memory: bytes above the MaxTxSize consensus parameter are refused by their size,
		// before anything is decoded (so garbage and well-formed oversized bytes get the same answer).
		if len(data) > muxMaxTxSize && class != "rejected:consensus/2" && !strings.HasPrefix(class, "rejected:proposal") && specFail == nil {
			specFail = &specFailure{"mux-oversized-not-refused-by-size", fmt.Sprintf("%d transaction bytes (MaxTxSize %d) in mode %s were answered %q instead of consensus.ErrOversizedTx: the bytes were decoded before the size limit was applied",
				len(data), muxMaxTxSize, mode, class)}
		}
		return class
	}
	// Oversized seeds: garbage, and a well-formed signed transaction with a large body.
	bigTx := lm.build(&muxCase{signer: 0, fee: true, amount: big.NewInt(6000), gas: 2000, method: string(staking.MethodTransfer),
		body: hex.EncodeToString(bytes.Repeat([]byte{0x61}, 40000))})
	muxSigned = append(muxSigned, bytes.Repeat([]byte{0xff}, muxMaxTxSize+1), bytes.Repeat([]byte{0x9f}, muxMaxTxSize+1), bigTx)
	add(&target{name: "mux-raw", boundary: "consensus transaction bytes at mempool check and delivery (live multiplexer, mutated signed transactions)", cbor: true, live: true,
		path:  "abciMux.CheckTx / BeginBlock+DeliverTx -> executeTx -> decodeTx (size limit, envelope, signature, sanity) -> processTx",
		seeds: muxSigned, run: muxRaw,
		sweep: func() [][]byte {
			// sizes around the limit, garbage and well-formed, in both modes (the mode follows the length)
			out := [][]byte{bigTx, append(append([]byte(nil), bigTx...), 0), append(append([]byte(nil), bigTx...), 0, 0)}
			for _, n := range []int{muxMaxTxSize - 1, muxMaxTxSize, muxMaxTxSize + 1, muxMaxTxSize + 2, muxMaxTxSize + 3, 2 * muxMaxTxSize, 1 << 20} {
				out = append(out, bytes.Repeat([]byte{0xff}, n), bytes.Repeat([]byte{0x81}, n))
			}
			return out
		}})
	add(&target{name: "mux-resigned", boundary: "consensus transaction bytes at mempool check and delivery (live multiplexer, mutated transaction re-signed by a funded account)", cbor: true, live: true,
		path:  "mutated Transaction CBOR, signed -> abciMux.CheckTx / BeginBlock+DeliverTx -> executeTx -> processTx -> AuthenticateTx -> app.ExecuteTx",
		seeds: muxInner, run: muxRaw,
		reframe: func(inner []byte) []byte { return singleSign(lm.signers[0], transactionSigCtx(), inner) }})
	return ts
}

func hexText(s string) string { return hex.EncodeToString([]byte(s)) }

type rw struct{ r io.Reader }

func (x *rw) Read(p []byte) (int, error)  { return x.r.Read(p) }
func (x *rw) Write(p []byte) (int, error) { return len(p), nil }

func transactionSigCtx() signature.Context { return transaction.SignatureContext }

// chunkTarget: checkpoint chunk restore through the public Restorer API against an in-memory
// badger NodeDB. Seeds are the chunks of a real checkpoint; mutations are applied to the
// decompressed CBOR stream and re-framed with snappy (so that they get past the framing CRCs),
// and in one case in four to the compressed bytes directly. The chunk digest in the metadata
// is recomputed for every mutant, as the party serving a checkpoint controls both.
func chunkTarget(w *world, tree mkvs.Tree, root hash.Hash) *target {
	scratch := os.Getenv("VERIF_SCRATCH")
	if scratch == "" {
		scratch = os.TempDir()
	}
	dir, err := os.MkdirTemp(scratch, "codecx-cp")
	if err != nil {
		panic(err)
	}
	cleanupDirs = append(cleanupDirs, dir)
	src, err := badger.New(&dbApi.Config{DB: filepath.Join(dir, "src"), Namespace: w.rtID, MaxCacheSize: 1 << 24, NoFsync: true, MemoryOnly: true})
	if err != nil {
		panic(err)
	}
	t2 := mkvs.New(nil, src, mkvsNode.RootTypeState)
	for i := 0; i < 200; i++ {
		_ = t2.Insert(ctxBg, []byte(fmt.Sprintf("key %d", i)), bytes.Repeat([]byte{byte(i)}, i%50))
	}
	_, h, err := t2.Commit(ctxBg, w.rtID, 1)
	if err != nil {
		panic(err)
	}
	rootN := mkvsNode.Root{Namespace: w.rtID, Version: 1, Type: mkvsNode.RootTypeState, Hash: h}
	if err = src.Finalize([]mkvsNode.Root{rootN}); err != nil {
		panic(err)
	}
	creator, err := checkpoint.NewFileCreator(filepath.Join(dir, "cp"), src)
	if err != nil {
		panic(err)
	}
	meta, err := creator.CreateCheckpoint(ctxBg, rootN, 2048, 0)
	if err != nil {
		panic(err)
	}
	var seeds [][]byte
	for i := range meta.Chunks {
		cm, err := meta.GetChunkMetadata(uint64(i))
		if err != nil {
			panic(err)
		}
		var buf bytes.Buffer
		if err = creator.GetCheckpointChunk(ctxBg, cm, &buf); err != nil {
			panic(err)
		}
		// seed = decompressed CBOR stream
		plain, err := io.ReadAll(snappy.NewReader(bytes.NewReader(buf.Bytes())))
		if err != nil {
			panic(err)
		}
		seeds = append(seeds, plain)
		if len(seeds) >= 6 {
			break
		}
	}
	dst, err := badger.New(&dbApi.Config{DB: filepath.Join(dir, "dst"), Namespace: w.rtID, MaxCacheSize: 1 << 24, NoFsync: true, MemoryOnly: true})
	if err != nil {
		panic(err)
	}
	if err = dst.StartMultipartInsert(1); err != nil {
		panic(err)
	}
	return &target{name: "chunk", boundary: "checkpoint chunks", cbor: true,
		path:  "checkpoint.Restorer.RestoreChunk -> restoreChunk (snappy stream, CBOR entry stream, digest, ProofVerifier, NodeDB import)",
		seeds: seeds,
		reframe: func(inner []byte) []byte {
			n := len(inner)
			for _, x := range inner {
				n = n*31 + int(x)
			}
			if n < 0 {
				n = -n
			}
			var buf bytes.Buffer
			sw := snappy.NewBufferedWriter(&buf)
			_, _ = sw.Write(inner)
			_ = sw.Close()
			out := buf.Bytes()
			if n%4 == 0 && len(out) > 12 {
				// damage the compressed framing itself
				out[10+n%(len(out)-10)] ^= byte(1 << (n % 8))
			}
			return out
		},
		run: func(data []byte) string {
			rs, err := checkpoint.NewRestorer(dst)
			if err != nil {
				panic(err)
			}
			m := &checkpoint.Metadata{Version: meta.Version, Root: rootN, Chunks: []hash.Hash{hash.NewFromBytes(data)}}
			if err = rs.StartRestore(ctxBg, m); err != nil {
				panic(err)
			}
			if _, err = rs.RestoreChunk(ctxBg, 0, bytes.NewReader(data)); err != nil {
				return rej(err, "rejected")
			}
			return "restored"
		}}
}

var cleanupDirs []string

// lastErr keeps the error behind the most recent rejection (shown by -selftest).
var lastErr error

func rej(err error, class string) string {
	lastErr = err
	return class
}


// stubRuntime is a hosted runtime that answers every call with a fixed (untrusted) response body.
type stubRuntime struct {
	host.Runtime
	answer *protocol.Body
}

func (r *stubRuntime) GetActiveVersion() (*version.Version, error) { return &version.Version{}, nil }

func (r *stubRuntime) Call(context.Context, *protocol.Body) (*protocol.Body, error) {
	return r.answer, nil
}

func (r *stubRuntime) Abort(context.Context, bool) error { return nil }
