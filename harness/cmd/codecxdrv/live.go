package main

// live.go: runtime-host-protocol frames fed to a LIVE protocol.Connection (the real reader /
// dispatcher / writer goroutines over a net.Pipe), not just to the frame decoder.
//
// One case = one byte stream written by the untrusted peer after the connection is up:
//
//	host mode   the node's side: InitHost (the peer answers the RuntimeInfoRequest handshake), one
//	            host call left outstanding (request id known), then the stream;
//	guest mode  InitGuest (ready at once), then the stream.
//
// Oracle (the property text: decoded or rejected, bounded time and memory, never hangs, never
// corrupts subsequent processing):
//   - if the stream is a sequence of well-formed frames (decided by the real codec on the same
//     bytes) the connection must still answer a following valid request, and every request frame
//     of the stream must have been answered exactly once;
//   - Close() returns within a generous deadline whatever was fed;
//   - the outstanding host call returns once the connection is closed;
//   - no goroutine of the protocol package is left behind (runtime.NumGoroutine back at the
//     baseline after settling; on excess the goroutine dump is searched for protocol frames).
//
// Every failing attempt is repeated once on a fresh connection before it is reported.

import (
	"bytes"
	"context"
	"errors"
	"fmt"
	"io"
	"net"
	"os"
	"runtime"
	"strings"
	"sync"
	"syscall"
	"time"

	"github.com/oasisprotocol/oasis-core/go/common"
	"github.com/oasisprotocol/oasis-core/go/common/cbor"
	"github.com/oasisprotocol/oasis-core/go/common/version"
	"github.com/oasisprotocol/oasis-core/go/runtime/host/protocol"
)

const (
	liveDeadline = 20 * time.Second // every wait on the connection (generous: the machine may be loaded)
	livePingID   = 0x7e57_0000_0000_0001
)

// specFail is set by a target's run function when an oracle other than panic/time/allocation
// fails; execCase turns it into the failure of the case.
type specFailure struct{ sig, detail string }

var specFail *specFailure

// rearm restarts the watchdog's clock for the case in progress (multi-phase live targets).
var rearm = func() {}

// liveHandler answers the requests the connection dispatches: the handshake request with the
// runtime information, everything else by echoing the decoded body (which is marshalled again).
type liveHandler struct{}

func (liveHandler) Handle(_ context.Context, body *protocol.Body) (*protocol.Body, error) {
	if body.RuntimeInfoRequest != nil {
		return &protocol.Body{RuntimeInfoResponse: &protocol.RuntimeInfoResponse{ProtocolVersion: version.RuntimeHostProtocol}}, nil
	}
	if body.RuntimeAbortRequest != nil {
		return nil, errors.New("verif: abort refused")
	}
	return body, nil
}

// livePeer is the untrusted side of the pipe: it records what the connection sends.
type livePeer struct {
	sync.Mutex
	conn      net.Conn
	requests  []protocol.Message // requests issued by the connection
	responses map[uint64]int     // responses sent by the connection, by id
	nResp     int
	eof       bool
	changed   chan struct{}
	done      chan struct{}
}

func newLivePeer(c net.Conn) *livePeer {
	p := &livePeer{conn: c, responses: map[uint64]int{}, changed: make(chan struct{}, 1), done: make(chan struct{})}
	go func() {
		defer close(p.done)
		codec := cbor.NewMessageCodec(c, "verif-peer")
		for {
			var m protocol.Message
			err := codec.Read(&m)
			p.Lock()
			if err != nil {
				p.eof = true
			} else if m.MessageType == protocol.MessageRequest {
				p.requests = append(p.requests, m)
			} else {
				p.responses[m.ID]++
				p.nResp++
			}
			p.Unlock()
			select {
			case p.changed <- struct{}{}:
			default:
			}
			if err != nil {
				return
			}
		}
	}()
	return p
}

// wait blocks until cond (evaluated under the lock) holds, the connection side closed (when
// stopAtEOF), or the deadline passes.
func (p *livePeer) wait(cond func() bool, stopAtEOF bool) bool {
	t := time.NewTimer(liveDeadline)
	defer t.Stop()
	for {
		p.Lock()
		ok, eof := cond(), p.eof
		p.Unlock()
		if ok {
			return true
		}
		if eof && stopAtEOF {
			return false
		}
		select {
		case <-p.changed:
		case <-p.done:
			p.Lock()
			ok = cond()
			p.Unlock()
			return ok
		case <-t.C:
			return false
		}
	}
}

func liveFrame(m *protocol.Message) []byte {
	d := cbor.Marshal(m)
	out := []byte{byte(len(d) >> 24), byte(len(d) >> 16), byte(len(d) >> 8), byte(len(d))}
	return append(out, d...)
}

// refParse runs the real codec over the stream: number of request frames among the well-formed
// frames and how the stream ends ("clean": at a frame boundary after only well-formed frames;
// "truncated": inside a frame; "malformed": a frame the codec rejects).
func refParse(data []byte) (requests, frames int, end string) {
	r := bytes.NewReader(data)
	codec := cbor.NewMessageCodec(&rw{r: r}, "verif-ref")
	for {
		before := r.Len()
		var m protocol.Message
		err := codec.Read(&m)
		switch {
		case err == nil:
			frames++
			if m.MessageType == protocol.MessageRequest {
				requests++
			}
			continue
		case err == io.EOF && before == 0:
			return requests, frames, "clean"
		case r.Len() == 0 && (errors.Is(err, io.EOF) || errors.Is(err, io.ErrUnexpectedEOF)):
			return requests, frames, "truncated"
		default:
			return requests, frames, "malformed"
		}
	}
}

// protocolGoroutines returns the stacks of goroutines running code of the protocol package.
func protocolGoroutines() []string {
	buf := make([]byte, 1<<20)
	for {
		n := runtime.Stack(buf, true)
		if n < len(buf) {
			buf = buf[:n]
			break
		}
		buf = make([]byte, 2*len(buf))
	}
	var out []string
	for _, g := range strings.Split(string(buf), "\n\n") {
		if strings.Contains(g, "oasis-core/go/runtime/host/protocol.") {
			out = append(out, g)
		}
	}
	return out
}

var liveRuntimeID = common.NewTestNamespaceFromSeed([]byte("verif c16 live connection"), 0)

// liveOnce runs one stream against a fresh connection.
func liveOnce(host bool, data []byte) (class string, fail *specFailure) {
	rearm()
	baseline := runtime.NumGoroutine()
	// The transport alternates between attempts: a synchronous in-memory pipe, and a kernel-buffered
	// socket pair — there every frame of the stream is readable at once, so the dispatcher starts the
	// handlers of a burst of frames back to back and they run concurrently with the waiting caller,
	// which is what a burst of frames from a real runtime socket produces.
	liveAttempt++
	connA, connB := net.Pipe()
	if liveAttempt%2 == 0 {
		if a, b, err := socketPair(); err == nil {
			connA, connB = a, b
		}
	}
	conn, err := protocol.NewConnection(logger, liveRuntimeID, liveHandler{})
	if err != nil {
		panic(err)
	}
	peer := newLivePeer(connB)
	write := func(b []byte) error {
		_ = connB.SetWriteDeadline(time.Now().Add(liveDeadline))
		_, err := connB.Write(b)
		return err
	}
	closed := false
	var callDone chan error
	cancelCall := func() {}
	cleanup := func() {
		// Best effort when the case already failed: release whatever can be released.
		cancelCall()
		_ = connB.Close()
		if !closed {
			go conn.Close()
		}
	}
	if host {
		initDone := make(chan error, 1)
		go func() {
			_, err := conn.InitHost(context.Background(), connA, &protocol.HostInfo{ConsensusBackend: "cometbft", ConsensusChainContext: "verif"})
			initDone <- err
		}()
		if !peer.wait(func() bool { return len(peer.requests) >= 1 }, true) {
			cleanup()
			return "harness", &specFailure{"rhp-live-handshake", "host mode: no RuntimeInfoRequest arrived at the peer"}
		}
		peer.Lock()
		req := peer.requests[0]
		peer.Unlock()
		if err := write(liveFrame(&protocol.Message{ID: req.ID, MessageType: protocol.MessageResponse,
			Body: protocol.Body{RuntimeInfoResponse: &protocol.RuntimeInfoResponse{ProtocolVersion: version.RuntimeHostProtocol}}})); err != nil {
			cleanup()
			return "harness", &specFailure{"rhp-live-handshake", "host mode: handshake response could not be written: " + err.Error()}
		}
		select {
		case err := <-initDone:
			if err != nil {
				cleanup()
				return "harness", &specFailure{"rhp-live-handshake", "InitHost failed on a correct handshake: " + err.Error()}
			}
		case <-time.After(liveDeadline):
			cleanup()
			return "harness", &specFailure{"rhp-live-handshake", "InitHost did not return after a correct handshake response"}
		}
		// One host call stays outstanding while the stream arrives (its id is pending).
		var ctx context.Context
		ctx, cancelCall = context.WithCancel(context.Background())
		callDone = make(chan error, 1)
		go func() {
			_, err := conn.Call(ctx, &protocol.Body{RuntimePingRequest: &protocol.Empty{}})
			callDone <- err
		}()
		if !peer.wait(func() bool { return len(peer.requests) >= 2 }, true) {
			cleanup()
			return "harness", &specFailure{"rhp-live-handshake", "host mode: the outstanding call's request did not arrive at the peer"}
		}
	} else if err = conn.InitGuest(connA); err != nil {
		panic(err)
	}
	rearm()

	// The untrusted stream.
	wantReq, _, end := refParse(data)
	werr := write(data)
	class = end
	if end == "clean" && werr != nil {
		cleanup()
		return class, &specFailure{"rhp-live-dropped", fmt.Sprintf("the connection stopped reading a stream of well-formed frames: %v", werr)}
	}
	if end == "clean" {
		// Subsequent processing: a following valid request is answered, and so was every request of the stream.
		if err := write(liveFrame(&protocol.Message{ID: livePingID, MessageType: protocol.MessageRequest,
			Body: protocol.Body{RuntimePingRequest: &protocol.Empty{}}})); err != nil {
			cleanup()
			return class, &specFailure{"rhp-live-unresponsive", "a valid request after a stream of well-formed frames could not be written: " + err.Error()}
		}
		if !peer.wait(func() bool { return peer.responses[livePingID] >= 1 }, true) {
			cleanup()
			return class, &specFailure{"rhp-live-unresponsive", "a valid request after a stream of well-formed frames was not answered"}
		}
		rearm()
		if !peer.wait(func() bool { return peer.nResp >= wantReq+1 }, true) {
			peer.Lock()
			got := peer.nResp
			peer.Unlock()
			cleanup()
			return class, &specFailure{"rhp-live-lost-response", fmt.Sprintf("%d request frames (+1 follow-up) but only %d responses", wantReq, got)}
		}
		peer.Lock()
		got := peer.nResp
		peer.Unlock()
		if got > wantReq+1 {
			cleanup()
			return class, &specFailure{"rhp-live-extra-response", fmt.Sprintf("%d request frames (+1 follow-up) but %d responses", wantReq, got)}
		}
		class = "alive"
	}
	rearm()

	// Close() must return whatever was fed.
	closeDone := make(chan struct{})
	go func() {
		conn.Close()
		close(closeDone)
	}()
	select {
	case <-closeDone:
		closed = true
	case <-time.After(liveDeadline):
		closed = true // the Close() goroutine is still in there
		stacks := protocolGoroutines()
		cleanup()
		return class, &specFailure{"rhp-live-close-hang", fmt.Sprintf("Connection.Close() did not return within %v after the stream (%s); %d goroutines inside the protocol package, e.g. %s",
			liveDeadline, end, len(stacks), oneLine(first(stacks), 700))}
	}
	rearm()
	if callDone != nil {
		select {
		case <-callDone:
		case <-time.After(liveDeadline):
			cleanup()
			return class, &specFailure{"rhp-live-call-hang", "the outstanding host call did not return after Close()"}
		}
	}
	cancelCall()
	_ = connB.Close()
	select {
	case <-peer.done:
	case <-time.After(liveDeadline):
		return class, &specFailure{"rhp-live-harness", "peer reader did not stop"}
	}
	// Goroutines back at the baseline (settling: the runtime reaps exited goroutines lazily).
	t0 := time.Now()
	for runtime.NumGoroutine() > baseline {
		if time.Since(t0) > liveDeadline/2 {
			if stacks := protocolGoroutines(); len(stacks) > 0 {
				return class, &specFailure{"rhp-live-goroutine-leak", fmt.Sprintf("%d goroutines of the protocol package survive Close() (baseline %d, now %d), e.g. %s",
					len(stacks), baseline, runtime.NumGoroutine(), oneLine(stacks[0], 700))}
			}
			break // excess belongs to something else (background workers of other targets)
		}
		time.Sleep(time.Millisecond)
	}
	return class, nil
}

func first(l []string) string {
	if len(l) == 0 {
		return ""
	}
	return l[0]
}

func oneLine(s string, n int) string {
	s = strings.ReplaceAll(strings.ReplaceAll(s, "\n", " | "), "\t", "")
	if len(s) > n {
		s = s[:n]
	}
	return s
}

// runLive: one attempt, and on failure one more on a fresh connection (false-alarm discipline for
// deadline-based oracles on a loaded machine); only a failure that repeats is reported.
func runLive(host bool, data []byte) string {
	class, f := liveOnce(host, data)
	if f == nil {
		return class
	}
	liveRetries++
	class2, f2 := liveOnce(host, data)
	if f2 == nil {
		return class2
	}
	if f2.sig != f.sig {
		f2.detail += " (first attempt: " + f.sig + ")"
	}
	specFail = f2
	return "failed"
}

var liveRetries int

var liveAttempt int

// socketPair returns the two ends of a connected AF_UNIX stream socket pair.
func socketPair() (net.Conn, net.Conn, error) {
	fds, err := syscall.Socketpair(syscall.AF_UNIX, syscall.SOCK_STREAM, 0)
	if err != nil {
		return nil, nil, err
	}
	var conns [2]net.Conn
	for i, fd := range fds {
		f := os.NewFile(uintptr(fd), "verif-socketpair")
		c, err := net.FileConn(f)
		_ = f.Close()
		if err != nil {
			return nil, nil, err
		}
		conns[i] = c
	}
	return conns[0], conns[1], nil
}

// liveSeeds: streams of well-formed frames, including what a misbehaving runtime may send:
// responses nobody asked for, duplicated and late responses, unknown message types.
func liveSeeds(w *world) [][]byte {
	req := func(id uint64, b protocol.Body) []byte {
		return liveFrame(&protocol.Message{ID: id, MessageType: protocol.MessageRequest, Body: b})
	}
	rsp := func(id uint64, b protocol.Body) []byte {
		return liveFrame(&protocol.Message{ID: id, MessageType: protocol.MessageResponse, Body: b})
	}
	empty := protocol.Body{Empty: &protocol.Empty{}}
	ping := protocol.Body{RuntimePingRequest: &protocol.Empty{}}
	info := protocol.Body{RuntimeInfoRequest: &protocol.RuntimeInfoRequest{RuntimeID: w.rtID, ConsensusBackend: "cometbft",
		ConsensusChainContext: "ctx", LocalConfig: map[string]any{"a": []any{1, "x", map[string]any{"b": 2}}}}}
	errB := protocol.Body{Error: &protocol.Error{Module: "m", Code: 3, Message: "boom"}}
	cat := func(fs ...[]byte) []byte { return bytes.Join(fs, nil) }
	return [][]byte{
		cat(req(10, ping)),
		cat(req(10, ping), req(11, info), req(12, protocol.Body{HostStorageSyncRequest: &protocol.HostStorageSyncRequest{}})),
		cat(rsp(1, empty)),                                  // answers the outstanding host call (host mode), unsolicited otherwise
		cat(rsp(1, empty), rsp(1, empty), req(10, ping)),    // duplicate response
		// the same response replayed several times back to back (all copies reach the dispatcher before
		// the waiting caller has consumed the first one)
		cat(rsp(1, empty), rsp(1, empty), rsp(1, empty), req(10, ping)),
		bytes.Repeat(rsp(1, errB), 16),
		cat(bytes.Repeat(rsp(1, empty), 24), req(10, ping)),
		cat(rsp(0xdeadbeef, empty), req(10, ping)),          // response with an unknown id
		cat(req(10, ping), rsp(0, errB), rsp(2, errB)),      // late response to the finished handshake, response to a future id
		cat(req(7, ping), req(7, ping), req(7, empty)),      // duplicate request ids
		cat(liveFrame(&protocol.Message{ID: 5, MessageType: 0, Body: empty}), liveFrame(&protocol.Message{ID: 6, MessageType: 3, Body: empty}), req(10, ping)),
		cat(req(10, protocol.Body{RuntimeAbortRequest: &protocol.Empty{}}), req(11, protocol.Body{})),
		cat(req(10, ping), []byte{0x03, 0xff, 0xff, 0xff}), // then a frame declaring 64 MiB - 1 and nothing behind it
		cat(req(10, ping), []byte{0x04, 0x00, 0x00, 0x01}), // then a frame declaring more than the limit
	}
}
