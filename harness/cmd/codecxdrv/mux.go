package main

// mux.go: consensus transaction bytes at the property's observation point: CheckTx (and DeliverTx)
// of a LIVE ABCI multiplexer: abci.NewApplicationServer with the 8 real consensus applications
// and the real staking transaction-authentication handler, assembled the way
// go/consensus/cometbft/full/common.go does (condensed from harness/cmd/muxdrv/chain.go), on a
// genesis with one validator and funded accounts, after one committed block.
//
// Cases are STRUCTURED: a correctly signed transaction whose envelope fields are drawn from
// boundary values (signer funded / unfunded / the node itself / a validator entity; nonce right /
// wrong / huge; fee absent or amount 0 / 1 / balance-sized / 2^64 / 2^128 with gas 0 / 1 / ... /
// 2^64-1; every registered method, unknown and empty ones; body valid / zero value / empty /
// null / garbage / another method's body). CheckTx never changes the committed state and a
// delivery is an abandoned proposal (BeginBlock under a fresh block hash + DeliverTx, never
// committed), so every case sees the state after block 1 and replays on a fresh multiplexer.
//
// Oracle: no panic; bounded time and allocation (the runner's limits); afterwards a canary
// (a plain valid transfer) still passes CheckTx: "never corrupts subsequent processing".

import (
	"context"
	"encoding/hex"
	"encoding/json"
	"fmt"
	"math/big"
	"net"
	"os"
	"reflect"
	"sort"
	"strconv"
	"strings"
	"time"

	"github.com/cometbft/cometbft/abci/types"
	cmtproto "github.com/cometbft/cometbft/proto/tendermint/types"

	"verifharness/hlib"

	beacon "github.com/oasisprotocol/oasis-core/go/beacon/api"
	"github.com/oasisprotocol/oasis-core/go/common"
	"github.com/oasisprotocol/oasis-core/go/common/cbor"
	"github.com/oasisprotocol/oasis-core/go/common/crypto/hash"
	"github.com/oasisprotocol/oasis-core/go/common/crypto/signature"
	memorySigner "github.com/oasisprotocol/oasis-core/go/common/crypto/signature/signers/memory"
	"github.com/oasisprotocol/oasis-core/go/common/entity"
	"github.com/oasisprotocol/oasis-core/go/common/identity"
	"github.com/oasisprotocol/oasis-core/go/common/node"
	"github.com/oasisprotocol/oasis-core/go/common/persistent"
	"github.com/oasisprotocol/oasis-core/go/common/quantity"
	consensus "github.com/oasisprotocol/oasis-core/go/consensus/api"
	"github.com/oasisprotocol/oasis-core/go/consensus/api/transaction"
	"github.com/oasisprotocol/oasis-core/go/consensus/cometbft/abci"
	cmtapi "github.com/oasisprotocol/oasis-core/go/consensus/cometbft/api"
	beaconApp "github.com/oasisprotocol/oasis-core/go/consensus/cometbft/apps/beacon"
	governanceApp "github.com/oasisprotocol/oasis-core/go/consensus/cometbft/apps/governance"
	keymanagerApp "github.com/oasisprotocol/oasis-core/go/consensus/cometbft/apps/keymanager"
	registryApp "github.com/oasisprotocol/oasis-core/go/consensus/cometbft/apps/registry"
	roothashApp "github.com/oasisprotocol/oasis-core/go/consensus/cometbft/apps/roothash"
	schedulerApp "github.com/oasisprotocol/oasis-core/go/consensus/cometbft/apps/scheduler"
	stakingApp "github.com/oasisprotocol/oasis-core/go/consensus/cometbft/apps/staking"
	vaultApp "github.com/oasisprotocol/oasis-core/go/consensus/cometbft/apps/vault"
	tmbeacon "github.com/oasisprotocol/oasis-core/go/consensus/cometbft/beacon"
	cmtcrypto "github.com/oasisprotocol/oasis-core/go/consensus/cometbft/crypto"
	consensusGenesis "github.com/oasisprotocol/oasis-core/go/consensus/genesis"
	genesis "github.com/oasisprotocol/oasis-core/go/genesis/api"
	governance "github.com/oasisprotocol/oasis-core/go/governance/api"
	"github.com/oasisprotocol/oasis-core/go/keymanager/churp"
	"github.com/oasisprotocol/oasis-core/go/keymanager/secrets"
	registry "github.com/oasisprotocol/oasis-core/go/registry/api"
	roothash "github.com/oasisprotocol/oasis-core/go/roothash/api"
	"github.com/oasisprotocol/oasis-core/go/roothash/api/commitment"
	scheduler "github.com/oasisprotocol/oasis-core/go/scheduler/api"
	staking "github.com/oasisprotocol/oasis-core/go/staking/api"
	upgradeMgr "github.com/oasisprotocol/oasis-core/go/upgrade"
	vault "github.com/oasisprotocol/oasis-core/go/vault/api"
)

type nopNotifier struct{}

func (nopNotifier) DeliverExecutorCommitment(common.Namespace, *commitment.ExecutorCommitment) {}

func qq(n uint64) quantity.Quantity { return *quantity.NewFromUint64(n) }

const (
	muxFunded      = 3         // signers 0..2: funded accounts
	muxUnfunded    = 3         // signer 3: no account in the ledger
	muxOwnNode     = 4         // signer 4: the node's own transaction signer (funded)
	muxEntity      = 5         // signer 5: the validator's entity (funded, escrow)
	muxCanary      = 6         // signer 6: funded account used only by the harness' canary transaction
	muxBalance     = 5_000_000 // general balance of the funded accounts
	muxMaxTxSize   = 32 * 1024
	muxMinGasPrice = 1
)

// liveMux is the multiplexer under test.
type liveMux struct {
	srv      *abci.ApplicationServer
	mux      types.Application
	signers  []signature.Signer
	ent      *entity.Entity
	consAddr []byte
	doc      *genesis.Document
	now      time.Time
	blockNo  int
	methods  []string
	// canaryNonce: CheckTx of an accepted transaction advances the signer's nonce and deducts the fee
	// in the check state until the next Commit; the canary account is used by nothing else.
	canaryNonce uint64
	height      int64
	dir      string
	cancel   context.CancelFunc
}

func (m *liveMux) address(i int) staking.Address { return staking.NewAddress(m.signers[i].Public()) }

func newLiveMux() *liveMux {
	m := &liveMux{now: time.Unix(1700000000, 0).UTC()}
	ts := func(n string) signature.Signer { return memorySigner.NewTestSigner("verif c16 mux " + n) }
	id := &identity.Identity{NodeSigner: ts("node"), P2PSigner: ts("p2p"), ConsensusSigner: ts("consensus"), VRFSigner: ts("vrf"), TLSSigner: ts("tls")}
	entSigner := ts("entity")
	m.ent = &entity.Entity{Versioned: cbor.NewVersioned(entity.LatestDescriptorVersion), ID: entSigner.Public(), Nodes: []signature.PublicKey{id.NodeSigner.Public()}}
	m.signers = []signature.Signer{ts("account 0"), ts("account 1"), ts("account 2"), ts("unfunded"), id.NodeSigner, entSigner, ts("canary")}
	pk := id.ConsensusSigner.Public()
	m.consAddr = []byte(cmtcrypto.PublicKeyToCometBFT(&pk).Address())

	ledger := map[staking.Address]*staking.Account{}
	delegs := map[staking.Address]map[staking.Address]*staking.Delegation{}
	var total uint64
	add := func(a staking.Address, general, escrow uint64) {
		acct := &staking.Account{}
		acct.General.Balance = qq(general)
		total += general
		if escrow > 0 {
			acct.Escrow.Active.Balance = qq(escrow)
			acct.Escrow.Active.TotalShares = qq(escrow)
			delegs[a] = map[staking.Address]*staking.Delegation{a: {Shares: qq(escrow)}}
			total += escrow
		}
		ledger[a] = acct
	}
	for i := 0; i < muxFunded; i++ {
		add(m.address(i), muxBalance, 0)
	}
	add(m.address(muxOwnNode), muxBalance, 0)
	add(m.address(muxCanary), muxBalance, 0)
	add(m.address(muxEntity), muxBalance, 100_000)
	const commonPool = 10_000_000
	total += commonPool
	doc := &genesis.Document{
		Height:  1,
		ChainID: "verif-c16",
		Time:    m.now,
		Beacon: beacon.Genesis{Base: 1, Parameters: beacon.ConsensusParameters{
			Backend: beacon.BackendInsecure, InsecureParameters: &beacon.InsecureParameters{Interval: 1 << 40}}},
		Registry: registry.Genesis{Parameters: registry.ConsensusParameters{
			DebugAllowUnroutableAddresses: true, DebugAllowTestRuntimes: true, DebugDeployImmediately: true, MaxNodeExpiration: 1000,
			EnableRuntimeGovernanceModels: map[registry.RuntimeGovernanceModel]bool{registry.GovernanceEntity: true, registry.GovernanceRuntime: true},
			TEEFeatures:                   &node.TEEFeatures{SGX: node.TEEFeaturesSGX{PCS: true}, FreshnessProofs: true},
		}},
		Scheduler: scheduler.Genesis{Parameters: scheduler.ConsensusParameters{MinValidators: 1, MaxValidators: 3, MaxValidatorsPerEntity: 100}},
		Governance: governance.Genesis{Parameters: governance.ConsensusParameters{
			StakeThreshold: 67, UpgradeCancelMinEpochDiff: 20, UpgradeMinEpochDiff: 20, VotingPeriod: 1,
			MinProposalDeposit: qq(100), EnableChangeParametersProposal: true}},
		RootHash: roothash.Genesis{Parameters: roothash.ConsensusParameters{DebugDoNotSuspendRuntimes: true, MaxRuntimeMessages: 32, MaxInRuntimeMessages: 32}},
		Consensus: consensusGenesis.Genesis{Backend: cmtapi.BackendName, Parameters: consensusGenesis.Parameters{
			TimeoutCommit: time.Millisecond, SkipTimeoutCommit: true, MaxBlockSize: 21 << 20, MaxEvidenceSize: 1 << 20,
			MaxTxSize: muxMaxTxSize, MinGasPrice: muxMinGasPrice, GasCosts: transaction.Costs{consensusGenesis.GasOpTxByte: 1}}},
		Staking: staking.Genesis{
			Parameters: staking.ConsensusParameters{
				DebondingInterval: 2,
				Thresholds: map[staking.ThresholdKind]quantity.Quantity{
					staking.KindEntity: qq(1), staking.KindNodeValidator: qq(2), staking.KindNodeCompute: qq(3), staking.KindNodeObserver: qq(4),
					staking.KindNodeKeyManager: qq(5), staking.KindRuntimeCompute: qq(6), staking.KindRuntimeKeyManager: qq(7), staking.KindKeyManagerChurp: qq(8),
				},
				MinDelegationAmount: qq(10), MinTransferAmount: qq(10), MinTransactBalance: qq(100), MaxAllowances: 32,
				FeeSplitWeightVote: qq(2), FeeSplitWeightNextPropose: qq(1), FeeSplitWeightPropose: qq(1),
				RewardFactorEpochSigned: qq(0), RewardFactorBlockProposed: qq(0), // committed state stays the genesis state
				SigningRewardThresholdNumerator: 1, SigningRewardThresholdDenominator: 2,
				RewardSchedule:          []staking.RewardStep{{Until: 1000, Scale: qq(1000)}},
				CommissionScheduleRules: staking.CommissionScheduleRules{RateChangeInterval: 1, RateBoundLead: 1, MaxRateSteps: 4, MaxBoundSteps: 4},
			},
			TokenSymbol: "VERIF", CommonPool: qq(commonPool), Ledger: ledger, Delegations: delegs,
		},
		Vault: &vault.Genesis{Parameters: vault.DefaultConsensusParameters},
	}
	doc.Staking.TotalSupply = qq(total)
	signedEnt, err := entity.SignEntity(entSigner, registry.RegisterGenesisEntitySignatureContext, m.ent)
	if err != nil {
		panic(err)
	}
	doc.Registry.Entities = append(doc.Registry.Entities, signedEnt)
	var ca, pa node.Address
	_ = ca.FromIP(net.ParseIP("127.0.0.1"), 9001)
	_ = pa.FromIP(net.ParseIP("127.0.0.1"), 9101)
	n := &node.Node{
		Versioned: cbor.NewVersioned(node.LatestNodeDescriptorVersion), ID: id.NodeSigner.Public(), EntityID: m.ent.ID, Expiration: 900,
		TLS: node.TLSInfo{PubKey: id.TLSSigner.Public()}, P2P: node.P2PInfo{ID: id.P2PSigner.Public(), Addresses: []node.Address{pa}},
		Consensus: node.ConsensusInfo{ID: id.ConsensusSigner.Public(), Addresses: []node.ConsensusAddress{{ID: id.ConsensusSigner.Public(), Address: ca}}},
		VRF:       node.VRFInfo{ID: id.VRFSigner.Public()}, Roles: node.RoleValidator,
	}
	signedNode, err := node.MultiSignNode([]signature.Signer{id.NodeSigner, id.P2PSigner, id.ConsensusSigner, id.VRFSigner, id.TLSSigner}, registry.RegisterGenesisNodeSignatureContext, n)
	if err != nil {
		panic(err)
	}
	doc.Registry.Nodes = append(doc.Registry.Nodes, signedNode)
	m.doc = doc
	signature.SetChainContext(doc.ChainContext())

	scratch := os.Getenv("VERIF_SCRATCH")
	if scratch == "" {
		scratch = os.TempDir()
	}
	if m.dir, err = os.MkdirTemp(scratch, "codecx-mux"); err != nil {
		panic(err)
	}
	cleanupDirs = append(cleanupDirs, m.dir)
	ctx, cancel := context.WithCancel(context.Background())
	m.cancel = cancel
	store, err := persistent.NewCommonStore(m.dir)
	if err != nil {
		panic(err)
	}
	upgrader, err := upgradeMgr.New(store, m.dir, false)
	if err != nil {
		panic(err)
	}
	srv, err := abci.NewApplicationServer(ctx, upgrader, &abci.ApplicationConfig{
		DataDir: m.dir, StorageBackend: "badger", MemoryOnlyStorage: true, Pruning: abci.PruneConfig{PruneInterval: time.Hour},
		Identity: id, MinGasPrice: 2, DisableCheckpointer: true, InitialHeight: doc.Height, ChainContext: doc.ChainContext(),
	})
	if err != nil {
		panic(err)
	}
	state, md := srv.State(), srv.MessageDispatcher()
	stk := stakingApp.New(state, md)
	for _, app := range []cmtapi.Application{beaconApp.New(), governanceApp.New(state, md), keymanagerApp.New(state), registryApp.New(state, md),
		roothashApp.New(state, md, nopNotifier{}), schedulerApp.New(state, md), stk, vaultApp.New(state, md)} {
		if err = srv.Register(app); err != nil {
			panic(err)
		}
		app.Subscribe()
	}
	if err = srv.SetEpochtime(tmbeacon.New(doc.Beacon.Base, doc.Height, nil, tmbeacon.NewStateQueryFactory(state))); err != nil {
		panic(err)
	}
	if err = srv.SetTransactionAuthHandler(stk); err != nil {
		panic(err)
	}
	if err = srv.Start(); err != nil {
		panic(err)
	}
	m.srv, m.mux = srv, srv.Mux()
	raw, err := json.Marshal(doc)
	if err != nil {
		panic(err)
	}
	m.mux.InitChain(types.RequestInitChain{Time: doc.Time, ChainId: doc.ChainID, AppStateBytes: raw, InitialHeight: doc.Height})

	// Block 1 (empty, proposed by this node) so that the consensus parameters are in force.
	m.commitEmpty()

	for _, l := range [][]transaction.MethodName{staking.Methods, registry.Methods, roothash.Methods, governance.Methods, beacon.Methods,
		vault.Methods, secrets.Methods, churp.Methods} {
		for _, x := range l {
			m.methods = append(m.methods, string(x))
		}
	}
	sort.Strings(m.methods)
	if log := m.canary(); log != "" {
		panic("harness: canary transaction fails CheckTx on the fresh multiplexer: " + log)
	}
	m.commitEmpty()
	return m
}

// commitEmpty proposes, executes and commits an empty block (the block metadata transaction
// only); Commit resets the CheckTx state to the committed state.
func (m *liveMux) commitEmpty() {
	m.height++
	m.now = m.now.Add(time.Second)
	val := types.Validator{Address: m.consAddr, Power: 1}
	var ext types.ExtendedCommitInfo
	var lc types.CommitInfo
	if m.height > 1 {
		ext.Votes = []types.ExtendedVoteInfo{{Validator: val, SignedLastBlock: true}}
		lc.Votes = []types.VoteInfo{{Validator: val, SignedLastBlock: true}}
	}
	prep := m.mux.PrepareProposal(types.RequestPrepareProposal{MaxTxBytes: 22020096, Height: m.height, Time: m.now, ProposerAddress: m.consAddr, LocalLastCommit: ext})
	if len(prep.Txs) != 1 {
		panic(fmt.Sprintf("harness: PrepareProposal of an empty block returned %d transactions", len(prep.Txs)))
	}
	bh := hash.NewFromBytes([]byte(fmt.Sprintf("verif c16 block %d", m.height)))
	if r := m.mux.ProcessProposal(types.RequestProcessProposal{Hash: bh[:], Height: m.height, Time: m.now, ProposerAddress: m.consAddr, Txs: prep.Txs, ProposedLastCommit: lc}); r.Status != types.ResponseProcessProposal_ACCEPT {
		panic("harness: own empty block rejected")
	}
	m.mux.BeginBlock(types.RequestBeginBlock{Hash: bh[:], Header: cmtproto.Header{Height: m.height, Time: m.now, ProposerAddress: m.consAddr}, LastCommitInfo: lc})
	for _, tx := range prep.Txs {
		if r := m.mux.DeliverTx(types.RequestDeliverTx{Tx: tx}); r.Code != 0 {
			panic("harness: block metadata transaction rejected: " + r.Log)
		}
	}
	m.mux.EndBlock(types.RequestEndBlock{Height: m.height})
	m.mux.Commit()
	m.canaryNonce = 0
}

// canary: a plain valid transfer from the harness' own account must pass CheckTx.
func (m *liveMux) canary() string {
	raw := m.build(&muxCase{signer: muxCanary, nonce: m.canaryNonce, fee: true, amount: big.NewInt(2000), gas: 1000, method: string(staking.MethodTransfer), body: "valid"})
	r := m.mux.CheckTx(types.RequestCheckTx{Tx: raw})
	if r.Code != 0 {
		return fmt.Sprintf("%s/%d %s", r.Codespace, r.Code, r.Log)
	}
	m.canaryNonce++
	return ""
}

// muxCase is the structured description of one transaction (the replayable case text).
type muxCase struct {
	signer int
	nonce  uint64
	fee    bool
	amount *big.Int
	gas    uint64
	method string
	body   string // valid | zero | empty | null | garbage | transfer | <hex>
	mode   string // check | recheck | deliver
}

func (c *muxCase) String() string {
	fee := "nil"
	if c.fee {
		fee = c.amount.String() + "/" + strconv.FormatUint(c.gas, 10)
	}
	meth := c.method
	if meth == "" {
		meth = "-"
	}
	return fmt.Sprintf("s=%d,n=%d,fee=%s,m=%s,b=%s,x=%s", c.signer, c.nonce, fee, hex.EncodeToString([]byte(meth)), c.body, c.mode)
}

func parseMuxCase(s string) (*muxCase, error) {
	c := &muxCase{amount: new(big.Int), mode: "check"}
	for _, kv := range strings.Split(s, ",") {
		k, v, ok := strings.Cut(kv, "=")
		if !ok {
			return nil, fmt.Errorf("bad field %q", kv)
		}
		var err error
		switch k {
		case "s":
			c.signer, err = strconv.Atoi(v)
			if c.signer < 0 || c.signer > muxCanary {
				err = fmt.Errorf("signer out of range")
			}
		case "n":
			c.nonce, err = strconv.ParseUint(v, 10, 64)
		case "fee":
			if v == "nil" {
				break
			}
			a, g, ok := strings.Cut(v, "/")
			if !ok {
				return nil, fmt.Errorf("bad fee")
			}
			c.fee = true
			if _, ok = c.amount.SetString(a, 10); !ok || c.amount.Sign() < 0 {
				return nil, fmt.Errorf("bad fee amount")
			}
			c.gas, err = strconv.ParseUint(g, 10, 64)
		case "m":
			var b []byte
			b, err = hex.DecodeString(v)
			if c.method = string(b); c.method == "-" {
				c.method = ""
			}
		case "b":
			c.body = v
		case "x":
			c.mode = v
		default:
			err = fmt.Errorf("unknown field %q", k)
		}
		if err != nil {
			return nil, err
		}
	}
	return c, nil
}

// validBody returns a semantically valid body for the methods the harness knows how to fill,
// the zero value of the registered body type otherwise.
func (m *liveMux) validBody(method string) []byte {
	to := m.address(2)
	switch transaction.MethodName(method) {
	case staking.MethodTransfer:
		return cbor.Marshal(&staking.Transfer{To: to, Amount: qq(1000)})
	case staking.MethodBurn:
		return cbor.Marshal(&staking.Burn{Amount: qq(10)})
	case staking.MethodAddEscrow:
		return cbor.Marshal(&staking.Escrow{Account: m.address(muxEntity), Amount: qq(100)})
	case staking.MethodReclaimEscrow:
		return cbor.Marshal(&staking.ReclaimEscrow{Account: m.address(muxEntity), Shares: qq(5)})
	case staking.MethodAllow:
		return cbor.Marshal(&staking.Allow{Beneficiary: to, AmountChange: qq(10)})
	case staking.MethodWithdraw:
		return cbor.Marshal(&staking.Withdraw{From: to, Amount: qq(10)})
	case staking.MethodAmendCommissionSchedule:
		return cbor.Marshal(&staking.AmendCommissionSchedule{Amendment: staking.CommissionSchedule{
			Rates:  []staking.CommissionRateStep{{Start: 10, Rate: qq(1000)}},
			Bounds: []staking.CommissionRateBoundStep{{Start: 10, RateMin: qq(0), RateMax: qq(100000)}}}})
	case registry.MethodRegisterEntity:
		se, err := entity.SignEntity(m.signers[muxEntity], registry.RegisterEntitySignatureContext, m.ent)
		if err != nil {
			panic(err)
		}
		return cbor.Marshal(se)
	case governance.MethodCastVote:
		return cbor.Marshal(&governance.ProposalVote{ID: 1, Vote: governance.VoteYes})
	case governance.MethodSubmitProposal:
		return cbor.Marshal(&governance.ProposalContent{CancelUpgrade: &governance.CancelUpgradeProposal{ProposalID: 1}})
	}
	return m.zeroBody(method)
}

func (m *liveMux) zeroBody(method string) []byte {
	bt := transaction.MethodName(method).BodyType()
	if bt == nil {
		return cbor.Marshal(map[string]any{})
	}
	return cbor.Marshal(reflect.New(reflect.TypeOf(bt)).Interface())
}

// build signs the described transaction.
func (m *liveMux) build(c *muxCase) []byte {
	tx := &transaction.Transaction{Nonce: c.nonce, Method: transaction.MethodName(c.method)}
	if c.fee {
		tx.Fee = &transaction.Fee{Gas: transaction.Gas(c.gas)}
		if err := tx.Fee.Amount.FromBigInt(c.amount); err != nil {
			panic(err)
		}
	}
	switch c.body {
	case "valid":
		tx.Body = m.validBody(c.method)
	case "zero":
		tx.Body = m.zeroBody(c.method)
	case "empty", "":
		tx.Body = nil
	case "null":
		tx.Body = []byte{0xf6}
	case "garbage":
		tx.Body = []byte{0xa1, 0x61, 0x78, 0x9b, 0xff, 0xff, 0xff, 0xff, 0xff, 0xff, 0xff, 0xff}
	case "transfer":
		tx.Body = cbor.Marshal(&staking.Transfer{To: m.address(0), Amount: qq(1000)})
	default:
		b, err := hex.DecodeString(c.body)
		if err != nil {
			panic("bad body in case: " + c.body)
		}
		tx.Body = b
	}
	st, err := transaction.Sign(m.signers[c.signer], tx)
	if err != nil {
		panic(err)
	}
	return cbor.Marshal(st)
}

// exec feeds raw transaction bytes to the multiplexer in the given mode and returns the outcome
// class; the canary check follows.
func (m *liveMux) exec(raw []byte, mode string) string {
	var code uint32
	var space, logLine string
	if mode == "deliver" && isSystemTx(raw) {
		// System transactions in a block are validated by panicking (abci/system.go: "the panics
		// below will either trigger a bad proposal being rejected ..."): they are observed where the
		// node handles that panic, in ProcessProposal of a block proposed by an untrusted proposer.
		mode = "proposal"
	}
	switch mode {
	case "proposal":
		m.blockNo++
		bh := hash.NewFromBytes([]byte(fmt.Sprintf("verif c16 abandoned block %d", m.blockNo)))
		val := types.Validator{Address: m.consAddr, Power: 1}
		r := m.mux.ProcessProposal(types.RequestProcessProposal{Hash: bh[:], Height: m.height + 1, Time: m.now.Add(time.Second), ProposerAddress: m.consAddr,
			Txs: [][]byte{raw}, ProposedLastCommit: types.CommitInfo{Votes: []types.VoteInfo{{Validator: val, SignedLastBlock: true}}}})
		code, space, logLine = uint32(r.Status), "proposal", r.Status.String()
		if r.Status == types.ResponseProcessProposal_REJECT {
			code = 1
		} else {
			code = 0
		}
	case "deliver":
		// An abandoned proposal: fresh block hash, BeginBlock, DeliverTx; never committed.
		m.blockNo++
		bh := hash.NewFromBytes([]byte(fmt.Sprintf("verif c16 abandoned block %d", m.blockNo)))
		val := types.Validator{Address: m.consAddr, Power: 1}
		m.mux.BeginBlock(types.RequestBeginBlock{Hash: bh[:], Header: cmtproto.Header{Height: m.height + 1, Time: m.now.Add(time.Second), ProposerAddress: m.consAddr},
			LastCommitInfo: types.CommitInfo{Votes: []types.VoteInfo{{Validator: val, SignedLastBlock: true}}}})
		r := m.mux.DeliverTx(types.RequestDeliverTx{Tx: raw})
		code, space, logLine = r.Code, r.Codespace, r.Log
	case "recheck":
		r := m.mux.CheckTx(types.RequestCheckTx{Tx: raw, Type: types.CheckTxType_Recheck})
		code, space, logLine = r.Code, r.Codespace, r.Log
	default:
		r := m.mux.CheckTx(types.RequestCheckTx{Tx: raw, Type: types.CheckTxType_New})
		code, space, logLine = r.Code, r.Codespace, r.Log
	}
	if log := m.canary(); log != "" {
		specFail = &specFailure{"mux-canary-" + mode, "after the case a plain valid transfer no longer passes CheckTx: " + log}
	}
	if (code == 0 && mode != "deliver") || m.canaryNonce >= 500 {
		m.commitEmpty() // an accepted CheckTx changed the check state (nonce, fee): reset it
	}
	if code == 0 {
		return "accepted"
	}
	lastErr = fmt.Errorf("%s", logLine)
	return fmt.Sprintf("rejected:%s/%d", space, code)
}

// isSystemTx decodes the envelope the way decodeTx does (without the signature check) and tells
// whether the method is one of the consensus system methods.
func isSystemTx(raw []byte) bool {
	var st transaction.SignedTransaction
	if cbor.Unmarshal(raw, &st) != nil {
		return false
	}
	var tx transaction.Transaction
	if cbor.Unmarshal(st.Blob, &tx) != nil {
		return false
	}
	_, sys := consensus.SystemMethods[tx.Method]
	return sys
}

func (m *liveMux) runStructured(data []byte) string {
	c, err := parseMuxCase(string(data))
	if err != nil {
		specFail = &specFailure{"bad-case", "unparsable mux case: " + err.Error()}
		return "bad-case"
	}
	return m.exec(m.build(c), c.mode)
}

// Boundary values of the envelope fields.
var (
	muxNonces  = []uint64{0, 0, 0, 1, 1 << 63, 1<<64 - 1}
	muxGas     = []uint64{0, 1, 2, 1000, 100_000, 1 << 31, 1 << 63, 1<<64 - 1}
	muxAmounts = func() []*big.Int {
		var out []*big.Int
		for _, s := range []string{"0", "1", "2", "1000", "4999900", "4999901", "5000000", "5000001", "18446744073709551615", "18446744073709551616",
			"340282366920938463463374607431768211455", "340282366920938463463374607431768211456"} {
			v, _ := new(big.Int).SetString(s, 10)
			out = append(out, v)
		}
		return out
	}()
	muxBodies = []string{"valid", "valid", "zero", "empty", "null", "garbage", "transfer"}
)

func (m *liveMux) methodChoices() []string {
	return append([]string{"", "x", "staking.", "staking.Nope", "consensus.Meta", "unknown.Method", strings.Repeat("m", 300)}, m.methods...)
}

// sweep: the deterministic core: for a funded signer with the right nonce, every (amount, gas)
// pair and the absent fee, on a known and an unknown method, in every mode; and every method with
// every body kind under an ordinary fee.
func (m *liveMux) sweep() [][]byte {
	var out [][]byte
	for _, mode := range []string{"check", "deliver", "recheck"} {
		for _, meth := range []string{string(staking.MethodTransfer), "unknown.Method"} {
			for _, s := range []int{0, muxOwnNode} {
				out = append(out, []byte((&muxCase{signer: s, method: meth, body: "valid", mode: mode}).String()))
				for _, a := range muxAmounts {
					for _, g := range muxGas {
						out = append(out, []byte((&muxCase{signer: s, fee: true, amount: a, gas: g, method: meth, body: "valid", mode: mode}).String()))
					}
				}
			}
		}
	}
	for _, meth := range m.methodChoices() {
		for _, b := range muxBodies[1:] {
			for _, mode := range []string{"check", "deliver"} {
				out = append(out, []byte((&muxCase{signer: 0, fee: true, amount: big.NewInt(200_000), gas: 100_000, method: meth, body: b, mode: mode}).String()))
			}
		}
	}
	return out
}

// gen draws one case from the product of the boundary sets.
func (m *liveMux) gen(r *hlib.Rng) ([]byte, string) {
	ms := m.methodChoices()
	c := &muxCase{
		signer: []int{0, 0, 1, 2, muxUnfunded, muxOwnNode, muxEntity}[r.Intn(7)],
		nonce:  muxNonces[r.Intn(len(muxNonces))],
		fee:    !r.Chance(1, 8),
		amount: muxAmounts[r.Intn(len(muxAmounts))],
		gas:    muxGas[r.Intn(len(muxGas))],
		method: ms[r.Intn(len(ms))],
		body:   muxBodies[r.Intn(len(muxBodies))],
		mode:   []string{"check", "check", "check", "recheck", "deliver", "deliver"}[r.Intn(6)],
	}
	if r.Bool() {
		c.amount = muxAmounts[r.Intn(5)] // affordable: gets past the balance check
	}
	return []byte(c.String()), "boundary-fields"
}
