// rhdrv: property C10 ("no block content can halt block execution") for the roothash application.
//
// The REAL roothash application is driven together with the real registry, staking, governance and
// scheduler applications on one mock application state, wired through the multiplexer's real message
// dispatcher the way full/common.go registers them (Subscribe() of every application), through
//
//	BeginBlock (all applications, multiplexer order) / DeliverTx (ExecuteTx of the owning application)
//	/ EndBlock (all applications)
//
// over generated multi-epoch histories: runtimes registered and updated THROUGH the real registry
// transaction (VerifyRuntime / registerRuntime) with parameter values spread over their full type range,
// real committee elections by the scheduler application (epoch transitions and slashing-triggered
// mid-epoch re-elections after consensus misbehaviour evidence), rounds that succeed, time out, end in
// discrepancies with backup resolution and slashing, runtime messages of every kind, incoming messages,
// equivocation evidence, liveness evaluation at epoch end.
//
// Spec (model-free): no BeginBlock/EndBlock call returns an error (the multiplexer panics on any) and
// nothing panics in BeginBlock/DeliverTx/EndBlock; a failing transaction or message only fails itself.
// Signature `c10-fatal:<app>:<phase>:<short text>` (app = roothash for the roothash application).
package main

import (
	"errors"
	"flag"
	"fmt"
	"math"
	"os"
	"regexp"
	"runtime/debug"
	"sort"
	"strconv"
	"strings"
	"time"

	"github.com/cometbft/cometbft/abci/types"

	"verifharness/hlib"

	beacon "github.com/oasisprotocol/oasis-core/go/beacon/api"
	"github.com/oasisprotocol/oasis-core/go/common"
	"github.com/oasisprotocol/oasis-core/go/common/cbor"
	"github.com/oasisprotocol/oasis-core/go/common/crypto/hash"
	"github.com/oasisprotocol/oasis-core/go/common/crypto/signature"
	memorySigner "github.com/oasisprotocol/oasis-core/go/common/crypto/signature/signers/memory"
	"github.com/oasisprotocol/oasis-core/go/common/entity"
	"github.com/oasisprotocol/oasis-core/go/common/node"
	"github.com/oasisprotocol/oasis-core/go/common/quantity"
	"github.com/oasisprotocol/oasis-core/go/common/version"
	"github.com/oasisprotocol/oasis-core/go/consensus/api/transaction"
	"github.com/oasisprotocol/oasis-core/go/consensus/cometbft/abci"
	abciAPI "github.com/oasisprotocol/oasis-core/go/consensus/cometbft/api"
	beaconState "github.com/oasisprotocol/oasis-core/go/consensus/cometbft/apps/beacon/state"
	consensusState "github.com/oasisprotocol/oasis-core/go/consensus/cometbft/apps/consensus/state"
	governanceApp "github.com/oasisprotocol/oasis-core/go/consensus/cometbft/apps/governance"
	governanceState "github.com/oasisprotocol/oasis-core/go/consensus/cometbft/apps/governance/state"
	registryApp "github.com/oasisprotocol/oasis-core/go/consensus/cometbft/apps/registry"
	registryState "github.com/oasisprotocol/oasis-core/go/consensus/cometbft/apps/registry/state"
	roothashApp "github.com/oasisprotocol/oasis-core/go/consensus/cometbft/apps/roothash"
	roothashState "github.com/oasisprotocol/oasis-core/go/consensus/cometbft/apps/roothash/state"
	schedulerApp "github.com/oasisprotocol/oasis-core/go/consensus/cometbft/apps/scheduler"
	schedulerState "github.com/oasisprotocol/oasis-core/go/consensus/cometbft/apps/scheduler/state"
	stakingApp "github.com/oasisprotocol/oasis-core/go/consensus/cometbft/apps/staking"
	stakingState "github.com/oasisprotocol/oasis-core/go/consensus/cometbft/apps/staking/state"
	cmtcrypto "github.com/oasisprotocol/oasis-core/go/consensus/cometbft/crypto"
	consensusGenesis "github.com/oasisprotocol/oasis-core/go/consensus/genesis"
	governance "github.com/oasisprotocol/oasis-core/go/governance/api"
	registry "github.com/oasisprotocol/oasis-core/go/registry/api"
	roothash "github.com/oasisprotocol/oasis-core/go/roothash/api"
	"github.com/oasisprotocol/oasis-core/go/roothash/api/block"
	"github.com/oasisprotocol/oasis-core/go/roothash/api/commitment"
	"github.com/oasisprotocol/oasis-core/go/roothash/api/message"
	scheduler "github.com/oasisprotocol/oasis-core/go/scheduler/api"
	staking "github.com/oasisprotocol/oasis-core/go/staking/api"
	upgrade "github.com/oasisprotocol/oasis-core/go/upgrade/api"
)

const (
	nEnt  = 5 // entities; entity i owns nodes 2i and 2i+1 (entity 4 only node 8)
	nNode = 9
	nRt   = 3
)

// cast: keys shared by all cases.
var cast struct {
	ent      []signature.Signer
	node     []signature.Signer
	cons     []signature.Signer
	p2p      []signature.Signer
	tls      []signature.Signer
	vrf      []signature.Signer
	consAddr [][]byte
	nodeIdx  map[signature.PublicKey]int
	rt       []common.Namespace
	outsider signature.Signer
}

const chainContext = "verif rhdrv chain context 00000000000000000000000000000000000000"

func setup() {
	var cc hash.Hash
	cc.FromBytes([]byte("verif rhdrv chain context"))
	signature.SetChainContext(cc.String())
	cast.nodeIdx = map[signature.PublicKey]int{}
	for i := 0; i < nEnt; i++ {
		cast.ent = append(cast.ent, memorySigner.NewTestSigner(fmt.Sprintf("verif rhdrv entity %d", i)))
	}
	for i := 0; i < nNode; i++ {
		cast.node = append(cast.node, memorySigner.NewTestSigner(fmt.Sprintf("verif rhdrv node %d", i)))
		cast.cons = append(cast.cons, memorySigner.NewTestSigner(fmt.Sprintf("verif rhdrv consensus %d", i)))
		cast.p2p = append(cast.p2p, memorySigner.NewTestSigner(fmt.Sprintf("verif rhdrv p2p %d", i)))
		cast.tls = append(cast.tls, memorySigner.NewTestSigner(fmt.Sprintf("verif rhdrv tls %d", i)))
		cast.vrf = append(cast.vrf, memorySigner.NewTestSigner(fmt.Sprintf("verif rhdrv vrf %d", i)))
		pk := cast.cons[i].Public()
		cast.consAddr = append(cast.consAddr, []byte(cmtcrypto.PublicKeyToCometBFT(&pk).Address()))
		cast.nodeIdx[cast.node[i].Public()] = i
	}
	for i := 0; i < nRt; i++ {
		cast.rt = append(cast.rt, common.NewTestNamespaceFromSeed([]byte(fmt.Sprintf("verif rhdrv runtime %d", i)), 0))
	}
	cast.outsider = memorySigner.NewTestSigner("verif rhdrv outsider")
}

func entOfNode(n int) int { return n / 2 }

func q(n uint64) quantity.Quantity { return *quantity.NewFromUint64(n) }

func must(err error) {
	if err != nil {
		panic(err)
	}
}

func atoi(s string) int {
	n, err := strconv.Atoi(s)
	if err != nil {
		panic("bad number " + s)
	}
	return n
}

func atou(s string) uint64 {
	switch s {
	case "max64":
		return math.MaxUint64
	case "maxi64":
		return math.MaxInt64
	case "max32":
		return math.MaxUint32
	case "max16":
		return math.MaxUint16
	}
	n, err := strconv.ParseUint(s, 10, 64)
	if err != nil {
		panic("bad number " + s)
	}
	return n
}

// ---------------------------------------------------------------- the world

type app interface {
	Name() string
	BeginBlock(*abciAPI.Context) error
	EndBlock(*abciAPI.Context) (types.ResponseEndBlock, error)
	ExecuteTx(*abciAPI.Context, *transaction.Transaction) error
}

type roundCfg struct {
	round  uint64
	msgset int
	inmsgs int
}

type world struct {
	cfg       *abciAPI.MockApplicationStateConfig
	appState  abciAPI.MockApplicationState
	apps      []app // multiplexer (lexicographic) order
	byName    map[string]app
	height    int64
	epoch     beacon.EpochTime
	inBlock   bool
	rcfg      map[int]*roundCfg
	seenRound [nRt]uint64
	stopped   bool   // precondition of the property no longer holds: the rest of the case is skipped
	fatal     string // first fatal error / panic: "<sig>|<detail>"
	counters  map[string]int
}

func (w *world) count(k string) { w.counters[k]++ }

var reHex = regexp.MustCompile(`[0-9a-fA-F]{16,}|oasis1[0-9a-z]+|[A-Za-z0-9+/]{40,}=*`)
var reNum = regexp.MustCompile(`[0-9]+`)

func shortText(s string) string {
	s = reHex.ReplaceAllString(s, "#")
	s = reNum.ReplaceAllString(s, "N")
	s = strings.Join(strings.Fields(s), "_")
	if len(s) > 120 {
		s = s[:64] + ".." + s[len(s)-54:]
	}
	return s
}

func (w *world) setFatal(appName, phase, text string) {
	if w.fatal != "" {
		return
	}
	name := appName
	if i := strings.Index(name, "_"); i >= 0 {
		name = name[i+1:]
	}
	w.fatal = fmt.Sprintf("c10-fatal:%s:%s:%s|%s", name, phase, shortText(text), text)
}

// guard runs f; a panic is recorded as fatal for (app, phase).
func (w *world) guard(appName, phase string, f func() error) (err error) {
	defer func() {
		if r := recover(); r != nil {
			if os.Getenv("VERIF_DEBUG") != "" {
				fmt.Fprintf(os.Stderr, "PANIC %v\n%s\n", r, debug.Stack())
			}
			w.setFatal(appName, phase, fmt.Sprintf("panic: %v", r))
			err = fmt.Errorf("panic: %v", r)
		}
	}()
	return f()
}

type params struct {
	doNotSuspend bool
	consSlash    uint64 // staking slash amount for consensus equivocation
	stake        uint64 // escrow of every entity
	debond       uint64
	maxMsgs      uint32
	maxInMsgs    uint32
	evAge        uint64
}

func parseKV(s string) map[string]string {
	m := map[string]string{}
	if s == "-" || s == "" {
		return m
	}
	for _, kv := range strings.Split(s, ",") {
		p := strings.SplitN(kv, "=", 2)
		if len(p) == 2 {
			m[p[0]] = p[1]
		}
	}
	return m
}

func newWorld(kv map[string]string) *world {
	get := func(k string, d uint64) uint64 {
		if v, ok := kv[k]; ok {
			return atou(v)
		}
		return d
	}
	p := params{
		doNotSuspend: get("nosuspend", 1) == 1,
		consSlash:    get("cslash", 100),
		stake:        get("stake", 10000),
		debond:       get("debond", 1),
		maxMsgs:      uint32(get("maxmsgs", 32)),
		maxInMsgs:    uint32(get("maxin", 32)),
		evAge:        get("evage", 100),
	}
	w := &world{cfg: &abciAPI.MockApplicationStateConfig{BaseEpoch: 1, CurrentEpoch: 2}, rcfg: map[int]*roundCfg{}, counters: map[string]int{}, byName: map[string]app{}}
	w.appState = abciAPI.NewMockApplicationState(w.cfg)
	w.epoch = 2
	w.height = 10
	w.cfg.LastHeight = w.height

	md := abci.VerifNewMessageDispatcher()
	apps := []interface {
		app
		Subscribe()
	}{
		stakingApp.New(w.appState, md),
		registryApp.New(w.appState, md),
		schedulerApp.New(w.appState, md),
		governanceApp.New(w.appState, md),
		roothashApp.New(w.appState, md, nil),
	}
	for _, a := range apps {
		a.Subscribe()
		w.apps = append(w.apps, a)
		w.byName[a.Name()] = a
	}
	sort.Slice(w.apps, func(i, j int) bool { return w.apps[i].Name() < w.apps[j].Name() })

	ctx := w.appState.NewContext(abciAPI.ContextInitChain)
	defer ctx.Close()
	cs := consensusState.NewMutableState(ctx.State())
	must(cs.SetChainContext(ctx, chainContext))
	must(cs.SetConsensusParameters(ctx, &consensusGenesis.Parameters{FeatureVersion: &version.Version{Major: 100}}))

	bs := beaconState.NewMutableState(ctx.State())
	must(bs.SetConsensusParameters(ctx, &beacon.ConsensusParameters{Backend: beacon.BackendInsecure, InsecureParameters: &beacon.InsecureParameters{Interval: 10}}))
	must(bs.DebugForceSetBeacon(ctx, entropy(2)))
	must(bs.SetEpoch(ctx, w.epoch, w.height))

	ss := stakingState.NewMutableState(ctx.State())
	ths := map[staking.ThresholdKind]quantity.Quantity{}
	for _, k := range []staking.ThresholdKind{
		staking.KindEntity, staking.KindNodeValidator, staking.KindNodeCompute, staking.KindNodeObserver,
		staking.KindNodeKeyManager, staking.KindRuntimeCompute, staking.KindRuntimeKeyManager, staking.KindKeyManagerChurp,
	} {
		ths[k] = q(10)
	}
	must(ss.SetConsensusParameters(ctx, &staking.ConsensusParameters{
		Thresholds:        ths,
		DebondingInterval: beacon.EpochTime(p.debond),
		Slashing: map[staking.SlashReason]staking.Slash{
			staking.SlashConsensusEquivocation: {Amount: q(p.consSlash), FreezeInterval: 0},
		},
		MinDelegationAmount:               q(1),
		MinTransferAmount:                 q(1),
		MaxAllowances:                     16,
		AllowEscrowMessages:               true,
		FeeSplitWeightVote:                q(1),
		FeeSplitWeightNextPropose:         q(1),
		FeeSplitWeightPropose:             q(1),
		RewardFactorEpochSigned:           q(1),
		RewardFactorBlockProposed:         q(1),
		SigningRewardThresholdNumerator:   1,
		SigningRewardThresholdDenominator: 2,
		RewardSchedule:                    []staking.RewardStep{{Until: 1000, Scale: q(10)}},
		CommissionScheduleRules:           staking.CommissionScheduleRules{RateChangeInterval: 1, RateBoundLead: 1, MaxRateSteps: 4, MaxBoundSteps: 4},
	}))
	total := quantity.NewQuantity()
	for i := 0; i < nEnt; i++ {
		addr := staking.NewAddress(cast.ent[i].Public())
		acct := &staking.Account{}
		acct.General.Balance = q(1_000_000)
		stake := p.stake
		if i == nEnt-1 {
			stake = p.stake / 4 // a poorer entity
		}
		acct.Escrow.Active.Balance = q(stake)
		acct.Escrow.Active.TotalShares = q(stake)
		// the stake claims real entity and node registrations leave behind (a poor entity may be
		// below them: claims are only re-checked at epoch transitions)
		acct.Escrow.StakeAccumulator.AddClaimUnchecked(registry.StakeClaimRegisterEntity, staking.GlobalStakeThresholds(staking.KindEntity))
		for n := 0; n < nNode; n++ {
			if entOfNode(n) == i {
				acct.Escrow.StakeAccumulator.AddClaimUnchecked(registry.StakeClaimForNode(cast.node[n].Public()),
					staking.GlobalStakeThresholds(staking.KindNodeValidator, staking.KindNodeCompute))
			}
		}
		must(ss.SetAccount(ctx, addr, acct))
		must(ss.SetDelegation(ctx, addr, addr, &staking.Delegation{Shares: q(stake)}))
		_ = total.Add(quantity.NewFromUint64(1_000_000 + stake))
	}
	for i := 0; i < nRt; i++ {
		acct := &staking.Account{}
		acct.General.Balance = q(50_000)
		must(ss.SetAccount(ctx, staking.NewRuntimeAddress(cast.rt[i]), acct))
		_ = total.Add(quantity.NewFromUint64(50_000))
	}
	oa := &staking.Account{}
	oa.General.Balance = q(1_000_000)
	must(ss.SetAccount(ctx, staking.NewAddress(cast.outsider.Public()), oa))
	_ = total.Add(quantity.NewFromUint64(1_000_000))
	cp := q(10_000_000)
	must(ss.SetCommonPool(ctx, &cp))
	_ = total.Add(&cp)
	must(ss.SetTotalSupply(ctx, total))

	rs := registryState.NewMutableState(ctx.State())
	must(rs.SetConsensusParameters(ctx, &registry.ConsensusParameters{
		DebugAllowUnroutableAddresses: true,
		DebugAllowTestRuntimes:        true,
		DebugDeployImmediately:        true,
		MaxNodeExpiration:             1000,
		MaxRuntimeDeployments:         20,
		EnableRuntimeGovernanceModels: map[registry.RuntimeGovernanceModel]bool{
			registry.GovernanceEntity: true, registry.GovernanceRuntime: true,
		},
	}))
	for i := 0; i < nEnt; i++ {
		ent := &entity.Entity{Versioned: cbor.NewVersioned(entity.LatestDescriptorVersion), ID: cast.ent[i].Public()}
		for n := 0; n < nNode; n++ {
			if entOfNode(n) == i {
				ent.Nodes = append(ent.Nodes, cast.node[n].Public())
			}
		}
		se, err := entity.SignEntity(cast.ent[i], registry.RegisterGenesisEntitySignatureContext, ent)
		must(err)
		must(rs.SetEntity(ctx, ent, se))
	}
	exp := map[int]uint64{}
	if v, ok := kv["exp"]; ok { // exp=<node>:<epoch>;<node>:<epoch>  (last epoch in which the node's registration is valid)
		for _, it := range strings.Split(v, ";") {
			p := strings.Split(it, ":")
			exp[atoi(p[0])] = atou(p[1])
		}
	}
	for n := 0; n < nNode; n++ {
		nd := w.nodeDescriptor(n)
		if e, ok := exp[n]; ok {
			nd.Expiration = beacon.EpochTime(e)
		}
		must(rs.SetNode(ctx, nil, nd, &node.MultiSignedNode{MultiSigned: signature.MultiSigned{Blob: cbor.Marshal(nd)}}))
		must(rs.SetNodeStatus(ctx, nd.ID, &registry.NodeStatus{}))
	}

	must(schedulerState.NewMutableState(ctx.State()).SetConsensusParameters(ctx, &scheduler.ConsensusParameters{
		MinValidators:          1,
		MaxValidators:          7,
		MaxValidatorsPerEntity: 2,
	}))
	must(governanceState.NewMutableState(ctx.State()).SetConsensusParameters(ctx, &governance.ConsensusParameters{
		MinProposalDeposit:             q(100),
		VotingPeriod:                   2,
		StakeThreshold:                 90,
		UpgradeMinEpochDiff:            3,
		UpgradeCancelMinEpochDiff:      2,
		EnableChangeParametersProposal: true,
		AllowVoteWithoutEntity:         true,
		AllowProposalMetadata:          true,
	}))
	must(roothashState.NewMutableState(ctx.State()).SetConsensusParameters(ctx, &roothash.ConsensusParameters{
		DebugDoNotSuspendRuntimes: p.doNotSuspend,
		MaxRuntimeMessages:        p.maxMsgs,
		MaxInRuntimeMessages:      p.maxInMsgs,
		MaxEvidenceAge:            p.evAge,
		MaxPastRootsStored:        4,
	}))
	return w
}

func entropy(e uint64) []byte {
	h := hash.NewFromBytes([]byte(fmt.Sprintf("verif rhdrv entropy %d", e)))
	return h[:]
}

func (w *world) nodeDescriptor(n int) *node.Node {
	nd := &node.Node{
		Versioned:  cbor.NewVersioned(node.LatestNodeDescriptorVersion),
		ID:         cast.node[n].Public(),
		EntityID:   cast.ent[entOfNode(n)].Public(),
		Expiration: 900,
		TLS:        node.TLSInfo{PubKey: cast.tls[n].Public()},
		P2P:        node.P2PInfo{ID: cast.p2p[n].Public()},
		Consensus:  node.ConsensusInfo{ID: cast.cons[n].Public()},
		VRF:        node.VRFInfo{ID: cast.vrf[n].Public()},
		Roles:      node.RoleComputeWorker | node.RoleValidator,
	}
	for i := 0; i < nRt; i++ {
		nd.Runtimes = append(nd.Runtimes, &node.Runtime{ID: cast.rt[i]})
	}
	return nd
}

// ---------------------------------------------------------------- runtime descriptors

func (w *world) runtimeDescriptor(rt int, kv map[string]string) *registry.Runtime {
	get := func(k string, d uint64) uint64 {
		if v, ok := kv[k]; ok {
			return atou(v)
		}
		return d
	}
	owner := rt % nEnt
	d := &registry.Runtime{
		Versioned: cbor.NewVersioned(registry.LatestRuntimeDescriptorVersion),
		ID:        cast.rt[rt],
		EntityID:  cast.ent[owner].Public(),
		Kind:      registry.KindCompute,
		Executor: registry.ExecutorParameters{
			GroupSize:                  uint16(get("gs", 2)),
			GroupBackupSize:            uint16(get("gb", 2)),
			AllowedStragglers:          uint16(get("st", 0)),
			RoundTimeout:               int64(get("rto", 3)),
			MaxMessages:                uint32(get("mm", 16)),
			MinLiveRoundsPercent:       uint8(get("mlr", 50)),
			MaxMissedProposalsPercent:  uint8(get("mmp", 0)),
			MinLiveRoundsForEvaluation: get("mle", 1),
			MaxLivenessFailures:        uint8(get("mlf", 1)),
		},
		TxnScheduler: registry.TxnSchedulerParameters{
			BatchFlushTimeout: time.Second, MaxBatchSize: 100, MaxBatchSizeBytes: 100_000_000, ProposerTimeout: 2 * time.Second,
			MaxInMessages: uint32(get("maxin", 8)),
		},
		Deployments:     []*registry.VersionInfo{{ValidFrom: 0}},
		AdmissionPolicy: registry.RuntimeAdmissionPolicy{AnyNode: &registry.AnyNodeRuntimeAdmissionPolicy{}},
		GovernanceModel: registry.GovernanceEntity,
	}
	if get("gov", 0) == 1 {
		d.GovernanceModel = registry.GovernanceRuntime
	}
	d.Staking.RewardSlashBadResultsRuntimePercent = uint8(get("rbr", 10))
	d.Staking.RewardSlashEquvocationRuntimePercent = uint8(get("req", 10))
	d.Staking.MinInMessageFee = q(get("minfee", 0))
	d.Staking.Slashing = map[staking.SlashReason]staking.Slash{}
	if v := get("sbad", 50); v > 0 {
		d.Staking.Slashing[staking.SlashRuntimeIncorrectResults] = staking.Slash{Amount: q(v), FreezeInterval: beacon.EpochTime(get("fbad", 0))}
	}
	if v := get("seq", 50); v > 0 {
		d.Staking.Slashing[staking.SlashRuntimeEquivocation] = staking.Slash{Amount: q(v), FreezeInterval: beacon.EpochTime(get("feq", 0))}
	}
	if v := get("slive", 20); v > 0 || get("flive", 0) > 0 {
		d.Staking.Slashing[staking.SlashRuntimeLiveness] = staking.Slash{Amount: q(v), FreezeInterval: beacon.EpochTime(get("flive", 1))}
	}
	if v, ok := kv["thr"]; ok {
		d.Staking.Thresholds = map[staking.ThresholdKind]quantity.Quantity{staking.KindNodeCompute: q(atou(v))}
	}
	if v, ok := kv["maxnodes"]; ok {
		d.Constraints = map[scheduler.CommitteeKind]map[scheduler.Role]registry.SchedulingConstraints{
			scheduler.KindComputeExecutor: {
				scheduler.RoleWorker:       {MaxNodes: &registry.MaxNodesConstraint{Limit: uint16(atou(v))}, MinPoolSize: &registry.MinPoolSizeConstraint{Limit: uint16(get("minpool", 1))}},
				scheduler.RoleBackupWorker: {MaxNodes: &registry.MaxNodesConstraint{Limit: uint16(atou(v))}, MinPoolSize: &registry.MinPoolSizeConstraint{Limit: uint16(get("minpool", 1))}},
			},
		}
	}
	if get("otherid", 0) == 1 {
		d.ID = cast.rt[(rt+1)%nRt]
	}
	return d
}

// ---------------------------------------------------------------- blocks

// isFatalErr: every error from BeginBlock/EndBlock halts the chain, except the scheduled halt for an
// upgrade and the documented precondition of the property (a validator set can be elected), which
// ends the case.
func (w *world) isFatalErr(err error) bool {
	if err == nil || errors.Is(err, upgrade.ErrStopForUpgrade) {
		return false
	}
	if strings.Contains(err.Error(), "failed to elect any validators") || strings.Contains(err.Error(), "insufficient validators") {
		w.count("precondition:no-validator-set-electable")
		w.stopped = true
		return false
	}
	return true
}

// begin starts a block: new block context, then BeginBlock of every application in multiplexer order.
func (w *world) begin(epochChange bool, misbehaving []int) {
	if w.inBlock {
		w.end()
	}
	w.height++
	if epochChange {
		w.epoch++
	}
	w.cfg.LastHeight = w.height - 1
	w.cfg.CurrentEpoch = w.epoch
	w.cfg.EpochChanged = epochChange
	info := abciAPI.BlockInfo{
		Time:            time.Unix(1_700_000_000+w.height*6, 0),
		ProposerAddress: cast.consAddr[int(w.height)%nNode],
		GasAccountant:   abciAPI.NewNopGasAccountant(),
	}
	for n := 0; n < nNode; n++ {
		info.LastCommitInfo.Votes = append(info.LastCommitInfo.Votes, types.VoteInfo{
			Validator: types.Validator{Address: cast.consAddr[n], Power: 1}, SignedLastBlock: n != int(w.height)%7,
		})
	}
	for _, n := range misbehaving {
		addr := []byte("unknown validator xx")
		if n < nNode {
			addr = cast.consAddr[n]
		}
		info.ValidatorMisbehavior = append(info.ValidatorMisbehavior, types.Misbehavior{
			Type: types.MisbehaviorType_DUPLICATE_VOTE, Validator: types.Validator{Address: addr, Power: 1},
		})
	}
	*w.appState.BlockContext() = *abciAPI.NewBlockContext(info)
	w.inBlock = true

	if epochChange {
		// what the beacon application does on an epoch transition
		ctx := w.appState.NewContext(abciAPI.ContextBeginBlock)
		bs := beaconState.NewMutableState(ctx.State())
		must(bs.SetEpoch(ctx, w.epoch, w.height))
		must(bs.DebugForceSetBeacon(ctx, entropy(uint64(w.epoch))))
		ctx.Close()
	}

	ctx := w.appState.NewContext(abciAPI.ContextBeginBlock)
	defer ctx.Close()
	for _, a := range w.apps {
		a := a
		err := w.guard(a.Name(), "BeginBlock", func() error { return a.BeginBlock(ctx) })
		if w.isFatalErr(err) {
			w.setFatal(a.Name(), "BeginBlock", err.Error())
		}
		if w.fatal != "" {
			return
		}
	}
	for _, ev := range ctx.GetEvents() {
		for _, at := range ev.Attributes {
			if at.Key == "take_escrow" {
				w.count("begin-event:take_escrow(" + ev.Type + ")")
			}
		}
	}
	if ctx.HasEvent(schedulerApp.AppName, &scheduler.ElectedEvent{}) {
		if epochChange {
			w.count("election:epoch")
		} else {
			w.count("election:mid-epoch-after-slashing")
		}
	}
}

func (w *world) end() {
	if !w.inBlock {
		return
	}
	w.inBlock = false
	ctx := w.appState.NewContext(abciAPI.ContextEndBlock)
	defer ctx.Close()
	for _, a := range w.apps {
		a := a
		err := w.guard(a.Name(), "EndBlock", func() error { _, e := a.EndBlock(ctx); return e })
		if w.isFatalErr(err) {
			w.setFatal(a.Name(), "EndBlock", err.Error())
		}
		if w.fatal != "" {
			return
		}
	}
	for _, ev := range ctx.GetEvents() {
		for _, at := range ev.Attributes {
			switch at.Key {
			case "finalized", "execution_discrepancy", "message", "in_msg_processed", "take_escrow":
				w.count("event:" + at.Key)
			}
		}
	}
	w.cfg.EpochChanged = false
	w.countRoundResults()
	if specC11 {
		w.checkTimers()
	}
}

// specC11: property C11's timeout clause on the real roothash application: "once the round timer has
// expired it never just keeps waiting". After EndBlock of height h no runtime that is not suspended
// may still have a round timeout at a height <= h: the timer either fired in this EndBlock (the round
// finalized, failed, or went to discrepancy resolution with the timer re-armed in the future) or was
// cleared.
var specC11 bool

func (w *world) checkTimers() {
	ctx := w.appState.NewContext(abciAPI.ContextEndBlock)
	defer ctx.Close()
	st := roothashState.NewMutableState(ctx.State())
	for rt := 0; rt < nRt; rt++ {
		rs, err := st.RuntimeState(ctx, cast.rt[rt])
		if err != nil || rs.Suspended {
			continue
		}
		if rs.NextTimeout == roothash.TimeoutNever {
			w.count("c11:timer-cleared")
			continue
		}
		if rs.NextTimeout < 0 {
			// height + RoundTimeout overflowed int64 (the registry accepts any positive RoundTimeout):
			// such a round has no timer that could expire at a reachable height; a corner of the
			// parameter validation outside this property's quantifier, counted and recorded in DESIGN.md
			w.count("c11:timer-overflowed-int64(outside-quantifier)")
			continue
		}
		if rs.NextTimeout <= w.height {
			round := uint64(0)
			if rs.LastBlock != nil {
				round = rs.LastBlock.Header.Round + 1
			}
			if w.fatal == "" {
				w.fatal = fmt.Sprintf("c11-round-timer-expired-but-still-waiting|runtime %d: after EndBlock of height %d the round timeout of round %d is still %d: the timer expired without the round being decided (finalized, failed or handed to the backup workers with a re-armed timer)", rt, w.height, round, rs.NextTimeout)
			}
			return
		}
		w.count("c11:timer-in-the-future")
	}
}

// countRoundResults counts, per finished round, the block type and the results of its runtime messages.
func (w *world) countRoundResults() {
	ctx := w.appState.NewContext(abciAPI.ContextEndBlock)
	defer ctx.Close()
	st := roothashState.NewMutableState(ctx.State())
	for rt := 0; rt < nRt; rt++ {
		rs, err := st.RuntimeState(ctx, cast.rt[rt])
		if err != nil || rs.LastBlock == nil || rs.LastBlock.Header.Round == w.seenRound[rt] {
			continue
		}
		w.seenRound[rt] = rs.LastBlock.Header.Round
		w.count(fmt.Sprintf("block-type:%d", rs.LastBlock.Header.HeaderType))
		if rs.LastBlock.Header.HeaderType != block.Normal {
			continue
		}
		res, err := st.LastRoundResults(ctx, cast.rt[rt])
		if err != nil {
			continue
		}
		for _, m := range res.Messages {
			if m.IsSuccess() {
				w.count("msg-result:ok")
			} else {
				w.count("msg-result:failed:" + m.Module)
			}
		}
		if len(res.BadComputeEntities) > 0 {
			w.count("round-with-bad-compute-entities")
		}
	}
}

// specC08: property C08 on the non-staking applications. Every transaction that fails in DeliverTx
// must leave the complete consensus state (every key of the application state tree) unchanged; the
// driver calls ExecuteTx directly, so no fee or nonce is charged and "unchanged" is exact.
var specC08 bool

func (w *world) snapshot() map[string]string {
	ctx := w.appState.NewContext(abciAPI.ContextEndBlock)
	defer ctx.Close()
	it := ctx.State().NewIterator(ctx)
	defer it.Close()
	m := map[string]string{}
	for it.Rewind(); it.Valid(); it.Next() {
		m[string(it.Key())] = string(it.Value())
	}
	return m
}

// checkUnchanged reports the first (smallest) key on which the state differs from the snapshot.
func (w *world) checkUnchanged(before map[string]string, method string) {
	after := w.snapshot()
	var diff []string
	for k, v := range before {
		if v2, ok := after[k]; !ok {
			diff = append(diff, k+"\x00removed")
		} else if v2 != v {
			diff = append(diff, k+"\x00changed")
		}
	}
	for k := range after {
		if _, ok := before[k]; !ok {
			diff = append(diff, k+"\x00added")
		}
	}
	if len(diff) == 0 {
		w.count("c08:failed-tx-state-unchanged")
		return
	}
	sort.Strings(diff)
	p := strings.SplitN(diff[0], "\x00", 2)
	if w.fatal == "" {
		w.fatal = fmt.Sprintf("c08-failed-tx-changed-state:%s:key-prefix-%02x:%s|failed %s transaction left %d state keys different, first: key %x %s", method, p[0][0], p[1], method, len(diff), p[0], p[1])
	}
}

// deliver runs one transaction through the owning application's ExecuteTx (DeliverTx).
func (w *world) deliver(appName string, signer signature.PublicKey, method transaction.MethodName, body any) string {
	if !w.inBlock {
		w.begin(false, nil)
		if w.fatal != "" {
			return "fatal"
		}
	}
	a := w.byName[appName]
	ctx := w.appState.NewContext(abciAPI.ContextDeliverTx)
	defer ctx.Close()
	ctx.SetTxSigner(signer)
	tx := &transaction.Transaction{Method: method, Body: cbor.Marshal(body)}
	var before map[string]string
	if specC08 {
		before = w.snapshot()
	}
	err := w.guard(appName, "DeliverTx", func() error { return a.ExecuteTx(ctx, tx) })
	if w.fatal != "" {
		return "fatal"
	}
	if err != nil && specC08 {
		w.checkUnchanged(before, string(method))
		if w.fatal != "" {
			return "fatal"
		}
	}
	if err != nil {
		if abciAPI.IsUnavailableStateError(err) {
			w.setFatal(appName, "DeliverTx", "unavailable state: "+err.Error())
			return "fatal"
		}
		w.count("tx-failed:" + string(method))
		if os.Getenv("VERIF_DEBUG") != "" {
			fmt.Fprintf(os.Stderr, "tx %s failed: %v\n", method, err)
		}
		return "failed"
	}
	w.count("tx-ok:" + string(method))
	return "ok"
}

// ---------------------------------------------------------------- runtime rounds

func (w *world) rtState(rt int) *roothash.RuntimeState {
	ctx := w.appState.NewContext(abciAPI.ContextEndBlock)
	defer ctx.Close()
	st, err := roothashState.NewMutableState(ctx.State()).RuntimeState(ctx, cast.rt[rt])
	if err != nil {
		return nil
	}
	return st
}

func stateRoot(kind int) hash.Hash {
	return hash.NewFromBytes([]byte(fmt.Sprintf("verif rhdrv state root %d", kind)))
}

// messages returns the runtime messages of a message set.
func (w *world) messages(rt, set int) []message.Message {
	ent := func(i int) staking.Address { return staking.NewAddress(cast.ent[i%nEnt].Public()) }
	transfer := func(to staking.Address, amt uint64) message.Message {
		return message.Message{Staking: &message.StakingMessage{Transfer: &staking.Transfer{To: to, Amount: q(amt)}}}
	}
	up := func(kv string) message.Message {
		d := w.runtimeDescriptor(rt, parseKV(kv))
		return message.Message{Registry: &message.RegistryMessage{UpdateRuntime: d}}
	}
	vote := func(id uint64, v governance.Vote) message.Message {
		return message.Message{Governance: &message.GovernanceMessage{CastVote: &governance.ProposalVote{ID: id, Vote: v}}}
	}
	prop := func(c governance.ProposalContent) message.Message {
		return message.Message{Governance: &message.GovernanceMessage{SubmitProposal: &c}}
	}
	upgradeProp := governance.ProposalContent{Upgrade: &governance.UpgradeProposal{Descriptor: upgrade.Descriptor{
		Versioned: cbor.NewVersioned(upgrade.LatestDescriptorVersion),
		Handler:   "verif-rhdrv-handler",
		Target:    version.Versions,
		Epoch:     w.epoch + 5,
	}}}
	rhChange := governance.ProposalContent{ChangeParameters: &governance.ChangeParametersProposal{
		Module:  roothash.ModuleName,
		Changes: cbor.Marshal(roothash.ConsensusParameterChanges{MaxRuntimeMessages: ptr(uint32(16))}),
	}}
	badChange := governance.ProposalContent{ChangeParameters: &governance.ChangeParametersProposal{
		Module: "nonexistent", Changes: cbor.Marshal(map[string]int{"x": 1}),
	}}
	switch set {
	case 0:
		return nil
	case 1:
		return []message.Message{transfer(ent(0), 10)}
	case 2:
		return []message.Message{transfer(ent(1), math.MaxUint64)}
	case 3:
		return []message.Message{{Staking: &message.StakingMessage{Withdraw: &staking.Withdraw{From: ent(2), Amount: q(5)}}}}
	case 4:
		return []message.Message{{Staking: &message.StakingMessage{AddEscrow: &staking.Escrow{Account: ent(1), Amount: q(100)}}}}
	case 5:
		return []message.Message{{Staking: &message.StakingMessage{ReclaimEscrow: &staking.ReclaimEscrow{Account: ent(1), Shares: q(50)}}}}
	case 6:
		return []message.Message{up("gov=1,gs=3,gb=3")}
	case 7:
		return []message.Message{up("gov=1,rbr=200"), up("gov=1,otherid=1")}
	case 8:
		return []message.Message{vote(42, governance.VoteYes)}
	case 9:
		return []message.Message{prop(upgradeProp)}
	case 10:
		return []message.Message{prop(rhChange), prop(badChange)}
	case 11:
		return []message.Message{vote(1, governance.VoteNo), vote(2, governance.VoteAbstain)}
	case 12:
		return []message.Message{
			transfer(ent(3), 1), vote(1, governance.VoteYes), up("gov=1,gs=1,gb=0"),
			{Staking: &message.StakingMessage{AddEscrow: &staking.Escrow{Account: ent(4), Amount: q(7)}}},
			prop(governance.ProposalContent{CancelUpgrade: &governance.CancelUpgradeProposal{ProposalID: 1}}),
		}
	case 13:
		return []message.Message{prop(governance.ProposalContent{CancelUpgrade: &governance.CancelUpgradeProposal{ProposalID: 77}}), {}}
	case 14:
		var l []message.Message
		for i := 0; i < 40; i++ {
			l = append(l, transfer(ent(i), 1))
		}
		return l
	case 15:
		return []message.Message{
			{Staking: &message.StakingMessage{ReclaimEscrow: &staking.ReclaimEscrow{Account: ent(1), Shares: q(math.MaxUint64)}}},
			{Staking: &message.StakingMessage{AddEscrow: &staking.Escrow{Account: staking.NewRuntimeAddress(cast.rt[rt]), Amount: q(0)}}},
			{Staking: &message.StakingMessage{}},
			{Registry: &message.RegistryMessage{}},
			{Governance: &message.GovernanceMessage{}},
		}
	}
	return nil
}

const nMsgSets = 16

func ptr[T any](v T) *T { return &v }

// slotNodes resolves a slot description against the current committee: w<i>, b<i>, W, B, A.
func slotMembers(c *scheduler.Committee, slots string) []*scheduler.CommitteeNode {
	var ws, bs []*scheduler.CommitteeNode
	for _, m := range c.Members {
		if m.Role == scheduler.RoleWorker {
			ws = append(ws, m)
		} else {
			bs = append(bs, m)
		}
	}
	var out []*scheduler.CommitteeNode
	for _, s := range strings.Split(slots, ",") {
		switch {
		case s == "W":
			out = append(out, ws...)
		case s == "B":
			out = append(out, bs...)
		case s == "A":
			out = append(out, c.Members...)
		case s[0] == 'w':
			if i := atoi(s[1:]); i < len(ws) {
				out = append(out, ws[i])
			}
		case s[0] == 'b':
			if i := atoi(s[1:]); i < len(bs) {
				out = append(out, bs[i])
			}
		}
	}
	return out
}

// roundContent: the honest result of the current round of a runtime.
func (w *world) roundContent(rt int, st *roothash.RuntimeState) (msgs []message.Message, inHash hash.Hash, inCount uint32) {
	rc := w.rcfg[rt]
	round := st.LastBlock.Header.Round + 1
	if rc == nil || rc.round != round {
		rc = &roundCfg{round: round}
		w.rcfg[rt] = rc
	}
	msgs = w.messages(rt, rc.msgset)
	var inMsgs []*message.IncomingMessage
	if rc.inmsgs > 0 {
		ctx := w.appState.NewContext(abciAPI.ContextEndBlock)
		q, err := roothashState.NewMutableState(ctx.State()).IncomingMessageQueue(ctx, cast.rt[rt], 0, uint32(rc.inmsgs))
		ctx.Close()
		if err == nil {
			inMsgs = q
		}
	}
	return msgs, message.InMessagesHash(inMsgs), uint32(len(inMsgs))
}

// buildCommit builds a signed commitment of `member` for the current round of rt.
// kind: "0" honest result, "1"/"2" other results, "F" failure, "X" wrong in-messages count, "R" wrong round.
func (w *world) buildCommit(rt int, st *roothash.RuntimeState, member signature.PublicKey, sched signature.PublicKey, kind string) *commitment.ExecutorCommitment {
	msgs, inHash, inCount := w.roundContent(rt, st)
	blk := block.NewEmptyBlock(st.LastBlock, 0, block.Normal)
	var empty hash.Hash
	empty.Empty()
	root := stateRoot(0)
	switch kind {
	case "1":
		root = stateRoot(1)
	case "2":
		root = stateRoot(2)
	case "X":
		inCount += 3
	}
	msgsHash := message.MessagesHash(msgs)
	ec := &commitment.ExecutorCommitment{
		NodeID: member,
		Header: commitment.ExecutorCommitmentHeader{
			SchedulerID: sched,
			Header: commitment.ComputeResultsHeader{
				Round:           blk.Header.Round,
				PreviousHash:    blk.Header.PreviousHash,
				IORoot:          &empty,
				StateRoot:       &root,
				MessagesHash:    &msgsHash,
				InMessagesHash:  &inHash,
				InMessagesCount: inCount,
			},
		},
	}
	if kind == "R" {
		ec.Header.Header.Round += 2
	}
	if member.Equal(sched) {
		ec.Messages = msgs
	}
	if kind == "F" {
		ec.Header.SetFailure(commitment.FailureUnknown)
		ec.Messages = nil
	}
	idx, ok := cast.nodeIdx[member]
	if !ok {
		return nil
	}
	must(ec.Sign(cast.node[idx], cast.rt[rt]))
	return ec
}

func (w *world) commit(rt int, slots, kind string, rank uint64) string {
	st := w.rtState(rt)
	if st == nil || st.Committee == nil || st.CommitmentPool == nil || st.Suspended {
		w.count("commit:no-committee")
		return "skip"
	}
	round := st.LastBlock.Header.Round + 1
	sn, ok := st.Committee.Scheduler(round, rank)
	if !ok {
		return "skip"
	}
	// a member that already voted for this scheduler is left out (the whole transaction would be
	// rejected), unless the slot list ends in `!`
	force := strings.HasSuffix(slots, "!")
	slots = strings.TrimSuffix(slots, "!")
	voted := map[signature.PublicKey]bool{}
	if sc, ok := st.CommitmentPool.SchedulerCommitments[rank]; ok && !force {
		for pk := range sc.Votes {
			voted[pk] = true
		}
	}
	var ecs []commitment.ExecutorCommitment
	for _, m := range slotMembers(st.Committee, slots) {
		if voted[m.PublicKey] {
			continue
		}
		voted[m.PublicKey] = !force
		if ec := w.buildCommit(rt, st, m.PublicKey, sn.PublicKey, kind); ec != nil {
			ecs = append(ecs, *ec)
		}
	}
	if len(ecs) == 0 {
		return "skip"
	}
	return w.deliver(roothashApp.AppName, ecs[0].NodeID, roothash.MethodExecutorCommit, &roothash.ExecutorCommit{ID: cast.rt[rt], Commits: ecs})
}

// evidence: equivocation evidence against the member in `slot` (two different signed commitments /
// proposals for the same round), or malformed evidence.
func (w *world) evidence(rt int, slot, kind string, signer int) string {
	st := w.rtState(rt)
	if st == nil || st.Committee == nil {
		return "skip"
	}
	ms := slotMembers(st.Committee, slot)
	if len(ms) == 0 {
		return "skip"
	}
	m := ms[0].PublicKey
	ev := &roothash.Evidence{ID: cast.rt[rt]}
	switch kind {
	case "exec":
		a := w.buildCommit(rt, st, m, m, "1")
		b := w.buildCommit(rt, st, m, m, "2")
		ev.EquivocationExecutor = &roothash.EquivocationExecutorEvidence{CommitA: *a, CommitB: *b}
	case "same":
		a := w.buildCommit(rt, st, m, m, "1")
		ev.EquivocationExecutor = &roothash.EquivocationExecutorEvidence{CommitA: *a, CommitB: *a}
	case "prop":
		mk := func(k int) commitment.Proposal {
			blk := block.NewEmptyBlock(st.LastBlock, 0, block.Normal)
			p := commitment.Proposal{NodeID: m, Header: commitment.ProposalHeader{Round: blk.Header.Round, PreviousHash: blk.Header.PreviousHash, BatchHash: stateRoot(10 + k)}}
			must(p.Sign(cast.node[cast.nodeIdx[m]], cast.rt[rt]))
			return p
		}
		ev.EquivocationProposal = &roothash.EquivocationProposalEvidence{ProposalA: mk(1), ProposalB: mk(2)}
	case "empty":
	}
	return w.deliver(roothashApp.AppName, cast.ent[signer%nEnt].Public(), roothash.MethodEvidence, ev)
}

// ---------------------------------------------------------------- op interpreter

// run executes the ops; returns "" or the fatal `sig|detail`, and the index of the op that was fatal.
func run(ops []string, res *hlib.Result) (string, int) {
	var w *world
	defer func() {
		if w != nil && res != nil {
			for k, v := range w.counters {
				res.CountN(k, v)
			}
		}
	}()
	for i, op := range ops {
		f := strings.Fields(op)
		switch f[0] {
		case "init":
			w = newWorld(parseKV(f[1]))
		case "regrt": // regrt <rt> <signer: e<i> | x> <k=v,...>
			rt := atoi(f[1])
			signer := cast.outsider.Public()
			if f[2][0] == 'e' {
				signer = cast.ent[atoi(f[2][1:])%nEnt].Public()
			}
			d := w.runtimeDescriptor(rt, parseKV(f[3]))
			r := w.deliver(registryApp.AppName, signer, registry.MethodRegisterRuntime, d)
			w.count("regrt:" + r)
		case "begin": // begin <epochchange 0|1> <misbehaving nodes|->
			var mis []int
			if f[2] != "-" {
				for _, s := range strings.Split(f[2], ",") {
					mis = append(mis, atoi(s))
				}
			}
			w.begin(f[1] == "1", mis)
		case "end":
			w.end()
		case "roundcfg": // roundcfg <rt> <msgset> <inmsgs>
			rt := atoi(f[1])
			if st := w.rtState(rt); st != nil {
				w.rcfg[rt] = &roundCfg{round: st.LastBlock.Header.Round + 1, msgset: atoi(f[2]), inmsgs: atoi(f[3])}
			}
		case "commit": // commit <rt> <slots> <kind> <rank>
			w.commit(atoi(f[1]), f[2], f[3], atou(f[4]))
		case "straggle": // straggle <rt> <kind>: one more single-member commitment, only in the block in which the round timer expires
			rt := atoi(f[1])
			if st := w.rtState(rt); st != nil && !st.Suspended && st.NextTimeout == w.height {
				for _, slot := range []string{"w4", "w3", "w2", "w1", "w0", "b2", "b1", "b0"} {
					if r := w.commit(rt, slot, f[2], 0); r != "skip" {
						w.count("straggle:commit-in-timer-expiry-block:" + r)
						break
					}
				}
			}
		case "evidence": // evidence <rt> <slot> <kind> <signer>
			w.evidence(atoi(f[1]), f[2], f[3], atoi(f[4]))
		case "submitmsg": // submitmsg <rt> <signer e<i>|x> <fee> <tokens>
			signer := cast.outsider.Public()
			if f[2][0] == 'e' {
				signer = cast.ent[atoi(f[2][1:])%nEnt].Public()
			}
			w.deliver(roothashApp.AppName, signer, roothash.MethodSubmitMsg, &roothash.SubmitMsg{
				ID: cast.rt[atoi(f[1])%nRt], Tag: 7, Fee: q(atou(f[3])), Tokens: q(atou(f[4])), Data: []byte("verif"),
			})
		case "rawtx": // rawtx <method> : a roothash transaction with an undecodable body
			if !w.inBlock {
				w.begin(false, nil)
			}
			if w.fatal == "" {
				a := w.byName[roothashApp.AppName]
				ctx := w.appState.NewContext(abciAPI.ContextDeliverTx)
				ctx.SetTxSigner(cast.outsider.Public())
				tx := &transaction.Transaction{Method: transaction.MethodName(f[1]), Body: []byte{0xff, 0x00, 0x13}}
				var before map[string]string
				if specC08 {
					before = w.snapshot()
				}
				err := w.guard(roothashApp.AppName, "DeliverTx", func() error { return a.ExecuteTx(ctx, tx) })
				if err != nil && specC08 && w.fatal == "" {
					w.checkUnchanged(before, "raw:"+f[1])
				}
				ctx.Close()
			}
		default:
			panic("unknown op " + op)
		}
		if w != nil && w.fatal != "" {
			return w.fatal, i
		}
		if w != nil && w.stopped {
			return "", -1
		}
	}
	if w != nil && w.inBlock {
		w.end()
		if w.fatal != "" {
			return w.fatal, len(ops) - 1
		}
	}
	if w != nil && res != nil {
		for rt := 0; rt < nRt; rt++ {
			if st := w.rtState(rt); st != nil {
				res.Count("runtime-state-at-end")
				if st.LastBlock.Header.Round > 0 {
					res.CountN("rounds-finalized-or-failed", int(st.LastBlock.Header.Round))
				}
			}
		}
	}
	return "", -1
}

// ---------------------------------------------------------------- generator

var (
	u8vals  = []string{"0", "1", "10", "50", "100", "101", "150", "200", "255"}
	amtVals = []string{"0", "1", "50", "500", "20000", "max64"}
	gsVals  = []string{"1", "1", "2", "2", "3", "4", "9", "10", "max16"}
	gbVals  = []string{"0", "1", "2", "2", "3", "5", "max16"}
	rtoVals = []string{"1", "2", "3", "5", "20", "maxi64"}
	u64Vals = []string{"0", "1", "2", "5", "max64"}
	u32Vals = []string{"0", "1", "4", "16", "32", "33", "max32"}
	frzVals = []string{"0", "1", "3", "max64"}
	thrVals = []string{"0", "10", "5000", "max64"}
	feeVals = []string{"0", "1", "10", "2000000", "max64"}
)

func pickS(r *hlib.Rng, l []string) string { return l[r.Intn(len(l))] }

// genDescriptor: mostly sane parameters with, per field, a chance of any value of the type's range.
func genDescriptor(r *hlib.Rng, wild int) string {
	var kv []string
	add := func(k string, sane []string, all []string) {
		if r.Chance(wild, 100) {
			kv = append(kv, k+"="+pickS(r, all))
		} else if len(sane) > 0 {
			kv = append(kv, k+"="+pickS(r, sane))
		}
	}
	add("gs", []string{"1", "2", "2", "3"}, gsVals)
	add("gb", []string{"1", "2", "2", "3"}, gbVals)
	add("st", []string{"0", "0", "1"}, []string{"0", "1", "2", "5", "max16"})
	add("rto", []string{"1", "2", "3"}, rtoVals)
	add("mm", []string{"8", "16", "32"}, u32Vals)
	add("maxin", []string{"4", "8"}, u32Vals)
	add("mlr", []string{"10", "50", "100"}, u8vals)
	add("mmp", []string{"0", "50"}, u8vals)
	add("mle", []string{"0", "1", "2"}, u64Vals)
	add("mlf", []string{"0", "1", "2"}, u8vals)
	add("rbr", []string{"0", "10", "50", "100"}, u8vals)
	add("req", []string{"0", "10", "50", "100"}, u8vals)
	add("sbad", []string{"0", "1", "50", "500"}, amtVals)
	add("seq", []string{"0", "50"}, amtVals)
	add("slive", []string{"0", "20"}, amtVals)
	add("flive", []string{"0", "1"}, frzVals)
	add("minfee", []string{"0", "0", "1"}, feeVals)
	if r.Chance(1, 4) {
		kv = append(kv, "gov=1")
	}
	if r.Chance(1, 10) {
		kv = append(kv, "thr="+pickS(r, thrVals))
	}
	if r.Chance(1, 10) {
		kv = append(kv, "maxnodes="+pickS(r, []string{"1", "2", "max16"}), "minpool="+pickS(r, []string{"1", "2", "9", "max16"}))
	}
	if r.Chance(1, 40) {
		kv = append(kv, "otherid=1")
	}
	return strings.Join(kv, ",")
}

// probes: one descriptor field set to a value its validator must refuse (or a boundary value it must
// accept); everything else sane, followed by a script that exercises every path reading the field. On a
// correct validator the refused ones never enter the state; a loosened validator lets them through.
var probes = []string{
	"rbr=101", "rbr=150", "rbr=255", "rbr=100", "req=101", "req=255", "req=100", "mlr=101", "mlr=255", "mlr=100",
	"st=3", "st=max16", "gs=0", "rto=0", "rto=max64", "rto=maxi64", "mm=33", "mm=max32", "maxin=33", "maxin=max32",
	"mmp=255", "mlf=255", "mle=max64", "sbad=max64", "seq=max64", "slive=max64", "flive=max64", "fbad=max64", "feq=max64",
	"minfee=max64", "thr=max64", "gb=0", "gs=9,gb=9", "gs=max16",
}

// genProbeCase: sane descriptor + one probed field, and a guided multi-epoch script.
func genProbeCase(r *hlib.Rng, blocks int) []string {
	probe := pickS(r, probes)
	base := "gs=2,gb=2,st=0,rto=2,mm=16,maxin=8,mlr=50,mmp=50,mle=0,mlf=1,rbr=10,req=10,sbad=50,seq=50,slive=20,flive=1"
	if r.Chance(1, 3) {
		base = "gs=3,gb=3,st=1,rto=3,mm=32,maxin=4,mlr=100,mmp=10,mle=1,mlf=1,rbr=50,req=50,sbad=500,seq=5,slive=1,flive=0,gov=1"
	}
	desc := base + "," + probe
	ops := []string{"init -", "begin 0 -", "regrt 0 e0 " + desc, "end", "begin 1 -", "end"}
	blk := func(txs ...string) {
		ops = append(ops, "begin 0 -")
		ops = append(ops, txs...)
		ops = append(ops, "end")
	}
	for b := 0; b < blocks; {
		switch r.Intn(9) {
		case 0, 1: // honest round, possibly with messages / incoming messages
			blk(fmt.Sprintf("submitmsg 0 e%d 1 5", r.Intn(nEnt)), fmt.Sprintf("roundcfg 0 %d %d", r.Intn(nMsgSets), r.Intn(2)), "commit 0 W 0 0")
			b++
		case 2, 3: // discrepancy, resolved by the backups, bad entity slashed
			d := r.Intn(2)
			blk(fmt.Sprintf("commit 0 w%d,w%d,w3 0 0", 1-d, 2), fmt.Sprintf("commit 0 w%d 1 0", d))
			blk("commit 0 B 0 0")
			b += 2
		case 4: // equivocation evidence
			blk(fmt.Sprintf("evidence 0 %s %s %d", pickS(r, []string{"w0", "w1", "b0"}), pickS(r, []string{"exec", "prop"}), r.Intn(nEnt)))
			b++
		case 5: // a round that times out (only the scheduler commits), then empty blocks
			blk("commit 0 w0,w1,w2 0 0", "commit 0 w0,w1,w2 0 1")
			blk()
			blk()
			blk()
			b += 4
		case 6: // descriptor update (again with the probe) and a mid-epoch re-election
			ops = append(ops, "begin 0 -", fmt.Sprintf("regrt 0 e0 %s,gs=%d,%s", base, 1+r.Intn(4), probe), "end",
				fmt.Sprintf("begin 0 %d", r.Intn(nNode)), "commit 0 W 0 0", "end")
			b += 2
		case 7: // epoch transition (liveness evaluation, re-election, descriptor takes effect)
			ops = append(ops, "begin 1 -", "end")
			b++
		case 8: // discrepancy that the backups resolve against the scheduler / cannot resolve
			blk("commit 0 w1,w2,w3 0 0", "commit 0 w0 1 0")
			blk(fmt.Sprintf("commit 0 B %s 0", pickS(r, []string{"1", "F", "2"})))
			blk()
			blk()
			b += 4
		}
	}
	return ops
}

// zeroDebond: whether generated worlds may have staking DebondingInterval = 0 (flag -zero-debond).
var zeroDebond = true

func genCase(r *hlib.Rng, blocks int) []string {
	if r.Chance(1, 3) {
		return genProbeCase(r, blocks)
	}
	var ikv []string
	if r.Chance(1, 4) {
		ikv = append(ikv, "nosuspend=0")
	}
	if r.Chance(1, 3) {
		ikv = append(ikv, "cslash="+pickS(r, []string{"0", "1", "100", "5000", "max64"}))
	}
	if r.Chance(1, 4) {
		ikv = append(ikv, "stake="+pickS(r, []string{"250", "1000", "10000", "1000000"}))
	}
	if r.Chance(1, 5) {
		if zeroDebond {
			ikv = append(ikv, "debond="+pickS(r, []string{"0", "1", "2"}))
		} else {
			ikv = append(ikv, "debond="+pickS(r, []string{"1", "2", "3"}))
		}
	}
	if r.Chance(1, 6) {
		ikv = append(ikv, "evage="+pickS(r, []string{"0", "1", "100"}))
	}
	if r.Chance(1, 5) {
		// some nodes stop re-registering: their registration expires during the history
		var l []string
		for n := 0; n < nNode; n++ {
			if r.Chance(1, 3) {
				l = append(l, fmt.Sprintf("%d:%d", n, 3+r.Intn(5)))
			}
		}
		if len(l) > 0 {
			ikv = append(ikv, "exp="+strings.Join(l, ";"))
		}
	}
	init := "-"
	if len(ikv) > 0 {
		init = strings.Join(ikv, ",")
	}
	ops := []string{"init " + init}
	wild := []int{2, 5, 15, 40}[r.Intn(4)]
	nrt := 1 + r.Intn(nRt)
	// first block: register the runtimes (through the real registry transaction)
	ops = append(ops, "begin 0 -")
	for rt := 0; rt < nrt; rt++ {
		ops = append(ops, fmt.Sprintf("regrt %d e%d %s", rt, rt%nEnt, genDescriptor(r, wild)))
		if r.Chance(1, 6) {
			ops = append(ops, fmt.Sprintf("regrt %d e%d %s", rt, rt%nEnt, genDescriptor(r, wild))) // immediate update
		}
	}
	ops = append(ops, "end", "begin 1 -", "end")
	sinceEpoch := 0
	var followUps []string
	for b := 0; b < blocks; b++ {
		epochChange := sinceEpoch >= 2 && r.Chance(1, 5)
		mis := "-"
		if r.Chance(1, 7) {
			mis = strconv.Itoa(r.Intn(nNode + 1))
			if r.Chance(1, 4) {
				mis += "," + strconv.Itoa(r.Intn(nNode))
			}
		}
		ops = append(ops, fmt.Sprintf("begin %s %s", map[bool]string{true: "1", false: "0"}[epochChange], mis))
		if epochChange {
			sinceEpoch = 0
		} else {
			sinceEpoch++
		}
		// follow-ups scheduled by the previous block (backup resolution of a discrepancy)
		for _, fu := range followUps {
			ops = append(ops, fu)
		}
		followUps = nil
		if r.Chance(1, 2) {
			// a late commitment arriving exactly in the block in which the round timer expires (no-op in
			// every other block)
			ops = append(ops, fmt.Sprintf("straggle %d %s", r.Intn(nrt), pickS(r, []string{"0", "0", "0", "1", "F"})))
		}
		ntx := r.Intn(5)
		for t := 0; t < ntx; t++ {
			rt := r.Intn(nrt)
			k := r.Intn(100)
			switch {
			case k < 8:
				ops = append(ops, fmt.Sprintf("roundcfg %d %d %d", rt, r.Intn(nMsgSets), r.Intn(3)))
			case k < 36:
				// a whole honest round in one go (optionally with messages configured just before)
				if r.Chance(1, 3) {
					ops = append(ops, fmt.Sprintf("roundcfg %d %d %d", rt, r.Intn(nMsgSets), r.Intn(3)))
				}
				ops = append(ops, fmt.Sprintf("commit %d W 0 0", rt))
			case k < 52:
				// discrepancy: all workers but one commit the honest result, that one dissents (or
				// fails); the backups resolve it in the next block (mostly for the honest result)
				d := r.Intn(3)
				var others []string
				for i := 0; i < 5; i++ {
					if i != d {
						others = append(others, "w"+strconv.Itoa(i))
					}
				}
				if r.Chance(1, 4) {
					ops = append(ops, fmt.Sprintf("roundcfg %d %d %d", rt, r.Intn(nMsgSets), r.Intn(2)))
				}
				ops = append(ops, fmt.Sprintf("commit %d %s 0 0", rt, strings.Join(others, ",")),
					fmt.Sprintf("commit %d w%d %s 0", rt, d, pickS(r, []string{"1", "1", "2", "F"})))
				if r.Chance(5, 6) {
					followUps = append(followUps, fmt.Sprintf("commit %d B %s 0", rt, pickS(r, []string{"0", "0", "0", "0", "1", "F"})))
				}
			case k < 58:
				ops = append(ops, fmt.Sprintf("commit %d B %s 0", rt, pickS(r, []string{"0", "0", "0", "1", "F"})))
			case k < 68:
				ops = append(ops, fmt.Sprintf("commit %d %s %s %d", rt,
					pickS(r, []string{"w0", "w1", "w2", "b0", "b1", "A", "W", "w0,b0", "w1,w0", "A!", "w0!", "B!"}),
					pickS(r, []string{"0", "0", "1", "2", "F", "X", "R"}), r.Intn(3)))
			case k < 74:
				ops = append(ops, fmt.Sprintf("evidence %d %s %s %d", rt, pickS(r, []string{"w0", "w1", "b0"}), pickS(r, []string{"exec", "exec", "prop", "same", "empty"}), r.Intn(nEnt)))
			case k < 84:
				signer := "e" + strconv.Itoa(r.Intn(nEnt))
				if r.Chance(1, 5) {
					signer = "x"
				}
				ops = append(ops, fmt.Sprintf("submitmsg %d %s %s %s", rt, signer, pickS(r, feeVals), pickS(r, feeVals)))
			case k < 96:
				// descriptor update mid-epoch (larger / smaller committees, any parameter)
				signer := "e" + strconv.Itoa(rt%nEnt)
				if r.Chance(1, 8) {
					signer = pickS(r, []string{"x", "e4", "e3"})
				}
				ops = append(ops, fmt.Sprintf("regrt %d %s %s", rt, signer, genDescriptor(r, wild)))
			default:
				ops = append(ops, "rawtx "+pickS(r, []string{string(roothash.MethodExecutorCommit), string(roothash.MethodEvidence), string(roothash.MethodSubmitMsg), "roothash.Nonexistent"}))
			}
		}
		ops = append(ops, "end")
	}
	return ops
}

func sigOf(fatal string) (sig, detail string) {
	p := strings.SplitN(fatal, "|", 2)
	if len(p) == 2 {
		return p[0], p[1]
	}
	return fatal, fatal
}

func main() {
	seed := flag.Uint64("seed", 1, "seed")
	cases := flag.Int("cases", 300, "number of generated cases")
	blocks := flag.Int("blocks", 30, "blocks per case (after the two setup blocks)")
	out := flag.String("out", "-", "result file")
	replay := flag.String("replay", "", "replay file (one op per line)")
	corpus := flag.String("corpus", "", "corpus dir, run first (files rh-*.txt)")
	zd := flag.Bool("zero-debond", true, "generate worlds with staking DebondingInterval = 0 too (a fatal path is known there, see corpus/C10/rh-zero-debonding-expired-committee-node.txt)")
	dist := flag.Int("dist", 0, "cases of the slashed-funds distribution phase (real distributeSlashedFunds vs the Lean model om_slash); 0: skip")
	spec := flag.String("spec", "c10", "c10: fatal errors/panics of block execution; c08: failed transactions leave the state unchanged")
	flag.Parse()
	zeroDebond = *zd
	specC08 = *spec == "c08"
	specC11 = *spec == "c11"
	setup()

	res := hlib.NewResult("rhdrv", *seed)
	res.Rule = "multi-epoch block histories on the real roothash+registry+staking+governance+scheduler applications (mock application state, real message dispatcher): runtimes registered/updated through the real registry transaction with every parameter drawn (per field, 2-40%) from its full type range, real elections at epoch transitions and after consensus misbehaviour slashing, executor commit transactions (honest rounds, dissent, failures, wrong round/in-message counts, backup resolution), runtime messages of 16 sets (staking/registry/governance, valid and invalid), incoming messages, equivocation evidence, undecodable transactions; non-trivial: at least one runtime finished a round; distinct by op list"

	runOne := func(ops []string, caseSeed uint64, minimize bool) {
		fatal, _ := run(ops, res)
		res.Cases++
		res.Ops += len(ops)
		if fatal == "" {
			return
		}
		if specC08 && !strings.HasPrefix(fatal, "c08-") {
			// fatal block-execution paths are property C10's subject; the case simply ends there
			res.Count("c08:case-ended-by-c10-fatal")
			return
		}
		if specC11 && !strings.HasPrefix(fatal, "c11-") {
			res.Count("c11:case-ended-by-c10-fatal")
			return
		}
		sig, _ := sigOf(fatal)
		min := ops
		if minimize {
			head, tail := ops[:1], ops[1:]
			tail = hlib.Shrink(tail, func(c []string) bool {
				f, _ := run(append(append([]string{}, head...), c...), nil)
				s, _ := sigOf(f)
				return f != "" && s == sig
			})
			min = append(append([]string{}, head...), tail...)
			fatal, _ = run(min, nil)
		}
		sig, detail := sigOf(fatal)
		kind := "spec"
		if strings.Contains(detail, "panic") {
			kind = "panic"
		}
		label := "C10 "
		if specC08 {
			label = "C08 "
		}
		if specC11 {
			label = "C11 "
		}
		res.Fail(hlib.Failure{Kind: kind, Detail: label + sig + ": " + detail, Case: min, Seed: caseSeed, Sig: sig})
	}

	if *replay != "" {
		ops, err := hlib.ReadLines(*replay)
		if err != nil {
			fmt.Fprintln(os.Stderr, err)
			os.Exit(2)
		}
		runOne(ops, 0, false)
		res.Write(*out)
		return
	}
	if *corpus != "" {
		ents, _ := os.ReadDir(*corpus)
		for _, e := range ents {
			if !strings.HasPrefix(e.Name(), "rh-") || (!zeroDebond && strings.Contains(e.Name(), "zero-debonding")) {
				continue
			}
			if ops, err := hlib.ReadLines(*corpus + "/" + e.Name()); err == nil && len(ops) > 0 {
				runOne(ops, 0, false)
				res.Count("corpus")
			}
		}
	}
	if *dist > 0 && !specC08 && !specC11 {
		runDist(hlib.FromState(hlib.NewRng(*seed^0x5d15).Next()), *dist, res)
	}
	rng := hlib.FromState(hlib.NewRng(*seed).Next())
	seen := map[string]bool{}
	sigs := map[string]bool{}
	for i := 0; i < *cases; i++ {
		cr := rng.Fork()
		cs := cr.Seed()
		ops := genCase(cr, 5+cr.Intn(*blocks))
		before := res.Counters["rounds-finalized-or-failed"]
		nf := len(res.Failures)
		runOne(ops, cs, true)
		if res.Counters["rounds-finalized-or-failed"] > before {
			key := strings.Join(ops, ";")
			if !seen[key] {
				seen[key] = true
				res.Distinct++
			}
		}
		if i < 2 {
			res.AddSample(ops)
		}
		if len(res.Failures) > nf {
			// keep one failure per signature
			s := res.Failures[len(res.Failures)-1].Sig
			if sigs[s] {
				res.Failures = res.Failures[:len(res.Failures)-1]
			}
			sigs[s] = true
		}
		if len(sigs) >= 6 {
			break
		}
	}
	res.Write(*out)
}
