package main

// Phase `dist` (property C10, Props/C10Slash.lean): the real distributeSlashedFunds and the Lean
// model (om_slash: OasisModel/Roothash/SlashDist.lean) on the same inputs. Compared: error or not,
// what the runtime account and every other account received, what is left in the common pool.

import (
	"fmt"
	"math/big"
	"strings"

	"verifharness/hlib"

	"github.com/oasisprotocol/oasis-core/go/common/quantity"
	abciAPI "github.com/oasisprotocol/oasis-core/go/consensus/cometbft/api"
	roothashApp "github.com/oasisprotocol/oasis-core/go/consensus/cometbft/apps/roothash"
	stakingState "github.com/oasisprotocol/oasis-core/go/consensus/cometbft/apps/staking/state"
	staking "github.com/oasisprotocol/oasis-core/go/staking/api"
)

func qBig(s string) *quantity.Quantity {
	b, ok := new(big.Int).SetString(s, 10)
	if !ok {
		panic("bad number " + s)
	}
	var q quantity.Quantity
	must(q.FromBigInt(b))
	return &q
}

// distObserve runs the real code for `dist <total> <pct> <n> <common>` and renders the outcome in the
// model's answer format.
func distObserve(line string) (ans string) {
	f := strings.Fields(line)
	total, pct, n, common := qBig(f[1]), atou(f[2]), atoi(f[3]), qBig(f[4])
	st := abciAPI.NewMockApplicationState(&abciAPI.MockApplicationStateConfig{BaseEpoch: 1, CurrentEpoch: 2})
	ictx := st.NewContext(abciAPI.ContextInitChain)
	ss := stakingState.NewMutableState(ictx.State())
	must(ss.SetConsensusParameters(ictx, &staking.ConsensusParameters{}))
	must(ss.SetCommonPool(ictx, common))
	ictx.Close()

	var others []staking.Address
	for i := 0; i < n; i++ {
		others = append(others, staking.NewAddress(cast.ent[i%nEnt].Public()))
	}
	ctx := st.NewContext(abciAPI.ContextEndBlock)
	defer ctx.Close()
	var err error
	func() {
		defer func() {
			if r := recover(); r != nil {
				err = fmt.Errorf("panic: %v", r)
			}
		}()
		err = roothashApp.VerifDistributeSlashedFunds(ctx, total, pct, cast.rt[0], others)
	}()
	if err != nil {
		switch {
		case strings.Contains(err.Error(), "panic"):
			return "PANIC " + err.Error()
		case strings.Contains(err.Error(), "remainingReward.Sub"):
			return "err sub"
		case strings.Contains(err.Error(), "Quo"):
			return "err div"
		}
		return "err other " + shortText(err.Error())
	}
	ss = stakingState.NewMutableState(ctx.State())
	ra, e := ss.Account(ctx, staking.NewRuntimeAddress(cast.rt[0]))
	must(e)
	var paid []string
	for _, a := range others {
		acc, e := ss.Account(ctx, a)
		must(e)
		// the share is escrowed at once (TransferFromCommon escrow=true); nothing stays in General
		if !acc.General.Balance.IsZero() {
			return "other-account-general-balance-nonzero " + acc.General.Balance.String()
		}
		paid = append(paid, acc.Escrow.Active.Balance.String())
	}
	cp, e := ss.CommonPool(ctx)
	must(e)
	ps := "-"
	if len(paid) > 0 {
		ps = strings.Join(paid, ",")
	}
	return fmt.Sprintf("ok %s %s %s", ra.General.Balance.String(), ps, cp.String())
}

var distTotals = []string{"0", "1", "7", "99", "100", "101", "199", "1000", "123456789", "18446744073709551615", "18446744073709551616", "340282366920938463463374607431768211455"}

func genDist(r *hlib.Rng) string {
	var total string
	if r.Chance(1, 2) {
		total = pickS(r, distTotals)
	} else {
		total = fmt.Sprint(r.Intn(1_000_000))
	}
	var pct int
	switch r.Intn(5) {
	case 0:
		pct = 100
	case 1:
		pct = 101 + r.Intn(155) // representable in the uint8 field, rejected by ValidateBasic
	default:
		pct = r.Intn(101)
	}
	n := r.Intn(nEnt + 1)
	if n > 6 {
		n = r.Intn(4)
	}
	t, _ := new(big.Int).SetString(total, 10)
	var common *big.Int
	switch r.Intn(6) {
	case 0:
		common = big.NewInt(0)
	case 1:
		common = new(big.Int).Div(t, big.NewInt(2))
	case 2:
		common = new(big.Int).Set(t) // exactly what SlashEscrow moved there
	default:
		common = new(big.Int).Add(t, big.NewInt(int64(r.Intn(100000))))
	}
	return fmt.Sprintf("dist %s %d %d %s", total, pct, n, common.String())
}

func runDist(rng *hlib.Rng, cases int, res *hlib.Result) {
	var lines []string
	seen := map[string]bool{}
	for i := 0; i < cases; i++ {
		l := genDist(rng)
		lines = append(lines, l)
		if !seen[l] {
			seen[l] = true
			res.Count("dist:distinct")
		}
	}
	want, err := hlib.RunModel("slash", lines)
	if err != nil {
		res.Fail(hlib.Failure{Kind: "harness", Detail: "slash model: " + err.Error(), Sig: "c10-slashdist:model-unavailable"})
		return
	}
	reported := map[string]bool{}
	for i, l := range lines {
		got := distObserve(l)
		res.Count("dist:cases")
		switch {
		case strings.HasPrefix(got, "err sub"):
			res.Count("dist:real-err-sub")
		case strings.HasPrefix(got, "ok"):
			res.Count("dist:real-ok")
		default:
			res.Count("dist:real-other")
		}
		f := strings.Fields(l)
		if atoi(f[2]) > 100 {
			res.Count("dist:percentage-above-100")
			continue // outside the property's reachable inputs (ValidateBasic): counted, compared below only for agreement
		}
		if got != want[i] {
			sig := "c10-slashdist:model-mismatch"
			if strings.HasPrefix(got, "err") || strings.HasPrefix(got, "PANIC") {
				sig = "c10-slashdist:fatal-on-admissible-input"
			}
			if !reported[sig] {
				reported[sig] = true
				res.Fail(hlib.Failure{Kind: "divergence", Detail: fmt.Sprintf("distributeSlashedFunds on `%s`: real code %q, model %q", l, got, want[i]), Case: []string{l}, Sig: sig})
			}
		}
	}
	// inadmissible percentages: model and code must still agree (keeps the model honest about where it fails)
	for i, l := range lines {
		f := strings.Fields(l)
		if atoi(f[2]) <= 100 {
			continue
		}
		if got := distObserve(l); got != want[i] && !reported["c10-slashdist:model-mismatch-inadmissible"] {
			reported["c10-slashdist:model-mismatch-inadmissible"] = true
			res.Fail(hlib.Failure{Kind: "divergence", Detail: fmt.Sprintf("distributeSlashedFunds on `%s` (percentage > 100): real code %q, model %q", l, got, want[i]), Case: []string{l}, Sig: "c10-slashdist:model-mismatch-inadmissible"})
		}
	}
}
