package main

// Running the real oasis-core election code (in-process, build tag verif) on a world and
// producing the witness-annotated lines for the Lean model.

import (
	"fmt"
	"sort"
	"strings"

	beacon "github.com/oasisprotocol/oasis-core/go/beacon/api"
	"github.com/oasisprotocol/oasis-core/go/common/cbor"
	"github.com/oasisprotocol/oasis-core/go/common/crypto/signature"
	"github.com/oasisprotocol/oasis-core/go/common/node"
	"github.com/oasisprotocol/oasis-core/go/common/version"
	consensusGenesis "github.com/oasisprotocol/oasis-core/go/consensus/genesis"
	"github.com/oasisprotocol/oasis-core/go/consensus/cometbft/api"
	beaconState "github.com/oasisprotocol/oasis-core/go/consensus/cometbft/apps/beacon/state"
	governanceApi "github.com/oasisprotocol/oasis-core/go/consensus/cometbft/apps/governance/api"
	consensusState "github.com/oasisprotocol/oasis-core/go/consensus/cometbft/apps/consensus/state"
	registryState "github.com/oasisprotocol/oasis-core/go/consensus/cometbft/apps/registry/state"
	schedulerapp "github.com/oasisprotocol/oasis-core/go/consensus/cometbft/apps/scheduler"
	schedulerState "github.com/oasisprotocol/oasis-core/go/consensus/cometbft/apps/scheduler/state"
	stakingapp "github.com/oasisprotocol/oasis-core/go/consensus/cometbft/apps/staking"
	stakingState "github.com/oasisprotocol/oasis-core/go/consensus/cometbft/apps/staking/state"
	governance "github.com/oasisprotocol/oasis-core/go/governance/api"
	registry "github.com/oasisprotocol/oasis-core/go/registry/api"
	scheduler "github.com/oasisprotocol/oasis-core/go/scheduler/api"
	staking "github.com/oasisprotocol/oasis-core/go/staking/api"
)

// env is one mock application state (one replica) that lives for a whole case.
type env struct {
	cfg       *api.MockApplicationStateConfig
	appState  api.MockApplicationState
	app       *schedulerapp.Application
	regNodes  []*node.Node // nodes currently in the registry state
	accounts  []staking.Address
}

func newEnv() *env {
	cfg := &api.MockApplicationStateConfig{}
	e := &env{cfg: cfg, appState: api.NewMockApplicationState(cfg)}
	e.app = schedulerapp.New(e.appState, &api.NoopMessageDispatcher{})
	ctx := e.appState.NewContext(api.ContextInitChain)
	defer ctx.Close()
	must(consensusState.NewMutableState(ctx.State()).SetChainContext(ctx, chainContext))
	return e
}

func must(err error) {
	if err != nil {
		panic(err)
	}
}

// setStaking writes thresholds and accounts (accounts of a previous epoch are reset to empty).
func (e *env) setStaking(w *world) {
	ctx := e.appState.NewContext(api.ContextInitChain)
	defer ctx.Close()
	st := stakingState.NewMutableState(ctx.State())
	must(st.SetConsensusParameters(ctx, &staking.ConsensusParameters{Thresholds: w.thresholds()}))
	for _, a := range e.accounts {
		must(st.SetAccount(ctx, a, &staking.Account{}))
	}
	e.accounts = nil
	for i := range w.accts {
		addr := entityAddr(w.accts[i].ent)
		must(st.SetAccount(ctx, addr, w.accts[i].account()))
		e.accounts = append(e.accounts, addr)
	}
}

func classifyElectErr(err error) string {
	s := err.Error()
	switch {
	case strings.Contains(s, "failed to elect any validators"):
		return "err:none"
	case strings.Contains(s, "insufficient validators"):
		return "err:insufficient"
	case strings.Contains(s, "computing voting power"):
		return "err:power"
	}
	return "err:other:" + strings.ReplaceAll(s, " ", "_")
}

func showVals(m map[signature.PublicKey]*scheduler.Validator) string {
	if len(m) == 0 {
		return "-"
	}
	type ent struct {
		k signature.PublicKey
		s string
	}
	var l []ent
	for k, v := range m {
		l = append(l, ent{k, fmt.Sprintf("%s:%s:%s:%d", keyNat(k), keyNat(v.ID), addrNat(staking.NewAddress(v.EntityID)), v.VotingPower)})
	}
	sort.Slice(l, func(i, j int) bool { return string(l[i].k[:]) < string(l[j].k[:]) })
	s := make([]string, len(l))
	for i := range l {
		s[i] = l[i].s
	}
	return strings.Join(s, ",")
}

func showCommittee(c *scheduler.Committee) string {
	var s []string
	for _, m := range c.Members {
		tag := "?"
		switch m.Role {
		case scheduler.RoleWorker:
			tag = "w"
		case scheduler.RoleBackupWorker:
			tag = "b"
		}
		s = append(s, tag+":"+keyNat(m.PublicKey))
	}
	if len(s) == 0 {
		return "-"
	}
	return strings.Join(s, ",")
}

func ints(l []int) string {
	if len(l) == 0 {
		return "-"
	}
	s := make([]string, len(l))
	for i, x := range l {
		s[i] = fmt.Sprint(x)
	}
	return strings.Join(s, ",")
}

// permLines asks the real DRBG what it returns for every input length that can occur.
func (w *world) permLines() []string {
	var l []string
	maxN := len(w.nodes)
	for n := 0; n <= maxN; n++ {
		p, err := schedulerapp.VerifShuffleAddresses(w.entropy, n)
		must(err)
		l = append(l, fmt.Sprintf("perm E %d %s", n, ints(p)))
		p, err = schedulerapp.VerifPerm(w.entropy, nil, schedulerapp.RNGContextValidators, n)
		must(err)
		l = append(l, fmt.Sprintf("perm V %d %s", n, ints(p)))
	}
	for _, r := range w.rts {
		id := rtID(r.idx)
		for _, role := range []struct {
			tag string
			ctx []byte
		}{{"w", schedulerapp.RNGContextRoleWorker}, {"b", schedulerapp.RNGContextRoleBackupWorker}} {
			rngCtx := append(append([]byte{}, schedulerapp.RNGContextExecutor...), role.ctx...)
			for n := 0; n <= maxN; n++ {
				p, err := schedulerapp.VerifPerm(w.entropy, id[:], rngCtx, n)
				must(err)
				l = append(l, fmt.Sprintf("perm C%d%s %d %s", r.idx, role.tag, n, ints(p)))
			}
		}
	}
	return l
}

// betaLines gives the model the real hashed VRF betas of every node with a proof (VRF backend only).
func (w *world) betaLines() []string {
	if !w.p.useVRF {
		return nil
	}
	var l []string
	hb := func(which int, rt uint64, role scheduler.Role, beta []byte) string {
		h := schedulerapp.VerifHashedBeta(which, []byte(chainContext), beacon.EpochTime(w.epoch), rtID(rt), role, beta)
		return natOf(h[:])
	}
	seen := map[uint64]bool{}
	for _, n := range w.nodes {
		if !n.hasPi || seen[n.id] {
			continue
		}
		seen[n.id] = true
		beta := w.vrfProof(n.id).UnsafeToHash()
		l = append(l, fmt.Sprintf("beta V %d %s", n.id, hb(0, 0, 0, beta)))
		for _, r := range w.rts {
			l = append(l, fmt.Sprintf("beta C%dw %d %s", r.idx, n.id, hb(1, r.idx, scheduler.RoleWorker, beta)))
			l = append(l, fmt.Sprintf("beta C%db %d %s", r.idx, n.id, hb(1, r.idx, scheduler.RoleBackupWorker, beta)))
			l = append(l, fmt.Sprintf("beta D%dw %d %s", r.idx, n.id, hb(2, r.idx, scheduler.RoleWorker, beta)))
			l = append(l, fmt.Sprintf("beta D%db %d %s", r.idx, n.id, hb(2, r.idx, scheduler.RoleBackupWorker, beta)))
		}
	}
	return l
}

// ---- helper level: the package-private functions through the verif exports ---------------------

func (e *env) hValidators(w *world) string {
	e.setStaking(w)
	ctx := e.appState.NewContext(api.ContextBeginBlock)
	defer ctx.Close()
	must(schedulerState.NewMutableState(ctx.State()).PutPendingValidators(ctx, nil))
	stakeAcc, err := stakingState.NewStakeAccumulatorCache(ctx)
	must(err)
	var nodes []*node.Node
	for i := range w.nodes {
		n, _ := w.nodes[i].build()
		nodes = append(nodes, n)
	}
	_, err = schedulerapp.VerifElectValidators(ctx, beacon.EpochTime(w.epoch), w.beaconParams(), stakeAcc,
		map[staking.Address]struct{}{}, nodes, w.schedulerParams(), w.entropy, w.prevVRF())
	if err != nil {
		return classifyElectErr(err)
	}
	pend, err := schedulerState.NewMutableState(ctx.State()).PendingValidators(ctx)
	must(err)
	return showVals(pend)
}

func (e *env) hCommittee(w *world, rtIdx uint64, ve []uint64) string {
	e.setStaking(w)
	ctx := e.appState.NewContext(api.ContextBeginBlock)
	defer ctx.Close()
	var rs *rtSpec
	for i := range w.rts {
		if w.rts[i].idx == rtIdx {
			rs = &w.rts[i]
		}
	}
	if rs == nil {
		panic("hcommittee: unknown runtime")
	}
	rt := rs.build()
	st := schedulerState.NewMutableState(ctx.State())
	// Plant a stale committee so that "left alone" and "dropped" can be told apart.
	must(st.PutCommittee(ctx, &scheduler.Committee{Kind: scheduler.KindComputeExecutor, RuntimeID: rt.ID, ValidFor: 0}))
	stakeAcc, err := stakingState.NewStakeAccumulatorCache(ctx)
	must(err)
	var nodes []*node.Node
	var sts []*registry.NodeStatus
	for i := range w.nodes {
		n, s := w.nodes[i].build()
		nodes = append(nodes, n)
		sts = append(sts, s)
	}
	vem := map[staking.Address]struct{}{}
	for _, x := range ve {
		vem[entityAddr(x)] = struct{}{}
	}
	err = schedulerapp.VerifElectCommittee(ctx, beacon.EpochTime(w.epoch), w.schedulerParams(), w.beaconParams(),
		&registry.ConsensusParameters{}, stakeAcc, map[staking.Address]struct{}{}, vem, rt, nodes, sts, w.entropy, w.prevVRF(), w.p.fv261)
	if err != nil {
		return "err:" + strings.ReplaceAll(err.Error(), " ", "_")
	}
	c, err := st.Committee(ctx, scheduler.KindComputeExecutor, rt.ID)
	must(err)
	switch {
	case c == nil:
		return "dropped"
	case c.ValidFor == 0 && len(c.Members) == 0:
		return "unchanged"
	}
	return showCommittee(c)
}

// ---- application level: BeginBlock / EndBlock on the mock application state ---------------------

// syncState makes registry, staking, beacon, scheduler-parameter state describe the world.
func (e *env) syncState(w *world) {
	e.setStaking(w)
	ctx := e.appState.NewContext(api.ContextInitChain)
	defer ctx.Close()

	cp := &consensusGenesis.Parameters{}
	if w.p.fv261 {
		v := version.MustFromString("26.1")
		cp.FeatureVersion = &v
	}
	must(consensusState.NewMutableState(ctx.State()).SetConsensusParameters(ctx, cp))

	bs := beaconState.NewMutableState(ctx.State())
	must(bs.SetConsensusParameters(ctx, w.beaconParams()))
	must(bs.DebugForceSetBeacon(ctx, w.entropy))
	must(bs.SetEpoch(ctx, beacon.EpochTime(w.epoch), int64(w.epoch)*10))
	if w.p.useVRF {
		must(bs.SetVRFState(ctx, &beacon.VRFState{Epoch: beacon.EpochTime(w.epoch), Alpha: []byte("verif"), PrevState: w.prevVRF()}))
	}

	must(schedulerState.NewMutableState(ctx.State()).SetConsensusParameters(ctx, w.schedulerParams()))

	rs := registryState.NewMutableState(ctx.State())
	must(rs.SetConsensusParameters(ctx, &registry.ConsensusParameters{}))
	for _, n := range e.regNodes {
		must(rs.RemoveNode(ctx, n))
	}
	e.regNodes = nil
	for i := range w.nodes {
		n, st := w.nodes[i].build()
		must(rs.SetNode(ctx, nil, n, &node.MultiSignedNode{MultiSigned: signature.MultiSigned{Blob: cbor.Marshal(n)}}))
		must(rs.SetNodeStatus(ctx, n.ID, st))
		e.regNodes = append(e.regNodes, n)
	}
	for i := range w.rts {
		must(rs.SetRuntime(ctx, w.rts[i].build(), false))
	}
}

// electEpoch runs the scheduler application's BeginBlock and EndBlock for the world's epoch and
// returns the checking lines.
//
// kind: "elect" (epoch transition), "reelect" (same epoch, an escrow was slashed in this block:
// shouldElect's second trigger) or "idle" (no epoch change, no slashing: nothing may happen).
func (e *env) electEpoch(w *world, kind string) (lines []string) {
	e.syncState(w)
	e.cfg.CurrentEpoch = beacon.EpochTime(w.epoch)
	e.cfg.EpochChanged = kind == "elect"
	e.cfg.LastHeight = int64(w.epoch) * 10

	// committees stored before this election
	had := map[uint64]bool{}
	func() {
		ctx := e.appState.NewContext(api.ContextBeginBlock)
		defer ctx.Close()
		st := schedulerState.NewMutableState(ctx.State())
		for _, r := range w.rts {
			c, err := st.Committee(ctx, scheduler.KindComputeExecutor, rtID(r.idx))
			must(err)
			had[r.idx] = c != nil
		}
	}()

	var electErr error
	func() {
		ctx := e.appState.NewContext(api.ContextBeginBlock)
		defer ctx.Close()
		if kind == "reelect" {
			ctx.EmitEvent(api.NewEventBuilder(stakingapp.AppName).TypedAttribute(&staking.TakeEscrowEvent{}))
		}
		electErr = e.app.BeginBlock(ctx)
	}()
	if electErr != nil {
		return []string{"validators " + classifyElectErr(electErr)}
	}
	if kind == "idle" {
		// no election: nothing pending, committees untouched, no validator updates
		func() {
			ctx := e.appState.NewContext(api.ContextBeginBlock)
			defer ctx.Close()
			pend, err := schedulerState.NewMutableState(ctx.State()).PendingValidators(ctx)
			must(err)
			if pend != nil {
				lines = append(lines, "validators "+showVals(pend))
			}
		}()
		return append(lines, e.endBlock())
	}
	func() {
		ctx := e.appState.NewContext(api.ContextBeginBlock)
		defer ctx.Close()
		st := schedulerState.NewMutableState(ctx.State())
		pend, err := st.PendingValidators(ctx)
		must(err)
		lines = append(lines, "validators "+showVals(pend))
		for _, r := range w.rts {
			c, err := st.Committee(ctx, scheduler.KindComputeExecutor, rtID(r.idx))
			must(err)
			res := "none"
			switch {
			case c == nil:
			case uint64(c.ValidFor) == w.epoch:
				res = showCommittee(c)
			default:
				res = "kept"
			}
			lines = append(lines, fmt.Sprintf("committee %d %s %s", r.idx, b01(had[r.idx]), res))
		}
	}()
	lines = append(lines, e.endBlock())
	return lines
}

// endBlock runs the application's EndBlock and returns the `endblock` line (sorted validator updates).
func (e *env) endBlock() string {
	ctx := e.appState.NewContext(api.ContextEndBlock)
	defer ctx.Close()
	resp, err := e.app.EndBlock(ctx)
	if err != nil {
		return "endblock err:" + strings.ReplaceAll(err.Error(), " ", "_")
	}
	type upd struct {
		k string
		s string
	}
	var us []upd
	for _, u := range resp.ValidatorUpdates {
		pk := u.PubKey.GetEd25519()
		us = append(us, upd{string(pk), fmt.Sprintf("%s:%d", natOf(pk), u.Power)})
	}
	sort.SliceStable(us, func(i, j int) bool { return us[i].k < us[j].k })
	s := make([]string, len(us))
	for i := range us {
		s[i] = us[i].s
	}
	if len(s) == 0 {
		return "endblock -"
	}
	return "endblock " + strings.Join(s, ",")
}

// changeParams submits a governance change-parameters proposal to the real scheduler application:
// first the validation message (proposal submission), then, if that passes, the apply message (proposal
// closed). Returns whether the change was accepted; the world's parameters are re-read from state.
func (e *env) changeParams(w *world, minV, maxV *int, dist *uint8) bool {
	e.syncState(w)
	ch := scheduler.ConsensusParameterChanges{MinValidators: minV, MaxValidators: maxV}
	if dist != nil {
		d := scheduler.VotingPowerDistribution(*dist)
		ch.VotingPowerDistribution = &d
	}
	prop := &governance.ChangeParametersProposal{Module: scheduler.ModuleName, Changes: cbor.Marshal(ch)}
	ctx := e.appState.NewContext(api.ContextEndBlock)
	defer ctx.Close()
	accepted := false
	if res, err := e.app.ExecuteMessage(ctx, api.Message{Kind: governanceApi.MessageValidateParameterChanges, Data: prop}); err == nil && res != nil {
		if res, err = e.app.ExecuteMessage(ctx, api.Message{Kind: governanceApi.MessageChangeParameters, Data: prop}); err == nil && res != nil {
			accepted = true
		}
	}
	p, err := schedulerState.NewMutableState(ctx.State()).ConsensusParameters(ctx)
	must(err)
	w.p.minV, w.p.maxV, w.p.maxPer, w.p.dist = p.MinValidators, p.MaxValidators, p.MaxValidatorsPerEntity, uint8(p.VotingPowerDistribution)
	return accepted
}
