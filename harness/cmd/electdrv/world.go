package main

// The textual case format (one op per line) and its translation into the real oasis-core
// objects. A case is replayable from its op list alone.
//
//   mode app|helper
//   params <minV> <maxV> <maxPerEntity> <bypassStake> <dist> <useVRF> <canElect> <weakAlpha> <fv261>
//   epoch <e>                  (app mode: starts a new epoch section; everything until `elect` describes that epoch)
//   entropy <hex>
//   thr <kind> <value>
//   acct <entity> <escrow> <claims>
//   node <id> <entity> <consensusIdx> <roles> <expiration> <freezeEnd> <eligibleAfter> <hasPi> <faults> <runtimes>
//   rt <idx> <isCompute> <groupSize> <backupSize> <teeHw> <deployments> <csWorker> <csBackup>
//   elect                      (app mode) run BeginBlock + EndBlock of the scheduler application
//   change <min|n> <max|n> <dist|n>   (app mode) a governance change-parameters proposal for the scheduler module,
//                              through Application.ExecuteMessage (validate, then apply); the parameters in state afterwards
//                              are the world's parameters
//   hvalidators | hcommittee <rt> <validator entities> | hdiff <cur> <pending> | hdedup <limit> | hsort | hpower <stake> <dist>
//
// Entities, nodes, consensus keys and runtimes are small indices in the case text; the model is given the
// big-endian value of the real identifier bytes (entity: the 21-byte staking address).

import (
	"encoding/binary"
	"encoding/hex"
	"fmt"
	"math/big"
	"strconv"
	"strings"

	beacon "github.com/oasisprotocol/oasis-core/go/beacon/api"
	"github.com/oasisprotocol/oasis-core/go/common"
	"github.com/oasisprotocol/oasis-core/go/common/crypto/signature"
	memorySigner "github.com/oasisprotocol/oasis-core/go/common/crypto/signature/signers/memory"
	"github.com/oasisprotocol/oasis-core/go/common/node"
	"github.com/oasisprotocol/oasis-core/go/common/quantity"
	"github.com/oasisprotocol/oasis-core/go/common/version"
	registry "github.com/oasisprotocol/oasis-core/go/registry/api"
	scheduler "github.com/oasisprotocol/oasis-core/go/scheduler/api"
	staking "github.com/oasisprotocol/oasis-core/go/staking/api"
)

type params struct {
	minV, maxV, maxPer                    int
	bypass                                bool
	dist                                  uint8
	useVRF, canElect, weakAlpha, fv261 bool
}

type thrSpec struct {
	kind byte // 'g', 'c', 'm'
	val  *big.Int
}

type acctSpec struct {
	ent    uint64
	escrow *big.Int
	claims [][]thrSpec
	text   string
}

type nodeRtSpec struct {
	rt, ver       uint64
	hasTee        bool
	teeHw         uint64
	teeOk         bool
}

type nodeSpec struct {
	id, ent, cons                              uint64
	roles                                      uint64
	expiration, freezeEnd, eligibleAfter       uint64
	hasPi                                      bool
	faults                                     [][2]uint64
	rts                                        []nodeRtSpec
	faultsText, rtsText                        string
}

type csSpec struct {
	vs       bool
	maxNodes *uint16
	minPool  *uint16
	text     string
}

type rtSpec struct {
	idx                    uint64
	isCompute              bool
	groupSize, backupSize  uint16
	teeHw                  uint64
	deps                   [][2]uint64
	depsText               string
	csW, csB               csSpec
}

type world struct {
	p       params
	reach   bool // parameters are genesis-valid and were changed only through the real changeParameters
	epoch   uint64
	entropy []byte
	thr     map[uint64]*big.Int
	thrOrd  []uint64
	accts   []acctSpec
	nodes   []nodeSpec
	rts     []rtSpec
}

func newWorld() *world {
	return &world{p: params{minV: 1, maxV: 100, maxPer: 1, canElect: true, fv261: true}, reach: true, epoch: 1,
		entropy: []byte("verif entropy verif entropy verif entropy"), thr: map[uint64]*big.Int{}}
}

func pu(s string) uint64 {
	x, err := strconv.ParseUint(s, 10, 64)
	if err != nil {
		panic("bad number in op: " + s)
	}
	return x
}

func pi(s string) int {
	x, err := strconv.Atoi(s)
	if err != nil {
		panic("bad int in op: " + s)
	}
	return x
}

func pb(s string) bool {
	switch s {
	case "1":
		return true
	case "0":
		return false
	}
	panic("bad bool in op: " + s)
}

func pbig(s string) *big.Int {
	x, ok := new(big.Int).SetString(s, 10)
	if !ok || x.Sign() < 0 {
		panic("bad quantity in op: " + s)
	}
	return x
}

func b01(b bool) string {
	if b {
		return "1"
	}
	return "0"
}

func splitList(s, sep string) []string {
	if s == "-" {
		return nil
	}
	return strings.Split(s, sep)
}

func parseCs(s string) csSpec {
	f := strings.Split(s, ":")
	if len(f) != 3 {
		panic("bad constraints: " + s)
	}
	c := csSpec{vs: pb(f[0]), text: s}
	if f[1] != "n" {
		v := uint16(pu(f[1]))
		c.maxNodes = &v
	}
	if f[2] != "n" {
		v := uint16(pu(f[2]))
		c.minPool = &v
	}
	return c
}

// apply parses one state-describing op into the world; returns false if the op is not one.
func (w *world) apply(f []string) bool {
	switch f[0] {
	case "params":
		w.p = params{minV: pi(f[1]), maxV: pi(f[2]), maxPer: pi(f[3]), bypass: pb(f[4]), dist: uint8(pu(f[5])),
			useVRF: pb(f[6]), canElect: pb(f[7]), weakAlpha: pb(f[8]), fv261: pb(f[9])}
		// a `params` op writes the parameters into state directly: reachable iff InitChain would accept them
		w.reach = w.p.minV >= 1 && w.p.maxV >= 1 && w.p.maxPer >= 1
	case "epoch":
		w.epoch = pu(f[1])
	case "entropy":
		b, err := hex.DecodeString(f[1])
		if err != nil {
			panic("bad entropy")
		}
		w.entropy = b
	case "thr":
		k := pu(f[1])
		if _, ok := w.thr[k]; !ok {
			w.thrOrd = append(w.thrOrd, k)
		}
		w.thr[k] = pbig(f[2])
	case "acct":
		a := acctSpec{ent: pu(f[1]), escrow: pbig(f[2]), text: f[3]}
		for _, c := range splitList(f[3], ";") {
			var cl []thrSpec
			if c != "e" {
				for _, t := range strings.Split(c, ",") {
					switch t[0] {
					case 'm':
						cl = append(cl, thrSpec{kind: 'm'})
					case 'g', 'c':
						cl = append(cl, thrSpec{kind: t[0], val: pbig(t[1:])})
					default:
						panic("bad threshold " + t)
					}
				}
			}
			a.claims = append(a.claims, cl)
		}
		w.accts = append(w.accts, a)
	case "node":
		n := nodeSpec{id: pu(f[1]), ent: pu(f[2]), cons: pu(f[3]), roles: pu(f[4]), expiration: pu(f[5]),
			freezeEnd: pu(f[6]), eligibleAfter: pu(f[7]), hasPi: pb(f[8]), faultsText: f[9], rtsText: f[10]}
		for _, e := range splitList(f[9], ",") {
			x := strings.Split(e, ":")
			n.faults = append(n.faults, [2]uint64{pu(x[0]), pu(x[1])})
		}
		for _, e := range splitList(f[10], ",") {
			x := strings.Split(e, ":")
			n.rts = append(n.rts, nodeRtSpec{rt: pu(x[0]), ver: pu(x[1]), hasTee: pb(x[2]), teeHw: pu(x[3]), teeOk: pb(x[4])})
		}
		w.nodes = append(w.nodes, n)
	case "rt":
		r := rtSpec{idx: pu(f[1]), isCompute: pb(f[2]), groupSize: uint16(pu(f[3])), backupSize: uint16(pu(f[4])),
			teeHw: pu(f[5]), depsText: f[6], csW: parseCs(f[7]), csB: parseCs(f[8])}
		for _, e := range splitList(f[6], ",") {
			x := strings.Split(e, ":")
			r.deps = append(r.deps, [2]uint64{pu(x[0]), pu(x[1])})
		}
		w.rts = append(w.rts, r)
	default:
		return false
	}
	return true
}

// ---- identifiers ------------------------------------------------------------------------------

func keyOf(tag byte, idx uint64) signature.PublicKey {
	var pk signature.PublicKey
	pk[0] = tag
	binary.BigEndian.PutUint64(pk[24:], idx)
	return pk
}

func entityKey(e uint64) signature.PublicKey  { return keyOf(0xE0, e) }
func nodeKey(n uint64) signature.PublicKey    { return keyOf(0x00, n) }
func consKey(c uint64) signature.PublicKey    { return keyOf(0xC0, c) }
func entityAddr(e uint64) staking.Address     { return staking.NewAddress(entityKey(e)) }
func natOf(b []byte) string                   { return new(big.Int).SetBytes(b).String() }
func addrNat(a staking.Address) string        { return natOf(a[:]) }
func entNat(e uint64) string                  { a := entityAddr(e); return natOf(a[:]) }
func keyNat(k signature.PublicKey) string     { return natOf(k[:]) }

func rtID(idx uint64) common.Namespace {
	var ns common.Namespace
	binary.BigEndian.PutUint64(ns[24:], idx)
	return ns
}

// ---- real objects -----------------------------------------------------------------------------

func qty(b *big.Int) quantity.Quantity {
	var q quantity.Quantity
	if err := q.FromBigInt(b); err != nil {
		panic(err)
	}
	return q
}

func (w *world) schedulerParams() *scheduler.ConsensusParameters {
	return &scheduler.ConsensusParameters{
		MinValidators:           w.p.minV,
		MaxValidators:           w.p.maxV,
		MaxValidatorsPerEntity:  w.p.maxPer,
		DebugBypassStake:        w.p.bypass,
		DebugAllowWeakAlpha:     w.p.weakAlpha,
		VotingPowerDistribution: scheduler.VotingPowerDistribution(w.p.dist),
	}
}

func (w *world) beaconParams() *beacon.ConsensusParameters {
	bp := &beacon.ConsensusParameters{Backend: beacon.BackendInsecure}
	if w.p.useVRF {
		bp.Backend = beacon.BackendVRF
	}
	return bp
}

func (w *world) thresholds() map[staking.ThresholdKind]quantity.Quantity {
	m := map[staking.ThresholdKind]quantity.Quantity{}
	for k, v := range w.thr {
		m[staking.ThresholdKind(k)] = qty(v)
	}
	return m
}

func (a *acctSpec) account() *staking.Account {
	acct := &staking.Account{}
	acct.Escrow.Active.Balance = qty(a.escrow)
	for i, cl := range a.claims {
		ths := []staking.StakeThreshold{}
		for _, t := range cl {
			switch t.kind {
			case 'g':
				k := staking.ThresholdKind(t.val.Uint64())
				ths = append(ths, staking.StakeThreshold{Global: &k})
			case 'c':
				q := qty(t.val)
				ths = append(ths, staking.StakeThreshold{Constant: &q})
			default:
				ths = append(ths, staking.StakeThreshold{})
			}
		}
		acct.Escrow.StakeAccumulator.AddClaimUnchecked(staking.StakeClaim(fmt.Sprintf("claim-%d", i)), ths)
	}
	return acct
}

func (n *nodeSpec) build() (*node.Node, *registry.NodeStatus) {
	nd := &node.Node{
		ID:         nodeKey(n.id),
		EntityID:   entityKey(n.ent),
		Expiration: beacon.EpochTime(n.expiration),
		Roles:      node.RolesMask(n.roles),
	}
	nd.Versioned.V = node.LatestNodeDescriptorVersion
	nd.Consensus.ID = consKey(n.cons)
	nd.P2P.ID = keyOf(0xA0, n.id)
	nd.TLS.PubKey = keyOf(0xB0, n.id)
	nd.VRF.ID = keyOf(0xD0, n.id)
	for _, r := range n.rts {
		nr := &node.Runtime{ID: rtID(r.rt), Version: version.FromU64(r.ver)}
		if r.hasTee {
			// An attestation that cannot verify: the model's teeOk input is false for it.
			nr.Capabilities.TEE = &node.CapabilityTEE{Hardware: node.TEEHardware(r.teeHw), Attestation: []byte("verif: not an attestation")}
		}
		nd.Runtimes = append(nd.Runtimes, nr)
	}
	st := &registry.NodeStatus{
		FreezeEndTime:         beacon.EpochTime(n.freezeEnd),
		ElectionEligibleAfter: beacon.EpochTime(n.eligibleAfter),
	}
	for _, f := range n.faults {
		if st.Faults == nil {
			st.Faults = map[common.Namespace]*registry.Fault{}
		}
		st.Faults[rtID(f[0])] = &registry.Fault{Failures: 1, SuspendedUntil: beacon.EpochTime(f[1])}
	}
	return nd, st
}

func (c *csSpec) build() registry.SchedulingConstraints {
	var sc registry.SchedulingConstraints
	if c.vs {
		sc.ValidatorSet = &registry.ValidatorSetConstraint{}
	}
	if c.maxNodes != nil {
		sc.MaxNodes = &registry.MaxNodesConstraint{Limit: *c.maxNodes}
	}
	if c.minPool != nil {
		sc.MinPoolSize = &registry.MinPoolSizeConstraint{Limit: *c.minPool}
	}
	return sc
}

func (r *rtSpec) build() *registry.Runtime {
	rt := &registry.Runtime{
		ID:          rtID(r.idx),
		Kind:        registry.KindCompute,
		TEEHardware: node.TEEHardware(r.teeHw),
		Executor:    registry.ExecutorParameters{GroupSize: r.groupSize, GroupBackupSize: r.backupSize},
		Constraints: map[scheduler.CommitteeKind]map[scheduler.Role]registry.SchedulingConstraints{
			scheduler.KindComputeExecutor: {
				scheduler.RoleWorker:       r.csW.build(),
				scheduler.RoleBackupWorker: r.csB.build(),
			},
		},
	}
	rt.Versioned.V = registry.LatestRuntimeDescriptorVersion
	if !r.isCompute {
		rt.Kind = registry.KindKeyManager
	}
	for _, d := range r.deps {
		rt.Deployments = append(rt.Deployments, &registry.VersionInfo{ValidFrom: beacon.EpochTime(d[0]), Version: version.FromU64(d[1])})
	}
	return rt
}

// ---- lines for the model ------------------------------------------------------------------------

func (w *world) modelLines() []string {
	p := w.p
	l := []string{
		"reach " + b01(w.reach),
		fmt.Sprintf("params %d %d %d %s %d %s %s %s %s", p.minV, p.maxV, p.maxPer, b01(p.bypass), p.dist, b01(p.useVRF), b01(p.canElect), b01(p.weakAlpha), b01(p.fv261)),
		fmt.Sprintf("epoch %d", w.epoch),
	}
	for _, k := range w.thrOrd {
		l = append(l, fmt.Sprintf("thr %d %s", k, w.thr[k]))
	}
	for _, a := range w.accts {
		l = append(l, fmt.Sprintf("acct %s %s %s", entNat(a.ent), a.escrow, a.text))
	}
	for _, n := range w.nodes {
		l = append(l, fmt.Sprintf("node %d %s %s %d %d %d %d %s %s %s", n.id, entNat(n.ent), keyNat(consKey(n.cons)), n.roles,
			n.expiration, n.freezeEnd, n.eligibleAfter, b01(n.hasPi), n.faultsText, n.rtsText))
	}
	for _, r := range w.rts {
		l = append(l, fmt.Sprintf("rt %d %s %d %d %d %s %s %s", r.idx, b01(r.isCompute), r.groupSize, r.backupSize, r.teeHw, r.depsText, r.csW.text, r.csB.text))
	}
	return l
}

// ---- VRF state -----------------------------------------------------------------------------------

const chainContext = "verif-chain-context"

// vrfProof is a real VRF proof of the node's (test) VRF key over an alpha derived from the epoch entropy.
func (w *world) vrfProof(nodeID uint64) *signature.Proof {
	signer := memorySigner.NewTestSigner(fmt.Sprintf("verif vrf key %d", nodeID))
	signer.(*memorySigner.Signer).UnsafeSetRole(signature.SignerVRF)
	alpha := append([]byte("verif alpha "), w.entropy...)
	p, err := signature.Prove(signer, alpha)
	if err != nil {
		panic(err)
	}
	return p
}

// prevVRF is the previous epoch's VRF state the elections read (nil without the VRF backend).
func (w *world) prevVRF() *beacon.PrevVRFState {
	if !w.p.useVRF {
		return nil
	}
	st := &beacon.PrevVRFState{Pi: map[signature.PublicKey]*signature.Proof{}, CanElectCommittees: w.p.canElect}
	for _, n := range w.nodes {
		if n.hasPi {
			st.Pi[nodeKey(n.id)] = w.vrfProof(n.id)
		}
	}
	return st
}
