// electdrv: correspondence between the real oasis-core election code (scheduler application on the mock
// application state, and its package-private helpers through the verif-tagged exports) and the Lean
// reference model (`om_elect`), property C14. The implementation's outputs are also judged directly by
// the executable spec predicate `ValidElection` (answers `SPECFAIL …`).
package main

import (
	"flag"
	"fmt"
	"math/big"
	"os"
	"sort"
	"strings"

	"verifharness/hlib"

	"github.com/oasisprotocol/oasis-core/go/common/crypto/signature"
	"github.com/oasisprotocol/oasis-core/go/common/node"
	schedulerapp "github.com/oasisprotocol/oasis-core/go/consensus/cometbft/apps/scheduler"
	stakingState "github.com/oasisprotocol/oasis-core/go/consensus/cometbft/apps/staking/state"
	"github.com/oasisprotocol/oasis-core/go/consensus/cometbft/api"
	scheduler "github.com/oasisprotocol/oasis-core/go/scheduler/api"
	staking "github.com/oasisprotocol/oasis-core/go/staking/api"
)

var strictMax = true

// ---- running a case on the implementation -------------------------------------------------------

func parseValsIdx(s string) map[signature.PublicKey]*scheduler.Validator {
	m := map[signature.PublicKey]*scheduler.Validator{}
	for _, e := range splitList(s, ",") {
		f := strings.Split(e, ":")
		pw, ok := new(big.Int).SetString(f[3], 10)
		if !ok {
			panic("bad power")
		}
		m[consKey(pu(f[0]))] = &scheduler.Validator{ID: nodeKey(pu(f[1])), EntityID: entityKey(pu(f[2])), VotingPower: pw.Int64()}
	}
	return m
}

// runImpl executes the ops on the real code and returns the annotated lines for the model.
func runImpl(ops []string) (lines []string, panicked string) {
	defer func() {
		if r := recover(); r != nil {
			panicked = fmt.Sprint(r)
			lines = append(lines, "PANIC "+strings.ReplaceAll(panicked, " ", "_"))
		}
	}()
	e := newEnv()
	w := newWorld()
	app := false
	dirty := true
	halted := false
	lines = append(lines, "reset", "strict "+b01(strictMax))
	emitState := func() {
		if dirty {
			if app {
				lines = append(lines, "begin")
			} else {
				lines = append(lines, "reset", "strict "+b01(strictMax))
			}
			lines = append(lines, w.modelLines()...)
			lines = append(lines, w.permLines()...)
			lines = append(lines, w.betaLines()...)
			dirty = false
		}
	}
	for _, op := range ops {
		f := strings.Fields(op)
		if len(f) == 0 || halted {
			continue
		}
		if f[0] == "mode" {
			app = f[1] == "app"
			continue
		}
		if f[0] == "epoch" && app {
			// a new epoch section: the world is described afresh, the application state lives on
			nw := newWorld()
			nw.p, nw.entropy, nw.reach = w.p, w.entropy, w.reach
			w = nw
		}
		if w.apply(f) {
			dirty = true
			continue
		}
		switch f[0] {
		case "elect", "reelect", "idle":
			if app {
				sort.SliceStable(w.nodes, func(i, j int) bool { return w.nodes[i].id < w.nodes[j].id })
			}
			dirty = true
			emitState()
			res := e.electEpoch(w, f[0])
			lines = append(lines, res...)
			if strings.HasPrefix(res[0], "validators err:") {
				// BeginBlock failed: the chain halts here
				halted = true
			}
		case "change":
			opt := func(x string) *int {
				if x == "n" {
					return nil
				}
				v := pi(x)
				return &v
			}
			var dist *uint8
			if f[3] != "n" {
				d := uint8(pu(f[3]))
				dist = &d
			}
			dirty = true
			emitState() // the model judges the proposal against the parameters in force
			acc := e.changeParams(w, opt(f[1]), opt(f[2]), dist)
			lines = append(lines, fmt.Sprintf("change %s %s %s %s", f[1], f[2], f[3], b01(acc)))
			dirty = true
		case "hvalidators":
			emitState()
			lines = append(lines, "hvalidators "+e.hValidators(w))
		case "hcommittee":
			emitState()
			var ve []uint64
			var veN []string
			for _, x := range splitList(f[2], ",") {
				ve = append(ve, pu(x))
				veN = append(veN, entNat(pu(x)))
			}
			vs := "-"
			if len(veN) > 0 {
				vs = strings.Join(veN, ",")
			}
			lines = append(lines, fmt.Sprintf("hcommittee %s %s %s", f[1], vs, e.hCommittee(w, pu(f[1]), ve)))
		case "hdedup":
			emitState()
			var nodes []*node.Node
			for i := range w.nodes {
				n, _ := w.nodes[i].build()
				nodes = append(nodes, n)
			}
			out := schedulerapp.VerifDedupEntityNodesTrivial(nodes, uint16(pu(f[1])))
			var ids []string
			for _, n := range out {
				ids = append(ids, keyNat(n.ID))
			}
			s := "-"
			if len(ids) > 0 {
				s = strings.Join(ids, ",")
			}
			lines = append(lines, fmt.Sprintf("hdedup %s %s", f[1], s))
		case "hsort":
			emitState()
			e.setStaking(w)
			func() {
				ctx := e.appState.NewContext(api.ContextBeginBlock)
				defer ctx.Close()
				stakeAcc, err := stakingState.NewStakeAccumulatorCache(ctx)
				must(err)
				ents := map[staking.Address]struct{}{}
				for _, n := range w.nodes {
					ents[entityAddr(n.ent)] = struct{}{}
				}
				out, err := schedulerapp.VerifStakingAddressMapToSliceByStake(ents, stakeAcc, w.entropy, w.schedulerParams())
				must(err)
				var s []string
				for _, a := range out {
					s = append(s, addrNat(a))
				}
				r := "-"
				if len(s) > 0 {
					r = strings.Join(s, ",")
				}
				lines = append(lines, "hsort "+r)
			}()
		case "hdiff":
			cur, pend := parseValsIdx(f[1]), parseValsIdx(f[2])
			us := schedulerapp.VerifDiffValidators(cur, pend)
			type upd struct{ k, s string }
			var l []upd
			for _, u := range us {
				pk := u.PubKey.GetEd25519()
				l = append(l, upd{string(pk), fmt.Sprintf("%s:%d", natOf(pk), u.Power)})
			}
			sort.SliceStable(l, func(i, j int) bool { return l[i].k < l[j].k })
			var s []string
			for _, x := range l {
				s = append(s, x.s)
			}
			r := "-"
			if len(s) > 0 {
				r = strings.Join(s, ",")
			}
			lines = append(lines, fmt.Sprintf("hdiff %s %s %s", showVals(cur), showVals(pend), r))
		case "hpower":
			q := qty(pbig(f[1]))
			pw, err := scheduler.VotingPowerFromStake(&q, scheduler.VotingPowerDistribution(pu(f[2])))
			r := fmt.Sprint(pw)
			if err != nil {
				r = "err"
			}
			lines = append(lines, fmt.Sprintf("hpower %s %s %s", f[1], f[2], r))
		default:
			panic("unknown op " + op)
		}
	}
	return
}

// check runs implementation (twice: two replicas) and model; returns "" or what went wrong.
func check(ops []string) (detail string, lines []string) {
	lines, pan := runImpl(ops)
	if pan != "" {
		return "implementation panicked: " + pan, lines
	}
	lines2, _ := runImpl(ops)
	if strings.Join(lines, "\n") != strings.Join(lines2, "\n") {
		for i := range lines {
			if i >= len(lines2) || lines[i] != lines2[i] {
				return fmt.Sprintf("replicas differ at line %d: `%s` vs `%s`", i, lines[i], safeIdx(lines2, i)), lines
			}
		}
		return "replicas differ in length", lines
	}
	ans, err := hlib.RunModel("elect", lines)
	if err != nil {
		return "model-error: " + err.Error(), lines
	}
	if i := hlib.FirstBad(ans, "ok"); i >= 0 {
		return fmt.Sprintf("at line %d `%s`: %s", i, clip(lines[i]), ans[i]), lines
	}
	return "", lines
}

func safeIdx(l []string, i int) string {
	if i < len(l) {
		return l[i]
	}
	return "<missing>"
}

func clip(s string) string {
	if len(s) > 300 {
		return s[:300] + "…"
	}
	return s
}

func signature_(detail string) string {
	cls := func(prefix string) string {
		switch {
		case strings.Contains(detail, "`validators") || strings.Contains(detail, "`hvalidators"):
			return prefix + "-validators"
		case strings.Contains(detail, "`committee") || strings.Contains(detail, "`hcommittee"):
			return prefix + "-committee"
		case strings.Contains(detail, "`endblock") || strings.Contains(detail, "`hdiff"):
			return prefix + "-updates"
		case strings.Contains(detail, "`hdedup"):
			return prefix + "-dedup"
		case strings.Contains(detail, "`hsort"):
			return prefix + "-sort-by-stake"
		case strings.Contains(detail, "`hpower"):
			return prefix + "-voting-power"
		}
		return prefix + "-other"
	}
	switch {
	case strings.Contains(detail, "panicked"):
		return "panic"
	case strings.Contains(detail, "replicas differ"):
		return "replica-divergence"
	case strings.Contains(detail, "model-error"):
		return "model-error"
	case strings.Contains(detail, "SPECFAIL") && strings.Contains(detail, "MaxValidators="):
		return "spec-max-validators"
	case strings.Contains(detail, "SPECFAIL") && strings.Contains(detail, "MinValidators="):
		return "spec-min-validators"
	case strings.Contains(detail, "SPECFAIL"):
		return cls("spec")
	case strings.Contains(detail, "DIVERGE"):
		return cls("diverge")
	}
	return "other"
}

// ---- generators -----------------------------------------------------------------------------------

type gen struct {
	r   *hlib.Rng
	res *hlib.Result
	vrf bool // this case uses the VRF beacon backend
}

func (g *gen) pick(xs ...int) int { return xs[g.r.Intn(len(xs))] }

// defect is true with probability num/den, four times less often in a healthy world.
func (g *gen) defect(gw *genWorld, num, den int) bool {
	if gw.healthy {
		den *= 4
	}
	return g.r.Chance(num, den)
}

func (g *gen) genParams(appMode bool) string {
	var minV, maxV, maxPer int
	if appMode && g.r.Chance(3, 4) {
		minV, maxV, maxPer = g.pick(1, 1, 2), g.pick(1, 2, 3, 5, 100), g.pick(1, 1, 2, 3)
	} else {
		minV, maxV, maxPer = g.pick(-1, 0, 1, 1, 1, 1, 2, 3), g.pick(-1, 0, 0, 1, 1, 2, 2, 3, 5, 100, 100), g.pick(-1, 0, 1, 1, 1, 1, 2, 2, 3)
	}
	if maxV <= 0 {
		g.res.Count("params:maxValidators<=0")
	}
	if maxPer <= 0 {
		g.res.Count("params:maxPerEntity<=0")
	}
	bypass := g.r.Chance(1, 10)
	if bypass {
		g.res.Count("params:bypassStake")
	}
	dist := g.pick(0, 0, 1, 1, 2)
	fv := !g.r.Chance(1, 6)
	useVRF, canElect, weak := g.vrf, true, false
	if useVRF {
		g.res.Count("params:vrf-backend")
		canElect = !g.r.Chance(1, 6)
		weak = g.r.Chance(1, 5)
		if !canElect {
			g.res.Count("params:vrf-weak-alpha")
		}
	}
	return fmt.Sprintf("params %d %d %d %s %d %s %s %s %s", minV, maxV, maxPer, b01(bypass), dist, b01(useVRF), b01(canElect), b01(weak), b01(fv))
}

type genWorld struct {
	epoch   uint64
	nEnt    int
	thr     map[int]int64
	escrow  []*big.Int
	claims  []string
	nodes   []string // node op tails by id order
	nodeIDs []uint64
	rts     []string
	rtVer   map[uint64]uint64 // active version per runtime (best effort, for matching nodes)
	nextID  uint64
	healthy bool // most nodes and entities are eligible (so that elections succeed often)
}

func (g *gen) genClaims(gw *genWorld) (string, *big.Int) {
	n := g.pick(0, 1, 1, 2, 3)
	if n == 0 {
		return "-", big.NewInt(0)
	}
	total := big.NewInt(0)
	malformed := false
	var cs []string
	for i := 0; i < n; i++ {
		k := g.pick(0, 1, 1, 2, 3)
		if k == 0 {
			cs = append(cs, "e")
			continue
		}
		var ts []string
		for j := 0; j < k; j++ {
			switch x := g.r.Intn(20); {
			case x == 0 && !(gw.healthy && g.r.Chance(3, 4)):
				ts = append(ts, "m")
				malformed = true
				g.res.Count("claims:malformed-threshold")
			case x < 12:
				kind := g.pick(0, 1, 2, 7)
				ts = append(ts, fmt.Sprintf("g%d", kind))
				total.Add(total, big.NewInt(gw.thr[kind]))
			default:
				v := int64(g.pick(0, 1, 5, 50, 1000))
				ts = append(ts, fmt.Sprintf("c%d", v))
				total.Add(total, big.NewInt(v))
			}
		}
		cs = append(cs, strings.Join(ts, ","))
	}
	if malformed {
		return strings.Join(cs, ";"), nil
	}
	return strings.Join(cs, ";"), total
}

func (g *gen) genEscrow(gw *genWorld, total *big.Int) *big.Int {
	if total == nil {
		return big.NewInt(int64(g.pick(0, 100, 100000)))
	}
	if gw.healthy && g.r.Chance(1, 2) {
		return new(big.Int).Add(total, big.NewInt(int64(g.r.Intn(5000))))
	}
	switch x := g.r.Intn(18); {
	case x < 3:
		g.res.Count("stake:exactly-at-claims")
		return new(big.Int).Set(total)
	case x < 5:
		if total.Sign() > 0 {
			g.res.Count("stake:one-below-claims")
			return new(big.Int).Sub(total, big.NewInt(1))
		}
		return big.NewInt(0)
	case x < 7:
		g.res.Count("stake:one-above-claims")
		return new(big.Int).Add(total, big.NewInt(1))
	case x < 9 && len(gw.escrow) > 0:
		g.res.Count("stake:tie-with-other-entity")
		return new(big.Int).Set(gw.escrow[g.r.Intn(len(gw.escrow))])
	case x == 9:
		// around the int64 voting power boundary (2^63 * 16 base units for the linear distribution)
		g.res.Count("stake:near-2^67")
		b := new(big.Int).Lsh(big.NewInt(1), 67)
		return b.Add(b, big.NewInt(int64(g.pick(-17, -16, -1, 0, 15, 16))))
	case x == 10:
		g.res.Count("stake:near-2^63")
		b := new(big.Int).Lsh(big.NewInt(1), 63)
		return b.Add(b, big.NewInt(int64(g.pick(-1, 0, 1))))
	}
	return new(big.Int).Add(total, big.NewInt(int64(g.r.Intn(5000))))
}

func optLim(g *gen, xs ...int) string {
	x := xs[g.r.Intn(len(xs))]
	if x < 0 {
		return "n"
	}
	return fmt.Sprint(x)
}

func (g *gen) genRuntime(gw *genWorld, idx uint64) string {
	isCompute := !g.r.Chance(1, 8)
	gs, bs := g.pick(0, 1, 1, 1, 2, 2, 3), g.pick(0, 0, 1, 1, 2)
	tee := 0
	if g.r.Chance(1, 8) {
		tee = 1
	}
	var deps []string
	nd := g.pick(0, 1, 1, 1, 2, 2, 3)
	var bestFrom, bestVer uint64
	have := false
	for i := 0; i < nd; i++ {
		d := g.pick(-2, -1, -1, 0, 0, 1)
		if int(gw.epoch)+d < 0 {
			d = 0
		}
		from := uint64(int(gw.epoch) + d)
		ver := uint64(g.pick(1, 2, 3))
		deps = append(deps, fmt.Sprintf("%d:%d", from, ver))
		if from <= gw.epoch && (!have || bestFrom < from) {
			have, bestFrom, bestVer = true, from, ver
		}
	}
	if have {
		gw.rtVer[idx] = bestVer
	} else {
		gw.rtVer[idx] = 1
	}
	d := "-"
	if len(deps) > 0 {
		d = strings.Join(deps, ",")
	}
	cs := func() string {
		return fmt.Sprintf("%s:%s:%s", b01(g.r.Chance(1, 5)), optLim(g, -1, -1, -1, -1, 0, 1, 1, 2, 2), optLim(g, -1, -1, -1, 0, 1, 2, 3, 4))
	}
	return fmt.Sprintf("rt %d %s %d %d %d %s %s %s", idx, b01(isCompute), gs, bs, tee, d, cs(), cs())
}

func (g *gen) genNode(gw *genWorld, id uint64, appMode bool) string {
	ent := g.r.Intn(gw.nEnt)
	cons := id
	if !appMode && g.r.Chance(1, 12) && len(gw.nodeIDs) > 0 {
		cons = gw.nodeIDs[g.r.Intn(len(gw.nodeIDs))]
		g.res.Count("nodes:duplicate-consensus-key")
	}
	roles := g.pick(8, 8, 9, 9, 9, 9, 1, 1, 1, 0, 2, 12, 3)
	if gw.healthy {
		roles = g.pick(8, 9, 9, 9, 9, 1, 1, 11, 0)
	}
	e := int(gw.epoch)
	exp := e + g.pick(0, 0, 1, 5, 5, 5)
	if g.defect(gw, 1, 6) {
		exp = e - 1
	}
	if exp < 0 {
		exp = 0
	}
	if exp < e {
		g.res.Count("nodes:expired")
	}
	freeze := 0
	if g.defect(gw, 1, 8) {
		freeze = g.pick(1, e, e+3, 1<<40)
		g.res.Count("nodes:frozen")
	}
	elig := g.pick(0, 0, e-1, e-1)
	if g.defect(gw, 1, 3) {
		elig = g.pick(e, e+1)
	}
	if elig < 0 {
		elig = 0
	}
	var faults, rts []string
	for i := range gw.rts {
		rt := uint64(i + 1)
		if g.defect(gw, 1, 5) {
			until := g.pick(0, e, e+1, e+3)
			faults = append(faults, fmt.Sprintf("%d:%d", rt, until))
			if until > e {
				g.res.Count("nodes:suspended")
			}
		}
		if g.r.Chance(5, 6) {
			ver := gw.rtVer[rt]
			if g.defect(gw, 1, 6) {
				ver = uint64(g.pick(1, 2, 3))
			}
			hasTee := g.defect(gw, 1, 8)
			rts = append(rts, fmt.Sprintf("%d:%d:%s:%d:0", rt, ver, b01(hasTee), g.pick(1, 1, 2)))
			if g.r.Chance(1, 8) {
				// a second entry for the same runtime (another version)
				rts = append(rts, fmt.Sprintf("%d:%d:0:0:0", rt, g.pick(1, 2, 3)))
			}
		}
	}
	fs, rs := "-", "-"
	if len(faults) > 0 {
		fs = strings.Join(faults, ",")
	}
	if len(rts) > 0 {
		rs = strings.Join(rts, ",")
	}
	hasPi := true
	if g.vrf && g.defect(gw, 1, 5) {
		hasPi = false
		g.res.Count("nodes:no-vrf-proof")
	}
	if g.vrf && elig >= e {
		g.res.Count("nodes:not-yet-eligible-for-election")
	}
	return fmt.Sprintf("node %d %d %d %d %d %d %d %s %s %s", id, ent, cons, roles, exp, freeze, elig, b01(hasPi), fs, rs)
}

func (g *gen) newGenWorld(epoch uint64) *genWorld {
	gw := &genWorld{epoch: epoch, nEnt: 1 + g.r.Intn(5), thr: map[int]int64{}, rtVer: map[uint64]uint64{}, nextID: 1, healthy: g.r.Chance(3, 5)}
	for _, k := range []int{0, 1, 2} {
		if g.r.Chance(3, 4) {
			gw.thr[k] = int64(g.pick(0, 10, 100, 1000))
		}
	}
	return gw
}

func (gw *genWorld) ops(g *gen, withParams string, entropy bool) []string {
	ops := []string{fmt.Sprintf("epoch %d", gw.epoch)}
	if withParams != "" {
		ops = append(ops, withParams)
	}
	if entropy {
		ops = append(ops, fmt.Sprintf("entropy %016x%016x%016x%016x", g.r.Next(), g.r.Next(), g.r.Next(), g.r.Next()))
	}
	for _, k := range []int{0, 1, 2} {
		if v, ok := gw.thr[k]; ok {
			ops = append(ops, fmt.Sprintf("thr %d %d", k, v))
		}
	}
	for i := 0; i < gw.nEnt; i++ {
		ops = append(ops, fmt.Sprintf("acct %d %s %s", i, gw.escrow[i], gw.claims[i]))
	}
	ops = append(ops, gw.rts...)
	ops = append(ops, gw.nodes...)
	return ops
}

func (g *gen) populate(gw *genWorld, appMode bool) {
	for i := 0; i < gw.nEnt; i++ {
		c, total := g.genClaims(gw)
		gw.claims = append(gw.claims, c)
		gw.escrow = append(gw.escrow, g.genEscrow(gw, total))
	}
	nrt := g.pick(0, 1, 1, 2)
	for i := 0; i < nrt; i++ {
		gw.rts = append(gw.rts, g.genRuntime(gw, uint64(i+1)))
	}
	nn := g.r.Intn(15)
	for i := 0; i < nn; i++ {
		id := gw.nextID
		gw.nextID++
		gw.nodes = append(gw.nodes, g.genNode(gw, id, appMode))
		gw.nodeIDs = append(gw.nodeIDs, id)
	}
	if !appMode {
		// the helpers take the node list as given: any order
		for i := len(gw.nodes) - 1; i > 0; i-- {
			j := g.r.Intn(i + 1)
			gw.nodes[i], gw.nodes[j] = gw.nodes[j], gw.nodes[i]
		}
	}
}

func (g *gen) genHelperCase() []string {
	g.res.Count("case:helper")
	epoch := uint64(g.pick(0, 1, 3, 7))
	gw := g.newGenWorld(epoch)
	g.populate(gw, false)
	ops := append([]string{"mode helper"}, gw.ops(g, g.genParams(false), true)...)
	ops = append(ops, "hvalidators")
	for i := range gw.rts {
		var ve []string
		for e := 0; e < gw.nEnt; e++ {
			if g.r.Bool() {
				ve = append(ve, fmt.Sprint(e))
			}
		}
		v := "-"
		if len(ve) > 0 {
			v = strings.Join(ve, ",")
		}
		ops = append(ops, fmt.Sprintf("hcommittee %d %s", i+1, v))
	}
	ops = append(ops, fmt.Sprintf("hdedup %d", g.pick(0, 1, 1, 2, 3)), "hsort")
	// pure helpers
	mk := func() string {
		n := g.r.Intn(4)
		var l []string
		seen := map[int]bool{}
		for i := 0; i < n; i++ {
			k := g.r.Intn(5)
			if seen[k] {
				continue
			}
			seen[k] = true
			l = append(l, fmt.Sprintf("%d:%d:%d:%d", k, k, g.r.Intn(3), g.pick(1, 1, 2, 5)))
		}
		if len(l) == 0 {
			return "-"
		}
		return strings.Join(l, ",")
	}
	ops = append(ops, fmt.Sprintf("hdiff %s %s", mk(), mk()))
	stake := g.genEscrow(gw, big.NewInt(int64(g.pick(0, 15, 16, 17, 255, 256, 1<<40))))
	if g.r.Chance(1, 3) {
		// around a perfect square (integer square root rounding), up to 2^126
		k := new(big.Int).SetUint64(g.r.Next() >> uint(g.r.Intn(64)))
		stake = new(big.Int).Mul(k, k)
		stake.Add(stake, big.NewInt(int64(g.pick(-1, 0, 1))))
		if stake.Sign() < 0 {
			stake = big.NewInt(0)
		}
		g.res.Count("power:around-perfect-square")
	}
	ops = append(ops, fmt.Sprintf("hpower %s %d", stake, g.pick(0, 1, 1, 2)))
	return ops
}

func (g *gen) genAppCase(epochs int) []string {
	g.res.Count("case:app")
	epoch := uint64(g.pick(1, 2, 5))
	gw := g.newGenWorld(epoch)
	g.populate(gw, true)
	ops := []string{"mode app"}
	ops = append(ops, gw.ops(g, g.genParams(true), true)...)
	ops = append(ops, "elect")
	for ep := 1; ep < epochs; ep++ {
		g.res.Count("app:successive-epoch")
		gw.epoch += uint64(g.pick(1, 1, 2))
		// stake changes
		for i := range gw.escrow {
			if g.r.Chance(1, 3) {
				c, total := gw.claims[i], (*big.Int)(nil)
				_ = c
				if g.r.Chance(1, 3) {
					gw.claims[i], total = g.genClaims(gw)
					gw.escrow[i] = g.genEscrow(gw, total)
				} else {
					d := big.NewInt(int64(g.pick(-50, -1, 1, 50, 1000)))
					n := new(big.Int).Add(gw.escrow[i], d)
					if n.Sign() < 0 {
						n = big.NewInt(0)
					}
					gw.escrow[i] = n
				}
				g.res.Count("app:stake-changed")
			}
		}
		// membership changes: drop, regenerate (status changes), add
		var nodes []string
		var ids []uint64
		for i, n := range gw.nodes {
			switch x := g.r.Intn(10); {
			case x == 0:
				g.res.Count("app:node-removed")
			case x < 3:
				nodes = append(nodes, g.genNode(gw, gw.nodeIDs[i], true))
				ids = append(ids, gw.nodeIDs[i])
				g.res.Count("app:node-changed")
			default:
				nodes = append(nodes, n)
				ids = append(ids, gw.nodeIDs[i])
			}
		}
		gw.nodes, gw.nodeIDs = nodes, ids
		for k := g.pick(0, 0, 1, 2); k > 0; k-- {
			id := gw.nextID
			gw.nextID++
			gw.nodes = append(gw.nodes, g.genNode(gw, id, true))
			gw.nodeIDs = append(gw.nodeIDs, id)
			g.res.Count("app:node-added")
		}
		if g.r.Chance(1, 4) {
			for i := range gw.rts {
				gw.rts[i] = g.genRuntime(gw, uint64(i+1))
			}
			g.res.Count("app:runtimes-changed")
		}
		prm := ""
		if g.r.Chance(1, 4) {
			prm = g.genParams(true)
			g.res.Count("app:params-injected")
		}
		if g.r.Chance(1, 3) {
			// a governance proposal through the real changeParameters, incl. zero and negative limits
			o := func(xs ...int) string {
				x := xs[g.r.Intn(len(xs))]
				if x == -99 {
					return "n"
				}
				return fmt.Sprint(x)
			}
			ops = append(ops, fmt.Sprintf("change %s %s %s", o(-99, -99, -1, 0, 1, 1, 2), o(-99, -1, 0, 0, 1, 2, 3, 5, 100), o(-99, -99, 0, 1, 2)))
			g.res.Count("app:change-parameters-proposal")
		}
		ops = append(ops, gw.ops(g, prm, true)...)
		ops = append(ops, "elect")
		switch g.r.Intn(6) {
		case 0:
			// a block without epoch change and without slashing: no election
			g.res.Count("app:idle-block")
			ops = append(ops, gw.ops(g, "", false)...)
			ops = append(ops, "idle")
		case 1:
			// an escrow was slashed in a later block of the same epoch: re-election without rewards
			g.res.Count("app:reelection-after-slash")
			i := g.r.Intn(gw.nEnt)
			gw.escrow[i] = new(big.Int).Quo(gw.escrow[i], big.NewInt(2))
			ops = append(ops, gw.ops(g, "", false)...)
			ops = append(ops, "reelect")
		}
	}
	return ops
}

// ---- bookkeeping ----------------------------------------------------------------------------------

func countOutcome(res *hlib.Result, lines []string) (nontrivial bool) {
	vrf := ""
	for _, l := range lines {
		f := strings.Fields(l)
		switch f[0] {
		case "change":
			if f[4] == "1" {
				res.Count("change:accepted")
			} else {
				res.Count("change:rejected")
				if f[1] == "0" || f[2] == "0" || strings.HasPrefix(f[1], "-") || strings.HasPrefix(f[2], "-") {
					res.Count("change:rejected-nonpositive-limit")
				}
			}
		case "reach":
			if f[1] == "0" {
				res.Count("params:unreachable-injected(spec limits not judged)")
			}
		case "params":
			vrf = ""
			if f[6] == "1" {
				vrf = "vrf:"
			}
		case "validators", "hvalidators":
			switch {
			case strings.HasPrefix(f[1], "err:"):
				res.Count("validators:" + f[1])
			case f[1] == "-":
				res.Count("validators:empty")
			default:
				nontrivial = true
				res.Count("validators:elected")
				if vrf != "" {
					res.Count("vrf:validators:elected")
				}
				if n := strings.Count(f[1], ",") + 1; n > 1 {
					res.Count("validators:elected>1")
				}
			}
		case "committee", "hcommittee":
			r := f[len(f)-1]
			switch r {
			case "none", "dropped":
				res.Count("committee:none")
			case "kept", "unchanged":
				res.Count("committee:left-alone")
			default:
				nontrivial = true
				res.Count("committee:elected")
				if vrf != "" {
					res.Count("vrf:committee:elected")
				}
				if strings.Contains(r, "b:") {
					res.Count("committee:with-backup-workers")
				}
			}
		case "endblock", "hdiff":
			r := f[len(f)-1]
			if r != "-" {
				res.Count("updates:non-empty")
				if strings.Contains(r, ":0") {
					res.Count("updates:with-removal")
				}
			} else {
				res.Count("updates:empty")
			}
		}
	}
	return
}

func removable(op string) bool {
	for _, p := range []string{"node ", "acct ", "rt ", "thr ", "change ", "hcommittee", "hdedup", "hsort", "hdiff", "hpower", "hvalidators"} {
		if strings.HasPrefix(op, p) {
			return true
		}
	}
	return false
}

func shrinkCase(ops []string, sig string) []string {
	var idx []int
	for i, op := range ops {
		if removable(op) {
			idx = append(idx, i)
		}
	}
	build := func(keep []int) []string {
		k := map[int]bool{}
		for _, i := range keep {
			k[i] = true
		}
		var out []string
		for i, op := range ops {
			if !removable(op) || k[i] {
				out = append(out, op)
			}
		}
		return out
	}
	kept := hlib.Shrink(idx, func(c []int) bool {
		d, _ := check(build(c))
		return d != "" && signature_(d) == sig
	})
	if d, _ := check(build(nil)); d != "" && signature_(d) == sig {
		return build(nil)
	}
	return build(kept)
}

func main() {
	seed := flag.Uint64("seed", 1, "seed")
	cases := flag.Int("cases", 300, "number of generated cases")
	epochs := flag.Int("epochs", 4, "max successive epochs per application-level case")
	out := flag.String("out", "-", "result file")
	replay := flag.String("replay", "", "replay file (one op per line)")
	corpus := flag.String("corpus", "", "corpus dir, run first")
	verbose := flag.Bool("v", false, "with -replay: print the lines sent to the model and its answers")
	strict := flag.Bool("strict-max", true, "spec predicate demands count <= MaxValidators (false: max(MaxValidators,1), the bound of the election function itself)")
	flag.Parse()
	strictMax = *strict

	res := hlib.NewResult("electdrv", *seed)
	res.Rule = "two kinds of generated cases: (helper) electValidators / electCommittee / dedupEntityNodesTrivial / stakingAddressMapToSliceByStake / diffValidators / VotingPowerFromStake through the verif exports on arbitrary node lists (any order, duplicate consensus keys); (app) the scheduler application's BeginBlock+EndBlock on the mock application state over 1..epochs successive epochs with changing stake, membership, runtimes and parameters. Registries: 1-5 entities with 0-10 nodes, mixed roles, expired/frozen/suspended/ineligible nodes, several runtime versions; escrow exactly at / one below / one above the claim total, ties, 2^63 and 2^67 boundaries, malformed thresholds; MinValidators/MaxValidators/MaxValidatorsPerEntity in -1..100 (non-positive values injected into state are model-correspondence cases whose count limit the spec does not judge; reachable settings — genesis-valid, then changed only by change-parameters proposals driven through Application.ExecuteMessage incl. 0 and negative values, which must be rejected — are judged against the configured limits); MaxNodes 0-2, MinPoolSize 0-4, validator-set constraint; fresh entropy per epoch. Every case runs on two replicas. A case is non-trivial when a validator set or a committee was elected; distinct by op list"
	runOne := func(ops []string, caseSeed uint64, minimize bool) []string {
		d, lines := check(ops)
		res.Cases++
		res.Ops += len(lines)
		if d == "" {
			return lines
		}
		sig := signature_(d)
		min := ops
		if minimize {
			min = shrinkCase(ops, sig)
			if dd, _ := check(min); dd != "" {
				d = dd
			}
		}
		kind := "divergence"
		switch {
		case sig == "panic":
			kind = "panic"
		case strings.HasPrefix(sig, "spec"):
			kind = "spec"
		}
		res.Fail(hlib.Failure{Kind: kind, Detail: d, Case: min, Seed: caseSeed, Sig: sig})
		return lines
	}

	if *replay != "" {
		ops, err := hlib.ReadLines(*replay)
		if err != nil {
			fmt.Fprintln(os.Stderr, err)
			os.Exit(2)
		}
		lines := runOne(ops, 0, false)
		if *verbose {
			ans, _ := hlib.RunModel("elect", lines)
			for i, l := range lines {
				fmt.Fprintf(os.Stderr, "%s\n    -> %s\n", l, safeIdx(ans, i))
			}
		}
		res.Write(*out)
		return
	}
	if *corpus != "" {
		ents, _ := os.ReadDir(*corpus)
		for _, e := range ents {
			if ops, err := hlib.ReadLines(*corpus + "/" + e.Name()); err == nil && len(ops) > 0 {
				runOne(ops, 0, false)
				res.Count("corpus")
			}
		}
	}
	rng := hlib.NewRng(*seed)
	seen := map[string]bool{}
	for i := 0; i < *cases; i++ {
		cr := rng.Fork()
		cs := cr.Seed()
		g := &gen{r: cr, res: res, vrf: cr.Chance(2, 5)}
		var ops []string
		if i%2 == 0 {
			ops = g.genHelperCase()
		} else {
			ops = g.genAppCase(1 + cr.Intn(*epochs))
		}
		lines := runOne(ops, cs, true)
		if countOutcome(res, lines) {
			key := strings.Join(ops, ";")
			if !seen[key] {
				seen[key] = true
				res.Distinct++
			}
		}
		if i < 2 {
			res.AddSample(ops)
		}
		if len(res.Failures) >= 5 {
			break
		}
	}
	res.Write(*out)
}
