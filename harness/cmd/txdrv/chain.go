// chain.go: a real ABCI multiplexer with the 8 real consensus applications and the real staking
// transaction-authentication handler, assembled in-process the way
// go/consensus/cometbft/full/common.go does (copied from muxdrv, extended with gas costs for every
// module, a minimum transact balance, spare entities / nodes / runtimes for the registry, roothash
// and key manager transactions, and beacon backend variants).
package main

import (
	"context"
	"encoding/hex"
	"encoding/json"
	"fmt"
	"net"
	"os"
	"path/filepath"
	"runtime/debug"
	"sort"
	"time"

	"github.com/cometbft/cometbft/abci/types"
	"github.com/cometbft/cometbft/crypto/ed25519"
	cmtproto "github.com/cometbft/cometbft/proto/tendermint/types"

	beacon "github.com/oasisprotocol/oasis-core/go/beacon/api"
	"github.com/oasisprotocol/oasis-core/go/common"
	"github.com/oasisprotocol/oasis-core/go/common/cbor"
	"github.com/oasisprotocol/oasis-core/go/common/crypto/signature"
	memorySigner "github.com/oasisprotocol/oasis-core/go/common/crypto/signature/signers/memory"
	"github.com/oasisprotocol/oasis-core/go/common/entity"
	"github.com/oasisprotocol/oasis-core/go/common/identity"
	"github.com/oasisprotocol/oasis-core/go/common/node"
	"github.com/oasisprotocol/oasis-core/go/common/persistent"
	"github.com/oasisprotocol/oasis-core/go/common/quantity"
	"github.com/oasisprotocol/oasis-core/go/consensus/api/transaction"
	"github.com/oasisprotocol/oasis-core/go/consensus/cometbft/abci"
	cmtapi "github.com/oasisprotocol/oasis-core/go/consensus/cometbft/api"
	beaconApp "github.com/oasisprotocol/oasis-core/go/consensus/cometbft/apps/beacon"
	governanceApp "github.com/oasisprotocol/oasis-core/go/consensus/cometbft/apps/governance"
	keymanagerApp "github.com/oasisprotocol/oasis-core/go/consensus/cometbft/apps/keymanager"
	registryApp "github.com/oasisprotocol/oasis-core/go/consensus/cometbft/apps/registry"
	roothashApp "github.com/oasisprotocol/oasis-core/go/consensus/cometbft/apps/roothash"
	schedulerApp "github.com/oasisprotocol/oasis-core/go/consensus/cometbft/apps/scheduler"
	stakingApp "github.com/oasisprotocol/oasis-core/go/consensus/cometbft/apps/staking"
	vaultApp "github.com/oasisprotocol/oasis-core/go/consensus/cometbft/apps/vault"
	tmbeacon "github.com/oasisprotocol/oasis-core/go/consensus/cometbft/beacon"
	cmtcrypto "github.com/oasisprotocol/oasis-core/go/consensus/cometbft/crypto"
	consensusGenesis "github.com/oasisprotocol/oasis-core/go/consensus/genesis"
	genesis "github.com/oasisprotocol/oasis-core/go/genesis/api"
	governance "github.com/oasisprotocol/oasis-core/go/governance/api"
	keymanager "github.com/oasisprotocol/oasis-core/go/keymanager/api"
	"github.com/oasisprotocol/oasis-core/go/keymanager/churp"
	"github.com/oasisprotocol/oasis-core/go/keymanager/secrets"
	registry "github.com/oasisprotocol/oasis-core/go/registry/api"
	roothash "github.com/oasisprotocol/oasis-core/go/roothash/api"
	"github.com/oasisprotocol/oasis-core/go/roothash/api/commitment"
	scheduler "github.com/oasisprotocol/oasis-core/go/scheduler/api"
	staking "github.com/oasisprotocol/oasis-core/go/staking/api"
	"github.com/oasisprotocol/oasis-core/go/storage/mkvs"
	upgradeMgr "github.com/oasisprotocol/oasis-core/go/upgrade"
	upgradeAPI "github.com/oasisprotocol/oasis-core/go/upgrade/api"
	vault "github.com/oasisprotocol/oasis-core/go/vault/api"
)

const (
	numValidators = 4 // validator nodes 0..3, owned by entities 0..3 (registered in genesis)
	numCompute    = 4 // compute nodes 4..7: 4,5 owned by entities 0,1; 6,7 owned by the spare entities 4,5
	numSpareEnt   = 2 // entities 4,5: funded and staked, NOT registered in genesis
	numAccounts   = 6
	numRuntimes   = 3 // 0,1 compute; 2 key manager
	epochInterval = 3

	minTransactBalance = 100
	opGas              = 1000 // every module operation costs this much gas (vault: its defaults)
)

// Signer roster (index into world.signers).
const (
	sAcct      = 0                                  // 0..5   plain accounts
	sNode      = sAcct + numAccounts                // 6..13  node identity keys (validators 0..3, compute 4..7)
	sEnt       = sNode + numValidators + numCompute // 14..19 entity keys (0..3 registered, 4..5 spare)
	sOutsider  = sEnt + numValidators + numSpareEnt // 20  no account at all
	sPoor      = sOutsider + 1                      // 21  balance 150: fee + minimum transact balance bites
	numSigners = sPoor + 1
)

type nodeKeys struct {
	id       *identity.Identity
	consAddr []byte
	consPub  []byte
}

// world is everything one configuration shares: keys and the genesis document.
type world struct {
	variant  string // insecure | vrf | mock | blockgas
	backend  string
	nodes    []*nodeKeys        // 0..7
	entSig   []signature.Signer // 0..5
	ents     []*entity.Entity   // descriptor as registered in genesis (0..3) / as it would be registered (4,5)
	accts    []signature.Signer
	signers  []signature.Signer
	rtIDs    []common.Namespace
	oracleID *identity.Identity
	minGas   uint64
	doc      *genesis.Document
	docJSON  []byte
	chainCtx string
	genesisT time.Time
	interval int64
}

type nopNotifier struct{}

func (nopNotifier) DeliverExecutorCommitment(common.Namespace, *commitment.ExecutorCommitment) {}

func testSigner(name string) signature.Signer { return memorySigner.NewTestSigner(name) }

func q(n uint64) quantity.Quantity { return *quantity.NewFromUint64(n) }

func mkIdentity(tag string) *identity.Identity {
	return &identity.Identity{
		NodeSigner:      testSigner("verif c08 node " + tag),
		P2PSigner:       testSigner("verif c08 p2p " + tag),
		ConsensusSigner: testSigner("verif c08 consensus " + tag),
		VRFSigner:       testSigner("verif c08 vrf " + tag),
		TLSSigner:       testSigner("verif c08 tls " + tag),
	}
}

// ownerOf returns the entity index owning node n.
func ownerOf(n int) int {
	switch {
	case n < numValidators:
		return n
	case n < numValidators+2:
		return n - numValidators
	default:
		return n - 2 // 6 -> 4, 7 -> 5
	}
}

func newWorld(variant, backend string) (*world, error) {
	w := &world{variant: variant, backend: backend, interval: epochInterval, minGas: 1}
	w.genesisT = time.Unix(1700000000, 0).UTC()
	for i := 0; i < numValidators+numCompute; i++ {
		nk := &nodeKeys{id: mkIdentity(fmt.Sprint(i))}
		pk := nk.id.ConsensusSigner.Public()
		cpk := cmtcrypto.PublicKeyToCometBFT(&pk)
		nk.consAddr = []byte(cpk.Address())
		nk.consPub = cpk.Bytes()
		w.nodes = append(w.nodes, nk)
	}
	for i := 0; i < numValidators+numSpareEnt; i++ {
		w.entSig = append(w.entSig, testSigner(fmt.Sprintf("verif c08 entity %d", i)))
		e := &entity.Entity{Versioned: cbor.NewVersioned(entity.LatestDescriptorVersion), ID: w.entSig[i].Public()}
		for n := range w.nodes {
			if ownerOf(n) == i {
				e.Nodes = append(e.Nodes, w.nodes[n].id.NodeSigner.Public())
			}
		}
		w.ents = append(w.ents, e)
	}
	for i := 0; i < numAccounts; i++ {
		w.accts = append(w.accts, testSigner(fmt.Sprintf("verif c08 account %d", i)))
	}
	w.signers = append(w.signers, w.accts...)
	for _, n := range w.nodes {
		w.signers = append(w.signers, n.id.NodeSigner)
	}
	w.signers = append(w.signers, w.entSig...)
	w.signers = append(w.signers, testSigner("verif c08 outsider"), testSigner("verif c08 poor"))
	if len(w.signers) != numSigners {
		return nil, fmt.Errorf("roster: %d signers", len(w.signers))
	}
	for i := 0; i < numRuntimes; i++ {
		flags := common.NamespaceFlag(0)
		if i == 2 {
			flags = common.NamespaceKeyManager
		}
		w.rtIDs = append(w.rtIDs, common.NewTestNamespaceFromSeed([]byte(fmt.Sprintf("verif c08 runtime %d", i)), flags))
	}
	w.oracleID = mkIdentity("oracle")
	doc, err := w.makeGenesis()
	if err != nil {
		return nil, err
	}
	w.doc = doc
	if w.docJSON, err = json.Marshal(doc); err != nil {
		return nil, err
	}
	w.chainCtx = doc.ChainContext()
	return w, nil
}

func (w *world) addrOf(signer int) staking.Address {
	return staking.NewAddress(w.signers[signer].Public())
}

func allOps(ops ...transaction.Op) transaction.Costs {
	c := transaction.Costs{}
	for _, o := range ops {
		c[o] = opGas
	}
	return c
}

func (w *world) makeGenesis() (*genesis.Document, error) {
	ledger := map[staking.Address]*staking.Account{}
	delegs := map[staking.Address]map[staking.Address]*staking.Delegation{}
	var total uint64
	add := func(addr staking.Address, general, escrow uint64) {
		a := &staking.Account{}
		a.General.Balance = q(general)
		total += general
		if escrow > 0 {
			a.Escrow.Active.Balance = q(escrow)
			a.Escrow.Active.TotalShares = q(escrow)
			delegs[addr] = map[staking.Address]*staking.Delegation{addr: {Shares: q(escrow)}}
			total += escrow
		}
		ledger[addr] = a
	}
	for i := range w.entSig {
		stake := uint64(100_000 * (i + 1))
		if i >= numValidators {
			stake = 75 // spare entities: enough for an entity and one compute node of two runtimes, not for more
			if i == numValidators {
				stake = 100_000
			}
		}
		add(staking.NewAddress(w.entSig[i].Public()), 1_000_000, stake)
	}
	for i, s := range w.accts {
		add(staking.NewAddress(s.Public()), 5_000_000+uint64(i)*1000, 0)
	}
	for _, n := range w.nodes {
		add(staking.NewAddress(n.id.NodeSigner.Public()), 1_000_000, 0)
	}
	add(w.addrOf(sPoor), 150, 0)
	// account 0 also delegates to validator entities 0 and 1 (it may vote on proposals)
	a0 := w.addrOf(sAcct)
	for _, vi := range []int{0, 1} {
		ea := staking.NewAddress(w.entSig[vi].Public())
		acct := ledger[ea]
		_ = acct.Escrow.Active.Balance.Add(quantity.NewFromUint64(7000))
		_ = acct.Escrow.Active.TotalShares.Add(quantity.NewFromUint64(7000))
		delegs[ea][a0] = &staking.Delegation{Shares: q(7000)}
		total += 7000
	}
	commonPool := uint64(10_000_000)
	total += commonPool

	bp := beacon.ConsensusParameters{
		Backend:            beacon.BackendInsecure,
		InsecureParameters: &beacon.InsecureParameters{Interval: w.interval},
	}
	switch w.variant {
	case "mock":
		bp.DebugMockBackend = true
	case "vrf":
		bp = beacon.ConsensusParameters{
			Backend: beacon.BackendVRF,
			VRFParameters: &beacon.VRFParameters{
				AlphaHighQualityThreshold: 3, Interval: 4, ProofSubmissionDelay: 1,
				GasCosts: transaction.Costs{beacon.GasOpVRFProve: opGas},
			},
		}
	}
	var maxBlockGas uint64
	if w.variant == "blockgas" {
		maxBlockGas = 12_000
	}

	doc := &genesis.Document{
		Height:  1,
		ChainID: "verif-c08",
		Time:    w.genesisT,
		Beacon:  beacon.Genesis{Base: 1, Parameters: bp},
		Registry: registry.Genesis{
			Parameters: registry.ConsensusParameters{
				DebugAllowUnroutableAddresses: true,
				DebugAllowTestRuntimes:        true,
				DebugDeployImmediately:        true,
				MaxNodeExpiration:             1000,
				MaxRuntimeDeployments:         5,
				EnableRuntimeGovernanceModels: map[registry.RuntimeGovernanceModel]bool{
					registry.GovernanceEntity:  true,
					registry.GovernanceRuntime: true,
				},
				TEEFeatures: &node.TEEFeatures{SGX: node.TEEFeaturesSGX{PCS: true}, FreshnessProofs: true},
				GasCosts: allOps(registry.GasOpRegisterEntity, registry.GasOpDeregisterEntity, registry.GasOpRegisterNode,
					registry.GasOpUnfreezeNode, registry.GasOpRegisterRuntime, registry.GasOpRuntimeEpochMaintenance, registry.GasOpProveFreshness),
			},
		},
		Scheduler: scheduler.Genesis{
			Parameters: scheduler.ConsensusParameters{
				MinValidators:                1,
				MaxValidators:                3,
				MaxValidatorsPerEntity:       100,
				RewardFactorEpochElectionAny: q(1),
			},
		},
		Governance: governance.Genesis{
			Parameters: governance.ConsensusParameters{
				StakeThreshold:                 67,
				UpgradeCancelMinEpochDiff:      20,
				UpgradeMinEpochDiff:            20,
				VotingPeriod:                   2,
				MinProposalDeposit:             q(100),
				EnableChangeParametersProposal: true,
				AllowProposalMetadata:          true,
				GasCosts:                       allOps(governance.GasOpSubmitProposal, governance.GasOpCastVote),
			},
		},
		RootHash: roothash.Genesis{
			Parameters: roothash.ConsensusParameters{
				DebugDoNotSuspendRuntimes: false,
				MaxRuntimeMessages:        32,
				MaxInRuntimeMessages:      32,
				MaxEvidenceAge:            100,
				MaxPastRootsStored:        4,
				GasCosts:                  allOps(roothash.GasOpComputeCommit, roothash.GasOpProposerTimeout, roothash.GasOpEvidence, roothash.GasOpSubmitMsg),
			},
		},
		KeyManager: keymanager.Genesis{
			Genesis: secrets.Genesis{Parameters: secrets.ConsensusParameters{
				GasCosts: allOps(secrets.GasOpUpdatePolicy, secrets.GasOpPublishMasterSecret, secrets.GasOpPublishEphemeralSecret),
			}},
			Churp: &churp.Genesis{Parameters: churp.ConsensusParameters{
				GasCosts: allOps(churp.GasOpCreate, churp.GasOpUpdate, churp.GasOpApply, churp.GasOpConfirm),
			}},
		},
		Consensus: consensusGenesis.Genesis{
			Backend: cmtapi.BackendName,
			Parameters: consensusGenesis.Parameters{
				TimeoutCommit:     1 * time.Millisecond,
				SkipTimeoutCommit: true,
				MaxBlockSize:      21 * 1024 * 1024,
				MaxEvidenceSize:   1024 * 1024,
				MaxTxSize:         16 * 1024,
				MaxBlockGas:       transaction.Gas(maxBlockGas),
				MinGasPrice:       w.minGas,
				GasCosts:          transaction.Costs{consensusGenesis.GasOpTxByte: 1},
			},
		},
		Staking: staking.Genesis{
			Parameters: staking.ConsensusParameters{
				DebondingInterval: 2,
				Thresholds: map[staking.ThresholdKind]quantity.Quantity{
					staking.KindEntity:            q(10),
					staking.KindNodeValidator:     q(20),
					staking.KindNodeCompute:       q(30),
					staking.KindNodeObserver:      q(4),
					staking.KindNodeKeyManager:    q(50),
					staking.KindRuntimeCompute:    q(60),
					staking.KindRuntimeKeyManager: q(70),
					staking.KindKeyManagerChurp:   q(80),
				},
				Slashing: map[staking.SlashReason]staking.Slash{
					staking.SlashConsensusEquivocation: {Amount: q(1000), FreezeInterval: 1},
				},
				MinDelegationAmount:               q(10),
				MinTransferAmount:                 q(10),
				MinTransactBalance:                q(minTransactBalance),
				MaxAllowances:                     4,
				AllowEscrowMessages:               true,
				FeeSplitWeightVote:                q(2),
				FeeSplitWeightNextPropose:         q(1),
				FeeSplitWeightPropose:             q(1),
				RewardFactorEpochSigned:           q(1),
				RewardFactorBlockProposed:         q(1),
				SigningRewardThresholdNumerator:   1,
				SigningRewardThresholdDenominator: 2,
				RewardSchedule:                    []staking.RewardStep{{Until: 1000, Scale: q(1000)}},
				CommissionScheduleRules: staking.CommissionScheduleRules{
					RateChangeInterval: 1, RateBoundLead: 2, MaxRateSteps: 4, MaxBoundSteps: 4,
				},
				GasCosts: allOps(staking.GasOpTransfer, staking.GasOpBurn, staking.GasOpAddEscrow, staking.GasOpReclaimEscrow,
					staking.GasOpAmendCommissionSchedule, staking.GasOpAllow, staking.GasOpWithdraw),
			},
			TokenSymbol: "VERIF",
			CommonPool:  q(commonPool),
			Ledger:      ledger,
			Delegations: delegs,
		},
		Vault: &vault.Genesis{Parameters: vault.DefaultConsensusParameters},
	}
	doc.Staking.TotalSupply = q(total)

	for i := 0; i < numValidators; i++ {
		signedEnt, err := entity.SignEntity(w.entSig[i], registry.RegisterGenesisEntitySignatureContext, w.ents[i])
		if err != nil {
			return nil, err
		}
		doc.Registry.Entities = append(doc.Registry.Entities, signedEnt)
		n := w.nodeDescriptor(i, node.RoleValidator, nil, 900)
		signed, err := node.MultiSignNode(w.nodeSigners(i), registry.RegisterGenesisNodeSignatureContext, n)
		if err != nil {
			return nil, err
		}
		doc.Registry.Nodes = append(doc.Registry.Nodes, signed)
	}
	return doc, nil
}

func (w *world) nodeSigners(n int) []signature.Signer {
	id := w.nodes[n].id
	return []signature.Signer{id.NodeSigner, id.P2PSigner, id.ConsensusSigner, id.VRFSigner, id.TLSSigner}
}

// nodeDescriptor builds the descriptor of node n with the given roles, runtimes and expiration.
func (w *world) nodeDescriptor(n int, roles node.RolesMask, rts []int, expiration uint64) *node.Node {
	id := w.nodes[n].id
	var consensusAddr, p2pAddr node.Address
	_ = consensusAddr.FromIP(net.ParseIP("127.0.0.1"), uint16(9000+n))
	_ = p2pAddr.FromIP(net.ParseIP("127.0.0.1"), uint16(9100+n))
	d := &node.Node{
		Versioned:  cbor.NewVersioned(node.LatestNodeDescriptorVersion),
		ID:         id.NodeSigner.Public(),
		EntityID:   w.entSig[ownerOf(n)].Public(),
		Expiration: beacon.EpochTime(expiration),
		TLS:        node.TLSInfo{PubKey: id.TLSSigner.Public()},
		P2P:        node.P2PInfo{ID: id.P2PSigner.Public(), Addresses: []node.Address{p2pAddr}},
		Consensus: node.ConsensusInfo{
			ID:        id.ConsensusSigner.Public(),
			Addresses: []node.ConsensusAddress{{ID: id.ConsensusSigner.Public(), Address: consensusAddr}},
		},
		VRF:   node.VRFInfo{ID: id.VRFSigner.Public()},
		Roles: roles,
	}
	for _, r := range rts {
		d.Runtimes = append(d.Runtimes, &node.Runtime{ID: w.rtIDs[r]})
	}
	return d
}

// replica is one node: a real multiplexer over its own on-disk state.
type replica struct {
	w        *world
	dir      string
	srv      *abci.ApplicationServer
	mux      types.Application
	cancel   context.CancelFunc
	store    *persistent.CommonStore
	upgrader upgradeAPI.Backend
	methods  map[string][]transaction.MethodName // app name -> registered methods
}

func (w *world) openReplica(dir string) (*replica, error) {
	r := &replica{w: w, dir: dir, methods: map[string][]transaction.MethodName{}}
	ctx, cancel := context.WithCancel(context.Background())
	cfg := &abci.ApplicationConfig{
		DataDir:             dir,
		StorageBackend:      w.backend,
		Pruning:             abci.PruneConfig{Strategy: abci.PruneNone, PruneInterval: time.Second},
		Identity:            w.oracleID,
		MinGasPrice:         1, // node-local minimum gas price (CheckTx only)
		DisableCheckpointer: true,
		InitialHeight:       w.doc.Height,
		ChainContext:        w.chainCtx,
	}
	store, err := persistent.NewCommonStore(dir)
	if err != nil {
		cancel()
		return nil, err
	}
	upgrader, err := upgradeMgr.New(store, dir, false)
	if err != nil {
		store.Close()
		cancel()
		return nil, err
	}
	r.store, r.upgrader = store, upgrader
	srv, err := abci.NewApplicationServer(ctx, upgrader, cfg)
	if err != nil {
		store.Close()
		cancel()
		return nil, err
	}
	state := srv.State()
	md := srv.MessageDispatcher()
	timeSource := tmbeacon.New(w.doc.Beacon.Base, w.doc.Height, nil, tmbeacon.NewStateQueryFactory(state))
	stk := stakingApp.New(state, md)
	apps := []cmtapi.Application{
		beaconApp.New(),
		governanceApp.New(state, md),
		keymanagerApp.New(state),
		registryApp.New(state, md),
		roothashApp.New(state, md, nopNotifier{}),
		schedulerApp.New(state, md),
		stk,
		vaultApp.New(state, md),
	}
	for _, app := range apps {
		if err = srv.Register(app); err != nil {
			cancel()
			return nil, err
		}
		app.Subscribe()
		r.methods[app.Name()] = app.Methods()
	}
	if err = srv.SetEpochtime(timeSource); err != nil {
		cancel()
		return nil, err
	}
	if err = srv.SetTransactionAuthHandler(stk); err != nil {
		cancel()
		return nil, err
	}
	if err = srv.Start(); err != nil {
		cancel()
		return nil, err
	}
	r.srv, r.mux, r.cancel = srv, srv.Mux(), cancel
	return r, nil
}

func (r *replica) close() {
	if r.srv != nil {
		r.srv.Stop()
		r.cancel()
		r.srv.Cleanup()
		r.srv = nil
		if r.upgrader != nil {
			r.upgrader.Close()
		}
		if r.store != nil {
			r.store.Close()
		}
	}
}

// guard runs f and converts a panic into a string.
func guard(f func()) (p string) {
	defer func() {
		if e := recover(); e != nil {
			p = fmt.Sprint(e)
			if p == "" {
				p = "panic"
			}
			if os.Getenv("VERIF_DEBUG") != "" {
				fmt.Fprintf(os.Stderr, "PANIC %s\n%s\n", p, debug.Stack())
			}
		}
	}()
	f()
	return ""
}

// valset is the harness' copy of CometBFT's validator set (pubkey -> update).
type valset map[string]types.ValidatorUpdate

func (vs valset) clone() valset {
	c := valset{}
	for k, v := range vs {
		c[k] = v
	}
	return c
}

func (vs valset) apply(ups []types.ValidatorUpdate) {
	for _, u := range ups {
		k := hex.EncodeToString(u.PubKey.GetEd25519())
		if u.Power == 0 {
			delete(vs, k)
		} else {
			vs[k] = u
		}
	}
}

func (vs valset) sortedKeys() []string {
	ks := make([]string, 0, len(vs))
	for k := range vs {
		ks = append(ks, k)
	}
	sort.Strings(ks)
	return ks
}

func (w *world) genesisValset() (valset, error) {
	gd, err := cmtapi.GetCometBFTGenesisDocument(w.doc)
	if err != nil {
		return nil, err
	}
	vs := valset{}
	for _, v := range gd.Validators {
		pk := v.PubKey.(ed25519.PubKey)
		vs[hex.EncodeToString(pk)] = types.Ed25519ValidatorUpdate(pk, v.Power)
	}
	return vs, nil
}

// commitInfo: every current validator signed the last block.
func commitInfo(vs valset) types.CommitInfo {
	var ci types.CommitInfo
	for _, k := range vs.sortedKeys() {
		u := vs[k]
		pk := ed25519.PubKey(u.PubKey.GetEd25519())
		ci.Votes = append(ci.Votes, types.VoteInfo{Validator: types.Validator{Address: pk.Address(), Power: u.Power}, SignedLastBlock: true})
	}
	return ci
}

func (w *world) header(height int64, t time.Time, proposer int) cmtproto.Header {
	return cmtproto.Header{Height: height, Time: t, ProposerAddress: w.nodes[proposer].consAddr, NextValidatorsHash: []byte{byte(height), 1, 2, 3}}
}

// openCommitted opens a read-only tree at the node's last committed version (what a query does).
func openCommitted(r *replica) mkvs.Tree {
	st := r.srv.State()
	h := st.LastHeight()
	if h == 0 {
		return nil
	}
	ndb := st.Storage().NodeDB()
	roots, err := ndb.GetRootsForVersion(uint64(h))
	if err != nil || len(roots) != 1 {
		return nil
	}
	return mkvs.NewWithRoot(nil, ndb, roots[0], mkvs.WithoutWriteLog())
}

func scratchDir() string {
	base := os.Getenv("VERIF_SCRATCH")
	if base == "" {
		base = os.TempDir()
	}
	d, err := os.MkdirTemp(base, "txdrv-")
	if err != nil {
		panic(err)
	}
	return d
}

func subdir(base, name string) string {
	d := filepath.Join(base, name)
	_ = os.MkdirAll(d, 0o700)
	return d
}
